import UrcuVerif.Machine.Upd
import UrcuVerif.Gen.Constants
import UrcuVerif.Lfht.Bits
/-!
# C05/C06/C07/C17 — concurrent `src/rculfhash.c`: state of the executable L2 model (core Lean only)

A `next` word is a `W`: pointer part + the three low-bit flags (`REMOVED`, `BUCKET`, `REMOVAL_OWNER`;
bit values from `Gen.Constants`, see `W.enc`).  Nodes are `Nat` (0 = NULL/END); identifiers are never
reused (memory reuse after a grace period is the `reclaim_safe` obligation, not part of the list proofs).
Bucket nodes get their identifiers when their table is allocated (`tbl : index → node`, 0 = no table).
-/
namespace UrcuVerif.Lfht.Conc

structure W where
  ptr : Nat := 0
  rem : Bool := false
  bkt : Bool := false
  own : Bool := false
  deriving DecidableEq, Repr, Inhabited

/-- the machine word (pointer | flags), with the flag bits of the source -/
def W.enc (w : W) : Nat :=
  w.ptr * 8 + (if w.rem then Gen.REMOVED_FLAG else 0) + (if w.bkt then Gen.BUCKET_FLAG else 0) +
    (if w.own then Gen.REMOVAL_OWNER_FLAG else 0)

inductive Life | fresh | priv | linked | unlinked
  deriving DecidableEq, Repr, Inhabited

inductive Mode | plain | uniq | repl | bkt
  deriving DecidableEq, Repr, Inhabited

inductive Op | none | add | replace | del | lookup | dup | next | first
  deriving DecidableEq, Repr, Inhabited

inductive WalkKind | lookup | dup | dupAdd | next
  deriving DecidableEq, Repr, Inhabited

inductive GCont | repl | del | shrink
  deriving DecidableEq, Repr, Inhabited

inductive RKind | none | grow | shrink
  deriving DecidableEq, Repr, Inhabited

inductive Pc
  | idle
  | aSize    -- cds_lfht_add*/: before `size = LD ht->size`
  | aHead    -- _cds_lfht_add: before `iter = LD bucket->next` (first pass and every retry)
  | aNext    -- before `next = LD clear_flag(iter)->next`
  | aCas     -- label insert: before the insertion cmpxchg on `iter_prev->next`
  | aGc      -- label gc_node: before the helping cmpxchg
  | wNext    -- lookup / next_duplicate / next loop: before `next = LD node->next`
  | wAssert  -- found: before the `!is_bucket(LD node->next)` assertion load
  | rSize    -- cds_lfht_replace: before `LD ht->size`
  | rCas     -- _cds_lfht_replace: before the cmpxchg on `old_node->next`
  | rAssert  -- after gc: before `assert(is_removed(LD old_node->next))`
  | gHead    -- _cds_lfht_gc_bucket: before `iter = LD bucket->next`
  | gNext    -- before `next = LD clear_flag(iter)->next`
  | gCas     -- before the unlink cmpxchg
  | dSize    -- cds_lfht_del: before `LD ht->size`
  | dLd      -- _cds_lfht_del: before `next = LD node->next`
  | dOr      -- before `uatomic_or(&node->next, REMOVED_FLAG)`
  | dAssert  -- after gc: before `assert(is_removed(LD node->next))`
  | dLd2     -- before the `LD node->next` that feeds the xchg
  | dXchg    -- before `uatomic_xchg(&node->next, v | REMOVAL_OWNER_FLAG)`
  | dOwnOr   -- MUTANT (Cfg.ownerByOr): before `uatomic_or(&node->next, REMOVAL_OWNER_FLAG)`
  | lSize    -- cds_lfht_lookup: before `LD ht->size`
  | lHead    -- before `LD bucket->next`
  | fHead    -- cds_lfht_first: before `LD bucket_at(0)->next`
  | zIdle    -- resize: holding the resize mutex, between levels
  | zPart    -- partition phase of a level (spawn helpers / own part / join)
  | zGp      -- before update_synchronize_rcu()
  | zSync    -- inside update_synchronize_rcu()
  | zFree    -- before cds_lfht_free_bucket_table(pfree)
  | hStart   -- helper thread created, before its read_lock
  | pEnd     -- partition loop done, before read_unlock
  | hDone    -- helper finished, not yet joined
  | sOr      -- remove_table_partition: before `uatomic_or(&fini_bucket->next, REMOVED_FLAG)`
  deriving DecidableEq, Repr, Inhabited

/-- per-thread locals (the C locals of the function in progress) -/
structure Thr where
  pc : Pc := .idle
  op : Op := .none
  mode : Mode := .plain
  node : Nat := 0      -- node being added / replacement node / node to delete / bucket to remove
  hs : Nat := 0        -- hash argument
  sz : Nat := 1        -- size snapshot
  bkt : Nat := 0       -- start bucket of _cds_lfht_add
  prev : Nat := 0      -- iter_prev
  iter : W := {}
  nx : W := {}         -- next
  old : Nat := 0       -- _cds_lfht_replace: old_node
  oldnx : W := {}      -- old_next
  cur : Nat := 0       -- walk: node
  wnx : W := {}        -- walk: next
  wk : WalkKind := .next
  rh : Nat := 0        -- walk: reverse hash bound
  ky : Nat := 0        -- key looked for
  gbkt : Nat := 0      -- gc_bucket: bucket
  gnode : Nat := 0     -- gc_bucket: node
  gcont : GCont := .del
  v : W := {}          -- del: value loaded for the xchg
  itn : Nat := 0       -- the thread's iterator (node, next)
  itx : W := {}
  rk : RKind := .none  -- resize level in progress
  rord : Nat := 0
  j : Nat := 0
  jend : Nat := 0
  nh : Nat := 0        -- helpers not yet joined
  parent : Nat := 0    -- helper: parent tid + 1
  pfree : Nat := 0     -- fini_table: free_by_rcu_order
  gpAt : Nat := 0
  deriving Repr, Inhabited

structure Cfg where
  n : Nat                    -- threads 0 … n-1 (arbitrary)
  ownerByOr : Bool := false  -- MUTANT for Neg/C07: REMOVAL_OWNER taken with load + `uatomic_or`

structure State where
  nxt : Nat → W
  hsh : Nat → Nat
  rev : Nat → Nat
  key : Nat → Nat
  isB : Nat → Bool
  life : Nat → Life
  freed : Nat → Bool
  size : Nat
  tbl : Nat → Nat
  alloc : Nat → Bool         -- bucket table of this order is allocated
  hi : Nat                   -- every identifier ≥ hi is fresh
  th : Nat → Thr
  rzOwner : Nat              -- resize mutex: 0 = free, t+1 = held by t
  -- ghost
  L : List Nat               -- nodes linked from bucket 0, in list order
  wins : Nat → Nat           -- successful removals (del 0 / replace 0 / add_replace returning it) per node
  dels : Nat → Nat           -- del calls on the node that passed the REMOVED test and completed
  ownRet : Nat → Option Nat  -- time the winning call returned
  unlAt : Nat → Nat          -- time of the unlink
  clock : Nat
  cs : Nat → Option Nat      -- read-side section open since
  uaf : Bool                 -- a freed / never linked / NULL node was dereferenced

end UrcuVerif.Lfht.Conc
