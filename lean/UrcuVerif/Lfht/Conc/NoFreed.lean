import UrcuVerif.Lfht.Conc.InvSAll
import UrcuVerif.Lfht.Conc.WaitFree
/-!
# Concurrent rculfhash — the memory-safety side condition of walker wait-freedom, from layer S (proof-only file)
-/
namespace UrcuVerif.Lfht.Conc
open UrcuVerif

/-- everything reachable from a held pointer is held: the read-side section protects the whole way ahead -/
theorem held_rch {c s u a p} (hc : c.ownerByOr = false) (r : Reach c s) (hcs : (s.cs u).isSome) (h : Held s u a)
    (hr : Rch (nxp s) a p) : Held s u p := by
  induction hr with
  | refl => exact h
  | @head a b _ ih =>
    by_cases a0 : a = 0
    · subst a0; rw [(graph_facts hc r).1] at ih; exact ih h
    · exact ih (held_next hc r h a0 hcs).1

/-- a held pointer has not been reclaimed -/
theorem held_not_freed {s u p} (hg : GS s) (h : Held s u p) (p0 : p ≠ 0) (hcs : (s.cs u).isSome) : s.freed p = false := by
  obtain ⟨b0, hb0⟩ := Option.isSome_iff_exists.mp hcs
  cases hf : s.freed p with
  | false => rfl
  | true =>
    have := hg.1 p hf
    rcases h p0 b0 hb0 with hl | ⟨_, ht⟩
    · rw [hl] at this; cases this.1
    · have := this.2 u b0 hb0; omega

/-- nothing on the way of a lookup / traversal has been reclaimed -/
theorem walker_no_freed_ahead {c s t} (hc : c.ownerByOr = false) (r : Reach c s)
    (hpc : (s.th t).pc = .lSize ∨ (s.th t).pc = .lHead ∨ (s.th t).pc = .fHead ∨ (s.th t).pc = .wNext ∨ (s.th t).pc = .wAssert) :
    NoFreedAhead s (wstart s (s.th t)) := by
  have hS := invS_reach hc r
  have ⟨hR, hF, hL⟩ := invRFL_reach hc r
  have ft := hF.t t; simp only [TF] at ft
  have hcs : (s.cs t).isSome := ft.2.2.1 (by simp only [ZPc, HPc]; rcases hpc with h | h | h | h | h <;> simp [h])
  have rg := hR.g; simp only [GR] at rg
  have sz0 : 0 < s.size := by have := rg.1.1; have := Nat.two_pow_pos (Nat.log2 s.size); omega
  have hh : Held s t (wstart s (s.th t)) := by
    rcases hpc with h | h | h | h | h
    · simp only [wstart, h]; exact held_linked (hF.g.2.2.1 _ (Nat.mod_lt _ sz0)).1
    · simp only [wstart, h]
      exact held_linked (hb_facts hc r (ft.2.2.2.2.2.2.2.2.2.2.2.2.2.2.1 h)).1
    · simp only [wstart, h]; exact held_linked (hF.g.2.2.1 0 sz0).1
    · simp only [wstart, h]; exact (hS.t t).1.2.1 (.inl h)
    · simp only [wstart, h]; exact (hS.t t).1.2.1 (.inr h)
  intro p hr p0
  exact held_not_freed hS.g (held_rch hc r hcs hh hr) p0 hcs

end UrcuVerif.Lfht.Conc
