import UrcuVerif.Lfht.Conc.InvF
/-! Layer F is preserved by every step: loads and API entry points (2) (proof-only file). -/
namespace UrcuVerif.Lfht.Conc
open UrcuVerif
set_option linter.unusedSimpArgs false
set_option linter.unusedVariables false

set_option maxHeartbeats 4000000 in
theorem invF_ldAssertW {c s s' t o} (hc : c.ownerByOr = false) (hR : InvR c s) (hF : InvF c s)
    (st : step c s t .ldAssertW = some (s', o)) : InvF c s' := by
  have sz0 : 0 < s.size := by have := hR.g.1.1; have := Nat.two_pow_pos (Nat.log2 s.size); omega
  have hmod := Nat.mod_lt (s.th t).hs sz0
  st_open st
  all_goals f_local hR hF [(s.th t).prev, (s.th t).iter.ptr, (s.th t).cur, (s.th t).bkt, (s.th t).gbkt, (s.th t).node, (s.th t).old, s.tbl 0]

set_option maxHeartbeats 4000000 in
theorem invF_ldHeadL {c s s' t o} (hc : c.ownerByOr = false) (hR : InvR c s) (hF : InvF c s)
    (st : step c s t .ldHeadL = some (s', o)) : InvF c s' := by
  have sz0 : 0 < s.size := by have := hR.g.1.1; have := Nat.two_pow_pos (Nat.log2 s.size); omega
  have hmod := Nat.mod_lt (s.th t).hs sz0
  st_open st
  all_goals f_local hR hF [(s.th t).prev, (s.th t).iter.ptr, (s.th t).cur, (s.th t).bkt, (s.th t).gbkt, (s.th t).node, (s.th t).old, s.tbl 0]

set_option maxHeartbeats 4000000 in
theorem invF_ldFirst {c s s' t o} (hc : c.ownerByOr = false) (hR : InvR c s) (hF : InvF c s)
    (st : step c s t .ldFirst = some (s', o)) : InvF c s' := by
  have sz0 : 0 < s.size := by have := hR.g.1.1; have := Nat.two_pow_pos (Nat.log2 s.size); omega
  have hmod := Nat.mod_lt (s.th t).hs sz0
  st_open st
  all_goals f_local hR hF [(s.th t).prev, (s.th t).iter.ptr, (s.th t).cur, (s.th t).bkt, (s.th t).gbkt, (s.th t).node, (s.th t).old, s.tbl 0]

set_option maxHeartbeats 4000000 in
theorem invF_ldHeadG {c s s' t o} (hc : c.ownerByOr = false) (hR : InvR c s) (hF : InvF c s)
    (st : step c s t .ldHeadG = some (s', o)) : InvF c s' := by
  have sz0 : 0 < s.size := by have := hR.g.1.1; have := Nat.two_pow_pos (Nat.log2 s.size); omega
  have hmod := Nat.mod_lt (s.th t).hs sz0
  st_open st
  all_goals f_local hR hF [(s.th t).prev, (s.th t).iter.ptr, (s.th t).cur, (s.th t).bkt, (s.th t).gbkt, (s.th t).node, (s.th t).old, s.tbl 0]

set_option maxHeartbeats 4000000 in
theorem invF_ldNextG {c s s' t o} (hc : c.ownerByOr = false) (hR : InvR c s) (hF : InvF c s)
    (st : step c s t .ldNextG = some (s', o)) : InvF c s' := by
  have sz0 : 0 < s.size := by have := hR.g.1.1; have := Nat.two_pow_pos (Nat.log2 s.size); omega
  have hmod := Nat.mod_lt (s.th t).hs sz0
  st_open st
  all_goals f_local hR hF [(s.th t).prev, (s.th t).iter.ptr, (s.th t).cur, (s.th t).bkt, (s.th t).gbkt, (s.th t).node, (s.th t).old, s.tbl 0]

set_option maxHeartbeats 4000000 in
theorem invF_ldDel {c s s' t o} (hc : c.ownerByOr = false) (hR : InvR c s) (hF : InvF c s)
    (st : step c s t .ldDel = some (s', o)) : InvF c s' := by
  have sz0 : 0 < s.size := by have := hR.g.1.1; have := Nat.two_pow_pos (Nat.log2 s.size); omega
  have hmod := Nat.mod_lt (s.th t).hs sz0
  st_open st
  all_goals f_local hR hF [(s.th t).prev, (s.th t).iter.ptr, (s.th t).cur, (s.th t).bkt, (s.th t).gbkt, (s.th t).node, (s.th t).old, s.tbl 0]

set_option maxHeartbeats 4000000 in
theorem invF_ldAssertD {c s s' t o} (hc : c.ownerByOr = false) (hR : InvR c s) (hF : InvF c s)
    (st : step c s t .ldAssertD = some (s', o)) : InvF c s' := by
  have sz0 : 0 < s.size := by have := hR.g.1.1; have := Nat.two_pow_pos (Nat.log2 s.size); omega
  have hmod := Nat.mod_lt (s.th t).hs sz0
  st_open st
  all_goals f_local hR hF [(s.th t).prev, (s.th t).iter.ptr, (s.th t).cur, (s.th t).bkt, (s.th t).gbkt, (s.th t).node, (s.th t).old, s.tbl 0]

set_option maxHeartbeats 4000000 in
theorem invF_ldDel2 {c s s' t o} (hc : c.ownerByOr = false) (hR : InvR c s) (hF : InvF c s)
    (st : step c s t .ldDel2 = some (s', o)) : InvF c s' := by
  have sz0 : 0 < s.size := by have := hR.g.1.1; have := Nat.two_pow_pos (Nat.log2 s.size); omega
  have hmod := Nat.mod_lt (s.th t).hs sz0
  st_open st
  all_goals f_local hR hF [(s.th t).prev, (s.th t).iter.ptr, (s.th t).cur, (s.th t).bkt, (s.th t).gbkt, (s.th t).node, (s.th t).old, s.tbl 0]

set_option maxHeartbeats 4000000 in
theorem invF_ldAssertR {c s s' t o} (hc : c.ownerByOr = false) (hR : InvR c s) (hF : InvF c s)
    (st : step c s t .ldAssertR = some (s', o)) : InvF c s' := by
  have sz0 : 0 < s.size := by have := hR.g.1.1; have := Nat.two_pow_pos (Nat.log2 s.size); omega
  have hmod := Nat.mod_lt (s.th t).hs sz0
  st_open st
  all_goals f_local hR hF [(s.th t).prev, (s.th t).iter.ptr, (s.th t).cur, (s.th t).bkt, (s.th t).gbkt, (s.th t).node, (s.th t).old, s.tbl 0]

end UrcuVerif.Lfht.Conc
