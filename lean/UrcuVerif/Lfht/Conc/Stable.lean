import UrcuVerif.Lfht.Conc.InvLAll
/-!
# Concurrent rculfhash — what a step cannot change (proof-only file)
-/
namespace UrcuVerif.Lfht.Conc
open UrcuVerif
set_option linter.unusedSimpArgs false
set_option linter.unusedVariables false

set_option maxHeartbeats 4000000 in
/-- `reverse_hash`, key and the bucket mark of a node are fixed once the node has been handed to the table -/
theorem stable_step {c s s' t l o} (hc : c.ownerByOr = false) (r : Reach c s) (st : step c s t l = some (s', o)) :
    ∀ p, s.life p ≠ .fresh → s'.rev p = s.rev p ∧ s'.key p = s.key p ∧ s'.isB p = s.isB p ∧ s'.hsh p = s.hsh p := by
  have ⟨hR, hF⟩ := invRF_reach hc r
  have fg := hF.g
  simp only [GF] at fg
  cases l with
  | callAdd m n h k =>
    st_open st
    all_goals (intro p hp; simp only [e_rev, e_key, e_isB, e_hsh, upd]; have : p ≠ n := by grind
               simp [this])
  | callReplace n h k =>
    st_open st
    all_goals (intro p hp; simp only [e_rev, e_key, e_isB, e_hsh, upd]; have : p ≠ n := by grind
               simp [this])
  | tblAlloc base =>
    st_open st
    all_goals simp only [inRange, Bool.and_eq_true, decide_eq_true_eq] at *
    all_goals
      intro p hp
      have := (fg.1 p).1
      simp only [e_rev, e_key, e_isB, e_hsh]
      have hr : ¬ (base ≤ p ∧ p < base + 2 ^ s.size.log2) := by grind
      simp [hr]
  | _ =>
    st_open st
    all_goals (intro p _; simp [e_rev, e_key, e_isB, e_hsh])

set_option maxHeartbeats 4000000 in
/-- a step of `t` leaves the locals of another thread `w` alone, unless `w` is idle (it may be recruited as a
resize helper) or a finished helper (it may be joined) -/
theorem other_thread_same {c s s' t l o w} (st : step c s t l = some (s', o)) (hut : t ≠ w)
    (hp : (s.th w).pc ≠ .idle ∧ (s.th w).pc ≠ .hDone) : s'.th w = s.th w := by
  cases l with
  | spawn v len =>
    st_open st; st_open2
    have : w ≠ v := by intro e; subst e; grind
    rw [e_th']; simp [upd, Ne.symm hut, this]
  | join v =>
    st_open st; st_open2
    have : w ≠ v := by intro e; subst e; grind
    rw [e_th']; simp [upd, Ne.symm hut, this]
  | _ =>
    st_open st
    all_goals (rw [e_th']; simp [upd, Ne.symm hut])

end UrcuVerif.Lfht.Conc
