import UrcuVerif.Lfht.Conc.InvFStepA
import UrcuVerif.Lfht.Conc.InvFStepA2
import UrcuVerif.Lfht.Conc.InvFStepB
import UrcuVerif.Lfht.Conc.InvFStepB2
import UrcuVerif.Lfht.Conc.InvFStepC
import UrcuVerif.Lfht.Conc.InvFStepC2
/-! Layer F holds in every reachable state of the unmutated model (`ownerByOr = false`) (proof-only file). -/
namespace UrcuVerif.Lfht.Conc
open UrcuVerif

theorem invF_step {c s s' t l o} (hc : c.ownerByOr = false) (hR : InvR c s) (hF : InvF c s)
    (st : step c s t l = some (s', o)) : InvF c s' := by
  cases l with
  | rlock => exact invF_rlock hc hR hF st
  | runlock => exact invF_runlock hc hR hF st
  | callAdd _ _ _ _ => exact invF_callAdd hc hR hF st
  | callReplace _ _ _ => exact invF_callReplace hc hR hF st
  | callDel => exact invF_callDel hc hR hF st
  | callLookup _ _ => exact invF_callLookup hc hR hF st
  | callDup _ => exact invF_callDup hc hR hF st
  | callNext => exact invF_callNext hc hR hF st
  | callFirst => exact invF_callFirst hc hR hF st
  | ldSize => exact invF_ldSize hc hR hF st
  | ldHeadA => exact invF_ldHeadA hc hR hF st
  | ldNextA => exact invF_ldNextA hc hR hF st
  | casIns => exact invF_casIns hc hR hF st
  | casGc => exact invF_casGc hc hR hF st
  | ldWalk => exact invF_ldWalk hc hR hF st
  | ldAssertW => exact invF_ldAssertW hc hR hF st
  | ldHeadL => exact invF_ldHeadL hc hR hF st
  | ldFirst => exact invF_ldFirst hc hR hF st
  | casRepl => exact invF_casRepl hc hR hF st
  | ldAssertR => exact invF_ldAssertR hc hR hF st
  | ldHeadG => exact invF_ldHeadG hc hR hF st
  | ldNextG => exact invF_ldNextG hc hR hF st
  | ldDel => exact invF_ldDel hc hR hF st
  | orRem => exact invF_orRem hc hR hF st
  | ldAssertD => exact invF_ldAssertD hc hR hF st
  | ldDel2 => exact invF_ldDel2 hc hR hF st
  | xchgOwn => exact invF_xchgOwn hc hR hF st
  | orOwn => exact invF_orOwn hc hR hF st
  | orBkt => exact invF_orBkt hc hR hF st
  | reclaim _ => exact invF_reclaim hc hR hF st
  | rzLock => exact invF_rzLock hc hR hF st
  | rzUnlock => exact invF_rzUnlock hc hR hF st
  | partBegin => exact invF_partBegin hc hR hF st
  | partEnd => exact invF_partEnd hc hR hF st
  | stSizeGrow => exact invF_stSizeGrow hc hR hF st
  | stSizeShrink => exact invF_stSizeShrink hc hR hF st
  | gpStart => exact invF_gpStart hc hR hF st
  | gpEnd => exact invF_gpEnd hc hR hF st
  | tblFree => exact invF_tblFree hc hR hF st
  | tblAlloc _ => exact invF_tblAlloc hc hR hF st
  | spawn _ _ => exact invF_spawn hc hR hF st
  | join _ => exact invF_join hc hR hF st

theorem invRF_reach {c s} (hc : c.ownerByOr = false) (r : Reach c s) : InvR c s ∧ InvF c s := by
  induction r with
  | init => exact ⟨invR_init c, invF_init c⟩
  | step _ st ih => exact ⟨invR_step ih.1 st, invF_step hc ih.1 ih.2 st⟩

end UrcuVerif.Lfht.Conc
