import UrcuVerif.Lfht.Conc.InvL
/-! Layer L is preserved by every step (part 1) (proof-only file). -/
namespace UrcuVerif.Lfht.Conc
open UrcuVerif
set_option linter.unusedSimpArgs false
set_option linter.unusedVariables false

set_option maxHeartbeats 4000000 in
theorem invL_rlock {c s s' t o} (hc : c.ownerByOr = false) (hR : InvR c s) (hF : InvF c s) (hL : InvL s)
    (st : step c s t .rlock = some (s', o)) : InvL s' := by
  st_open st
  all_goals l_frame hR hF hL [(s.th t).prev, (s.th t).iter.ptr, (s.th t).cur, (s.th t).bkt, (s.th t).node, (s.th t).old]

set_option maxHeartbeats 4000000 in
theorem invL_runlock {c s s' t o} (hc : c.ownerByOr = false) (hR : InvR c s) (hF : InvF c s) (hL : InvL s)
    (st : step c s t .runlock = some (s', o)) : InvL s' := by
  st_open st
  all_goals l_frame hR hF hL [(s.th t).prev, (s.th t).iter.ptr, (s.th t).cur, (s.th t).bkt, (s.th t).node, (s.th t).old]

set_option maxHeartbeats 4000000 in
theorem invL_callAdd {c s s' t o m n hh k} (hc : c.ownerByOr = false) (hR : InvR c s) (hF : InvF c s) (hL : InvL s)
    (st : step c s t (.callAdd m n hh k) = some (s', o)) : InvL s' := by
  st_open st
  all_goals l_frame hR hF hL [(s.th t).prev, (s.th t).iter.ptr, (s.th t).cur, (s.th t).bkt, (s.th t).node, (s.th t).old]

set_option maxHeartbeats 4000000 in
theorem invL_callReplace {c s s' t o n hh k} (hc : c.ownerByOr = false) (hR : InvR c s) (hF : InvF c s) (hL : InvL s)
    (st : step c s t (.callReplace n hh k) = some (s', o)) : InvL s' := by
  st_open st
  all_goals l_frame hR hF hL [(s.th t).prev, (s.th t).iter.ptr, (s.th t).cur, (s.th t).bkt, (s.th t).node, (s.th t).old]

set_option maxHeartbeats 4000000 in
theorem invL_callDel {c s s' t o} (hc : c.ownerByOr = false) (hR : InvR c s) (hF : InvF c s) (hL : InvL s)
    (st : step c s t .callDel = some (s', o)) : InvL s' := by
  st_open st
  all_goals l_frame hR hF hL [(s.th t).prev, (s.th t).iter.ptr, (s.th t).cur, (s.th t).bkt, (s.th t).node, (s.th t).old]

set_option maxHeartbeats 4000000 in
theorem invL_callLookup {c s s' t o hh k} (hc : c.ownerByOr = false) (hR : InvR c s) (hF : InvF c s) (hL : InvL s)
    (st : step c s t (.callLookup hh k) = some (s', o)) : InvL s' := by
  st_open st
  all_goals l_frame hR hF hL [(s.th t).prev, (s.th t).iter.ptr, (s.th t).cur, (s.th t).bkt, (s.th t).node, (s.th t).old]

set_option maxHeartbeats 4000000 in
theorem invL_callDup {c s s' t o k} (hc : c.ownerByOr = false) (hR : InvR c s) (hF : InvF c s) (hL : InvL s)
    (st : step c s t (.callDup k) = some (s', o)) : InvL s' := by
  st_open st
  all_goals l_frame hR hF hL [(s.th t).prev, (s.th t).iter.ptr, (s.th t).cur, (s.th t).bkt, (s.th t).node, (s.th t).old]

set_option maxHeartbeats 4000000 in
theorem invL_callNext {c s s' t o} (hc : c.ownerByOr = false) (hR : InvR c s) (hF : InvF c s) (hL : InvL s)
    (st : step c s t .callNext = some (s', o)) : InvL s' := by
  st_open st
  all_goals l_frame hR hF hL [(s.th t).prev, (s.th t).iter.ptr, (s.th t).cur, (s.th t).bkt, (s.th t).node, (s.th t).old]

set_option maxHeartbeats 4000000 in
theorem invL_callFirst {c s s' t o} (hc : c.ownerByOr = false) (hR : InvR c s) (hF : InvF c s) (hL : InvL s)
    (st : step c s t .callFirst = some (s', o)) : InvL s' := by
  st_open st
  all_goals l_frame hR hF hL [(s.th t).prev, (s.th t).iter.ptr, (s.th t).cur, (s.th t).bkt, (s.th t).node, (s.th t).old]

set_option maxHeartbeats 4000000 in
theorem invL_ldSize {c s s' t o} (hc : c.ownerByOr = false) (hR : InvR c s) (hF : InvF c s) (hL : InvL s)
    (st : step c s t .ldSize = some (s', o)) : InvL s' := by
  have bb := bucket_before hR (s.th t).hs
  st_open st
  all_goals l_frame hR hF hL [(s.th t).prev, (s.th t).iter.ptr, (s.th t).cur, (s.th t).bkt, (s.th t).node, (s.th t).old]

set_option maxHeartbeats 4000000 in
theorem invL_ldHeadA {c s s' t o} (hc : c.ownerByOr = false) (hR : InvR c s) (hF : InvF c s) (hL : InvL s)
    (st : step c s t .ldHeadA = some (s', o)) : InvL s' := by
  st_open st
  all_goals l_frame hR hF hL [(s.th t).prev, (s.th t).iter.ptr, (s.th t).cur, (s.th t).bkt, (s.th t).node, (s.th t).old]

set_option maxHeartbeats 4000000 in
theorem invL_ldNextA {c s s' t o} (hc : c.ownerByOr = false) (hR : InvR c s) (hF : InvF c s) (hL : InvL s)
    (st : step c s t .ldNextA = some (s', o)) : InvL s' := by
  st_open st
  all_goals l_frame hR hF hL [(s.th t).prev, (s.th t).iter.ptr, (s.th t).cur, (s.th t).bkt, (s.th t).node, (s.th t).old]

set_option maxHeartbeats 4000000 in
theorem invL_ldWalk {c s s' t o} (hc : c.ownerByOr = false) (hR : InvR c s) (hF : InvF c s) (hL : InvL s)
    (st : step c s t .ldWalk = some (s', o)) : InvL s' := by
  st_open st
  all_goals l_frame hR hF hL [(s.th t).prev, (s.th t).iter.ptr, (s.th t).cur, (s.th t).bkt, (s.th t).node, (s.th t).old]

end UrcuVerif.Lfht.Conc
