import UrcuVerif.Lfht.Conc.InvSTac
/-!
# Concurrent rculfhash — layer S, threads part: resize control steps (proof-only file)
-/
namespace UrcuVerif.Lfht.Conc
open UrcuVerif
set_option linter.unusedSimpArgs false
set_option linter.unusedVariables false

/-- a finished shrink phase: every bucket of the level is unlinked -/
theorem shrink_done {c s t} (hR : InvR c s) (hX : XShrink s) (ho : s.rzOwner = t + 1) (hpc : (s.th t).pc = .zPart)
    (hrk : (s.th t).rk = .shrink) (hj : (s.th t).j = (s.th t).jend) (hnh : (s.th t).nh = 0) :
    ∀ j, InLevel (s.th t).rord j → s.life (s.tbl j) = .unlinked := by
  intro j hjl
  rcases hX t ho (.inl hpc) hrk j hjl with h | h | ⟨u, h1, h2, h3⟩
  · exact h
  · omega
  · exfalso
    by_cases hu : u = t
    · subst hu
      have ht := hR.t u; simp only [TR] at ht
      have := (ht.2.2.2.1 ho).1; omega
    · have := (no_workers hR ho (.inr hnh) u hu).1; omega

theorem gp_all {c s a} (hF : InvF c s) (h : gpElapsed c s a) : ∀ u b, s.cs u = some b → a < b := by
  intro u b hb
  by_cases hu : u < c.n
  · exact h u hu b hb
  · have ht := hF.t u; simp only [TF] at ht
    have := ht.2.1 (by omega); rw [this] at hb; cases hb


set_option maxHeartbeats 4000000 in
theorem invSt_rzLock {c s s' t o} (hc : c.ownerByOr = false) (r : Reach c s) (hS : InvS s)
    (st : step c s t .rzLock = some (s', o)) : ∀ u, TS s' (s'.th u) u := by
  have st0 := st
  st_open st
  all_goals
    ts_pre
    intro u
    by_cases hu : u = t
    · have hu' : t = u := hu.symm
      subst hu'
      have hpc' := xpc
      ts_fin
    · ts_user (fun u _ => no_rz_free hR (by grind) u)

set_option maxHeartbeats 4000000 in
theorem invSt_rzUnlock {c s s' t o} (hc : c.ownerByOr = false) (r : Reach c s) (hS : InvS s)
    (st : step c s t .rzUnlock = some (s', o)) : ∀ u, TS s' (s'.th u) u := by
  have st0 := st
  st_open st
  all_goals
    ts_pre
    intro u
    by_cases hu : u = t
    · have hu' : t = u := hu.symm
      subst hu'
      have hpc' := xpc
      ts_fin
    · ts_user (fun u hu => (no_workers hR (t := t) (by grind) (.inl (by simp [InPhase, Worker, AddPc, GcPc]; grind)) u hu).2)

set_option maxHeartbeats 4000000 in
theorem invSt_tblAlloc {c s s' t o base} (hc : c.ownerByOr = false) (r : Reach c s) (hS : InvS s)
    (st : step c s t (.tblAlloc base) = some (s', o)) : ∀ u, TS s' (s'.th u) u := by
  have st0 := st
  st_open st
  all_goals
    ts_pre
    intro u
    by_cases hu : u = t
    · have hu' : t = u := hu.symm
      subst hu'
      have hpc' := xpc
      have zo := rt0.1
      ts_fin
    · ts_user (fun u hu => (no_workers hR (t := t) (by grind [ZPc]) (.inl (by simp [InPhase, Worker, AddPc, GcPc]; grind)) u hu).2)

set_option maxHeartbeats 4000000 in
theorem invSt_tblFree {c s s' t o} (hc : c.ownerByOr = false) (r : Reach c s) (hS : InvS s)
    (st : step c s t .tblFree = some (s', o)) : ∀ u, TS s' (s'.th u) u := by
  have st0 := st
  st_open st
  all_goals
    ts_pre
    intro u
    by_cases hu : u = t
    · have hu' : t = u := hu.symm
      subst hu'
      have hpc' := xpc
      have zo := rt0.1
      have f5 := ft0.2.2.2.2.1
      have ofree := rt0.2.2.2.2.2.2.2.2.2.2.1
      ts_fin
    · ts_user (fun u hu => (no_workers hR (t := t) (by grind [ZPc]) (.inl (by simp [InPhase, Worker, AddPc, GcPc]; grind)) u hu).2)

set_option maxHeartbeats 4000000 in
theorem invSt_gpStart {c s s' t o} (hc : c.ownerByOr = false) (r : Reach c s) (hS : InvS s)
    (st : step c s t .gpStart = some (s', o)) : ∀ u, TS s' (s'.th u) u := by
  have st0 := st
  st_open st
  all_goals
    ts_pre
    have hU := invU_reach hc r
    intro u
    by_cases hu : u = t
    · have hu' : t = u := hu.symm
      subst hu'
      have hpc' := xpc
      have zo := rt0.1
      have f5 := ft0.2.2.2.2.1
      have ofree := rt0.2.2.2.2.2.2.2.2.2.2.1
      have ophase := rt0.2.2.2.2.2.2.2.2.2.1
      have u1 := hU.1
      have sd := shrink_done hR hS.shr (t := t)
      have gpa := gp_all hF (a := (s.th t).gpAt)
      ts_fin
    · ts_other

set_option maxHeartbeats 4000000 in
theorem invSt_gpEnd {c s s' t o} (hc : c.ownerByOr = false) (r : Reach c s) (hS : InvS s)
    (st : step c s t .gpEnd = some (s', o)) : ∀ u, TS s' (s'.th u) u := by
  have st0 := st
  st_open st
  all_goals
    ts_pre
    have hU := invU_reach hc r
    intro u
    by_cases hu : u = t
    · have hu' : t = u := hu.symm
      subst hu'
      have hpc' := xpc
      have zo := rt0.1
      have f5 := ft0.2.2.2.2.1
      have ofree := rt0.2.2.2.2.2.2.2.2.2.2.1
      have ophase := rt0.2.2.2.2.2.2.2.2.2.1
      have u1 := hU.1
      have sd := shrink_done hR hS.shr (t := t)
      have gpa := gp_all hF (a := (s.th t).gpAt)
      ts_fin
    · ts_other

set_option maxHeartbeats 4000000 in
theorem invSt_stSizeShrink {c s s' t o} (hc : c.ownerByOr = false) (r : Reach c s) (hS : InvS s)
    (st : step c s t .stSizeShrink = some (s', o)) : ∀ u, TS s' (s'.th u) u := by
  have st0 := st
  st_open st
  all_goals
    ts_pre
    have hU := invU_reach hc r
    intro u
    by_cases hu : u = t
    · have hu' : t = u := hu.symm
      subst hu'
      have hpc' := xpc
      have zo := rt0.1
      have f5 := ft0.2.2.2.2.1
      have ofree := rt0.2.2.2.2.2.2.2.2.2.2.1
      have ophase := rt0.2.2.2.2.2.2.2.2.2.1
      have u1 := hU.1
      have sd := shrink_done hR hS.shr (t := t)
      have gpa := gp_all hF (a := (s.th t).gpAt)
      ts_fin
    · ts_other

set_option maxHeartbeats 4000000 in
theorem invSt_partBegin {c s s' t o} (hc : c.ownerByOr = false) (r : Reach c s) (hS : InvS s)
    (st : step c s t .partBegin = some (s', o)) : ∀ u, TS s' (s'.th u) u := by
  have st0 := st
  st_open st
  all_goals
    ts_pre
    intro u
    by_cases hu : u = t
    · have hu' : t = u := hu.symm
      subst hu'
      have hpc' := xpc
      have zo := rt0.1
      ts_fin
    · ts_other

set_option maxHeartbeats 4000000 in
theorem invSt_partEnd {c s s' t o} (hc : c.ownerByOr = false) (r : Reach c s) (hS : InvS s)
    (st : step c s t .partEnd = some (s', o)) : ∀ u, TS s' (s'.th u) u := by
  have st0 := st
  st_open st
  all_goals
    ts_pre
    intro u
    by_cases hu : u = t
    · have hu' : t = u := hu.symm
      subst hu'
      have hpc : (s.th t).pc = .pEnd := by grind
      have hdone := rt0.2.2.2.2.2.2.2.2.2.2.2.2.2.2.2.2.2.2 (.inl hpc)
      first
        | (have hpc' : x'.pc = .zPart := xpc
           ts_fin)
        | (have hpc' : x'.pc = .hDone := xpc
           ts_fin)
    · ts_other

set_option hygiene false in
/-- the second thread's goal (`spawn` / `join`), reduced with its known new pc -/
macro "ts_red2" : tactic => `(tactic|
  (rw [e2]
   simp only [TS, TSc, TS8, pendFrom, HasPos, GcPc, Worker, AddPc, HPc, ZPc, InPhase, ypc, reduceCtorEq, false_or, or_false,
     false_and, and_false, false_implies, true_or, or_true, true_implies, implies_true, true_and, and_true, not_false_eq_true,
     not_true_eq_false, ↓reduceIte, yitn, yitx, ygcont, yrk, ypfree, ygpAt, yj, yjend, yold, ynode, ymode, ne_eq, and_self]))

set_option maxHeartbeats 4000000 in
theorem invSt_spawn {c s s' t o v len} (hc : c.ownerByOr = false) (r : Reach c s) (hS : InvS s)
    (st : step c s t (.spawn v len) = some (s', o)) : ∀ u, TS s' (s'.th u) u := by
  have st0 := st
  st_open st
  st_open2
  all_goals
    have r' : Reach c s' := .step r st0
    have ⟨hR, hF, hL⟩ := invRFL_reach hc r
    have ⟨hR', hF', hL'⟩ := invRFL_reach hc r'
    have cst := cs_step st0
    have tsc := (hS.t t).1; have ts8 := (hS.t t).2
    simp only [TSc] at tsc; simp only [TS8] at ts8
    have rt0 := hR.t t; simp only [TR] at rt0
    have hvt : v ≠ t := by grind
    intro u
    by_cases hu : u = t
    · have hu' : t = u := hu.symm
      subst hu'
      have e1 : s'.th t = x' := by rw [e_th']; simp [upd]
      have hpc' := xpc
      have hz : Held s' t 0 := fun h => absurd rfl h
      have zo := rt0.1
      ts_fin
    · by_cases huv : u = v
      · have hu' : v = u := huv.symm
        subst hu'
        have e2 : s'.th v = y' := by rw [e_th']; simp [upd, hu]
        have tscv := (hS.t v).1; simp only [TSc] at tscv
        have zo := rt0.1
        have hz : Held s' v 0 := fun h => absurd rfl h
        ts_red2
        (try simp only [e_life, e_nxt, e_tbl, e_cs, e_rz, e_unlAt, e_clock, e_size, upd, if_true])
        clear hS hR hF hL hR' hF' hL' r'
        grind [Held, live, InLevel, HasPos, GcPc, Worker, AddPc, HPc, ZPc, InPhase, pendFrom]
      · have e1 : s'.th u = s.th u := by rw [e_th']; simp [upd, hu, huv]
        rw [e1]
        refine ⟨TSc_heap hc r st0 (cst.1 u hu) e_tbl (hS.t u).1, TS8_heap hc r st0 e_tbl e_rz ?_ (hS.t u).2⟩
        intro a b j h1 h2 hh
        cases hh.1

set_option maxHeartbeats 4000000 in
theorem invSt_join {c s s' t o v} (hc : c.ownerByOr = false) (r : Reach c s) (hS : InvS s)
    (st : step c s t (.join v) = some (s', o)) : ∀ u, TS s' (s'.th u) u := by
  have st0 := st
  st_open st
  st_open2
  all_goals
    have r' : Reach c s' := .step r st0
    have ⟨hR, hF, hL⟩ := invRFL_reach hc r
    have ⟨hR', hF', hL'⟩ := invRFL_reach hc r'
    have cst := cs_step st0
    have tsc := (hS.t t).1; have ts8 := (hS.t t).2
    simp only [TSc] at tsc; simp only [TS8] at ts8
    have rt0 := hR.t t; simp only [TR] at rt0
    have hvt : v ≠ t := by grind
    intro u
    by_cases hu : u = t
    · have hu' : t = u := hu.symm
      subst hu'
      have e1 : s'.th t = x' := by rw [e_th']; simp [upd]
      have hpc' := xpc
      have hz : Held s' t 0 := fun h => absurd rfl h
      have zo := rt0.1
      ts_fin
    · by_cases huv : u = v
      · have hu' : v = u := huv.symm
        subst hu'
        have e2 : s'.th v = y' := by rw [e_th']; simp [upd, hu]
        have tscv := (hS.t v).1; simp only [TSc] at tscv
        have zo := rt0.1
        have hz : Held s' v 0 := fun h => absurd rfl h
        ts_red2
        (try simp only [e_life, e_nxt, e_tbl, e_cs, e_rz, e_unlAt, e_clock, e_size, upd, if_true])
        clear hS hR hF hL hR' hF' hL' r'
        grind [Held, live, InLevel, HasPos, GcPc, Worker, AddPc, HPc, ZPc, InPhase, pendFrom]
      · have e1 : s'.th u = s.th u := by rw [e_th']; simp [upd, hu, huv]
        rw [e1]
        refine ⟨TSc_heap hc r st0 (cst.1 u hu) e_tbl (hS.t u).1, TS8_heap hc r st0 e_tbl e_rz ?_ (hS.t u).2⟩
        intro a b j h1 h2 hh
        cases hh.1


end UrcuVerif.Lfht.Conc
