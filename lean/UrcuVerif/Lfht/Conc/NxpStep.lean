import UrcuVerif.Lfht.Conc.Vis
import UrcuVerif.Lfht.Conc.Rch
/-!
# How one step changes the pointer parts of the `next` words (proof-only file)
-/
namespace UrcuVerif.Lfht.Conc
open UrcuVerif
set_option linter.unusedSimpArgs false
set_option linter.unusedVariables false

/-- `n` (private so far) is linked behind the published node `p` -/
def InsShape (s s' : State) (p n : Nat) : Prop :=
  nxp s' p = n ∧ nxp s' n = nxp s p ∧ (∀ x, x ≠ p → x ≠ n → nxp s' x = nxp s x) ∧ s.life n = .priv ∧ valid s p ∧ n ≠ 0

/-- `c`, the flagged successor of `p`, is unlinked -/
def UnlShape (s s' : State) (p c : Nat) : Prop :=
  nxp s p = c ∧ nxp s' p = nxp s c ∧ (∀ x, x ≠ p → nxp s' x = nxp s x) ∧ p ≠ c ∧ (s.nxt c).rem = true

set_option hygiene false in
macro "nxp_same" : tactic => `(tactic| (left; intro p; simp only [nxp, e_nxt]))

set_option hygiene false in
macro "nxp_flag" hF:ident : tactic => `(tactic|
  (left
   have ftt := ($hF).t t
   simp only [TF] at ftt
   intro p; simp only [nxp, e_nxt, upd]
   by_cases h2 : p = (s.th t).node <;> simp only [h2, if_true, if_false] <;> grind))

set_option maxHeartbeats 4000000 in
theorem nxp_step {c s s' t l o} (hc : c.ownerByOr = false) (r : Reach c s) (st : step c s t l = some (s', o)) :
    (∀ p, nxp s' p = nxp s p) ∨ (∃ p n, InsShape s s' p n) ∨ (∃ p k, UnlShape s s' p k) := by
  have ⟨hR, hF, hL⟩ := invRFL_reach hc r
  cases l with
  | casIns =>
    st_open st
    all_goals first | (nxp_same; done) | skip
    all_goals
      right; left
      refine ⟨(s.th t).prev, (s.th t).node, ?_⟩
      vis_open hR hF hL
      have kf : s.life (s.th t).prev = .linked ∧ s.life (s.th t).node = .priv ∧ (s.th t).iter.ptr = (s.nxt (s.th t).prev).ptr ∧
          (s.th t).node ≠ 0 := by
        clear fgn g1 g2 g3 g4 g5
        grind [valid, vz, Pend, HasPos, Worker, AddPc, InPhase, okp]
      obtain ⟨k1, k2, k3, k4⟩ := kf
      have hne : (s.th t).prev ≠ (s.th t).node := by intro e; rw [e, k2] at k1; cases k1
      refine ⟨?_, ?_, ?_, k2, by simp [valid, k1], k4⟩
      · simp only [nxp, e_nxt, upd, if_true]
      · simp only [nxp, e_nxt, upd, Ne.symm hne, if_false, if_true]; exact k3
      · intro x h1 h2; simp only [nxp, e_nxt, upd, h1, h2, if_false]
  | casRepl =>
    st_open st
    all_goals first | (nxp_same; done) | skip
    all_goals
      right; left
      refine ⟨(s.th t).old, (s.th t).node, ?_⟩
      vis_open hR hF hL
      have kf : s.life (s.th t).old = .linked ∧ s.life (s.th t).node = .priv ∧ (s.th t).oldnx.ptr = (s.nxt (s.th t).old).ptr ∧
          (s.th t).node ≠ 0 := by
        clear fgn g1 g2 g3 g4 g5
        grind [valid, vz, Pend, HasPos, okp]
      obtain ⟨k1, k2, k3, k4⟩ := kf
      have hne : (s.th t).old ≠ (s.th t).node := by intro e; rw [e, k2] at k1; cases k1
      refine ⟨?_, ?_, ?_, k2, by simp [valid, k1], k4⟩
      · simp only [nxp, e_nxt, upd, if_true]
      · simp only [nxp, e_nxt, upd, Ne.symm hne, if_false, if_true]; exact k3
      · intro x h1 h2; simp only [nxp, e_nxt, upd, h1, h2, if_false]
  | casGc =>
    st_open st
    all_goals first | (nxp_same; done) | skip
    all_goals
      right; right
      refine ⟨(s.th t).prev, (s.th t).iter.ptr, ?_⟩
      vis_open hR hF hL
      have kf : (s.nxt (s.th t).prev).ptr = (s.th t).iter.ptr ∧ (s.th t).nx.ptr = (s.nxt (s.th t).iter.ptr).ptr ∧
          (s.nxt (s.th t).iter.ptr).rem = true ∧ (s.nxt (s.th t).prev).rem = false := by
        clear fgn g1 g2 g3 g4 g5
        grind [valid, vz, Pend, HasPos, okp]
      obtain ⟨k1, k2, k3, k4⟩ := kf
      refine ⟨k1, ?_, ?_, ?_, k3⟩
      · simp only [nxp, e_nxt, upd, if_true]; exact k2
      · intro x h1; simp only [nxp, e_nxt, upd, h1, if_false]
      · intro e; rw [e, k3] at k4; cases k4
  | orRem => st_open st; all_goals first | (nxp_same; done) | nxp_flag hF
  | xchgOwn => st_open st; all_goals first | (nxp_same; done) | nxp_flag hF
  | orBkt => st_open st; all_goals first | (nxp_same; done) | nxp_flag hF
  | orOwn => st_open st; all_goals first | (nxp_same; done) | nxp_flag hF
  | _ => st_open st; all_goals nxp_same

end UrcuVerif.Lfht.Conc
