import UrcuVerif.Lfht.Conc.InvS
import UrcuVerif.Lfht.Conc.AuxStep
import UrcuVerif.Lfht.Conc.LiveStep
/-!
# Concurrent rculfhash — layer S, heap phase: what any step does to the safety facts of a thread whose locals
it does not touch (proof-only file)
-/
namespace UrcuVerif.Lfht.Conc
open UrcuVerif
set_option linter.unusedSimpArgs false
set_option linter.unusedVariables false

/-- an unlinked node stays unlinked, with the same unlink time -/
theorem unl_step {c s s' t l o p} (hc : c.ownerByOr = false) (r : Reach c s) (st : step c s t l = some (s', o))
    (h : s.life p = .unlinked) : s'.life p = .unlinked ∧ s'.unlAt p = s.unlAt p := by
  have hv : valid s p := by simp [valid, h]
  rcases graph_step hc r st with ⟨_, _, e, eu⟩ | ⟨a, n, i, _, e, _, _, eu⟩ | ⟨a, k, _, _, e, e2, e3, _, eu⟩
  · rw [e p hv, eu]; exact ⟨h, rfl⟩
  · have : p ≠ n := by intro h'; rw [h'] at hv; exact hv.2 i.2.2.2.1
    rw [e p this, eu]; exact ⟨h, rfl⟩
  · have : p ≠ k := by intro h'; rw [h', e3] at h; cases h
    rw [e p this, eu]; simp only [upd, this, if_false]; exact ⟨h, trivial⟩

/-- the global safety facts survive every step that frees nothing; a recorded return is of an unlinked node -/
theorem GS_step {c s s' t l o} (hc : c.ownerByOr = false) (r : Reach c s) (st : step c s t l = some (s', o))
    (g : GS s) (hfr : s'.freed = s.freed)
    (hor : ∀ p, s'.ownRet p = s.ownRet p ∨ (s'.ownRet p = some s.clock ∧ s.life p = .unlinked)) : GS s' := by
  have ⟨u1, _⟩ := invU_reach hc r
  have cst := cs_step st
  refine ⟨?_, ?_⟩
  · intro p hp
    rw [hfr] at hp
    have ⟨h1, h2⟩ := g.1 p hp
    have hu := unl_step hc r st h1
    refine ⟨hu.1, ?_⟩
    intro u b hb
    rw [hu.2]
    by_cases hut : u = t
    · subst hut
      rcases cst.2.1 b hb with h | h
      · exact h2 u b h
      · rw [h]; exact u1 p h1
    · rw [cst.1 u hut] at hb; exact h2 u b hb
  · intro p rr hp
    rcases hor p with h | ⟨h, hl⟩
    · rw [h] at hp
      have ⟨h1, h2⟩ := g.2 p rr hp
      have hu := unl_step hc r st h1
      exact ⟨hu.1, by rw [hu.2]; exact h2⟩
    · rw [h] at hp; injection hp with hp; subst hp
      have hu := unl_step hc r st hl
      exact ⟨hu.1, by rw [hu.2]; exact u1 p hl⟩

/-- heap phase for the pointers held by thread `u` -/
theorem TSc_heap {c s s' t l o u} (hc : c.ownerByOr = false) (r : Reach c s) (st : step c s t l = some (s', o))
    (hcs : s'.cs u = s.cs u) (htbl : s'.tbl = s.tbl) (g : TSc s (s.th u) u) : TSc s' (s.th u) u := by
  have hs := fun p (h : Held s u p) => held_step hc r st hcs h
  have cst := cs_step st
  obtain ⟨g1, g2, g3, g4, g5, g6, g7, g9, g10, g11, g12⟩ := g
  refine ⟨fun h => ⟨hs _ (g1 h).1, hs _ (g1 h).2⟩, fun h => hs _ (g2 h), fun h => hs _ (g3 h), ⟨hs _ g4.1, hs _ g4.2⟩,
    ?_, fun h => hs _ (g6 h), fun h => hs _ (g7 h), ?_, ?_, ?_, g12⟩
  · intro h; rw [hcs] at h; exact g5 h
  · intro a b j hj
    have ⟨h1, h2⟩ := g9 a b j hj
    have hu := unl_step hc r st h1
    rw [htbl]
    exact ⟨hu.1, fun h => by rw [hu.2]; exact h2 h⟩
  · intro a w b hb
    by_cases hwt : w = t
    · subst hwt
      rcases cst.2.1 b hb with h | h
      · exact g10 a w b h
      · rw [h]; exact g11 (.inr a)
    · rw [cst.1 w hwt] at hb; exact g10 a w b hb
  · intro a; have := g11 a; have := cst.2.2; omega

/-- heap phase for the untouched part of a shrink partition: every step keeps its buckets live, except the
worker's own flagging step (`ex` = that bucket's index) -/
theorem TS8_heap {c s s' t l o u} (hc : c.ownerByOr = false) (r : Reach c s) (st : step c s t l = some (s', o))
    (htbl : s'.tbl = s.tbl) (hrz : s'.rzOwner = s.rzOwner)
    (hne : (((s.th u).pc = .zPart ∧ s.rzOwner = u + 1) ∨ (s.th u).pc = .hStart ∨ Worker (s.th u)) → (s.th u).rk = .shrink →
      ∀ j, pendFrom (s.th u) ≤ j → j < (s.th u).jend → ¬ (l = .orBkt ∧ s.tbl j = (s.th t).node))
    (g : TS8 s (s.th u) u) : TS8 s' (s.th u) u := by
  have hR := (invRFL_reach hc r).1
  have rg := hR.g; simp only [GR] at rg
  have hF := (invRFL_reach hc r).2.1
  intro a b j h1 h2
  rw [hrz] at a
  have hl := g a b j h1 h2
  rw [htbl]
  have h0 : s.tbl j ≠ 0 := by intro e; rw [e] at hl; have := hF.g.2.1; rw [hl.1] at this; cases this
  rcases live_bucket_step hc r st _ (rg.2.2.1 j h0).1 hl with h | h
  · exact h
  · exact absurd h (hne a b j h1 h2)

/-- `XShrink` across a step of `t` that keeps its partition range (or is not part of a shrink) -/
theorem XShrink_frame {c : Cfg} {s s' : State} {t : Nat} {x' : Thr} {l o} (hc : c.ownerByOr = false) (r : Reach c s)
    (st : step c s t l = some (s', o)) (e_th : s'.th = upd s.th t x')
    (e_rz : s'.rzOwner = s.rzOwner) (e_tbl : s'.tbl = s.tbl)
    (hx : x'.parent = (s.th t).parent ∧ x'.rk = (s.th t).rk ∧ x'.rord = (s.th t).rord ∧
      (s.rzOwner = t + 1 → (InPhase x' ↔ InPhase (s.th t))) ∧
      ((s.th t).rk = .shrink → x'.j = (s.th t).j ∧ x'.jend = (s.th t).jend))
    (g : XShrink s) : XShrink s' := by
  have hR := (invRFL_reach hc r).1
  intro o ho hph hrk j hj
  have rel := hR.rel
  have hun := fun p h => (unl_step (p := p) hc r st h).1
  simp only [e_th, e_rz, e_tbl, upd] at ho hph hrk hj ⊢
  by_cases hot : o = t
  · subst hot
    simp only [if_true] at hph hrk hj ⊢
    rcases g o ho (by grind) (by grind) j (by grind) with h | h | ⟨u, hu1, hu2, hu3⟩
    · exact .inl (hun _ h)
    · exact .inr (.inl (by grind))
    · refine .inr (.inr ⟨u, ?_⟩)
      have : u ≠ o := by have := (hR.t u).2.2.2.2.1; grind
      simp only [this, if_false]; exact ⟨hu1, hu2, hu3⟩
  · simp only [hot, if_false] at hph hrk hj ⊢
    rcases g o ho hph hrk j hj with h | h | ⟨u, hu1, hu2, hu3⟩
    · exact .inl (hun _ h)
    · exact .inr (.inl h)
    · refine .inr (.inr ⟨u, ?_⟩)
      by_cases hut : u = t
      · subst hut
        have r := rel u o hu1
        simp only [if_true]; grind
      · simp only [hut, if_false]; exact ⟨hu1, hu2, hu3⟩

/-- a shrink worker has seen bucket `j` unlinked and moves on to `j + 1` -/
theorem XShrink_adv {c : Cfg} {s s' : State} {t : Nat} {x' : Thr} {l o} (hc : c.ownerByOr = false) (r : Reach c s)
    (st : step c s t l = some (s', o)) (e_th : s'.th = upd s.th t x')
    (e_rz : s'.rzOwner = s.rzOwner) (e_tbl : s'.tbl = s.tbl) (hw : Worker (s.th t))
    (hx : x'.parent = (s.th t).parent ∧ x'.rk = (s.th t).rk ∧ x'.rord = (s.th t).rord ∧ InPhase x' ∧
      x'.j = (s.th t).j + 1 ∧ x'.jend = (s.th t).jend)
    (hl : s'.life (s.tbl (s.th t).j) = .unlinked)
    (g : XShrink s) : XShrink s' := by
  have hR := (invRFL_reach hc r).1
  intro o ho hph hrk j hj
  have rel := hR.rel
  have hun := fun p h => (unl_step (p := p) hc r st h).1
  simp only [e_th, e_rz, e_tbl, upd] at ho hph hrk hj ⊢
  by_cases hot : o = t
  · subst hot
    simp only [if_true] at hph hrk hj ⊢
    rcases g o ho (.inr hw) (by grind) j (by grind) with h | h | ⟨u, hu1, hu2, hu3⟩
    · exact .inl (hun _ h)
    · by_cases hj' : j = (s.th o).j
      · subst hj'; exact .inl hl
      · exact .inr (.inl (by grind))
    · refine .inr (.inr ⟨u, ?_⟩)
      have : u ≠ o := by have := (hR.t u).2.2.2.2.1; grind
      simp only [this, if_false]; exact ⟨hu1, hu2, hu3⟩
  · simp only [hot, if_false] at hph hrk hj ⊢
    rcases g o ho hph hrk j hj with h | h | ⟨u, hu1, hu2, hu3⟩
    · exact .inl (hun _ h)
    · exact .inr (.inl h)
    · by_cases hut : u = t
      · subst hut
        by_cases hj' : j = (s.th u).j
        · subst hj'; exact .inl hl
        · refine .inr (.inr ⟨u, ?_⟩)
          simp only [if_true]; grind
      · refine .inr (.inr ⟨u, ?_⟩)
        simp only [hut, if_false]; exact ⟨hu1, hu2, hu3⟩

theorem held_linked {s u p} (h : s.life p = .linked) : Held s u p := fun _ _ _ => .inl h

/-- another worker's untouched range does not contain the bucket that `t` is flagging -/
theorem orBkt_other {c s t u} (hR : InvR c s) (hpc : (s.th t).pc = .sOr) (hut : u ≠ t)
    (a : ((s.th u).pc = .zPart ∧ s.rzOwner = u + 1) ∨ (s.th u).pc = .hStart ∨ Worker (s.th u))
    (j : Nat) (h1 : pendFrom (s.th u) ≤ j) (h2 : j < (s.th u).jend) : s.tbl j ≠ (s.th t).node := by
  have hw : Worker (s.th t) := by simp [Worker, hpc]
  have rt := hR.t t; simp only [TR] at rt
  have wi := rt.2.2.2.2.2.2.2.2.2.2.2.2.2.1 hw (by rw [hpc]; simp)
  have wd := worker_disj hR t u hut (.inl hw) (by rcases a with a | a | a <;> simp [a])
  obtain ⟨w1, w2, w3, w4, w5, w6, w7, _⟩ := worker_facts hR u (by rcases a with a | a | a <;> simp [a])
  obtain ⟨v1, v2, v3, v4, v5, v6, v7, _⟩ := worker_facts hR t (.inl hw)
  have rg := hR.g; simp only [GR] at rg
  have hpf : (s.th u).j ≤ pendFrom (s.th u) := by simp only [pendFrom]; split <;> omega
  intro e
  rw [wi.2] at e
  have m1 := rg.2.2.1 j (w7 j (by omega)); have m2 := rg.2.2.1 (s.th t).j (v7 _ (by omega))
  have : j = (s.th t).j := by rw [← m1.2.1, ← m2.2.1, e]
  omega

end UrcuVerif.Lfht.Conc
