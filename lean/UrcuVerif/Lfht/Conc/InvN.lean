import UrcuVerif.Lfht.Conc.LinSpec
import UrcuVerif.Lfht.Conc.RchBack
import UrcuVerif.Lfht.Conc.InvKG
/-!
# Concurrent rculfhash — layer N: the arguments of the call in progress, kept in the thread's locals (proof-only file)
-/
namespace UrcuVerif.Lfht.Conc
open UrcuVerif
set_option linter.unusedSimpArgs false
set_option linter.unusedVariables false

/-- the arguments of the call in progress, as kept in the thread's locals -/
def TN (s : State) (x : Thr) : Prop :=
  ((x.pc = .idle ∨ Worker x ∨ HPc x.pc ∨ ZPc x.pc) → x.op = .none) ∧
  ((x.op = .add ∨ x.op = .replace) → x.mode ≠ .bkt ∧ s.rev x.node = bitReverse64 x.hs ∧ s.key x.node = x.ky ∧
      s.life x.node ≠ .fresh) ∧
  (x.op = .lookup → x.rh = bitReverse64 x.hs ∧ x.wk = .lookup ∧
      (x.pc = .lSize ∨ x.pc = .lHead ∨ x.pc = .wNext ∨ x.pc = .wAssert)) ∧
  (x.op = .replace → x.old ≠ 0 ∧ s.rev x.old = bitReverse64 x.hs ∧ s.key x.old = x.ky ∧ x.mode = .repl ∧
      s.life x.old ≠ .fresh) ∧
  (x.pc = .rSize → x.oldnx.rem = false) ∧
  (x.itn ≠ 0 → ¬ (x.op = .first ∧ (x.pc = .wNext ∨ x.pc = .wAssert)) → x.itx.rem = false) ∧
  (x.op = .del → x.pc = .dSize ∨ x.node ≠ 0) ∧
  ((x.pc = .aSize ∨ (AddPc x.pc ∧ x.mode ≠ .bkt) ∨ ((x.pc = .wNext ∨ x.pc = .wAssert) ∧ x.wk = .dupAdd)) → x.op = .add) ∧
  (x.pc = .rCas → x.op = .add ∨ x.op = .replace) ∧
  ((((x.pc = .wNext ∨ x.pc = .wAssert) ∧ x.wk = .dupAdd) ∨ x.pc = .rCas ∨ x.pc = .rSize) → (x.mode = .uniq ∨ x.mode = .repl)) ∧
  ((x.pc = .rCas ∨ x.pc = .rSize) → x.mode = .repl) ∧
  (x.op = .add → x.pc = .aSize ∨ AddPc x.pc ∨ ((x.pc = .wNext ∨ x.pc = .wAssert) ∧ x.wk = .dupAdd) ∨ x.pc = .rCas ∨
      (GcPc x.pc ∧ x.gcont = .repl) ∨ x.pc = .rAssert) ∧
  (x.op = .replace → x.pc = .rSize ∨ x.pc = .rCas ∨ (GcPc x.pc ∧ x.gcont = .repl) ∨ x.pc = .rAssert) ∧
  (x.op = .del → x.pc = .dSize ∨ x.pc = .dLd ∨ x.pc = .dOr ∨ (GcPc x.pc ∧ x.gcont = .del) ∨ x.pc = .dAssert ∨
      x.pc = .dLd2 ∨ x.pc = .dXchg) ∧
  (x.pc = .aCas → x.mode = .plain → x.iter.ptr = 0 ∨ s.rev x.node < s.rev x.iter.ptr)

def InvN (s : State) : Prop := ∀ u, TN s (s.th u)

theorem invN_init : InvN init := by intro u; simp [TN, init, Worker, AddPc, GcPc, HPc, ZPc]

set_option maxHeartbeats 4000000 in
/-- a step of `t` leaves the call arguments and the iterator of another thread alone -/
theorem other_thread_args {c s s' t l o w} (st : step c s t l = some (s', o)) (hut : t ≠ w) :
    (s'.th w).op = (s.th w).op ∧ (s'.th w).mode = (s.th w).mode ∧ (s'.th w).node = (s.th w).node ∧
    (s'.th w).hs = (s.th w).hs ∧ (s'.th w).ky = (s.th w).ky ∧ (s'.th w).old = (s.th w).old ∧
    (s'.th w).oldnx = (s.th w).oldnx ∧ (s'.th w).rh = (s.th w).rh ∧ (s'.th w).wk = (s.th w).wk ∧
    (s'.th w).itn = (s.th w).itn ∧ (s'.th w).itx = (s.th w).itx := by
  cases l with
  | spawn v len =>
    st_open st; st_open2
    rw [e_th']; simp only [upd, Ne.symm hut, if_false]; split <;> simp_all
  | join v =>
    st_open st; st_open2
    rw [e_th']; simp only [upd, Ne.symm hut, if_false]; split <;> simp_all
  | _ =>
    st_open st
    all_goals (rw [e_th']; simp [upd, Ne.symm hut])

/-- `TN` for another thread -/
theorem TN_other {c s s' t l o w} (hc : c.ownerByOr = false) (r : Reach c s) (st : step c s t l = some (s', o))
    (hut : t ≠ w) (h : TN s (s.th w)) : TN s' (s'.th w) := by
  obtain ⟨a1, a2, a3, a4, a5, a6, a7, a8, a9, a10, a11⟩ := other_thread_args st hut
  have stable := stable_step hc r st
  obtain ⟨h1, h2, h3, h4, h5, h6, h7, h8, h8b, h9, h10, h11, h12, h13, h14⟩ := h
  have hpc : (s'.th w).pc = (s.th w).pc ∨ ((s.th w).pc = .idle ∧ (s'.th w).pc = .hStart) ∨
      ((s.th w).pc = .hDone ∧ (s'.th w).pc = .idle) := by
    rcases other_thread_pc st hut with e | e | e
    · exact .inl (by rw [e])
    · exact .inr (.inl e)
    · exact .inr (.inr e)
  refine ⟨?_, ?_, ?_, ?_, ?_, ?_, ?_, ?_, ?_, ?_, ?_, ?_, ?_, ?_, ?_⟩
  · rw [a1]; intro hp
    rcases other_thread_pc st hut with e | ⟨e, _⟩ | ⟨e, _⟩
    · rw [e] at hp; exact h1 hp
    · exact h1 (.inl e)
    · exact h1 (.inr (.inr (.inl (.inr e))))
  · rw [a1, a2, a3, a4, a5]; intro ho
    obtain ⟨b1, b2, b3, b4⟩ := h2 ho
    have sn := stable _ b4
    exact ⟨b1, by rw [sn.1]; exact b2, by rw [sn.2.1]; exact b3, by
      rcases life_step hc r st (s.th w).node with e | e | e | e
      · rw [e]; exact b4
      · exact absurd e.1 b4
      · rw [e.2]; simp
      · rw [e.2]; simp⟩
  · rw [a1, a8, a4, a9]; intro ho
    obtain ⟨b1, b2, b3⟩ := h3 ho
    refine ⟨b1, b2, ?_⟩
    rcases hpc with e | ⟨e, _⟩ | ⟨e, _⟩
    · rw [e]; exact b3
    · rw [e] at b3; simp at b3
    · rw [e] at b3; simp at b3
  · rw [a1, a6, a4, a5, a2]; intro ho
    obtain ⟨b1, b2, b3, b4, b5⟩ := h4 ho
    have sn := stable _ b5
    exact ⟨b1, by rw [sn.1]; exact b2, by rw [sn.2.1]; exact b3, b4, by
      rcases life_step hc r st (s.th w).old with e | e | e | e
      · rw [e]; exact b5
      · exact absurd e.1 b5
      · rw [e.2]; simp
      · rw [e.2]; simp⟩
  · rw [a7]; intro hp
    rcases hpc with e | ⟨_, e⟩ | ⟨_, e⟩
    · rw [e] at hp; exact h5 hp
    · rw [e] at hp; cases hp
    · rw [e] at hp; cases hp
  · rw [a10, a11, a1]; intro h0 hn
    apply h6 h0
    intro ⟨g1, g2⟩; apply hn; refine ⟨g1, ?_⟩
    rcases hpc with e | ⟨e, _⟩ | ⟨e, _⟩
    · rw [e]; exact g2
    · rw [e] at g2; simp at g2
    · rw [e] at g2; simp at g2
  · rw [a1, a3]; intro ho
    rcases h7 ho with g | g
    · rcases hpc with e | ⟨e, _⟩ | ⟨e, _⟩
      · exact .inl (by rw [e]; exact g)
      · rw [e] at g; cases g
      · rw [e] at g; cases g
    · exact .inr g
  · rw [a1, a2, a9]; intro hp
    rcases hpc with e | ⟨_, e⟩ | ⟨_, e⟩
    · rw [e] at hp; exact h8 hp
    · rw [e] at hp; simp [AddPc] at hp
    · rw [e] at hp; simp [AddPc] at hp
  · rw [a1]; intro hp
    rcases hpc with e | ⟨_, e⟩ | ⟨_, e⟩
    · rw [e] at hp; exact h8b hp
    · rw [e] at hp; cases hp
    · rw [e] at hp; cases hp
  · rw [a2, a9]; intro hp
    rcases hpc with e | ⟨_, e⟩ | ⟨_, e⟩
    · rw [e] at hp; exact h9 hp
    · rw [e] at hp; simp at hp
    · rw [e] at hp; simp at hp
  · rw [a2]; intro hp
    rcases hpc with e | ⟨_, e⟩ | ⟨_, e⟩
    · rw [e] at hp; exact h10 hp
    · rw [e] at hp; simp at hp
    · rw [e] at hp; simp at hp
  · have hth := other_thread_pc st hut
    rcases hth with e | ⟨e, _⟩ | ⟨e, _⟩
    · rw [e]; exact h11
    · rw [a1]; intro ho; have := h1 (.inl e); rw [this] at ho; cases ho
    · rw [a1]; intro ho; have := h1 (.inr (.inr (.inl (.inr e)))); rw [this] at ho; cases ho
  · have hth := other_thread_pc st hut
    rcases hth with e | ⟨e, _⟩ | ⟨e, _⟩
    · rw [e]; exact h12
    · rw [a1]; intro ho; have := h1 (.inl e); rw [this] at ho; cases ho
    · rw [a1]; intro ho; have := h1 (.inr (.inr (.inl (.inr e)))); rw [this] at ho; cases ho
  · have hth := other_thread_pc st hut
    rcases hth with e | ⟨e, _⟩ | ⟨e, _⟩
    · rw [e]; exact h13
    · rw [a1]; intro ho; have := h1 (.inl e); rw [this] at ho; cases ho
    · rw [a1]; intro ho; have := h1 (.inr (.inr (.inl (.inr e)))); rw [this] at ho; cases ho
  · have hth := other_thread_pc st hut
    rcases hth with e | ⟨_, e⟩ | ⟨_, e⟩
    · rw [e]; intro hp hm
      have ⟨_, hF, _⟩ := invRFL_reach hc r
      have fw := hF.t w; simp only [TF] at fw
      have f10 := fw.2.2.2.2.2.2.2.2.2.1 (by simp [HasPos, hp])
      have hop := h8 (.inr (.inl ⟨by simp [AddPc, hp], by rw [hm]; simp⟩))
      have b4 := (h2 (.inl hop)).2.2.2
      rcases h14 hp hm with g | g
      · exact .inl g
      · by_cases i0 : (s.th w).iter.ptr = 0
        · exact .inl i0
        · right
          rw [(stable _ b4).1, (stable _ (f10.2.2.2.2 i0).1).1]; exact g
    · intro hp; rw [e] at hp; cases hp
    · intro hp; rw [e] at hp; cases hp

set_option maxHeartbeats 4000000 in
/-- `TN` for the acting thread -/
theorem TN_self {c s s' t l o} (hc : c.ownerByOr = false) (r : Reach c s) (st : step c s t l = some (s', o))
    (h : TN s (s.th t)) : TN s' (s'.th t) := by
  have ⟨hR, hF, hL⟩ := invRFL_reach hc r
  have ft := hF.t t; simp only [TF] at ft
  have f17 := ft.2.2.2.2.2.2.2.2.2.2.2.2.2.2.2.2.1
  have f16 := ft.2.2.2.2.2.2.2.2.2.2.2.2.2.2.2.1
  have lwk := (hR.t t).2.2.2.2.2.2.1
  have lt := hL.t t; simp only [TL] at lt
  have l10 := lt.2.2.2.2.2.2.2.2.2.1
  have l11 := lt.2.2.2.2.2.2.2.2.2.2.1
  have f14 := ft.2.2.2.2.2.2.2.2.2.2.2.2.2.1
  have f19 := ft.2.2.2.2.2.2.2.2.2.2.2.2.2.2.2.2.2.2.1
  have f10 := ft.2.2.2.2.2.2.2.2.2.1
  have sip := stable_step hc r st (s.th t).iter.ptr
  clear lt ft
  have stable := stable_step hc r st
  have sn := stable (s.th t).node; have so := stable (s.th t).old; have si := stable (s.th t).itn
  have ln := life_step hc r st (s.th t).node; have lo := life_step hc r st (s.th t).old
  clear stable
  simp only [TN] at h
  have st0 := st
  cases l with
  | spawn v len =>
    st_open st; st_open2
    all_goals
      have e1 : s'.th t = x' := by rw [e_th']; simp [upd]
      rw [e1]; simp only [TN, xop, xmode, xnode, xhs, xky, xold, xoldnx, xrh, xwk, xitn, xitx, xpc, xgcont, xiter, e_rev, e_key, e_life]
      grind [Worker, AddPc, GcPc, HPc, ZPc]
  | join v =>
    st_open st; st_open2
    all_goals
      have e1 : s'.th t = x' := by rw [e_th']; simp [upd]
      rw [e1]; simp only [TN, xop, xmode, xnode, xhs, xky, xold, xoldnx, xrh, xwk, xitn, xitx, xpc, xgcont, xiter, e_rev, e_key, e_life]
      grind [Worker, AddPc, GcPc, HPc, ZPc]
  | _ =>
    st_open st
    all_goals
      have e1 : s'.th t = x' := by rw [e_th']; simp [upd]
      (try (have hop0 : (s.th t).op = .none := by
              have h1 := h.1; simp only [ZPc, HPc, Worker, AddPc, GcPc] at h1; clear h sn so si ln lo sip; grind))
      rw [e1]; simp only [TN, xop, xmode, xnode, xhs, xky, xold, xoldnx, xrh, xwk, xitn, xitx, xpc, xgcont, xiter]
      simp only [e_rev, e_key, e_life, upd] at sn so si ln lo sip ⊢
      grind [found, valid, vz, Worker, AddPc, GcPc, HPc, ZPc]

theorem invN_step {c s s' t l o} (hc : c.ownerByOr = false) (r : Reach c s) (hN : InvN s)
    (st : step c s t l = some (s', o)) : InvN s' := by
  intro u
  by_cases hu : u = t
  · subst hu; exact TN_self hc r st (hN u)
  · exact TN_other hc r st (Ne.symm hu) (hN u)

theorem invN_reach {c s} (hc : c.ownerByOr = false) (r : Reach c s) : InvN s := by
  induction r with
  | init => exact invN_init
  | step r st ih => exact invN_step hc r ih st

end UrcuVerif.Lfht.Conc
