import UrcuVerif.Lfht.Conc.Model
/-!
# List lemmas for the ghost list `L` of the concurrent hash table (proof-only file)

`Chn f l`: following the successor function `f` visits `l` in order and ends with NULL.
`insAfter p n l` (model) and `List.erase` are the two ghost updates.
-/
namespace UrcuVerif.Lfht.Conc
open UrcuVerif

/-- `f` links the elements of `l` in order; the last one's successor is 0 -/
def Chn (f : Nat → Nat) : List Nat → Prop
  | [] => True
  | [a] => f a = 0
  | a :: b :: l => f a = b ∧ Chn f (b :: l)

theorem chn_cons {f a l} (h : Chn f (a :: l)) : Chn f l := by
  cases l with
  | nil => trivial
  | cons b l => exact h.2

theorem chn_congr {f g : Nat → Nat} {l} (h : Chn f l) (e : ∀ x, x ∈ l → g x = f x) : Chn g l := by
  induction l with
  | nil => trivial
  | cons a l ih =>
    cases l with
    | nil => simp only [Chn] at h ⊢; rw [e a (by simp)]; exact h
    | cons b l =>
      simp only [Chn] at h ⊢
      exact ⟨by rw [e a (by simp)]; exact h.1, ih h.2 (fun x hx => e x (by simp [hx]))⟩

/-- the successor of a member is 0 or a later member -/
theorem chn_next_mem {f l} (h : Chn f l) {a} (ha : a ∈ l) (hn : f a ≠ 0) : f a ∈ l := by
  induction l with
  | nil => simp at ha
  | cons x l ih =>
    cases l with
    | nil => simp only [Chn] at h; simp at ha; subst ha; exact absurd h hn
    | cons b l =>
      simp only [Chn] at h
      rcases List.mem_cons.mp ha with rfl | ha'
      · rw [h.1]; simp
      · exact List.mem_cons_of_mem _ (ih h.2 ha')

theorem mem_insAfter {p n : Nat} {l : List Nat} {x : Nat} (hp : p ∈ l) : x ∈ insAfter p n l ↔ x = n ∨ x ∈ l := by
  induction l with
  | nil => simp at hp
  | cons a l ih =>
    simp only [insAfter]
    by_cases e : a = p
    · subst e; simp only [if_true, List.mem_cons]; constructor <;> (intro h; rcases h with h | h | h <;> simp [h])
    · have hp' : p ∈ l := by rcases List.mem_cons.mp hp with h | h; exact absurd h.symm e; exact h
      simp only [e, if_false, List.mem_cons, ih hp']
      constructor <;> (intro h; rcases h with h | h | h <;> simp [h])

theorem insAfter_of_not_mem {p n : Nat} {l : List Nat} (hp : p ∉ l) : insAfter p n l = l := by
  induction l with
  | nil => rfl
  | cons a l ih =>
    simp only [insAfter]
    have : a ≠ p := fun e => hp (by simp [e])
    simp only [this, if_false]
    rw [ih (fun h => hp (List.mem_cons_of_mem _ h))]

theorem nodup_insAfter {p n : Nat} {l : List Nat} (nd : l.Nodup) (hn : n ∉ l) : (insAfter p n l).Nodup := by
  induction l with
  | nil => simp [insAfter]
  | cons a l ih =>
    have ⟨ha, nd'⟩ := List.nodup_cons.mp nd
    have hna : n ≠ a := fun e => hn (by simp [e])
    have hnl : n ∉ l := fun h => hn (List.mem_cons_of_mem _ h)
    simp only [insAfter]
    by_cases e : a = p
    · simp only [e, if_true]
      rw [List.nodup_cons, List.nodup_cons]
      subst e
      refine ⟨?_, hnl, nd'⟩
      intro h; rcases List.mem_cons.mp h with h | h
      · exact hna h.symm
      · exact ha h
    · simp only [e, if_false]
      rw [List.nodup_cons]
      refine ⟨?_, ih nd' hnl⟩
      intro h
      by_cases hp : p ∈ l
      · rcases (mem_insAfter hp).mp h with h | h
        · exact hna h.symm
        · exact ha h
      · rw [insAfter_of_not_mem hp] at h; exact ha h

/-- the insertion CAS / the replace CAS on the ghost list: `p.next := n`, `n.next := old p.next` -/
theorem chn_insAfter {f g : Nat → Nat} {p n : Nat} {l : List Nat} (h : Chn f l) (nd : l.Nodup) (hp : p ∈ l) (hn : n ∉ l)
    (gp : g p = n) (gn : g n = f p) (go : ∀ x, x ≠ p → x ≠ n → g x = f x) : Chn g (insAfter p n l) := by
  induction l with
  | nil => simp at hp
  | cons a l ih =>
    have ⟨ha, nd'⟩ := List.nodup_cons.mp nd
    have hna : n ≠ a := fun e => hn (by simp [e])
    have hnl : n ∉ l := fun h => hn (List.mem_cons_of_mem _ h)
    simp only [insAfter]
    by_cases e : a = p
    · subst e
      simp only [if_true]
      have hrest : Chn g l := chn_congr (chn_cons h) (fun x hx => go x (fun e => ha (e ▸ hx)) (fun e => hnl (e ▸ hx)))
      cases l with
      | nil => simp only [Chn] at h ⊢; exact ⟨gp, by rw [gn]; exact h⟩
      | cons b l => simp only [Chn] at h ⊢; exact ⟨gp, by rw [gn]; exact h.1, hrest⟩
    · simp only [e, if_false]
      have hp' : p ∈ l := by rcases List.mem_cons.mp hp with h | h; exact absurd h.symm e; exact h
      have ih' := ih (chn_cons h) nd' hp' hnl
      have ga : g a = f a := go a e (Ne.symm hna)
      cases l with
      | nil => simp at hp'
      | cons b l =>
        simp only [Chn] at h
        have hb : (insAfter p n (b :: l)) = b :: (if b = p then n :: l else insAfter p n l) := by
          simp only [insAfter]; split <;> rfl
        rw [hb] at ih' ⊢
        simp only [Chn]
        exact ⟨by rw [ga]; exact h.1, ih'⟩

/-- the successor of a member lies strictly behind the head -/
theorem chn_next_mem_tail {f b l} (h : Chn f (b :: l)) {x} (hx : x ∈ b :: l) (hn : f x ≠ 0) : f x ∈ l := by
  induction l generalizing b with
  | nil => simp only [Chn] at h; simp at hx; subst hx; exact absurd h hn
  | cons d l ih =>
    simp only [Chn] at h
    rcases List.mem_cons.mp hx with rfl | hx'
    · rw [h.1]; simp
    · exact List.mem_cons_of_mem _ (ih h.2 hx')

theorem head_erase_ne {b c : Nat} {l : List Nat} (h : b ≠ c) : (b :: l).erase c = b :: l.erase c := by
  simp [h]

/-- the unlink CAS on the ghost list: `p.next := c.next` where `c = p.next` -/
theorem chn_erase {f g : Nat → Nat} {p c : Nat} {l : List Nat} (h : Chn f l) (nd : l.Nodup) (hp : p ∈ l) (hc : f p = c)
    (c0 : c ≠ 0) (gp : g p = f c) (go : ∀ x, x ≠ p → g x = f x) : Chn g (l.erase c) := by
  induction l with
  | nil => simp at hp
  | cons a l ih =>
    have ⟨ha, nd'⟩ := List.nodup_cons.mp nd
    by_cases e : a = p
    · subst e
      cases l with
      | nil => simp only [Chn] at h; rw [h] at hc; exact absurd hc.symm c0
      | cons b l' =>
        simp only [Chn] at h
        have hb : b = c := by rw [← h.1, hc]
        subst hb
        have hab : a ≠ b := fun e => ha (by simp [e])
        rw [head_erase_ne hab]
        simp only [List.erase_cons_head]
        have ⟨hbl, nd''⟩ := List.nodup_cons.mp nd'
        have hal : a ∉ l' := fun hx => ha (List.mem_cons_of_mem _ hx)
        have hrest : Chn g l' := chn_congr (chn_cons h.2) (fun x hx => go x (fun e => hal (e ▸ hx)))
        cases l' with
        | nil => simp only [Chn] at h ⊢; rw [gp]; exact h.2
        | cons d l'' => simp only [Chn] at h ⊢; exact ⟨by rw [gp]; exact h.2.1, hrest⟩
    · have hp' : p ∈ l := by rcases List.mem_cons.mp hp with h | h; exact absurd h.symm e; exact h
      have hcl : c ∈ l := by
        have := chn_next_mem (chn_cons h) hp' (by rw [hc]; exact c0); rwa [hc] at this
      have hac : a ≠ c := fun e => ha (e ▸ hcl)
      rw [head_erase_ne hac]
      have ih' := ih (chn_cons h) nd' hp'
      have ga : g a = f a := go a e
      cases l with
      | nil => simp at hp'
      | cons b l' =>
        simp only [Chn] at h
        have hbc : b ≠ c := by
          intro e2
          have := chn_next_mem_tail h.2 hp' (by rw [hc]; exact c0)
          rw [hc, ← e2] at this
          exact (List.nodup_cons.mp nd').1 this
        rw [head_erase_ne hbc] at ih' ⊢
        simp only [Chn]
        exact ⟨by rw [ga]; exact h.1, ih'⟩

theorem insAfter_split {p n : Nat} {l1 l2 : List Nat} (h : p ∉ l1) : insAfter p n (l1 ++ p :: l2) = l1 ++ p :: n :: l2 := by
  induction l1 with
  | nil => simp [insAfter]
  | cons a l1 ih =>
    have : a ≠ p := fun e => h (by simp [e])
    simp only [List.cons_append, insAfter, this, if_false]
    rw [ih (fun hx => h (List.mem_cons_of_mem _ hx))]

theorem chn_succ {f : Nat → Nat} {l1 l2 : List Nat} {p b : Nat} (h : Chn f (l1 ++ p :: b :: l2)) : f p = b := by
  induction l1 with
  | nil => simp only [List.nil_append, Chn] at h; exact h.1
  | cons a l1 ih => exact ih (chn_cons h)

theorem chn_last {f : Nat → Nat} {l1 : List Nat} {p : Nat} (h : Chn f (l1 ++ [p])) : f p = 0 := by
  induction l1 with
  | nil => simpa only [List.nil_append, Chn] using h
  | cons a l1 ih => exact ih (chn_cons h)

/-- `insAfter` keeps a transitive pairwise order when the new element fits between `p` and `p`'s successor -/
theorem pairwise_insAfter {R : Nat → Nat → Prop} {p n : Nat} {l : List Nat} (tr : ∀ a b c, R a b → R b c → R a c)
    (h : l.Pairwise R) (nd : l.Nodup) (hp : p ∈ l) (hpn : R p n)
    (hn : ∀ b l1 l2, l = l1 ++ p :: b :: l2 → R n b) : (insAfter p n l).Pairwise R := by
  obtain ⟨l1, l2, rfl⟩ := List.append_of_mem hp
  have hp1 : p ∉ l1 := by
    intro hx
    have := (List.nodup_append.mp nd).2.2 p hx p (by simp)
    exact this rfl
  rw [insAfter_split hp1]
  rw [List.pairwise_append] at h ⊢
  obtain ⟨h1, h2, h3⟩ := h
  rw [List.pairwise_cons] at h2
  refine ⟨h1, ?_, ?_⟩
  · rw [List.pairwise_cons, List.pairwise_cons]
    have hnb : ∀ x, x ∈ l2 → R n x := by
      intro x hx
      cases l2 with
      | nil => simp at hx
      | cons b l2' =>
        have rb := hn b l1 l2' rfl
        rcases List.mem_cons.mp hx with rfl | hx'
        · exact rb
        · exact tr _ _ _ rb ((List.pairwise_cons.mp h2.2).1 x hx')
    refine ⟨?_, hnb, h2.2⟩
    intro x hx
    rcases List.mem_cons.mp hx with rfl | hx'
    · exact hpn
    · exact h2.1 x hx'
  · intro a ha x hx
    rcases List.mem_cons.mp hx with rfl | hx'
    · exact h3 a ha _ (by simp)
    · rcases List.mem_cons.mp hx' with rfl | hx''
      · exact tr _ _ _ (h3 a ha p (by simp)) hpn
      · exact h3 a ha x (by simp [hx''])

/-- in a pairwise-ordered list, an element that may not follow `a` comes after `a` -/
theorem pairwise_before {R : Nat → Nat → Prop} {l : List Nat} {a b : Nat} (h : l.Pairwise R) (ha : a ∈ l) (hb : b ∈ l)
    (hab : a ≠ b) (hn : ¬ R b a) : ∃ l1 l2, l = l1 ++ a :: l2 ∧ b ∈ l2 := by
  obtain ⟨l1, l2, rfl⟩ := List.append_of_mem ha
  refine ⟨l1, l2, rfl, ?_⟩
  rw [List.pairwise_append] at h
  rcases List.mem_append.mp hb with h1 | h2
  · exact absurd (h.2.2 b h1 a (by simp)) hn
  · rcases List.mem_cons.mp h2 with e | h3
    · exact absurd e.symm hab
    · exact h3

end UrcuVerif.Lfht.Conc
