import UrcuVerif.Lfht.Conc.ListThms
/-!
# Concurrent rculfhash — the set of visible nodes changes only at the linearisation points (proof-only file)
-/
namespace UrcuVerif.Lfht.Conc
open UrcuVerif
set_option linter.unusedSimpArgs false
set_option linter.unusedVariables false

/-- a node that lookups can return: linked from bucket 0, not a bucket, not logically removed -/
def vis (s : State) (p : Nat) : Prop := p ∈ s.L ∧ s.isB p = false ∧ (s.nxt p).rem = false

def VisSame (s s' : State) : Prop := ∀ p, vis s' p ↔ vis s p

set_option hygiene false in
macro "vis_same" : tactic => `(tactic|
  (intro p; simp only [vis, e_L, e_isB, e_nxt]))

set_option hygiene false in
macro "vis_open" hR:ident hF:ident hL:ident : tactic => `(tactic|
  (have ftt := ($hF).t t; have rtt := ($hR).t t; have fg := ($hF).g; have lg := ($hL).g; have rg := ($hR).g
   simp only [TF, TR, GF, GR] at ftt rtt fg rg
   obtain ⟨fgn, fgz, fgl, fgc⟩ := fg
   obtain ⟨g1, g2, g3, g4, g5⟩ := lg
   have gp := fgn (s.th t).prev; have gn := fgn (s.th t).node; have go := fgn (s.th t).old; have gi := fgn (s.th t).iter.ptr
   have tm := rg.2.2.1 (s.th t).j
   have wf := worker_facts $hR t
   simp only [GFn] at gp gn go gi))

theorem vis_casIns {c s s' t o} (hc : c.ownerByOr = false) (hR : InvR c s) (hF : InvF c s) (hL : InvL s)
    (st : step c s t .casIns = some (s', o)) :
    VisSame s s' ∨ ∀ p, vis s' p ↔ (p = (s.th t).node ∨ vis s p) := by
  st_open st
  all_goals first | (left; vis_same; done) | skip
  all_goals
    vis_open hR hF hL
    have kf : s.life (s.th t).prev = .linked ∧ s.life (s.th t).node = .priv ∧ (s.th t).iter.rem = false ∧
        (s.isB (s.th t).node = true ↔ (s.th t).mode = .bkt) := by
      clear fgn g1 g2 g3 g4 g5
      grind [valid, vz, Pend, HasPos, Worker, AddPc, InPhase, okp]
    obtain ⟨k1, k2, k3, k4⟩ := kf
    have hpL := (g2 _).mpr k1
    have hnL : (s.th t).node ∉ s.L := fun h => by have := (g2 _).mp h; rw [k2] at this; cases this
    have hne : (s.th t).prev ≠ (s.th t).node := fun e => hnL (e ▸ hpL)
    by_cases hm : (s.th t).mode = .bkt
    · left; intro p
      simp only [vis, e_L, e_isB, e_nxt, mem_insAfter hpL, upd]
      clear ftt rtt fgn
      by_cases h1 : p = (s.th t).prev <;> by_cases h2 : p = (s.th t).node <;> simp only [h1, h2, if_true, if_false] <;> grind
    · right; intro p
      simp only [vis, e_L, e_isB, e_nxt, mem_insAfter hpL, upd]
      clear ftt rtt fgn
      by_cases h1 : p = (s.th t).prev <;> by_cases h2 : p = (s.th t).node <;> simp only [h1, h2, if_true, if_false] <;> grind

theorem vis_casGc {c s s' t o} (hc : c.ownerByOr = false) (hR : InvR c s) (hF : InvF c s) (hL : InvL s)
    (st : step c s t .casGc = some (s', o)) : VisSame s s' := by
  st_open st
  all_goals first | (vis_same; done) | skip
  all_goals
    vis_open hR hF hL
    intro p
    simp only [vis, e_L, e_isB, e_nxt, g1.mem_erase_iff, upd]
    clear fgn g2 g3 g4 g5
    by_cases h1 : p = (s.th t).prev <;> by_cases h2 : p = (s.th t).iter.ptr <;> simp only [h1, h2, if_true, if_false] <;>
      grind [valid, vz, HasPos]

theorem vis_casRepl {c s s' t o} (hc : c.ownerByOr = false) (hR : InvR c s) (hF : InvF c s) (hL : InvL s)
    (st : step c s t .casRepl = some (s', o)) :
    VisSame s s' ∨ ∀ p, vis s' p ↔ (p = (s.th t).node ∨ (p ≠ (s.th t).old ∧ vis s p)) := by
  st_open st
  all_goals first | (left; vis_same; done) | skip
  all_goals
    vis_open hR hF hL
    have kf : s.life (s.th t).old = .linked ∧ s.life (s.th t).node = .priv ∧ s.isB (s.th t).node = false := by
      clear fgn g1 g2 g3 g4 g5
      grind [valid, vz, Pend, HasPos, okp]
    obtain ⟨k1, k2, k3⟩ := kf
    have hpL := (g2 _).mpr k1
    have hnL : (s.th t).node ∉ s.L := fun h => by have := (g2 _).mp h; rw [k2] at this; cases this
    have hne : (s.th t).old ≠ (s.th t).node := fun e => hnL (e ▸ hpL)
    right; intro p
    simp only [vis, e_L, e_isB, e_nxt, mem_insAfter hpL, upd]
    clear ftt rtt fgn
    by_cases h1 : p = (s.th t).old <;> by_cases h2 : p = (s.th t).node <;> simp only [h1, h2, if_true, if_false] <;> grind

set_option hygiene false in
macro "vis_flag" hR:ident hF:ident hL:ident : tactic => `(tactic|
  (vis_open $hR $hF $hL
   intro p
   simp only [vis, e_L, e_isB, e_nxt, upd]
   clear fgn g1 g2 g3 g4 g5
   by_cases h2 : p = (s.th t).node <;> simp only [h2, if_true, if_false] <;> grind [valid, vz, Worker, okp]))

theorem vis_orRem {c s s' t o} (hc : c.ownerByOr = false) (hR : InvR c s) (hF : InvF c s) (hL : InvL s)
    (st : step c s t .orRem = some (s', o)) :
    VisSame s s' ∨ ∀ p, vis s' p ↔ (p ≠ (s.th t).node ∧ vis s p) := by
  st_open st
  all_goals first | (left; vis_same; done) | skip
  all_goals (right; vis_flag hR hF hL)

theorem vis_xchgOwn {c s s' t o} (hc : c.ownerByOr = false) (hR : InvR c s) (hF : InvF c s) (hL : InvL s)
    (st : step c s t .xchgOwn = some (s', o)) : VisSame s s' := by
  st_open st
  all_goals first | (vis_same; done) | skip
  all_goals vis_flag hR hF hL

theorem vis_orBkt {c s s' t o} (hc : c.ownerByOr = false) (hR : InvR c s) (hF : InvF c s) (hL : InvL s)
    (st : step c s t .orBkt = some (s', o)) : VisSame s s' := by
  st_open st
  all_goals first | (vis_same; done) | skip
  all_goals vis_flag hR hF hL

set_option maxHeartbeats 4000000 in
/-- **lfht_linearizable**, update part: the set of visible nodes changes only at the linearisation points -/
theorem vis_step {c s s' t l o} (hc : c.ownerByOr = false) (r : Reach c s) (st : step c s t l = some (s', o)) :
    VisSame s s' ∨
    (l = .casIns ∧ ∀ p, vis s' p ↔ (p = (s.th t).node ∨ vis s p)) ∨
    (l = .orRem ∧ ∀ p, vis s' p ↔ (p ≠ (s.th t).node ∧ vis s p)) ∨
    (l = .casRepl ∧ ∀ p, vis s' p ↔ (p = (s.th t).node ∨ (p ≠ (s.th t).old ∧ vis s p))) := by
  have ⟨hR, hF, hL⟩ := invRFL_reach hc r
  cases l with
  | casIns => rcases vis_casIns hc hR hF hL st with h | h; exact .inl h; exact .inr (.inl ⟨rfl, h⟩)
  | casGc => exact .inl (vis_casGc hc hR hF hL st)
  | casRepl => rcases vis_casRepl hc hR hF hL st with h | h; exact .inl h; exact .inr (.inr (.inr ⟨rfl, h⟩))
  | orRem => rcases vis_orRem hc hR hF hL st with h | h; exact .inl h; exact .inr (.inr (.inl ⟨rfl, h⟩))
  | xchgOwn => exact .inl (vis_xchgOwn hc hR hF hL st)
  | orBkt => exact .inl (vis_orBkt hc hR hF hL st)
  | orOwn =>
    left; have nd := (hF.t t).1
    st_open st
    all_goals first | (vis_same; done) | (exfalso; apply nd; assumption)
  | tblAlloc base =>
    left
    have fg := hF.g; have g2 := hL.g.2.1
    simp only [GF] at fg
    st_open st
    all_goals simp only [inRange, Bool.and_eq_true, decide_eq_true_eq] at *
    all_goals
      intro p
      simp only [vis, e_L, e_nxt, e_isB]
      have := fg.1 p; simp only [GFn] at this
      have := g2 p
      by_cases hr : base ≤ p ∧ p < base + 2 ^ s.size.log2 <;> simp only [hr, if_true, if_false] <;> grind
  | _ =>
    left
    st_open st
    all_goals vis_same

end UrcuVerif.Lfht.Conc
