import UrcuVerif.Lfht.Conc.GraphStep
import UrcuVerif.Lfht.Conc.Resident
/-!
# Reachability in the pointer graph, backwards across a step (proof-only file)

`rch_step` (in `Resident.lean`) keeps paths to unflagged nodes alive; here: a step creates no new path between
nodes that were already published, and a path follows the split order.
-/
namespace UrcuVerif.Lfht.Conc
open UrcuVerif
set_option linter.unusedSimpArgs false
set_option linter.unusedVariables false

/-- after inserting `n` behind `p`: a path between old nodes existed before -/
theorem rch_insert_back {f g : Nat → Nat} {p n a b} (gp : g p = n) (gn : g n = f p) (go : ∀ x, x ≠ p → x ≠ n → g x = f x)
    (hn : ∀ x, f x ≠ n) (h : Rch g a b) (bn : b ≠ n) : (a ≠ n → Rch f a b) ∧ (a = n → Rch f (f p) b) := by
  induction h with
  | refl a => exact ⟨fun _ => .refl _, fun e => absurd e bn⟩
  | @head a b _ ih =>
    have ih := ih bn
    constructor
    · intro an
      by_cases e : a = p
      · subst e; rw [gp] at ih; exact .head (ih.2 rfl)
      · rw [go a e an] at ih; exact .head (ih.1 (hn a))
    · intro e; subst e; rw [gn] at ih; exact ih.1 (hn p)

/-- after inserting `n` behind `p`: a path to `n` is a path to `p` -/
theorem rch_insert_new {f g : Nat → Nat} {p n a b} (gp : g p = n) (go : ∀ x, x ≠ p → x ≠ n → g x = f x)
    (hn : ∀ x, f x ≠ n) (h : Rch g a b) (bn : b = n) (an : a ≠ n) : Rch f a p := by
  induction h with
  | refl a => exact absurd bn an
  | @head a b _ ih =>
    by_cases e : a = p
    · subst e; exact .refl _
    · rw [go a e an] at ih; exact .head (ih bn (hn a))

/-- after unlinking `c` behind `p`: every path existed before -/
theorem rch_unlink_back {f g : Nat → Nat} {p c a b} (fp : f p = c) (gp : g p = f c) (go : ∀ x, x ≠ p → g x = f x)
    (h : Rch g a b) : Rch f a b := by
  induction h with
  | refl a => exact .refl _
  | @head a b _ ih =>
    by_cases e : a = p
    · subst e; rw [gp] at ih; exact .head (by rw [fp]; exact .head ih)
    · rw [go a e] at ih; exact .head ih

/-- a step creates no new path between published nodes -/
theorem rch_step_back {c s s' t l o a q} (hc : c.ownerByOr = false) (r : Reach c s) (st : step c s t l = some (s', o))
    (h : Rch (nxp s') a q) (ha : s.life a ≠ .priv) (hq : s.life q ≠ .priv) : Rch (nxp s) a q := by
  have gf := graph_facts hc r
  rcases nxp_step hc r st with h1 | ⟨p, n, i1, i2, i3, i4, i5, i6⟩ | ⟨p, k, u1, u2, u3, u4, u5⟩
  · exact rch_congr (fun x => (h1 x).symm) h
  · have hn : ∀ x, nxp s x ≠ n := by intro x e; have := gf.2.2 x; rw [e, i4] at this; exact this rfl
    exact (rch_insert_back i1 i2 i3 hn h (by intro e; rw [e] at hq; exact hq i4)).1 (by intro e; rw [e] at ha; exact ha i4)
  · exact rch_unlink_back u1 u2 u3 h

/-- a path between published nodes follows the split order -/
theorem rch_ok {c s a b} (hc : c.ownerByOr = false) (r : Reach c s) (h : Rch (nxp s) a b) (va : valid s a) (b0 : b ≠ 0)
    (ne : a ≠ b) : ok s a b := by
  have gf := graph_facts hc r
  have ⟨_, _, hL⟩ := invRFL_reach hc r
  induction h with
  | refl a => exact absurd rfl ne
  | @head a b hh ih =>
    have n0 : nxp s a ≠ 0 := by intro e; rw [e] at hh; exact b0 (rch_fix gf.1 hh)
    have h1 := hL.g.2.2.2.2 a va n0
    by_cases e : nxp s a = b
    · rw [← e]; exact h1
    · exact ok_trans h1 (ih (gf.2.1 a va n0).1 b0 e)

set_option maxHeartbeats 4000000 in
/-- a step of `t` leaves another thread alone, recruits it as a resize helper, or joins it -/
theorem other_thread_pc {c s s' t l o w} (st : step c s t l = some (s', o)) (hut : t ≠ w) :
    s'.th w = s.th w ∨ ((s.th w).pc = .idle ∧ (s'.th w).pc = .hStart) ∨ ((s.th w).pc = .hDone ∧ (s'.th w).pc = .idle) := by
  cases l with
  | spawn v len =>
    st_open st; st_open2
    by_cases e : w = v
    · subst e; right; left
      refine ⟨by grind, ?_⟩
      rw [e_th']; simp only [upd, Ne.symm hut, if_false, if_true]; exact ypc
    · left; rw [e_th']; simp [upd, Ne.symm hut, e]
  | join v =>
    st_open st; st_open2
    by_cases e : w = v
    · subst e; right; right
      refine ⟨by grind, ?_⟩
      rw [e_th']; simp only [upd, Ne.symm hut, if_false, if_true]; exact ypc
    · left; rw [e_th']; simp [upd, Ne.symm hut, e]
  | _ =>
    st_open st
    all_goals (left; rw [e_th']; simp [upd, Ne.symm hut])

set_option maxHeartbeats 4000000 in
/-- a step of `t` does not touch the iterator of another thread -/
theorem other_thread_itx {c s s' t l o w} (st : step c s t l = some (s', o)) (hut : t ≠ w) :
    (s'.th w).itx = (s.th w).itx := by
  cases l with
  | spawn v len =>
    st_open st; st_open2
    rw [e_th']; simp only [upd, Ne.symm hut, if_false]; split <;> simp_all
  | join v =>
    st_open st; st_open2
    rw [e_th']; simp only [upd, Ne.symm hut, if_false]; split <;> simp_all
  | _ =>
    st_open st
    all_goals (rw [e_th']; simp [upd, Ne.symm hut])

/-- `reclaim` touches no thread -/
theorem reclaim_th {c s s' t p o} (st : step c s t (.reclaim p) = some (s', o)) : s'.th = s.th := by
  simp only [step, stepRz] at st
  split at st
  · cases st
  · split at st
    · split at st
      · cases st; rfl
      · cases st
    · cases st

end UrcuVerif.Lfht.Conc
