import UrcuVerif.Lfht.Conc.Mark1
/-!
# Concurrent rculfhash — `no_two_visible`: the traversing thread's own steps (proof-only file)
-/
namespace UrcuVerif.Lfht.Conc
open UrcuVerif
set_option linter.unusedSimpArgs false
set_option linter.unusedVariables false

/-- `Mark` only looks at the position of the traversal and at the node it is about to return -/
theorem mark_congr {k hk s x x' p} (h : Mark k hk s x p) (e : wpos x' = wpos x)
    (hw : x'.pc = .wAssert → x'.wk ≠ .dupAdd → x.pc = .wAssert ∧ x.wk ≠ .dupAdd ∧ x'.cur = x.cur)
    (hp : x'.pc ≠ .lSize ∧ x'.pc ≠ .lHead ∧ x'.pc ≠ .fHead) : Mark k hk s x' p := by
  obtain ⟨m1, m2, m3, m4, m5, m6⟩ := h
  refine ⟨m1, by rw [e]; exact m2, by rw [e]; exact m3, by rw [e]; exact m4, ?_, hp⟩
  intro h1 h2 h3
  obtain ⟨a, b, c⟩ := hw h1 h2
  rw [c] at h3 ⊢; exact m5 a b h3

/-- the traversal moves one node forward, or ends -/
theorem mark_move {c k hk s x x' p} (hc : c.ownerByOr = false) (r : Reach c s) (h : Mark k hk s x p)
    (va : wpos x ≠ 0 → valid s (wpos x)) (e : wpos x' = nxp s (wpos x) ∨ wpos x' = 0)
    (hw : x'.pc = .wAssert → x'.wk ≠ .dupAdd → s.key x'.cur = k → x'.cur = p)
    (hp : x'.pc ≠ .lSize ∧ x'.pc ≠ .lHead ∧ x'.pc ≠ .fHead) : Mark k hk s x' p := by
  have gf := graph_facts hc r
  have ⟨_, hF, _⟩ := invRFL_reach hc r
  obtain ⟨m1, m2, m3, m4, m5, m6⟩ := h
  have p0 : p ≠ 0 := by intro e; rw [e] at m1; exact m1.1 hF.g.2.1
  rcases e with e | e
  · refine ⟨m1, by rw [e]; exact nonlow_next hc r m2 va, ?_, ?_, hw, hp⟩
    · rw [e]; intro h; exact m3 (.head h)
    · rw [e]; intro y y0 yb yk yp hr; exact m4 y y0 yb yk yp (.head hr)
  · refine ⟨m1, by rw [e]; exact .inl rfl, ?_, ?_, hw, hp⟩
    · rw [e]; intro h; exact p0 (rch_fix gf.1 h)
    · rw [e]; intro y y0 _ _ _ hr; exact absurd (rch_fix gf.1 hr) y0

set_option hygiene false in
/-- a branch in which the traversal does not move -/
macro "mk_same" : tactic => `(tactic|
  (have e1 : s'.th t = x' := by rw [e_th']; simp [upd]
   rw [e1]
   refine ⟨mark_congr h1 ?_ ?_ ?_, ?_⟩
   · (try simp only [wpos, xpc, xwk, xcur, xwnx, xitx]); (try grind)
   · (try simp only [xpc, xwk, xcur]); (try grind)
   · (try simp only [xpc]); (try grind)
   · intro q w ho; rw [← e_out] at ho
     first | (cases ho; done) | (cases ho; intro h; exact absurd rfl h) | (simp at ho; grind)))

set_option hygiene false in
/-- a branch in which the traversal moves one node forward or ends -/
macro "mk_move" : tactic => `(tactic|
  (have e1 : s'.th t = x' := by rw [e_th']; simp [upd]
   rw [e1]
   have enx : nxp s' = nxp s := by funext a; simp only [nxp, e_nxt]
   have hgb := (hF.g.1 (s.th t).cur).2.2.2.2.1
   have hm4 := h1.2.2.2.1 (s.th t).cur
   refine ⟨mark_move hc r' h1 (fun h0 => valid_step hc r st0 (wpos_valid hc r h0)) ?_ ?_ ?_, ?_⟩
   · (try simp only [wpos, xpc, xwk, xcur, xwnx, xitx, enx, nxp, e_nxt]); (try grind)
   · (try simp only [xpc, xwk, xcur, e_key, e_isB, e_nxt, nxp, enx] at hm4 ⊢); (try grind [found])
   · (try simp only [xpc]); (try grind)
   · intro q w ho; rw [← e_out] at ho
     first | (cases ho; done) | (cases ho; intro h; exact absurd rfl h) | (simp at ho; grind)))

set_option maxHeartbeats 4000000 in
/-- the traversing thread's own steps -/
theorem mark_self {c k hk s s' t l o p} (hc : c.ownerByOr = false) (r : Reach c s) (hK : InvK k hk s)
    (st : step c s t l = some (s', o)) (hm : Mark k hk s (s.th t) p) (hnr : ¬ Restart l) :
    Mark k hk s' (s'.th t) p ∧ ∀ q w, o = .iter q w → q ≠ 0 → s.key q = k → q = p := by
  have r' : Reach c s' := .step r st
  have h1 := mark_other hc r st hK hm
  have ⟨hR, hF, hL⟩ := invRFL_reach hc r
  have ncr := no_crash hc r (invS_reach hc r) st
  have c0 : ((s.th t).pc = .wNext ∨ (s.th t).pc = .wAssert) → (s.th t).cur ≠ 0 := by
    intro h e; have := (hF.t t).2.2.2.2.2.2.2.2.2.2.2.2.1 h; rw [e] at this; exact this.1 hF.g.2.1
  have lwk := (hR.t t).2.2.2.2.2.2.1
  have m5 := hm.2.2.2.2.1
  have m6 := hm.2.2.2.2.2
  have hfound : (s.th t).pc = .wNext → (s.th t).wk ≠ .dupAdd → found s (s.th t) (s.nxt (s.th t).cur) = true →
      s.key (s.th t).cur = k → (s.th t).cur = p := by
    intro a b f hk
    false_or_by_contra; rename_i hne
    have vc := (hF.t t).2.2.2.2.2.2.2.2.2.2.2.2.1 (.inl a)
    have gb := (hF.g.1 (s.th t).cur).2.2.2.2.1 vc
    have fr : (s.nxt (s.th t).cur).rem = false ∧ (s.nxt (s.th t).cur).bkt = false := by simp only [found] at f; grind
    have := hm.2.2.2.1 (s.th t).cur (c0 (.inl a)) (by rw [← gb]; exact fr.2) hk hne (by
      have : wpos (s.th t) = (s.th t).cur := by simp [wpos, a, b]
      rw [this]; exact .refl _)
    rw [fr.1] at this; cases this
  have st0 := st
  cases l with
  | runlock => exact absurd trivial hnr
  | callFirst => exact absurd trivial hnr
  | callLookup h k' => exact absurd trivial hnr
  | reclaim p' =>
    have : s'.th = s.th := reclaim_th st
    rw [this]; refine ⟨h1, ?_⟩
    intro q w ho
    simp only [step, stepRz] at st
    split at st
    · cases st
    · split at st
      · split at st
        · cases st; cases ho
        · cases st
      · cases st
  | spawn v len => st_open st; st_open2; all_goals mk_same
  | join v => st_open st; st_open2; all_goals mk_same
  | _ =>
    st_open st
    all_goals
      first
        | (exfalso; exact ncr e_out.symm; done)
        | (mk_same; done)
        | (exfalso; grind; done)
        | (mk_move; done)
        | (by_cases hwk : (s.th t).wk = .dupAdd
           · mk_same
           · mk_move)

end UrcuVerif.Lfht.Conc
