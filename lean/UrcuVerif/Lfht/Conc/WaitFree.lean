import UrcuVerif.Lfht.Conc.InvU
/-!
# Concurrent rculfhash — lookups and traversals are wait-free (C17, lfht facet) (proof-only file)

Solo run of a walker (all other threads frozen anywhere): every hop moves to a node with a strictly smaller
measure `wmu` (linked node: number of nodes of `L` from it to the end; unlinked node: `|L| + 1 +` the number of
nodes unlinked later — frozen edges point forward in time), so the walk returns within `wmu + O(1)` own steps.
-/
namespace UrcuVerif.Lfht.Conc
open UrcuVerif
set_option linter.unusedSimpArgs false
set_option linter.unusedVariables false

/-- number of elements of `l` from the first occurrence of `p` on (0 if absent) -/
def idxFrom : List Nat → Nat → Nat
  | [], _ => 0
  | a :: l, p => if a = p then l.length + 1 else idxFrom l p

/-- number of nodes unlinked after `p` was -/
def later (s : State) (p : Nat) : Nat :=
  (List.range s.hi).countP fun q => s.life q == .unlinked && decide (s.unlAt p < s.unlAt q)

/-- hops a walker standing on `p` can still make -/
def wmu (s : State) (p : Nat) : Nat :=
  if p = 0 then 0 else if s.life p = .linked then idxFrom s.L p
  else if s.life p = .unlinked then s.L.length + 1 + later s p else 0

theorem idxFrom_le (l : List Nat) (p : Nat) : idxFrom l p ≤ l.length := by
  induction l with
  | nil => simp [idxFrom]
  | cons a l ih => simp only [idxFrom]; split <;> simp <;> omega

theorem idxFrom_split {l1 l2 : List Nat} {p : Nat} (h : p ∉ l1) : idxFrom (l1 ++ p :: l2) p = l2.length + 1 := by
  induction l1 with
  | nil => simp [idxFrom]
  | cons a l1 ih =>
    have : a ≠ p := fun e => h (by simp [e])
    simp only [List.cons_append, idxFrom, this, if_false]
    exact ih (fun hx => h (List.mem_cons_of_mem _ hx))

theorem countP_lt {P Q : Nat → Bool} {l : List Nat} {x : Nat} (hpq : ∀ y, P y = true → Q y = true) (hx : x ∈ l)
    (hq : Q x = true) (hp : P x = false) : l.countP P < l.countP Q := by
  induction l with
  | nil => simp at hx
  | cons a l ih =>
    have hle : l.countP P ≤ l.countP Q := List.countP_mono_left (fun y _ h => hpq y h)
    rcases List.mem_cons.mp hx with rfl | hx'
    · simp only [List.countP_cons, hq, hp, if_true]; simp; omega
    · have := ih hx'
      simp only [List.countP_cons]
      by_cases h1 : P a = true
      · simp [h1, hpq a h1]; omega
      · simp [h1]; split <;> omega

/-- **every hop decreases the measure** -/
theorem wmu_hop {c s p} (hc : c.ownerByOr = false) (r : Reach c s) (hv : valid s p) (p0 : p ≠ 0) :
    wmu s (nxp s p) < wmu s p := by
  have ⟨hR, hF, hL⟩ := invRFL_reach hc r
  have ⟨u1, u2⟩ := invU_reach hc r
  obtain ⟨g1, g2, g3, g4, g5⟩ := hL.g
  have fg := hF.g; simp only [GF] at fg
  have hlife : s.life p = .linked ∨ s.life p = .unlinked := by
    simp only [valid] at hv; cases h : s.life p <;> simp_all
  rcases hlife with hl | hl
  · -- linked: successor in `L`
    have hpL := (g2 p).mpr hl
    obtain ⟨l1, l2, hsp⟩ := List.append_of_mem hpL
    have hp1 : p ∉ l1 := by
      intro hx; have nd := g1; rw [hsp] at nd
      exact (List.nodup_append.mp nd).2.2 p hx p (by simp) rfl
    have hm : wmu s p = l2.length + 1 := by
      simp only [wmu, p0, if_false, hl, if_true]; rw [hsp]; exact idxFrom_split hp1
    rw [hm]
    cases l2 with
    | nil =>
      have := chn_last (hsp ▸ g3); simp only [this, wmu, if_true]; omega
    | cons b l2' =>
      have hb := chn_succ (hsp ▸ g3)
      have hbL : b ∈ s.L := by rw [hsp]; simp
      have hbl := (g2 b).mp hbL
      have b0 : b ≠ 0 := by intro e; rw [e, fg.2.1] at hbl; cases hbl
      have hb1 : b ∉ l1 ++ [p] := by
        intro hx; have nd := g1; rw [hsp] at nd
        have : (l1 ++ p :: b :: l2') = (l1 ++ [p]) ++ b :: l2' := by simp
        rw [this] at nd
        exact (List.nodup_append.mp nd).2.2 b hx b (by simp) rfl
      have : s.L = (l1 ++ [p]) ++ b :: l2' := by rw [hsp]; simp
      rw [hb]; simp only [wmu, b0, if_false, hbl, if_true]
      rw [this, idxFrom_split hb1]; simp
  · -- unlinked: frozen edge
    have hm : wmu s p = s.L.length + 1 + later s p := by
      simp only [wmu, p0, if_false, hl]; simp
    rw [hm]
    rcases u2 p hl with h | h | ⟨h1, h2⟩
    · simp only [h, wmu, if_true]; omega
    · by_cases x0 : nxp s p = 0
      · simp only [x0, wmu, if_true]; omega
      · simp only [wmu, x0, if_false, h, if_true]; have := idxFrom_le s.L (nxp s p); omega
    · have x0 : nxp s p ≠ 0 := by intro e; rw [e, fg.2.1] at h1; cases h1
      have hxhi : nxp s p < s.hi := by
        rcases Nat.lt_or_ge (nxp s p) s.hi with h | h
        · exact h
        · have := (fg.1 (nxp s p)).1 h; rw [this] at h1; cases h1
      simp only [wmu, x0, if_false, h1]; simp
      simp only [later]
      refine countP_lt (x := nxp s p) ?_ (List.mem_range.mpr hxhi) ?_ ?_
      · intro y hy; simp only [Bool.and_eq_true, beq_iff_eq, decide_eq_true_eq] at hy ⊢; exact ⟨hy.1, by omega⟩
      · simp only [Bool.and_eq_true, beq_iff_eq, decide_eq_true_eq]; exact ⟨h1, h2⟩
      · simp

/-- the only step a walker can take at its pc -/
def walkLabel (x : Thr) : Option Label :=
  match x.pc with
  | .lSize => some .ldSize | .lHead => some .ldHeadL | .fHead => some .ldFirst
  | .wNext => some .ldWalk | .wAssert => some .ldAssertW
  | _ => none

/-- `k` consecutive steps of thread `t` alone (every other thread frozen wherever it is) -/
def solo (c : Cfg) (t : Nat) : Nat → State → Option State
  | 0, s => some s
  | k + 1, s => match walkLabel (s.th t) with
    | some l => match step c s t l with
      | some (s', _) => solo c t k s'
      | none => none
    | none => none

/-- nothing on the walker's way has been reclaimed (memory safety, the `reclaim_safe` obligation) -/
def NoFreedAhead (s : State) (a : Nat) : Prop := ∀ p, Rch (nxp s) a p → p ≠ 0 → s.freed p = false

theorem solo_succ {c t k s l s' o} (hl : walkLabel (s.th t) = some l) (st : step c s t l = some (s', o)) :
    solo c t (k + 1) s = solo c t k s' := by
  simp only [solo, hl, st]

/-- the step changed nothing the walker's measure depends on -/
def SameGraph (s s' : State) : Prop :=
  s'.nxt = s.nxt ∧ s'.life = s.life ∧ s'.L = s.L ∧ s'.freed = s.freed ∧ s'.unlAt = s.unlAt ∧ s'.hi = s.hi

theorem wmu_same {s s' : State} (h : SameGraph s s') (p : Nat) : wmu s' p = wmu s p := by
  obtain ⟨_, h2, h3, _, h5, h6⟩ := h
  simp only [wmu, later, h2, h3, h5, h6]

theorem nfa_same {s s' : State} (h : SameGraph s s') (a : Nat) (g : NoFreedAhead s a) : NoFreedAhead s' a := by
  obtain ⟨h1, _, _, h4, _, _⟩ := h
  have : nxp s' = nxp s := by funext x; simp only [nxp, h1]
  intro p hp p0; rw [h4]; exact g p (this ▸ hp) p0

set_option maxHeartbeats 4000000 in
/-- one load of the walk loop -/
theorem walk_one {c s t} (ht : t < c.n) (hp : (s.th t).pc = .wNext) (hw : (s.th t).wk ≠ .dupAdd)
    (hok : okp s (s.th t).cur = true) :
    ∃ s' o, step c s t .ldWalk = some (s', o) ∧ SameGraph s s' ∧ (s'.th t).wk = (s.th t).wk ∧
      ((s'.th t).pc = .idle ∨ ((s'.th t).pc = .wAssert ∧ (s'.th t).cur = (s.th t).cur) ∨
       ((s'.th t).pc = .wNext ∧ (s'.th t).cur = nxp s (s.th t).cur)) := by
  cases hst : step c s t .ldWalk with
  | none =>
    exfalso
    simp only [step, stepWalk, Nat.not_le.mpr ht, if_false, hp, if_true, hok, Bool.not_true, Bool.false_eq_true,
      walkPos, walkRet] at hst
    repeat' (split at hst)
    all_goals simp at hst
  | some res =>
    obtain ⟨s', o⟩ := res
    refine ⟨s', o, rfl, ?_⟩
    have st := hst
    st_open st
    all_goals (have e1 : s'.th t = x' := by rw [e_th']; simp [upd])
    all_goals first | (exfalso; simp_all; done) | skip
    all_goals
      refine ⟨⟨e_nxt, e_life, e_L, e_freed, e_unlAt, e_hi⟩, by rw [e1, xwk], ?_⟩
      rw [e1]
      first
        | (left; exact xpc)
        | (right; left; exact ⟨xpc, xcur⟩)
        | (right; right; exact ⟨xpc, by simp only [nxp]; exact xcur⟩)
        | (exfalso; simp_all)

set_option maxHeartbeats 4000000 in
/-- the assertion load after a match: the call returns -/
theorem assert_one {c s t} (ht : t < c.n) (hp : (s.th t).pc = .wAssert) (hw : (s.th t).wk ≠ .dupAdd)
    (hok : okp s (s.th t).cur = true) :
    ∃ s' o, step c s t .ldAssertW = some (s', o) ∧ (s'.th t).pc = .idle := by
  cases hst : step c s t .ldAssertW with
  | none =>
    exfalso
    simp only [step, stepWalk, Nat.not_le.mpr ht, if_false, hp, if_true, hok, Bool.not_true, Bool.false_eq_true,
      walkRet] at hst
    repeat' (split at hst)
    all_goals simp at hst
  | some res =>
    obtain ⟨s', o⟩ := res
    refine ⟨s', o, rfl, ?_⟩
    have st := hst
    st_open st
    all_goals (have e1 : s'.th t = x' := by rw [e_th']; simp [upd])
    all_goals first | (exfalso; simp_all; done) | (rw [e1]; exact xpc)

/-- from the loop head of a walk (`wNext`), alone, the call returns within `wmu + 1` own steps -/
theorem walk_terminates {c} (hc : c.ownerByOr = false) (t : Nat) (ht : t < c.n) :
    ∀ n s, Reach c s → (s.th t).pc = .wNext → (s.th t).wk ≠ .dupAdd → wmu s (s.th t).cur ≤ n →
      NoFreedAhead s (s.th t).cur →
      ∃ k s', k ≤ n + 1 ∧ solo c t k s = some s' ∧ (s'.th t).pc = .idle := by
  intro n
  induction n with
  | zero =>
    intro s r hp hw hm hf
    exfalso
    have ⟨_, hF, _⟩ := invRFL_reach hc r
    have ft := hF.t t; simp only [TF] at ft
    have hv := ft.2.2.2.2.2.2.2.2.2.2.2.2.1 (.inl hp)
    have c0 : (s.th t).cur ≠ 0 := by intro e; rw [e] at hv; exact hv.1 hF.g.2.1
    have := wmu_hop hc r hv c0
    omega
  | succ n ih =>
    intro s r hp hw hm hf
    have ⟨hR, hF, hL⟩ := invRFL_reach hc r
    have ft := hF.t t; simp only [TF] at ft
    have hv := ft.2.2.2.2.2.2.2.2.2.2.2.2.1 (.inl hp)
    have c0 : (s.th t).cur ≠ 0 := by intro e; rw [e] at hv; exact hv.1 hF.g.2.1
    have okof : ∀ (s : State) a, valid s a → s.freed a = false → a ≠ 0 → okp s a = true := by
      intro s a hv hfr a0
      simp only [valid] at hv
      simp only [okp, hfr]; cases h : s.life a <;> simp_all
    have hok := okof s _ hv (hf _ (.refl _) c0) c0
    have hlab : walkLabel (s.th t) = some .ldWalk := by simp only [walkLabel, hp]
    have hhop := wmu_hop hc r hv c0
    obtain ⟨s1, o, hst, hsg, hwk, hcase⟩ := walk_one (c := c) ht hp hw hok
    have r1 : Reach c s1 := .step r hst
    rcases hcase with h | ⟨h1, h2⟩ | ⟨h1, h2⟩
    · exact ⟨1, s1, by omega, by rw [solo_succ hlab hst]; rfl, h⟩
    · have hv1 : valid s1 (s1.th t).cur := by rw [h2]; simpa only [valid, hsg.2.1] using hv
      have hok1 := okof s1 _ hv1 (by rw [h2, hsg.2.2.2.1]; exact hf _ (.refl _) c0) (by rw [h2]; exact c0)
      obtain ⟨s2, o2, hst2, hp2⟩ := assert_one (c := c) ht h1 (by rw [hwk]; exact hw) hok1
      have hlab2 : walkLabel (s1.th t) = some .ldAssertW := by simp only [walkLabel, h1]
      refine ⟨2, s2, by omega, ?_, hp2⟩
      rw [solo_succ hlab hst, solo_succ hlab2 hst2]; rfl
    · have hm1 : wmu s1 (s1.th t).cur ≤ n := by rw [h2, wmu_same hsg]; omega
      have hf1 : NoFreedAhead s1 (s1.th t).cur := by
        rw [h2]; apply nfa_same hsg
        intro p hp' p0; exact hf p (.head hp') p0
      obtain ⟨k, s2, hk, hs2, hp2⟩ := ih s1 r1 h1 (by rw [hwk]; exact hw) hm1 hf1
      exact ⟨k + 1, s2, by omega, by rw [solo_succ hlab hst]; exact hs2, hp2⟩

/-- number of unlinked (not yet reclaimed from the identifier space) nodes -/
def unl (s : State) : Nat := (List.range s.hi).countP fun q => s.life q == .unlinked

theorem wmu_le (s : State) (p : Nat) : wmu s p ≤ s.L.length + 1 + unl s := by
  simp only [wmu]
  split
  · omega
  · split
    · have := idxFrom_le s.L p; omega
    · split
      · have : later s p ≤ unl s := by
          simp only [later, unl]
          exact List.countP_mono_left (fun y _ h => by simp only [Bool.and_eq_true] at h; exact h.1)
        omega
      · omega

set_option maxHeartbeats 4000000 in
/-- the entry loads of `cds_lfht_lookup` / `cds_lfht_first`: one step each, then the walk loop or the return -/
theorem entry_one {c s t} (hc : c.ownerByOr = false) (r : Reach c s) (ht : t < c.n) (hw : (s.th t).wk ≠ .dupAdd) :
    ((s.th t).pc = .lSize →
      ∃ s' o, step c s t .ldSize = some (s', o) ∧ SameGraph s s' ∧ (s'.th t).wk = (s.th t).wk ∧ (s'.th t).pc = .lHead ∧
        (s'.th t).bkt = s.tbl ((s.th t).hs % s.size)) ∧
    ((s.th t).pc = .lHead → okp s (s.th t).bkt = true →
      ∃ s' o, step c s t .ldHeadL = some (s', o) ∧ SameGraph s s' ∧ (s'.th t).wk = (s.th t).wk ∧
        ((s'.th t).pc = .idle ∨ ((s'.th t).pc = .wNext ∧ (s'.th t).cur = nxp s (s.th t).bkt))) ∧
    ((s.th t).pc = .fHead → okp s (s.tbl 0) = true →
      ∃ s' o, step c s t .ldFirst = some (s', o) ∧ SameGraph s s' ∧ (s'.th t).wk = (s.th t).wk ∧
        ((s'.th t).pc = .idle ∨ ((s'.th t).pc = .wNext ∧ (s'.th t).cur = nxp s (s.tbl 0)))) := by
  refine ⟨?_, ?_, ?_⟩
  · intro hp
    cases hst : step c s t .ldSize with
    | none => exfalso; simp [step, stepAdd, Nat.not_le.mpr ht, hp] at hst
    | some res =>
      obtain ⟨s', o⟩ := res
      refine ⟨s', o, rfl, ?_⟩
      have st := hst
      st_open st
      all_goals (have e1 : s'.th t = x' := by rw [e_th']; simp [upd])
      all_goals first | (exfalso; simp_all; done) | skip
      all_goals exact ⟨⟨e_nxt, e_life, e_L, e_freed, e_unlAt, e_hi⟩, by rw [e1, xwk], by rw [e1, xpc], by rw [e1, xbkt]⟩
  · intro hp hok
    cases hst : step c s t .ldHeadL with
    | none =>
      exfalso
      simp only [step, stepWalk, Nat.not_le.mpr ht, if_false, hp, if_true, hok, Bool.not_true, Bool.false_eq_true,
        walkPos, walkRet] at hst
      repeat' (split at hst)
      all_goals simp at hst
    | some res =>
      obtain ⟨s', o⟩ := res
      refine ⟨s', o, rfl, ?_⟩
      have st := hst
      st_open st
      all_goals (have e1 : s'.th t = x' := by rw [e_th']; simp [upd])
      all_goals first | (exfalso; simp_all; done) | skip
      all_goals
        refine ⟨⟨e_nxt, e_life, e_L, e_freed, e_unlAt, e_hi⟩, by rw [e1, xwk], ?_⟩
        rw [e1]
        first
          | (left; exact xpc)
          | (right; exact ⟨xpc, by simp only [nxp]; exact xcur⟩)
          | (exfalso; simp_all)
  · intro hp hok
    cases hst : step c s t .ldFirst with
    | none =>
      exfalso
      simp only [step, stepWalk, Nat.not_le.mpr ht, if_false, hp, if_true, hok, Bool.not_true, Bool.false_eq_true,
        walkPos, walkRet] at hst
      repeat' (split at hst)
      all_goals simp at hst
    | some res =>
      obtain ⟨s', o⟩ := res
      refine ⟨s', o, rfl, ?_⟩
      have st := hst
      st_open st
      all_goals (have e1 : s'.th t = x' := by rw [e_th']; simp [upd])
      all_goals first | (exfalso; simp_all; done) | skip
      all_goals
        refine ⟨⟨e_nxt, e_life, e_L, e_freed, e_unlAt, e_hi⟩, by rw [e1, xwk], ?_⟩
        rw [e1]
        first
          | (left; exact xpc)
          | (right; exact ⟨xpc, by simp only [nxp]; exact xcur⟩)
          | (exfalso; simp_all)

/-- where a walker that has not entered the loop yet will start -/
def wstart (s : State) (x : Thr) : Nat :=
  match x.pc with
  | .lSize => s.tbl (x.hs % s.size)
  | .lHead => x.bkt
  | .fHead => s.tbl 0
  | _ => x.cur

/-- **lookup / first / next / next_duplicate are wait-free**: from ANY reachable state — the other threads stopped
wherever they are, in the middle of adds, removals, helping, resizes — a thread inside one of these calls
returns within `|L| + (number of unlinked nodes) + 5` of its own steps. -/
theorem walker_wait_free {c s t} (hc : c.ownerByOr = false) (r : Reach c s) (ht : t < c.n)
    (hw : (s.th t).wk ≠ .dupAdd)
    (hpc : (s.th t).pc = .lSize ∨ (s.th t).pc = .lHead ∨ (s.th t).pc = .fHead ∨ (s.th t).pc = .wNext ∨ (s.th t).pc = .wAssert)
    (hsafe : NoFreedAhead s (wstart s (s.th t))) :
    ∃ k s', k ≤ s.L.length + unl s + 5 ∧ solo c t k s = some s' ∧ (s'.th t).pc = .idle := by
  have ⟨hR, hF, hL⟩ := invRFL_reach hc r
  have okof : ∀ (s : State) a, valid s a → s.freed a = false → a ≠ 0 → okp s a = true := by
    intro s a hv hfr a0
    simp only [valid] at hv
    simp only [okp, hfr]; cases h : s.life a <;> simp_all
  have fz := hF.g.2.1
  -- from the loop head
  have loop : ∀ s, Reach c s → (s.th t).pc = .wNext → (s.th t).wk ≠ .dupAdd → NoFreedAhead s (s.th t).cur →
      ∃ k s', k ≤ s.L.length + unl s + 2 ∧ solo c t k s = some s' ∧ (s'.th t).pc = .idle := by
    intro s r hp hw hf
    obtain ⟨k, s', hk, h1, h2⟩ := walk_terminates hc t ht _ s r hp hw (wmu_le s _) hf
    exact ⟨k, s', by omega, h1, h2⟩
  have live_ok : ∀ (s : State), InvF c s → ∀ B, s.life B = .linked → NoFreedAhead s B → okp s B = true := by
    intro s hF B hl hf
    have b0 : B ≠ 0 := by intro e; rw [e, hF.g.2.1] at hl; cases hl
    exact okof s B (by simp [valid, hl]) (hf B (.refl _) b0) b0
  rcases hpc with hp | hp | hp | hp | hp
  · -- lSize
    obtain ⟨s1, o1, st1, sg1, wk1, p1, b1⟩ := (entry_one hc r ht hw).1 hp
    have r1 : Reach c s1 := .step r st1
    have ⟨hR1, hF1, _⟩ := invRFL_reach hc r1
    have hl1 : walkLabel (s.th t) = some .ldSize := by simp only [walkLabel, hp]
    have hb := ((hF1.t t).2.2.2.2.2.2.2.2.2.2.2.2.2.2.1 p1)
    have hbl : s1.life (s1.th t).bkt = .linked := by
      have rl := rlim_live hR1 hF1
      simp only [HB, Lim] at hb
      have := (rl.2 (s1.hsh (s1.th t).bkt) (by omega)).2
      rw [hb.2.2.1] at this; exact this.1
    have hs1 : NoFreedAhead s1 (s1.th t).bkt := by
      rw [b1]; apply nfa_same sg1; simpa only [wstart, hp] using hsafe
    obtain ⟨s2, o2, st2, sg2, wk2, c2⟩ := (entry_one hc r1 ht (by rw [wk1]; exact hw)).2.1 p1 (live_ok s1 hF1 _ hbl hs1)
    have hl2 : walkLabel (s1.th t) = some .ldHeadL := by simp only [walkLabel, p1]
    have r2 : Reach c s2 := .step r1 st2
    have eL : s2.L.length + unl s2 = s.L.length + unl s := by
      simp only [unl, sg2.2.2.1, sg2.2.1, sg2.2.2.2.2.2, sg1.2.2.1, sg1.2.1, sg1.2.2.2.2.2]
    rcases c2 with h | ⟨h1, h2⟩
    · exact ⟨2, s2, by omega, by rw [solo_succ hl1 st1, solo_succ hl2 st2]; rfl, h⟩
    · have hf2 : NoFreedAhead s2 (s2.th t).cur := by
        rw [h2]; apply nfa_same sg2; intro p hp' p0; exact hs1 p (.head hp') p0
      obtain ⟨k, s3, hk, h3, h4⟩ := loop s2 r2 h1 (by rw [wk2, wk1]; exact hw) hf2
      exact ⟨k + 2, s3, by omega, by rw [solo_succ hl1 st1, solo_succ hl2 st2]; exact h3, h4⟩
  · -- lHead
    have hb := ((hF.t t).2.2.2.2.2.2.2.2.2.2.2.2.2.2.1 hp)
    have hbl : s.life (s.th t).bkt = .linked := by
      have rl := rlim_live hR hF
      simp only [HB, Lim] at hb
      have := (rl.2 (s.hsh (s.th t).bkt) (by omega)).2
      rw [hb.2.2.1] at this; exact this.1
    have hs0 : NoFreedAhead s (s.th t).bkt := by simpa only [wstart, hp] using hsafe
    obtain ⟨s2, o2, st2, sg2, wk2, c2⟩ := (entry_one hc r ht hw).2.1 hp (live_ok s hF _ hbl hs0)
    have hl2 : walkLabel (s.th t) = some .ldHeadL := by simp only [walkLabel, hp]
    have r2 : Reach c s2 := .step r st2
    have eL : s2.L.length + unl s2 = s.L.length + unl s := by
      simp only [unl, sg2.2.2.1, sg2.2.1, sg2.2.2.2.2.2]
    rcases c2 with h | ⟨h1, h2⟩
    · exact ⟨1, s2, by omega, by rw [solo_succ hl2 st2]; rfl, h⟩
    · have hf2 : NoFreedAhead s2 (s2.th t).cur := by
        rw [h2]; apply nfa_same sg2; intro p hp' p0; exact hs0 p (.head hp') p0
      obtain ⟨k, s3, hk, h3, h4⟩ := loop s2 r2 h1 (by rw [wk2]; exact hw) hf2
      exact ⟨k + 1, s3, by omega, by rw [solo_succ hl2 st2]; exact h3, h4⟩
  · -- fHead
    have rg := hR.g; simp only [GR] at rg
    have sz0 : 0 < s.size := by have := rg.1.1; have := Nat.two_pow_pos (Nat.log2 s.size); omega
    have hbl : s.life (s.tbl 0) = .linked := (hF.g.2.2.1 0 sz0).1
    have hs0 : NoFreedAhead s (s.tbl 0) := by simpa only [wstart, hp] using hsafe
    obtain ⟨s2, o2, st2, sg2, wk2, c2⟩ := (entry_one hc r ht hw).2.2 hp (live_ok s hF _ hbl hs0)
    have hl2 : walkLabel (s.th t) = some .ldFirst := by simp only [walkLabel, hp]
    have r2 : Reach c s2 := .step r st2
    have eL : s2.L.length + unl s2 = s.L.length + unl s := by
      simp only [unl, sg2.2.2.1, sg2.2.1, sg2.2.2.2.2.2]
    rcases c2 with h | ⟨h1, h2⟩
    · exact ⟨1, s2, by omega, by rw [solo_succ hl2 st2]; rfl, h⟩
    · have hf2 : NoFreedAhead s2 (s2.th t).cur := by
        rw [h2]; apply nfa_same sg2; intro p hp' p0; exact hs0 p (.head hp') p0
      obtain ⟨k, s3, hk, h3, h4⟩ := loop s2 r2 h1 (by rw [wk2]; exact hw) hf2
      exact ⟨k + 1, s3, by omega, by rw [solo_succ hl2 st2]; exact h3, h4⟩
  · -- wNext
    obtain ⟨k, s3, hk, h3, h4⟩ := loop s r hp hw (by simpa only [wstart, hp] using hsafe)
    exact ⟨k, s3, by omega, h3, h4⟩
  · -- wAssert
    have hv := (hF.t t).2.2.2.2.2.2.2.2.2.2.2.2.1 (.inr hp)
    have c0 : (s.th t).cur ≠ 0 := by intro e; rw [e] at hv; exact hv.1 fz
    have hf : NoFreedAhead s (s.th t).cur := by simpa only [wstart, hp] using hsafe
    obtain ⟨s2, o2, st2, p2⟩ := assert_one (c := c) ht hp hw (okof s _ hv (hf _ (.refl _) c0) c0)
    have hl2 : walkLabel (s.th t) = some .ldAssertW := by simp only [walkLabel, hp]
    exact ⟨1, s2, by omega, by rw [solo_succ hl2 st2]; rfl, p2⟩

end UrcuVerif.Lfht.Conc
