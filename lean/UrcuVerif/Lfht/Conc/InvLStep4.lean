import UrcuVerif.Lfht.Conc.InvL
/-! Layer L is preserved by every step (the three CAS, spawn/join) (proof-only file). -/
namespace UrcuVerif.Lfht.Conc
open UrcuVerif
set_option linter.unusedSimpArgs false
set_option linter.unusedVariables false
set_option hygiene false in
/-- threads part of layer L after one of the three CAS (`reverse_hash` and bucket marks unchanged) -/
macro "l_threads" : tactic => `(tactic|
  (intro u
   by_cases hu : u = t
   · have hu' : t = u := hu.symm
     subst hu'
     have e1 : s'.th t = x' := by rw [e_th']; simp [upd]
     rw [e1]
     simp only [TL, Before, DupW, InAdd, ok, e_rev, e_isB, e_key] at ltt ⊢
     clear fgn lg5
     grind [valid, vz, Pend, HasPos, AddPc, GcPc, ZPc, HPc, Worker, InPhase]
   · have e1 : s'.th u = s.th u := by rw [e_th']; simp [upd, hu]
     rw [e1]; simpa only [TL, Before, DupW, InAdd, ok, e_rev, e_isB, e_key] using lt u))

set_option hygiene false in
macro "l_open" hR:ident hF:ident hL:ident : tactic => `(tactic|
  (have ftt := ($hF).t t; have rtt := ($hR).t t; have ltt := ($hL).t t; have fg := ($hF).g; have lg := ($hL).g
   have rg := ($hR).g; have lt := ($hL).t
   simp only [TF, TR, GF, GR] at ftt rtt fg rg
   obtain ⟨fgn, fgz, fgl, fgc⟩ := fg
   have lg5 := lg.2.2.2.2))


set_option maxHeartbeats 4000000 in
theorem invL_casIns {c s s' t o} (hc : c.ownerByOr = false) (hR : InvR c s) (hF : InvF c s) (hL : InvL s)
    (st : step c s t .casIns = some (s', o)) : InvL s' := by
  have pb := fun hw h2 => parent_before hR t hw (s.th t).j (Nat.le_refl _) h2
  have pb1 := fun hw h2 => parent_before hR t hw ((s.th t).j + 1) (Nat.le_succ _) h2
  st_open st
  all_goals first
    | (l_frame hR hF hL [(s.th t).prev, (s.th t).iter.ptr, (s.th t).node]; done)
    | skip
  all_goals
    l_open hR hF hL
    have gp := fgn (s.th t).prev; have gn := fgn (s.th t).node
    have tm := rg.2.2.1 (s.th t).j
    have wf := worker_facts hR t
    simp only [GFn] at gp gn
    have kf : s.life (s.th t).prev = .linked ∧ s.life (s.th t).node = .priv ∧ ok s (s.th t).prev (s.th t).node ∧
        ((s.nxt (s.th t).prev).ptr ≠ 0 → ok s (s.th t).node (s.nxt (s.th t).prev).ptr) ∧
        (s.th t).iter.ptr = (s.nxt (s.th t).prev).ptr := by
      simp only [TL, Before, DupW] at ltt
      clear lt lg lg5 fgn
      grind [valid, vz, Pend, HasPos, Worker, AddPc, InPhase, ok, okp]
    obtain ⟨k1, k2, k3, k4, k5⟩ := kf
    refine ⟨?_, ?_⟩
    · exact GL_insert lg e_nxt e_life e_L e_rev e_isB k5 rfl k1 k2 (by rw [fgz]; simp) k3 k4
    · l_threads

set_option maxHeartbeats 4000000 in
theorem invL_casRepl {c s s' t o} (hc : c.ownerByOr = false) (hR : InvR c s) (hF : InvF c s) (hL : InvL s)
    (st : step c s t .casRepl = some (s', o)) : InvL s' := by
  st_open st
  all_goals first
    | (l_frame hR hF hL [(s.th t).old, (s.th t).node]; done)
    | skip
  all_goals
    l_open hR hF hL
    have go := fgn (s.th t).old; have gn := fgn (s.th t).node; have le := lg5 (s.th t).old
    simp only [GFn] at go gn
    have kf : s.life (s.th t).old = .linked ∧ s.life (s.th t).node = .priv ∧ ok s (s.th t).old (s.th t).node ∧
        ((s.nxt (s.th t).old).ptr ≠ 0 → ok s (s.th t).node (s.nxt (s.th t).old).ptr) ∧
        (s.th t).oldnx.ptr = (s.nxt (s.th t).old).ptr := by
      simp only [TL, Before, DupW] at ltt
      clear lt lg lg5 fgn
      grind [valid, vz, Pend, HasPos, Worker, AddPc, InPhase, ok, okp]
    obtain ⟨k1, k2, k3, k4, k5⟩ := kf
    refine ⟨?_, ?_⟩
    · exact GL_insert lg e_nxt e_life e_L e_rev e_isB k5 rfl k1 k2 (by rw [fgz]; simp) k3 k4
    · l_threads

set_option maxHeartbeats 4000000 in
theorem invL_casGc {c s s' t o} (hc : c.ownerByOr = false) (hR : InvR c s) (hF : InvF c s) (hL : InvL s)
    (st : step c s t .casGc = some (s', o)) : InvL s' := by
  st_open st
  all_goals first
    | (l_frame hR hF hL [(s.th t).prev, (s.th t).iter.ptr, (s.th t).node]; done)
    | skip
  all_goals
    l_open hR hF hL
    have gp := fgn (s.th t).prev; have gc := fgn (s.th t).iter.ptr
    simp only [GFn] at gp gc
    have kf : s.life (s.th t).prev = .linked ∧ (s.nxt (s.th t).prev).ptr = (s.th t).iter.ptr ∧ (s.th t).iter.ptr ≠ 0 ∧
        (s.th t).nx.ptr = (s.nxt (s.th t).iter.ptr).ptr := by
      clear lt lg lg5 fgn ltt
      grind [valid, vz, Pend, HasPos, Worker, AddPc, InPhase, okp]
    obtain ⟨k1, k2, k3, k4⟩ := kf
    refine ⟨?_, ?_⟩
    · exact GL_unlink lg e_nxt e_life e_L e_rev e_isB k4 k1 k2 k3
    · l_threads

set_option hygiene false in
macro "l_sj" hF:ident hL:ident : tactic => `(tactic|
  (have fg := ($hF).g; have lg := ($hL).g; have lt := ($hL).t
   simp only [GF] at fg
   refine ⟨?_, ?_⟩
   · refine GL_frame lg e_L (fun p => by rw [e_nxt]) (fun p => by simp [valid, e_life])
       (fun p _ => by rw [e_rev, e_isB]; exact ⟨rfl, rfl⟩) (fun p hp => ((fg.1 p).2.2.2.1 hp))
   · intro w
     by_cases hw : w = t
     · have hw' : t = w := hw.symm
       subst hw'
       have e1 : s'.th t = x' := by rw [e_th']; simp [upd]
       have hpc : (s.th t).pc = .zPart := by grind
       rw [e1]; have ltt := lt t; simp only [TL, Before, DupW, InAdd, ok, e_rev, e_isB, e_key] at ltt ⊢; grind
     · by_cases hw2 : w = u
       · have hw2' : u = w := hw2.symm
         subst hw2'
         have e1 : s'.th u = y' := by rw [e_th']; simp [upd, hw]
         rw [e1]; have ltu := lt u; simp only [TL, Before, DupW, InAdd, ok, e_rev, e_isB, e_key] at ltu ⊢; grind
       · have e1 : s'.th w = s.th w := by rw [e_th']; simp [upd, hw, hw2]
         rw [e1]; simpa only [TL, Before, DupW, InAdd, ok, e_rev, e_isB, e_key] using lt w))

theorem invL_spawn {c s s' t o u len} (hc : c.ownerByOr = false) (hR : InvR c s) (hF : InvF c s) (hL : InvL s)
    (st : step c s t (.spawn u len) = some (s', o)) : InvL s' := by
  st_open st
  st_open2
  l_sj hF hL

theorem invL_join {c s s' t o u} (hc : c.ownerByOr = false) (hR : InvR c s) (hF : InvF c s) (hL : InvL s)
    (st : step c s t (.join u) = some (s', o)) : InvL s' := by
  st_open st
  st_open2
  l_sj hF hL

end UrcuVerif.Lfht.Conc
