import UrcuVerif.Lfht.Conc.InvR
/-! Layer R is preserved by every step: walks, replace, gc, del (proof-only file). -/
namespace UrcuVerif.Lfht.Conc
open UrcuVerif
set_option linter.unusedSimpArgs false
set_option linter.unusedVariables false

set_option maxHeartbeats 2000000 in
theorem invR_ldWalk {c s s' t o} (h : InvR c s) (st : step c s t .ldWalk = some (s', o)) : InvR c s' := by
  st_open st
  all_goals r_step h

set_option maxHeartbeats 2000000 in
theorem invR_ldAssertW {c s s' t o} (h : InvR c s) (st : step c s t .ldAssertW = some (s', o)) : InvR c s' := by
  st_open st
  all_goals r_step h

set_option maxHeartbeats 2000000 in
theorem invR_ldHeadL {c s s' t o} (h : InvR c s) (st : step c s t .ldHeadL = some (s', o)) : InvR c s' := by
  st_open st
  all_goals r_step h

set_option maxHeartbeats 2000000 in
theorem invR_ldFirst {c s s' t o} (h : InvR c s) (st : step c s t .ldFirst = some (s', o)) : InvR c s' := by
  st_open st
  all_goals r_step h

set_option maxHeartbeats 2000000 in
theorem invR_casRepl {c s s' t o} (h : InvR c s) (st : step c s t .casRepl = some (s', o)) : InvR c s' := by
  st_open st
  all_goals r_step h

set_option maxHeartbeats 2000000 in
theorem invR_ldAssertR {c s s' t o} (h : InvR c s) (st : step c s t .ldAssertR = some (s', o)) : InvR c s' := by
  st_open st
  all_goals r_step h

set_option maxHeartbeats 2000000 in
theorem invR_ldHeadG {c s s' t o} (h : InvR c s) (st : step c s t .ldHeadG = some (s', o)) : InvR c s' := by
  st_open st
  all_goals r_step h

set_option maxHeartbeats 2000000 in
theorem invR_ldNextG {c s s' t o} (h : InvR c s) (st : step c s t .ldNextG = some (s', o)) : InvR c s' := by
  st_open st
  all_goals r_step h

set_option maxHeartbeats 2000000 in
theorem invR_ldDel {c s s' t o} (h : InvR c s) (st : step c s t .ldDel = some (s', o)) : InvR c s' := by
  st_open st
  all_goals r_step h

set_option maxHeartbeats 2000000 in
theorem invR_orRem {c s s' t o} (h : InvR c s) (st : step c s t .orRem = some (s', o)) : InvR c s' := by
  st_open st
  all_goals r_step h

set_option maxHeartbeats 2000000 in
theorem invR_ldAssertD {c s s' t o} (h : InvR c s) (st : step c s t .ldAssertD = some (s', o)) : InvR c s' := by
  st_open st
  all_goals r_step h

set_option maxHeartbeats 2000000 in
theorem invR_ldDel2 {c s s' t o} (h : InvR c s) (st : step c s t .ldDel2 = some (s', o)) : InvR c s' := by
  st_open st
  all_goals r_step h

set_option maxHeartbeats 2000000 in
theorem invR_xchgOwn {c s s' t o} (h : InvR c s) (st : step c s t .xchgOwn = some (s', o)) : InvR c s' := by
  st_open st
  all_goals r_step h

set_option maxHeartbeats 2000000 in
theorem invR_orOwn {c s s' t o} (h : InvR c s) (st : step c s t .orOwn = some (s', o)) : InvR c s' := by
  st_open st
  all_goals r_step h

set_option maxHeartbeats 2000000 in
theorem invR_orBkt {c s s' t o} (h : InvR c s) (st : step c s t .orBkt = some (s', o)) : InvR c s' := by
  st_open st
  all_goals r_step h

set_option maxHeartbeats 2000000 in
theorem invR_reclaim {c s s' t o p} (h : InvR c s) (st : step c s t (.reclaim p) = some (s', o)) : InvR c s' := by
  st_open st
  all_goals r_step h

end UrcuVerif.Lfht.Conc
