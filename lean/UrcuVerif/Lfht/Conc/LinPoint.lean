import UrcuVerif.Lfht.Conc.LinTrack
import UrcuVerif.Lfht.Conc.InvKAll
/-!
# Concurrent rculfhash — linearizability: the linearisation points, step by step (proof-only file)
-/
namespace UrcuVerif.Lfht.Conc
open UrcuVerif
set_option linter.unusedSimpArgs false
set_option linter.unusedVariables false

abbrev Event := State × Nat × Label × Out

/-- the call takes effect just before event `e`, without changing the abstract state -/
def LinRO (e : Event) (op : SOp) (r : Out) : Prop := SpecStep (absL e.1) op r (absL e.1)

/-- the call takes effect with event `e`: the abstract state changes exactly as the specification says -/
def LinMut (c : Cfg) (e : Event) (op : SOp) (r : Out) : Prop :=
  ∃ s' σ', step c e.1 e.2.1 e.2.2.1 = some (s', e.2.2.2) ∧ SpecStep (absL e.1) op r σ' ∧ σ'.Equiv (absL s')

/-- the call has a linearisation point among the events `evs` -/
def LinAt (c : Cfg) (evs : List Event) (op : SOp) (r : Out) : Prop :=
  ∃ e, e ∈ evs ∧ (LinRO e op r ∨ LinMut c e op r)

set_option maxHeartbeats 4000000 in
/-- the successful insertion CAS of a user node adds exactly that node to the visible set -/
theorem casIns_user_vis {c s s' t o} (hc : c.ownerByOr = false) (r : Reach c s)
    (st : step c s t .casIns = some (s', o)) (hcas : s.nxt (s.th t).prev = (s.th t).iter) (hm : (s.th t).mode ≠ .bkt)
    (ncr : o ≠ .crash) : ∀ p, vis s' p ↔ (p = (s.th t).node ∨ vis s p) := by
  have ⟨hR, hF, hL⟩ := invRFL_reach hc r
  st_open st
  all_goals first | (exfalso; exact ncr e_out.symm; done) | (exfalso; grind; done) | skip
  all_goals
    vis_open hR hF hL
    have kf : s.life (s.th t).prev = .linked ∧ s.life (s.th t).node = .priv ∧ (s.th t).iter.rem = false ∧
        (s.isB (s.th t).node = true ↔ (s.th t).mode = .bkt) := by
      clear fgn g1 g2 g3 g4 g5
      grind [valid, vz, Pend, HasPos, Worker, AddPc, InPhase, okp]
    obtain ⟨k1, k2, k3, k4⟩ := kf
    have hpL := (g2 _).mpr k1
    have hnL : (s.th t).node ∉ s.L := fun h => by have := (g2 _).mp h; rw [k2] at this; cases this
    have hne : (s.th t).prev ≠ (s.th t).node := fun e => hnL (e ▸ hpL)
    intro p
    simp only [vis, e_L, e_isB, e_nxt, mem_insAfter hpL, upd]
    clear ftt rtt fgn
    by_cases h1 : p = (s.th t).prev <;> by_cases h2 : p = (s.th t).node <;> simp only [h1, h2, if_true, if_false] <;> grind

/-- under the usage restriction on its key, the insertion CAS of `add_unique` / `add_replace` succeeds only when no
node with the key is visible -/
theorem ins_none_vis {c k hk s s' t o} (hc : c.ownerByOr = false) (r : Reach c s) (hK : InvK k hk s)
    (hpc : (s.th t).pc = .aCas) (hcas : s.nxt (s.th t).prev = (s.th t).iter)
    (hmode : (s.th t).mode = .uniq ∨ (s.th t).mode = .repl) (hk4 : s.key (s.th t).node = k)
    (st : step c s t .casIns = some (s', o)) : ∀ q, vis s q → s.key q = k → False := by
  intro q hv hkq
  have ⟨hR, hF, hL⟩ := invRFL_reach hc r
  have lt := hL.t t; simp only [TL] at lt
  have hpt : Pend (s.th t) := ⟨by rcases hmode with h | h <;> simp [h], by simp [hpc]⟩
  obtain ⟨m1, m2, m3, m4⟩ := pend_node hc r hK hpt hk4
  have l14 := lt.2.2.2.2.2.2.2.2.2.2.2.2.2.1 hmode (.inr (.inl hpc))
  rw [m3] at l14
  have hql := (hL.g.2.1 q).mp hv.1
  have rq := hK.g.1 q (by rw [hql]; simp) hv.2.1 hkq
  have hpl : s.life (s.th t).prev = .linked := by
    have ft := hF.t t; simp only [TF] at ft
    have f10 := ft.2.2.2.2.2.2.2.2.2.1 (by simp [HasPos, hpc])
    have := (hF.g.1 (s.th t).prev).2.2.2.2.2.2.2
    rw [hcas, f10.2.1] at this
    have hv := f10.1; simp only [valid] at hv
    cases h : s.life (s.th t).prev <;> simp_all
  have hpL : (s.th t).prev ∈ s.L := (hL.g.2.1 _).mpr hpl
  have hne : (s.th t).prev ≠ q := by
    intro e; rw [e, rq, hv.2.1] at l14; rcases l14 with h | ⟨_, h⟩
    · omega
    · cases h
  have hnok : ¬ ok s q (s.th t).prev := by
    simp only [ok, rq, hv.2.1]
    rcases l14 with h | ⟨h1, h2⟩
    · intro h'; rcases h' with h' | ⟨h', _⟩ <;> omega
    · intro h'; rcases h' with h' | ⟨_, h' | h'⟩
      · omega
      · rw [h2] at h'; cases h'
      · cases h'
  have hr := rch_next (rch_of_before hc r hpL hv.1 hne hnok) hne
  have hcov := (hK.t t).2 ⟨hmode, .inl hpc⟩ hk4 q hv hkq (by simp only [nxp, hcas] at hr; exact hr)
  rw [hpc] at hcov; cases hcov.1

/-- attributes of visible nodes do not change -/
theorem abs_attr_step {c s s' t l o p} (hc : c.ownerByOr = false) (r : Reach c s) (st : step c s t l = some (s', o))
    (hp : s.life p ≠ .fresh) : s'.rev p = s.rev p ∧ s'.key p = s.key p :=
  ⟨(stable_step hc r st p hp).1, (stable_step hc r st p hp).2.1⟩

/-- **linearisation point of an insertion**: the successful insertion CAS of `add` / `add_unique` / `add_replace` -/
theorem lin_ins {c s s' t o op} (hc : c.ownerByOr = false) (r : Reach c s) (st : step c s t .casIns = some (s', o))
    (hpc : (s.th t).pc = .aCas) (hcas : s.nxt (s.th t).prev = (s.th t).iter) (hop : curOp (s.th t) = some op)
    (hK : (s.th t).mode ≠ .plain → InvK (s.th t).ky (s.th t).hs s)
    (hout : ((s.th t).mode = .plain ∧ o = .unit) ∨ ((s.th t).mode = .uniq ∧ o = .node (s.th t).node) ∨
      ((s.th t).mode = .repl ∧ o = .node 0)) : LinMut c (s, t, .casIns, o) op o := by
  have ⟨hR, hF, hL⟩ := invRFL_reach hc r
  have hN := invN_reach hc r t; simp only [TN] at hN
  have hmb : (s.th t).mode ≠ .bkt := by rcases hout with ⟨m, _⟩ | ⟨m, _⟩ | ⟨m, _⟩ <;> simp [m]
  have hopf : (s.th t).op = .add := hN.2.2.2.2.2.2.2.1 (.inr (.inl ⟨by simp [AddPc, hpc], hmb⟩))
  obtain ⟨n1, n2, n3, n4⟩ := hN.2.1 (.inl hopf)
  have ncr : o ≠ .crash := by rcases hout with ⟨_, h⟩ | ⟨_, h⟩ | ⟨_, h⟩ <;> rw [h] <;> simp
  have hvis := casIns_user_vis hc r st hcas n1 ncr
  have hpriv : s.life (s.th t).node = .priv :=
    ((hF.t t).2.2.2.2.2.1 ⟨n1, by simp [hpc]⟩).1
  have hnv : ¬ vis s (s.th t).node := by
    intro h; have := (hL.g.2.1 _).mp h.1; rw [hpriv] at this; cases this
  have heq : ((absL s).insert (s.th t).node (bitReverse64 (s.th t).hs) (s.th t).ky).Equiv (absL s') := by
    refine ⟨fun p => ((hvis p).symm), ?_⟩
    intro p hp
    simp only [MS.insert, absL] at hp ⊢
    by_cases e : p = (s.th t).node
    · have sa := abs_attr_step hc r st n4
      simp only [e, if_true]; rw [sa.1, sa.2]; exact ⟨n2.symm, n3.symm⟩
    · simp only [e, if_false]
      rcases hp with hp | hp
      · exact absurd hp e
      · have sa := abs_attr_step hc r st (p := p) (by rw [(hL.g.2.1 p).mp hp.1]; simp)
        exact ⟨sa.1.symm, sa.2.symm⟩
  have hnom : (s.th t).mode ≠ .plain → ∀ p, ¬ (absL s).Match (s.th t).hs (s.th t).ky p := by
    intro hm p ⟨h1, _, h3⟩
    have hmode : (s.th t).mode = .uniq ∨ (s.th t).mode = .repl := by
      cases h : (s.th t).mode <;> simp_all
    exact ins_none_vis hc r (hK hm) hpc hcas hmode n3 st p h1 h3
  refine ⟨s', _, st, ?_, heq⟩
  simp only [curOp, hopf] at hop
  rcases hout with ⟨m, ho⟩ | ⟨m, ho⟩ | ⟨m, ho⟩
  · simp only [m, Option.some.injEq] at hop; subst hop; rw [ho]; exact .add hnv
  · simp only [m, Option.some.injEq] at hop; subst hop; rw [ho]
    exact .addUniqueNew hnv (hnom (by rw [m]; simp))
  · simp only [m, Option.some.injEq] at hop; subst hop; rw [ho]
    exact .addReplaceNew hnv (hnom (by rw [m]; simp))

/-- **linearisation point of `replace` / of an `add_replace` that replaces**: the successful replace CAS -/
theorem lin_repl {c s s' t o op} (hc : c.ownerByOr = false) (r : Reach c s) (st : step c s t .casRepl = some (s', o))
    (hpc : (s.th t).pc = .rCas) (hcas : s.nxt (s.th t).old = (s.th t).oldnx) (hok : okp s (s.th t).old = true)
    (hop : curOp (s.th t) = some op) :
    LinMut c (s, t, .casRepl, o) op (if (s.th t).op = .replace then .ret 0 else .node (s.th t).old) := by
  have ⟨hR, hF, hL⟩ := invRFL_reach hc r
  have hN := invN_reach hc r t; simp only [TN] at hN
  obtain ⟨_, _, _, _, hkey, hrev, vo, nvn, vn', nvo', hvis, _⟩ := replace_atomic_step hc r st hcas hok
  have hopk := hN.2.2.2.2.2.2.2.2.1 hpc
  obtain ⟨n1, n2, n3, n4⟩ := hN.2.1 hopk
  have heq : (((absL s).erase (s.th t).old).insert (s.th t).node (bitReverse64 (s.th t).hs) (s.th t).ky).Equiv
      (absL s') := by
    refine ⟨fun p => ((hvis p).symm), ?_⟩
    intro p hp
    simp only [MS.insert, MS.erase, absL] at hp ⊢
    by_cases e : p = (s.th t).node
    · have sa := abs_attr_step hc r st n4
      simp only [e, if_true]; rw [sa.1, sa.2]; exact ⟨n2.symm, n3.symm⟩
    · simp only [e, if_false]
      rcases hp with hp | hp
      · exact absurd hp e
      · have sa := abs_attr_step hc r st (p := p) (by rw [(hL.g.2.1 p).mp hp.2.1]; simp)
        exact ⟨sa.1.symm, sa.2.symm⟩
  have hmatch : (absL s).Match (s.th t).hs (s.th t).ky (s.th t).old :=
    ⟨vo, by simp only [absL]; rw [← hrev]; exact n2, by simp only [absL]; rw [← hkey]; exact n3⟩
  refine ⟨s', _, st, ?_, heq⟩
  simp only [curOp] at hop
  rcases hopk with ho | ho
  · have hm : (s.th t).mode = .repl := hN.2.2.2.2.2.2.2.2.2.2.1 (.inl hpc)
    simp only [ho, hm, Option.some.injEq] at hop; subst hop
    simp only [ho, reduceCtorEq, if_false]
    exact .addReplaceRepl nvn hmatch
  · simp only [ho, Option.some.injEq] at hop; subst hop
    simp only [ho, if_true]
    exact .replaceOk hmatch nvn

/-- **linearisation point of a successful `lookup` / of an `add_unique` that finds a duplicate**: the load that read
the returned node's `next` unflagged -/
theorem lin_found {c s s' t o} (hc : c.ownerByOr = false) (r : Reach c s) (st : step c s t .ldWalk = some (s', o))
    (hpc : (s.th t).pc = .wNext) (hf : found s (s.th t) (s.nxt (s.th t).cur) = true)
    (hwk : (s.th t).op = .lookup ∨ ((s.th t).op = .add ∧ (s.th t).wk = .dupAdd)) :
    (absL s).Match (s.th t).hs (s.th t).ky (s.th t).cur := by
  have ⟨hR, hF, hL⟩ := invRFL_reach hc r
  have hN := invN_reach hc r t; simp only [TN] at hN
  have ft := hF.t t; simp only [TF] at ft
  have vc := ft.2.2.2.2.2.2.2.2.2.2.2.2.1 (.inl hpc)
  have fc := hF.g.1 (s.th t).cur; simp only [GFn] at fc
  have h1 : (s.nxt (s.th t).cur).rem = false ∧ (s.nxt (s.th t).cur).bkt = false := by
    simp only [found] at hf; grind
  have hl : s.life (s.th t).cur = .linked := by
    have := fc.2.2.2.2.2.2.2
    simp only [valid] at vc
    cases h : s.life (s.th t).cur <;> simp_all
  have hv : vis s (s.th t).cur := ⟨(hL.g.2.1 _).mpr hl, by rw [← fc.2.2.2.2.1 vc]; exact h1.2, h1.1⟩
  refine ⟨hv, ?_, ?_⟩
  · simp only [absL]
    rcases hwk with ho | ⟨ho, hw⟩
    · obtain ⟨b1, b2, _⟩ := hN.2.2.1 ho
      simp only [found, b2] at hf
      rw [← b1]; grind
    · have lt := hL.t t; simp only [TL] at lt
      have l5 := lt.2.2.2.2.1 ⟨.inl hpc, hw⟩
      have n := hN.2.1 (.inl ho)
      rw [l5.2, l5.1]; exact n.2.1
  · simp only [absL]
    rcases hwk with ho | ⟨ho, hw⟩
    · obtain ⟨b1, b2, _⟩ := hN.2.2.1 ho
      simp only [found, b2] at hf; grind
    · simp only [found, hw] at hf; grind

/-- **linearisation point of a failing `del` / `replace`**: the returning step itself — the node is not stored -/
theorem lin_fail {c s t l o op} (hc : c.ownerByOr = false) (r : Reach c s) (hop : curOp (s.th t) = some op)
    (hret : ((s.th t).op = .del ∧ l = .ldSize ∧ (s.th t).pc = .dSize ∧ (s.th t).node = 0 ∧ o = .ret (-ENOENT)) ∨
      ((s.th t).op = .del ∧ l = .ldDel ∧ (s.th t).pc = .dLd ∧ (s.nxt (s.th t).node).rem = true ∧ o = .ret (-ENOENT)) ∨
      ((s.th t).op = .del ∧ l = .xchgOwn ∧ (s.th t).pc = .dXchg ∧ o = .ret (-ENOENT)) ∨
      (l = .casRepl ∧ (s.th t).pc = .rCas ∧ (s.nxt (s.th t).old).rem = true ∧ (s.th t).op = .replace ∧
        o = .ret (-ENOENT))) : LinRO (s, t, l, o) op o := by
  have ⟨hR, hF, hL⟩ := invRFL_reach hc r
  have hN := invN_reach hc r t; simp only [TN] at hN
  have ft := hF.t t; simp only [TF] at ft
  simp only [LinRO]
  simp only [curOp] at hop
  rcases hret with ⟨k, _, hp, h0, ho⟩ | ⟨k, _, hp, hr, ho⟩ | ⟨k, _, hp, ho⟩ | ⟨_, hp, hr, hrep, ho⟩
  · simp only [k, Option.some.injEq] at hop; subst hop; rw [ho, h0]; exact .delNull
  · simp only [k, Option.some.injEq] at hop; subst hop; rw [ho]
    have n0 : (s.th t).node ≠ 0 := by
      rcases hN.2.2.2.2.2.2.1 k with h | h
      · rw [hp] at h; cases h
      · exact h
    exact .delGone n0 (fun hv => by have := hv.2.2; rw [hr] at this; cases this)
  · simp only [k, Option.some.injEq] at hop; subst hop; rw [ho]
    have n0 : (s.th t).node ≠ 0 := by
      rcases hN.2.2.2.2.2.2.1 k with h | h
      · rw [hp] at h; cases h
      · exact h
    have f23 := ft.2.2.2.2.2.2.2.2.2.2.2.2.2.2.2.2.2.2.2.2.2.2.1 (.inr (.inr (.inl hp)))
    exact .delGone n0 (fun hv => by have := hv.2.2; rw [f23] at this; cases this)
  · simp only [hrep, Option.some.injEq] at hop; subst hop; rw [ho]
    obtain ⟨b1, b2, b3, _⟩ := hN.2.2.2.1 hrep
    exact .replaceGone b1 b2 b3 (fun hv => by have := hv.2.2; rw [hr] at this; cases this)

set_option hygiene false in
macro "of_same" : tactic => `(tactic| (intro p hp; rw [e_nxt]; exact hp))

set_option hygiene false in
macro "of_mut" hF:ident : tactic => `(tactic|
  (have ftt := ($hF).t t; have fg := ($hF).g
   simp only [TF, GF] at ftt fg
   have fgo := fg.1 (s.th t).old; have fgn := fg.1 (s.th t).node; have fgp := fg.1 (s.th t).prev
   simp only [GFn] at fgo fgn fgp
   clear fg
   intro p hp; rw [e_nxt]; simp only [upd]
   by_cases h1 : p = (s.th t).prev <;> by_cases h2 : p = (s.th t).node <;> by_cases h3 : p = (s.th t).old <;>
     (try simp only [h1, h2, h3, if_true, if_false]) <;> grind [valid, vz, HasPos, Pend, Worker, AddPc, GcPc, ZPc, HPc, InPhase]))

set_option maxHeartbeats 4000000 in
/-- `REMOVAL_OWNER` is never cleared -/
theorem own_frozen_step {c s s' t l o} (hc : c.ownerByOr = false) (hR : InvR c s) (hF : InvF c s)
    (st : step c s t l = some (s', o)) : ∀ p, (s.nxt p).own = true → (s'.nxt p).own = true := by
  have rtt := hR.t t
  simp only [TR] at rtt
  cases l with
  | spawn u len => st_open st; st_open2; of_same
  | join u => st_open st; st_open2; of_same
  | casIns => st_open st; all_goals first | of_same | of_mut hF
  | casGc => st_open st; all_goals first | of_same | of_mut hF
  | casRepl => st_open st; all_goals first | of_same | of_mut hF
  | orRem => st_open st; all_goals first | of_same | of_mut hF
  | xchgOwn => st_open st; all_goals first | of_same | of_mut hF
  | orOwn => st_open st; all_goals first | of_same | of_mut hF
  | orBkt => st_open st; all_goals first | of_same | of_mut hF
  | _ => st_open st; all_goals of_same

end UrcuVerif.Lfht.Conc
