import UrcuVerif.Lfht.Conc.InvSTac
/-!
# Concurrent rculfhash — layer S, threads part: gc, replace, walk and lookup steps (proof-only file)
-/
namespace UrcuVerif.Lfht.Conc
open UrcuVerif
set_option linter.unusedSimpArgs false
set_option linter.unusedVariables false

set_option maxHeartbeats 4000000 in
theorem invSt_ldHeadG {c s s' t o} (hc : c.ownerByOr = false) (r : Reach c s) (hS : InvS s)
    (st : step c s t .ldHeadG = some (s', o)) : ∀ u, TS s' (s'.th u) u := by
  have st0 := st
  st_open st
  all_goals ts_step skip

set_option maxHeartbeats 4000000 in
theorem invSt_ldNextG {c s s' t o} (hc : c.ownerByOr = false) (r : Reach c s) (hS : InvS s)
    (st : step c s t .ldNextG = some (s', o)) : ∀ u, TS s' (s'.th u) u := by
  have st0 := st
  st_open st
  all_goals ts_step skip

set_option maxHeartbeats 4000000 in
theorem invSt_casRepl {c s s' t o} (hc : c.ownerByOr = false) (r : Reach c s) (hS : InvS s)
    (st : step c s t .casRepl = some (s', o)) : ∀ u, TS s' (s'.th u) u := by
  have st0 := st
  st_open st
  all_goals ts_step skip

set_option maxHeartbeats 4000000 in
theorem invSt_ldAssertR {c s s' t o} (hc : c.ownerByOr = false) (r : Reach c s) (hS : InvS s)
    (st : step c s t .ldAssertR = some (s', o)) : ∀ u, TS s' (s'.th u) u := by
  have st0 := st
  st_open st
  all_goals ts_step skip

set_option maxHeartbeats 4000000 in
theorem invSt_ldWalk {c s s' t o} (hc : c.ownerByOr = false) (r : Reach c s) (hS : InvS s)
    (st : step c s t .ldWalk = some (s', o)) : ∀ u, TS s' (s'.th u) u := by
  have st0 := st
  st_open st
  all_goals ts_step skip

set_option maxHeartbeats 4000000 in
theorem invSt_ldAssertW {c s s' t o} (hc : c.ownerByOr = false) (r : Reach c s) (hS : InvS s)
    (st : step c s t .ldAssertW = some (s', o)) : ∀ u, TS s' (s'.th u) u := by
  have st0 := st
  st_open st
  all_goals ts_step skip

set_option maxHeartbeats 4000000 in
theorem invSt_ldHeadL {c s s' t o} (hc : c.ownerByOr = false) (r : Reach c s) (hS : InvS s)
    (st : step c s t .ldHeadL = some (s', o)) : ∀ u, TS s' (s'.th u) u := by
  have st0 := st
  st_open st
  all_goals ts_step skip

set_option maxHeartbeats 4000000 in
theorem invSt_ldFirst {c s s' t o} (hc : c.ownerByOr = false) (r : Reach c s) (hS : InvS s)
    (st : step c s t .ldFirst = some (s', o)) : ∀ u, TS s' (s'.th u) u := by
  have st0 := st
  st_open st
  all_goals ts_step skip

end UrcuVerif.Lfht.Conc
