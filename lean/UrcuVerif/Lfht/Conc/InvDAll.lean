import UrcuVerif.Lfht.Conc.InvDStep1
import UrcuVerif.Lfht.Conc.InvDStep2
import UrcuVerif.Lfht.Conc.InvDStep3
import UrcuVerif.Lfht.Conc.InvDStep4
/-! Layer D holds in every reachable state; `del_returns_unlinked` (proof-only file). -/
namespace UrcuVerif.Lfht.Conc
open UrcuVerif

theorem invD_step {c s s' t l o} (hc : c.ownerByOr = false) (r : Reach c s) (hD : InvD s)
    (st : step c s t l = some (s', o)) : InvD s' := by
  cases l with
  | rlock => exact invD_rlock hc r hD st
  | runlock => exact invD_runlock hc r hD st
  | callAdd _ _ _ _ => exact invD_callAdd hc r hD st
  | callReplace _ _ _ => exact invD_callReplace hc r hD st
  | callDel => exact invD_callDel hc r hD st
  | callLookup _ _ => exact invD_callLookup hc r hD st
  | callDup _ => exact invD_callDup hc r hD st
  | callNext => exact invD_callNext hc r hD st
  | callFirst => exact invD_callFirst hc r hD st
  | ldSize => exact invD_ldSize hc r hD st
  | ldHeadA => exact invD_ldHeadA hc r hD st
  | ldNextA => exact invD_ldNextA hc r hD st
  | casIns => exact invD_casIns hc r hD st
  | casGc => exact invD_casGc hc r hD st
  | ldWalk => exact invD_ldWalk hc r hD st
  | ldAssertW => exact invD_ldAssertW hc r hD st
  | ldHeadL => exact invD_ldHeadL hc r hD st
  | ldFirst => exact invD_ldFirst hc r hD st
  | casRepl => exact invD_casRepl hc r hD st
  | ldAssertR => exact invD_ldAssertR hc r hD st
  | ldHeadG => exact invD_ldHeadG hc r hD st
  | ldNextG => exact invD_ldNextG hc r hD st
  | ldDel => exact invD_ldDel hc r hD st
  | orRem => exact invD_orRem hc r hD st
  | ldAssertD => exact invD_ldAssertD hc r hD st
  | ldDel2 => exact invD_ldDel2 hc r hD st
  | xchgOwn => exact invD_xchgOwn hc r hD st
  | orOwn => exact invD_orOwn hc r hD st
  | orBkt => exact invD_orBkt hc r hD st
  | reclaim _ => exact invD_reclaim hc r hD st
  | rzLock => exact invD_rzLock hc r hD st
  | rzUnlock => exact invD_rzUnlock hc r hD st
  | partBegin => exact invD_partBegin hc r hD st
  | partEnd => exact invD_partEnd hc r hD st
  | stSizeGrow => exact invD_stSizeGrow hc r hD st
  | stSizeShrink => exact invD_stSizeShrink hc r hD st
  | gpStart => exact invD_gpStart hc r hD st
  | gpEnd => exact invD_gpEnd hc r hD st
  | tblFree => exact invD_tblFree hc r hD st
  | tblAlloc _ => exact invD_tblAlloc hc r hD st
  | spawn _ _ => exact invD_spawn hc r hD st
  | join _ => exact invD_join hc r hD st

theorem invD_reach {c s} (hc : c.ownerByOr = false) (r : Reach c s) : InvD s := by
  induction r with
  | init => exact invD_init
  | step r st ih => exact invD_step hc r ih st

/-- **del_returns_unlinked**: when `cds_lfht_del` returns 0, `cds_lfht_replace` returns 0 or `cds_lfht_add_replace`
returns the old node, that node is no longer linked -/
theorem del_returns_unlinked_step {c s s' t l o p} (hc : c.ownerByOr = false) (r : Reach c s)
    (st : step c s t l = some (s', o)) (hs : succFor s t l o = some p) : p ∉ s.L ∧ p ∉ s'.L := by
  have hD := invD_reach hc r
  have hD' := invD_reach hc (.step r st)
  have dt := hD t
  simp only [TD] at dt
  have hF := (invRFL_reach hc r).2.1
  have ft := hF.t t; simp only [TF] at ft
  cases l with
  | xchgOwn =>
    have st0 := st
    st_open st
    all_goals (simp only [succFor, ENOENT, ← e_out] at hs; try simp at hs)
    all_goals
      subst hs
      have hpc : (s.th t).pc = .dXchg := by assumption
      have := dt.2.2.2.1 (.inr (.inr hpc))
      exact ⟨this, by rw [e_L]; exact this⟩
  | ldAssertR =>
    have st0 := st
    st_open st
    all_goals (simp only [succFor, ENOENT, ← e_out] at hs; try simp at hs)
    all_goals
      subst hs
      have hpc : (s.th t).pc = .rAssert := by assumption
      have := dt.2.2.2.2 hpc
      exact ⟨this, by rw [e_L]; exact this⟩
  | _ => simp [succFor] at hs

end UrcuVerif.Lfht.Conc
