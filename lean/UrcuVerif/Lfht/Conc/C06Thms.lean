import UrcuVerif.Lfht.Conc.Vis
import UrcuVerif.Lfht.Conc.Owner
/-!
# Concurrent rculfhash — step-level facts used by C06 (proof-only file)
-/
namespace UrcuVerif.Lfht.Conc
open UrcuVerif
set_option linter.unusedSimpArgs false
set_option linter.unusedVariables false

/-- **replace_atomic**: the successful replace CAS turns `old->next` from an unflagged word into
`new | REMOVED | REMOVAL_OWNER` and links `new` — same hash, same key — right behind `old`, in one step: before
it `old` is visible and `new` private, after it `new` is visible and `old` is not. -/
theorem replace_atomic_step {c s s' t o} (hc : c.ownerByOr = false) (r : Reach c s)
    (st : step c s t .casRepl = some (s', o)) (hcas : s.nxt (s.th t).old = (s.th t).oldnx) (hd : okp s (s.th t).old = true) :
    (s.nxt (s.th t).old).rem = false ∧ s'.nxt (s.th t).old = { ptr := (s.th t).node, rem := true, own := true } ∧
    nxp s' (s.th t).node = nxp s (s.th t).old ∧ s'.L = insAfter (s.th t).old (s.th t).node s.L ∧
    s.key (s.th t).node = s.key (s.th t).old ∧ s.rev (s.th t).node = s.rev (s.th t).old ∧
    vis s (s.th t).old ∧ ¬ vis s (s.th t).node ∧ vis s' (s.th t).node ∧ ¬ vis s' (s.th t).old ∧
    (∀ p, vis s' p ↔ (p = (s.th t).node ∨ (p ≠ (s.th t).old ∧ vis s p))) ∧ s'.wins (s.th t).old = 1 := by
  have ⟨hR, hF, hL⟩ := invRFL_reach hc r
  have ⟨_, _, hA⟩ := invRFA_reach hc r
  have hA' := invA_step hc hR hF hA st
  have ftt := hF.t t; have ltt := hL.t t; have fg := hF.g; have rtt := hR.t t
  simp only [TF, GF, TR] at ftt fg rtt; simp only [TL] at ltt
  have go := fg.1 (s.th t).old; have gn := fg.1 (s.th t).node
  simp only [GFn] at go gn
  obtain ⟨g1, g2, g3, g4, g5⟩ := hL.g
  have pcf : (s.th t).pc = .rCas := by
    simp only [step, stepRepl] at st; split at st; cases st; split at st; assumption; cases st
  have kf : s.life (s.th t).old = .linked ∧ s.life (s.th t).node = .priv ∧ s.isB (s.th t).node = false ∧
      s.isB (s.th t).old = false ∧ (s.th t).oldnx.rem = false ∧ s.key (s.th t).old = s.key (s.th t).node ∧
      s.rev (s.th t).old = s.rev (s.th t).node := by
    clear g1 g2 g3 g4 g5 fg
    grind [valid, vz, Pend, okp]
  obtain ⟨k1, k2, k3, k4, k5, k6, k7⟩ := kf
  have hpL := (g2 _).mpr k1
  have hnL : (s.th t).node ∉ s.L := fun h => by have := (g2 _).mp h; rw [k2] at this; cases this
  have hne : (s.th t).old ≠ (s.th t).node := fun e => hnL (e ▸ hpL)
  have hv := vis_casRepl hc hR hF hL st
  have e_all : s'.nxt = upd (upd s.nxt (s.th t).node { ptr := (s.th t).oldnx.ptr }) (s.th t).old
      { ptr := (s.th t).node, rem := true, own := true } ∧ s'.L = insAfter (s.th t).old (s.th t).node s.L ∧
      s'.isB = s.isB := by
    st_open st
    all_goals first | exact ⟨e_nxt, e_L, e_isB⟩ | (exfalso; clear ftt ltt rtt go gn g1 g2 g3 g4 g5 fg hv hA hA'; grind)
  have hvis : ∀ p, vis s' p ↔ (p = (s.th t).node ∨ (p ≠ (s.th t).old ∧ vis s p)) := by
    rcases hv with h | h
    · exfalso
      have h1 := (h (s.th t).node)
      simp only [vis, e_all.1, e_all.2.1, e_all.2.2, mem_insAfter hpL, upd, Ne.symm hne, if_false, if_true] at h1
      have := h1.mp ⟨.inl trivial, k3, trivial⟩; exact hnL this.1
    · exact h
  have hw := (hA'.g (s.th t).old).1
  refine ⟨by rw [hcas]; exact k5, by rw [e_all.1]; simp [upd], ?_, e_all.2.1, k6.symm, k7.symm, ?_, fun h => hnL h.1, ?_, ?_,
    hvis, ?_⟩
  · simp only [nxp, e_all.1, upd, Ne.symm hne, if_false, if_true, hcas]
  · exact ⟨hpL, k4, by rw [hcas]; exact k5⟩
  · exact (hvis _).mpr (.inl rfl)
  · intro h; rcases (hvis _).mp h with h | h; exact hne h; exact h.1 rfl
  · rw [e_all.1] at hw; simpa [upd] using hw

/-- **unique_inserts_at_run_head**: a successful `add_unique` / `add_replace` insertion CAS is on the node that
precedes the whole run of non-bucket nodes with the new node's reversed hash: `prev` sorts strictly before, or
is the bucket node of that reversed hash.  (Any other insertion at the head of this run changes `prev->next`,
so the CAS then fails and the add restarts.) -/
theorem unique_inserts_at_run_head_step {c s s' t o} (hc : c.ownerByOr = false) (r : Reach c s)
    (st : step c s t .casIns = some (s', o)) (hm : (s.th t).mode = .uniq ∨ (s.th t).mode = .repl) :
    s.rev (s.th t).prev < s.rev (s.th t).node ∨ (s.rev (s.th t).prev = s.rev (s.th t).node ∧ s.isB (s.th t).prev = true) := by
  have ⟨hR, hF, hL⟩ := invRFL_reach hc r
  have pcf : (s.th t).pc = .aCas := by
    simp only [step, stepAdd] at st; split at st; cases st; split at st; assumption; cases st
  have ltt := hL.t t
  simp only [TL] at ltt
  exact ltt.2.2.2.2.2.2.2.2.2.2.2.2.2.1 hm (.inr (.inl pcf))

end UrcuVerif.Lfht.Conc
