import UrcuVerif.Lfht.Conc.InvK
import UrcuVerif.Lfht.Conc.InvD
/-!
# Concurrent rculfhash — layer K, global part: keys, reversed hashes and uniqueness across a step (proof-only file)
-/
namespace UrcuVerif.Lfht.Conc
open UrcuVerif
set_option linter.unusedSimpArgs false
set_option linter.unusedVariables false

set_option maxHeartbeats 8000000 in
/-- the life cycle of a node: fresh → private → linked → unlinked, one stage per step at most -/
theorem life_step {c s s' t l o} (hc : c.ownerByOr = false) (r : Reach c s) (st : step c s t l = some (s', o)) :
    ∀ p, s'.life p = s.life p ∨ (s.life p = .fresh ∧ s'.life p = .priv) ∨ (s.life p = .priv ∧ s'.life p = .linked) ∨
      (s.life p = .linked ∧ s'.life p = .unlinked) := by
  have ⟨hR, hF, hL⟩ := invRFL_reach hc r
  cases l with
  | casIns =>
    st_open st
    all_goals first | (intro p; left; rw [e_life]; done) | skip
    all_goals
      vis_open hR hF hL
      have kf : s.life (s.th t).node = .priv := by
        clear fgn g1 g2 g3 g4 g5
        grind [valid, vz, Pend, HasPos, Worker, AddPc, InPhase, okp]
      intro p; rw [e_life]; simp only [upd]
      split
      · next h => right; right; left; rw [h]; exact ⟨kf, rfl⟩
      · left; rfl
  | casRepl =>
    st_open st
    all_goals first | (intro p; left; rw [e_life]; done) | skip
    all_goals
      vis_open hR hF hL
      have kf : s.life (s.th t).node = .priv := by
        clear fgn g1 g2 g3 g4 g5
        grind [valid, vz, Pend, HasPos, okp]
      intro p; rw [e_life]; simp only [upd]
      split
      · next h => right; right; left; rw [h]; exact ⟨kf, rfl⟩
      · left; rfl
  | casGc =>
    st_open st
    all_goals first | (intro p; left; rw [e_life]; done) | skip
    all_goals
      vis_open hR hF hL
      have kf : (s.nxt (s.th t).prev).ptr = (s.th t).iter.ptr ∧ s.life (s.th t).prev = .linked ∧ (s.th t).iter.ptr ≠ 0 := by
        clear fgn g1 g2 g3 g4 g5
        grind [valid, vz, Pend, HasPos, okp]
      obtain ⟨k1, k5, k6⟩ := kf
      have hpL := (g2 _).mpr k5
      have hcL : (s.th t).iter.ptr ∈ s.L := by
        have := chn_next_mem g3 hpL (by simp only [nxp, k1]; exact k6); simpa only [nxp, k1] using this
      intro p; rw [e_life]; simp only [upd]
      split
      · next h => right; right; right; rw [h]; exact ⟨(g2 _).mp hcL, rfl⟩
      · left; rfl
  | callAdd m n h k =>
    st_open st
    all_goals
      intro p; rw [e_life]; simp only [upd]
      split
      · next h => right; left; rw [h]; exact ⟨by grind, rfl⟩
      · left; rfl
  | callReplace n h k =>
    st_open st
    all_goals
      intro p; rw [e_life]; simp only [upd]
      split
      · next h => right; left; rw [h]; exact ⟨by grind, rfl⟩
      · left; rfl
  | tblAlloc base =>
    have fg := hF.g; simp only [GF] at fg
    st_open st
    all_goals simp only [inRange, Bool.and_eq_true, decide_eq_true_eq] at *
    all_goals
      intro p
      have := (fg.1 p).1
      rw [e_life]
      simp only []
      split
      · right; left; exact ⟨by grind, rfl⟩
      · left; rfl
  | _ => st_open st; all_goals (intro p; left; rw [e_life])


set_option maxHeartbeats 4000000 in
/-- a node allocated by this step with key `k` gets the reversed hash of `k` -/
theorem new_node_rev {c k hk s s' t l o} (st : step c s t l = some (s', o)) (ha : UniqUse k hk l) :
    ∀ p, s.life p = .fresh → s'.life p = .priv → s'.isB p = false → s'.key p = k → s'.rev p = bitReverse64 hk := by
  cases l with
  | callAdd m n h k' =>
    st_open st
    all_goals
      intro p h1 h2 h3 h4
      simp only [UniqUse] at ha
      have : p = n := by
        false_or_by_contra; rename_i hne; rw [e_life] at h2; simp only [upd, hne, if_false] at h2; rw [h1] at h2; cases h2
      subst this
      rw [e_key] at h4; simp only [upd, if_true] at h4
      rw [e_rev]; simp only [upd, if_true]; rw [(ha h4).2]
  | callReplace n h k' =>
    st_open st
    all_goals
      intro p h1 h2 h3 h4
      simp only [UniqUse] at ha
      have : p = n := by
        false_or_by_contra; rename_i hne; rw [e_life] at h2; simp only [upd, hne, if_false] at h2; rw [h1] at h2; cases h2
      subst this
      rw [e_key] at h4; simp only [upd, if_true] at h4
      rw [e_rev]; simp only [upd, if_true]; rw [ha h4]
  | tblAlloc base =>
    st_open st
    all_goals
      intro p h1 h2 h3 h4
      exfalso
      rw [e_life] at h2; rw [e_isB] at h3
      simp only [] at h2 h3
      split at h3
      · cases h3
      · next hn => simp only [hn] at h2; rw [h1] at h2; cases h2
  | _ =>
    st_open st
    all_goals
      intro p h1 h2
      exfalso
      rw [e_life] at h2
      first
        | (rw [h1] at h2; cases h2; done)
        | (simp only [upd] at h2; split at h2 <;> first | cases h2 | (rw [h1] at h2; cases h2))

set_option maxHeartbeats 1000000 in
/-- the global part of layer K across a step -/
theorem GK_step {c k hk s s' t l o} (hc : c.ownerByOr = false) (r : Reach c s) (hK : InvK k hk s)
    (st : step c s t l = some (s', o)) (ha : UniqUse k hk l) : GK k hk s' := by
  have r' : Reach c s' := .step r st
  have ⟨hR, hF, hL⟩ := invRFL_reach hc r
  have ⟨hR', hF', hL'⟩ := invRFL_reach hc r'
  have stable := stable_step hc r st
  have gf := graph_facts hc r
  have keyq : ∀ q, vis s q → s'.key q = k → s.key q = k := by
    intro q hv h; rw [← (stable q (by rw [(hL.g.2.1 q).mp hv.1]; simp)).2.1]; exact h
  refine ⟨?_, ?_⟩
  · intro p h1 h2 h3
    rcases life_step hc r st p with h | ⟨h, h'⟩ | ⟨h, _⟩ | ⟨h, _⟩
    · have hp : s.life p ≠ .fresh := by rw [← h]; exact h1
      have sp := stable p hp
      rw [sp.1]; exact hK.g.1 p hp (by rw [← sp.2.2.1]; exact h2) (by rw [← sp.2.1]; exact h3)
    · exact new_node_rev st ha p h h' h2 h3
    · have hp : s.life p ≠ .fresh := by rw [h]; simp
      have sp := stable p hp
      rw [sp.1]; exact hK.g.1 p hp (by rw [← sp.2.2.1]; exact h2) (by rw [← sp.2.1]; exact h3)
    · have hp : s.life p ≠ .fresh := by rw [h]; simp
      have sp := stable p hp
      rw [sp.1]; exact hK.g.1 p hp (by rw [← sp.2.2.1]; exact h2) (by rw [← sp.2.1]; exact h3)
  · intro p q hp hq kp kq
    rcases ins_step hc r st with ⟨_, h⟩ | ⟨rfl, gi, hpc, hcas, h⟩ | ⟨rfl, gi, hpc, hcas, hok⟩
    · exact hK.g.2 p q (h p hp) (h q hq) (keyq p (h p hp) kp) (keyq q (h q hq) kq)
    · -- the insertion CAS: if the new node has key `k`, no node with key `k` was visible
      obtain ⟨⟨i1, i2, i3, i4, i5, i6⟩, eL, elife, _, hpl, _⟩ := gi
      have none_vis : s'.key (s.th t).node = k → s'.isB (s.th t).node = false → ∀ q, vis s q → s.key q = k → False := by
        intro kn bn q hv hkq
        have lt := hL.t t; simp only [TL] at lt
        have st4 := stable (s.th t).node (by rw [i4]; simp)
        have hb4 : s.isB (s.th t).node = false := by rw [← st4.2.2.1]; exact bn
        have hk4 : s.key (s.th t).node = k := by rw [← st4.2.1]; exact kn
        have hmb : (s.th t).mode ≠ .bkt := by
          intro hm
          have hw : Worker (s.th t) := .inl ⟨by simp [AddPc, hpc], hm⟩
          have rt := hR.t t; simp only [TR] at rt
          have wi := rt.2.2.2.2.2.2.2.2.2.2.2.2.2.1 hw (by rw [hpc]; simp)
          obtain ⟨w1, w2, w3, w4, w5, w6, w7, _⟩ := worker_facts hR t (.inl hw)
          have rg := hR.g; simp only [GR] at rg
          have := (rg.2.2.1 (s.th t).j (w7 _ (by omega))).1
          rw [← wi.2, hb4] at this; cases this
        have hpt : Pend (s.th t) := ⟨hmb, by simp [hpc]⟩
        obtain ⟨m1, m2, m3, m4⟩ := pend_node hc r hK hpt hk4
        have hmode : (s.th t).mode = .uniq ∨ (s.th t).mode = .repl := by cases hm : (s.th t).mode <;> simp_all
        have l14 := lt.2.2.2.2.2.2.2.2.2.2.2.2.2.1 hmode (.inr (.inl hpc))
        rw [m3] at l14
        have hql := (hL.g.2.1 q).mp hv.1
        have rq := hK.g.1 q (by rw [hql]; simp) hv.2.1 hkq
        have hpL : (s.th t).prev ∈ s.L := (hL.g.2.1 _).mpr hpl
        have hne : (s.th t).prev ≠ q := by
          intro e; rw [e, rq, hv.2.1] at l14; rcases l14 with h | ⟨_, h⟩
          · omega
          · cases h
        have hnok : ¬ ok s q (s.th t).prev := by
          simp only [ok, rq, hv.2.1]
          rcases l14 with h | ⟨h1, h2⟩
          · intro h'; rcases h' with h' | ⟨h', _⟩ <;> omega
          · intro h'; rcases h' with h' | ⟨_, h' | h'⟩
            · omega
            · rw [h2] at h'; cases h'
            · cases h'
        have hr := rch_next (rch_of_before hc r hpL hv.1 hne hnok) hne
        have hcov := (hK.t t).2 ⟨hmode, .inl hpc⟩ hk4 q hv hkq (by simp only [nxp, hcas] at hr; exact hr)
        rw [hpc] at hcov; cases hcov.1
      rcases h p hp with rfl | hp' <;> rcases h q hq with rfl | hq'
      · rfl
      · exact absurd (keyq q hq' kq) (fun hh => none_vis kp hp.2.1 q hq' hh)
      · exact absurd (keyq p hp' kp) (fun hh => none_vis kq hq.2.1 p hp' hh)
      · exact hK.g.2 p q hp' hq' (keyq p hp' kp) (keyq q hq' kq)
    · obtain ⟨_, _, _, _, hkey, hrev, vo, nvn, vn', nvo', hvis, _⟩ := replace_atomic_step hc r st hcas hok
      obtain ⟨⟨i1, i2, i3, i4, i5, i6⟩, eL, elife, _, hpl, _⟩ := gi
      have st4 := stable (s.th t).node (by rw [i4]; simp)
      rcases (hvis p).mp hp with rfl | ⟨np, hp'⟩ <;> rcases (hvis q).mp hq with rfl | ⟨nq, hq'⟩
      · rfl
      · exfalso
        have : s.key (s.th t).old = k := by rw [← hkey, ← st4.2.1]; exact kp
        exact nq (hK.g.2 _ _ hq' vo (keyq q hq' kq) this)
      · exfalso
        have : s.key (s.th t).old = k := by rw [← hkey, ← st4.2.1]; exact kq
        exact np (hK.g.2 _ _ hp' vo (keyq p hp' kp) this)
      · exact hK.g.2 p q hp' hq' (keyq p hp' kp) (keyq q hq' kq)

end UrcuVerif.Lfht.Conc
