import UrcuVerif.Lfht.Conc.InvA
/-! Layer A is preserved by every step (part 1) (proof-only file). -/
namespace UrcuVerif.Lfht.Conc
open UrcuVerif
set_option linter.unusedSimpArgs false
set_option linter.unusedVariables false

set_option maxHeartbeats 4000000 in
theorem invA_rlock {c s s' t o} (hc : c.ownerByOr = false) (hR : InvR c s) (hF : InvF c s) (hA : InvA s)
    (st : step c s t .rlock = some (s', o)) : InvA s' := by
  st_open st
  all_goals a_step hR hF hA

set_option maxHeartbeats 4000000 in
theorem invA_runlock {c s s' t o} (hc : c.ownerByOr = false) (hR : InvR c s) (hF : InvF c s) (hA : InvA s)
    (st : step c s t .runlock = some (s', o)) : InvA s' := by
  st_open st
  all_goals a_step hR hF hA

set_option maxHeartbeats 4000000 in
theorem invA_callAdd {c s s' t o m n hh k} (hc : c.ownerByOr = false) (hR : InvR c s) (hF : InvF c s) (hA : InvA s)
    (st : step c s t (.callAdd m n hh k) = some (s', o)) : InvA s' := by
  st_open st
  all_goals a_step hR hF hA

set_option maxHeartbeats 4000000 in
theorem invA_callReplace {c s s' t o n hh k} (hc : c.ownerByOr = false) (hR : InvR c s) (hF : InvF c s) (hA : InvA s)
    (st : step c s t (.callReplace n hh k) = some (s', o)) : InvA s' := by
  st_open st
  all_goals a_step hR hF hA

set_option maxHeartbeats 4000000 in
theorem invA_callDel {c s s' t o} (hc : c.ownerByOr = false) (hR : InvR c s) (hF : InvF c s) (hA : InvA s)
    (st : step c s t .callDel = some (s', o)) : InvA s' := by
  st_open st
  all_goals a_step hR hF hA

set_option maxHeartbeats 4000000 in
theorem invA_callLookup {c s s' t o hh k} (hc : c.ownerByOr = false) (hR : InvR c s) (hF : InvF c s) (hA : InvA s)
    (st : step c s t (.callLookup hh k) = some (s', o)) : InvA s' := by
  st_open st
  all_goals a_step hR hF hA

set_option maxHeartbeats 4000000 in
theorem invA_callDup {c s s' t o k} (hc : c.ownerByOr = false) (hR : InvR c s) (hF : InvF c s) (hA : InvA s)
    (st : step c s t (.callDup k) = some (s', o)) : InvA s' := by
  st_open st
  all_goals a_step hR hF hA

set_option maxHeartbeats 4000000 in
theorem invA_callNext {c s s' t o} (hc : c.ownerByOr = false) (hR : InvR c s) (hF : InvF c s) (hA : InvA s)
    (st : step c s t .callNext = some (s', o)) : InvA s' := by
  st_open st
  all_goals a_step hR hF hA

set_option maxHeartbeats 4000000 in
theorem invA_callFirst {c s s' t o} (hc : c.ownerByOr = false) (hR : InvR c s) (hF : InvF c s) (hA : InvA s)
    (st : step c s t .callFirst = some (s', o)) : InvA s' := by
  st_open st
  all_goals a_step hR hF hA

set_option maxHeartbeats 4000000 in
theorem invA_ldSize {c s s' t o} (hc : c.ownerByOr = false) (hR : InvR c s) (hF : InvF c s) (hA : InvA s)
    (st : step c s t .ldSize = some (s', o)) : InvA s' := by
  st_open st
  all_goals a_step hR hF hA

set_option maxHeartbeats 4000000 in
theorem invA_ldHeadA {c s s' t o} (hc : c.ownerByOr = false) (hR : InvR c s) (hF : InvF c s) (hA : InvA s)
    (st : step c s t .ldHeadA = some (s', o)) : InvA s' := by
  st_open st
  all_goals a_step hR hF hA

set_option maxHeartbeats 4000000 in
theorem invA_ldNextA {c s s' t o} (hc : c.ownerByOr = false) (hR : InvR c s) (hF : InvF c s) (hA : InvA s)
    (st : step c s t .ldNextA = some (s', o)) : InvA s' := by
  st_open st
  all_goals a_step hR hF hA

set_option maxHeartbeats 4000000 in
theorem invA_casGc {c s s' t o} (hc : c.ownerByOr = false) (hR : InvR c s) (hF : InvF c s) (hA : InvA s)
    (st : step c s t .casGc = some (s', o)) : InvA s' := by
  st_open st
  all_goals a_step hR hF hA

end UrcuVerif.Lfht.Conc
