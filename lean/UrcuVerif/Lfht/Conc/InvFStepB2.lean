import UrcuVerif.Lfht.Conc.InvF
/-! Layer F is preserved by every step: replace CAS, flag updates, node allocation (proof-only file). -/
namespace UrcuVerif.Lfht.Conc
open UrcuVerif
set_option linter.unusedSimpArgs false
set_option linter.unusedVariables false
set_option maxHeartbeats 4000000 in
theorem invF_casRepl {c s s' t o} (hc : c.ownerByOr = false) (hR : InvR c s) (hF : InvF c s)
    (st : step c s t .casRepl = some (s', o)) : InvF c s' := by
  have sz0 : 0 < s.size := by have := hR.g.1.1; have := Nat.two_pow_pos (Nat.log2 s.size); omega
  st_open st
  all_goals first
    | (f_local hR hF [(s.th t).old, (s.th t).node]; done)
    | skip
  all_goals
    have np := no_pub hR hF
    have hF0 := hF
    f_mut_open hR hF
    have go := fgn (s.th t).old; have gn := fgn (s.th t).node
    simp only [GFn] at go gn
    have kf : valid s (s.th t).old ∧ s.isB (s.th t).old = false ∧ (s.th t).oldnx.rem = false ∧
        s.life (s.th t).node = .priv ∧ (s.th t).node ≠ 0 ∧ s.isB (s.th t).node = false ∧ (s.th t).old ≠ (s.th t).node ∧
        vz s (s.th t).oldnx.ptr ∧ Pend (s.th t) ∧ (s.th t).oldnx.own = false ∧ 0 < (s.th t).sz ∧ Lim s t (s.th t).sz := by
      grind [valid, vz, Pend]
    obtain ⟨k1, k2, k3, k4, k5, k6, k7, k8, k9, k10, k11, k12⟩ := kf
    have h_valid : ∀ p, valid s p → valid s' p := by
      clear rtt ftt; intro p; simp only [valid, e_life, upd]; grind
    have h_priv : ∀ p, p ≠ (s.th t).node → s.life p = .priv → s'.life p = .priv := by
      clear rtt ftt; intro p; simp only [valid, e_life, upd] at *; grind
    have h_lv : ∀ i, live s (s.tbl i) → live s' (s.tbl i) := by
      clear rtt ftt; intro i; have := rg.2.2.1 i; simp only [live, e_life, e_nxt, upd]; grind
    have h_rem : ∀ p, (s.nxt p).rem = true → (s'.nxt p).rem = true ∧ (s'.nxt p).ptr = (s.nxt p).ptr ∧
        (s'.nxt p).bkt = (s.nxt p).bkt := by
      clear rtt ftt; intro p; simp only [e_nxt, upd]; grind
    refine InvF_mut (n := (s.th t).node) hR0 hF0 e_th' e_hsh e_isB e_size e_tbl e_cs e_rz hrl hrg hclk h_valid h_priv
      (fun _ _ _ i => h_lv _) h_rem ?_ ?_ ?_ ?_ ?_ ?_
    · intro u hu hp; exact Ne.symm (fpend t u (Ne.symm hu) k9 hp)
    · intro u hu hw _ j h1 h2
      have := worker_facts hR0 u (by grind)
      have := rg.2.2.1 j (this.2.2.2.2.2.2.1 j (by omega))
      clear rtt ftt; grind
    · simp only [GF]
      refine ⟨?_, ?_, ?_, ?_⟩
      · intro p
        have gpp := fgn p; have hv1 := h_valid (s.nxt p).ptr; have hv2 := h_valid (s.th t).oldnx.ptr
        have hv3 : valid s' (s.th t).node := by simp only [valid, e_life, upd]; simp
        clear rtt ftt
        simp only [GFn] at gpp ⊢
        simp only [vz] at *
        simp only [valid] at gpp go gn k1 ⊢
        st_simp
        by_cases h1 : p = (s.th t).old <;> by_cases h2 : p = (s.th t).node <;> simp only [h1, h2, if_true, if_false] <;> grind
      · st_simp; grind
      · intro i hi; rw [e_tbl]; rw [e_size] at hi; exact h_lv _ (fgl i hi)
      · intro u b hb; rw [e_cs] at hb; have := fgc u b hb; omega
    · have hvi := h_valid (s.th t).itn; have hvx := h_valid (s.th t).itx.ptr
      have hvo := h_valid (s.th t).old
      have fgct := fgc t
      have hmod := Nat.mod_lt (s.hsh (s.th t).old) k11
      have tm := rg.2.2.1 (s.hsh (s.th t).old % (s.th t).sz)
      have rl2 := rl.2 (s.hsh (s.th t).old % (s.th t).sz)
      clear ft fpend fgrow hR0 fgn hF0 np
      simp only [TF, vz, HB, Lim] at ftt k12 ⊢
      simp only [e_hsh, e_isB, e_size, e_tbl, e_cs, e_rz, hrl, hrg, e_clock]
      grind [valid, live, Pend, InAdd, HasPos, AddPc, GcPc, ZPc, HPc, Worker, InPhase]
    · refine XPend_frame e_th' ?_ fpend
      clear rtt ftt ft fgrow hR0 fgn hF0 np
      grind [Pend]
    · refine XGrow_frame hR0 e_th' e_rz h_lv e_tbl ?_ fgrow
      clear ftt ft fgrow hR0 fgn hF0 np
      grind [InPhase, Worker, AddPc, GcPc]
set_option maxHeartbeats 4000000 in
theorem invF_orRem {c s s' t o} (hc : c.ownerByOr = false) (hR : InvR c s) (hF : InvF c s)
    (st : step c s t .orRem = some (s', o)) : InvF c s' := by
  have sz0 : 0 < s.size := by have := hR.g.1.1; have := Nat.two_pow_pos (Nat.log2 s.size); omega
  st_open st
  all_goals first
    | (f_local hR hF [(s.th t).node]; done)
    | skip
  all_goals
    have np := no_pub hR hF
    have hF0 := hF
    have wf := worker_facts hR t
    f_mut_open hR hF
    have gn := fgn (s.th t).node
    simp only [GFn] at gn
    have kf : valid s (s.th t).node ∧ s.isB (s.th t).node = false := by
      grind [valid, vz]
    have h_valid : ∀ p, valid s p → valid s' p := by
      clear rtt ftt; intro p; simp only [valid, e_life]; exact id
    have h_priv : ∀ p, p ≠ 0 → s.life p = .priv → s'.life p = .priv := by
      clear rtt ftt; intro p; simp only [e_life]; exact fun _ h => h
    have h_rem : ∀ p, (s.nxt p).rem = true → (s'.nxt p).rem = true ∧ (s'.nxt p).ptr = (s.nxt p).ptr ∧
        (s'.nxt p).bkt = (s.nxt p).bkt := by
      clear rtt; intro p; simp only [e_nxt, upd]; grind
    have h_lv : ∀ i, i < s.size → live s (s.tbl i) → live s' (s.tbl i) := by
      clear rtt ftt; intro i _; have := rg.2.2.1 i; simp only [live, e_life, e_nxt, upd]; grind
    have h_lv2 : ∀ i, live s (s.tbl i) → live s' (s.tbl i) := by
      clear rtt ftt; intro i; have := rg.2.2.1 i; simp only [live, e_life, e_nxt, upd]; grind
    refine InvF_mut (n := 0) hR0 hF0 e_th' e_hsh e_isB e_size e_tbl e_cs e_rz hrl hrg hclk h_valid h_priv
      (fun _ _ _ i => h_lv2 i) h_rem (fun u _ => np.1 u) (fun u _ => np.2 u) ?_ ?_ ?_ ?_
    · simp only [GF]
      refine ⟨?_, ?_, ?_, ?_⟩
      · intro p
        have gpp := fgn p
        clear rtt
        simp only [GFn] at gpp ⊢
        simp only [vz] at *
        simp only [valid] at gpp gn kf ⊢
        st_simp
        by_cases h1 : p = (s.th t).node <;> simp only [h1, if_true, if_false] <;> grind
      · st_simp; exact fgz
      · intro i hi; rw [e_tbl]; rw [e_size] at hi; exact h_lv i hi (fgl i hi)
      · intro u b hb; rw [e_cs] at hb; have := fgc u b hb; omega
    · have fgct := fgc t
      have hmod := Nat.mod_lt (s.hsh (s.th t).node) sz0
      have pw := @two_pow_pred (s.th t).rord
      clear ft fpend fgrow hR0 fgn hF0 np
      simp only [TF, vz, HB, Lim, valid] at ftt kf ⊢
      simp only [e_hsh, e_isB, e_size, e_tbl, e_cs, e_rz, hrl, hrg, e_clock, e_life]
      have tm := rg.2.2.1 (s.hsh (s.th t).node % (s.th t).sz)
      have hmod2 := fun h => Nat.mod_lt (s.hsh (s.th t).node) (show 0 < (s.th t).sz from h)
      have rl2 := rl.2 (s.hsh (s.th t).node % (s.th t).sz)
      st_simp
      grind [live, Pend, InAdd, HasPos, AddPc, GcPc, ZPc, HPc, Worker, InPhase]
    · refine XPend_frame e_th' ?_ fpend
      clear rtt ftt ft fgrow hR0 fgn hF0 np
      grind [Pend]
    · refine XGrow_frame hR0 e_th' e_rz h_lv2 e_tbl ?_ fgrow
      clear ftt ft fgrow hR0 fgn hF0 np
      grind [InPhase, Worker, AddPc, GcPc]
set_option maxHeartbeats 4000000 in
theorem invF_xchgOwn {c s s' t o} (hc : c.ownerByOr = false) (hR : InvR c s) (hF : InvF c s)
    (st : step c s t .xchgOwn = some (s', o)) : InvF c s' := by
  have sz0 : 0 < s.size := by have := hR.g.1.1; have := Nat.two_pow_pos (Nat.log2 s.size); omega
  st_open st
  all_goals first
    | (f_local hR hF [(s.th t).node]; done)
    | skip
  all_goals
    have np := no_pub hR hF
    have hF0 := hF
    have wf := worker_facts hR t
    f_mut_open hR hF
    have gn := fgn (s.th t).node
    simp only [GFn] at gn
    have kf : valid s (s.th t).node ∧ s.isB (s.th t).node = false ∧ (s.nxt (s.th t).node).rem = true ∧ (s.th t).v.rem = true ∧ (s.th t).v.ptr = (s.nxt (s.th t).node).ptr ∧ (s.th t).v.bkt = (s.nxt (s.th t).node).bkt := by
      grind [valid, vz]
    have h_valid : ∀ p, valid s p → valid s' p := by
      clear rtt ftt; intro p; simp only [valid, e_life]; exact id
    have h_priv : ∀ p, p ≠ 0 → s.life p = .priv → s'.life p = .priv := by
      clear rtt ftt; intro p; simp only [e_life]; exact fun _ h => h
    have h_rem : ∀ p, (s.nxt p).rem = true → (s'.nxt p).rem = true ∧ (s'.nxt p).ptr = (s.nxt p).ptr ∧
        (s'.nxt p).bkt = (s.nxt p).bkt := by
      clear rtt; intro p; simp only [e_nxt, upd]; grind
    have h_lv : ∀ i, i < s.size → live s (s.tbl i) → live s' (s.tbl i) := by
      clear rtt ftt; intro i _; have := rg.2.2.1 i; simp only [live, e_life, e_nxt, upd]; grind
    have h_lv2 : ∀ i, live s (s.tbl i) → live s' (s.tbl i) := by
      clear rtt ftt; intro i; have := rg.2.2.1 i; simp only [live, e_life, e_nxt, upd]; grind
    refine InvF_mut (n := 0) hR0 hF0 e_th' e_hsh e_isB e_size e_tbl e_cs e_rz hrl hrg hclk h_valid h_priv
      (fun _ _ _ i => h_lv2 i) h_rem (fun u _ => np.1 u) (fun u _ => np.2 u) ?_ ?_ ?_ ?_
    · simp only [GF]
      refine ⟨?_, ?_, ?_, ?_⟩
      · intro p
        have gpp := fgn p
        clear rtt
        simp only [GFn] at gpp ⊢
        simp only [vz] at *
        simp only [valid] at gpp gn kf ⊢
        st_simp
        by_cases h1 : p = (s.th t).node <;> simp only [h1, if_true, if_false] <;> grind
      · st_simp; exact fgz
      · intro i hi; rw [e_tbl]; rw [e_size] at hi; exact h_lv i hi (fgl i hi)
      · intro u b hb; rw [e_cs] at hb; have := fgc u b hb; omega
    · have fgct := fgc t
      have hmod := Nat.mod_lt (s.hsh (s.th t).node) sz0
      have pw := @two_pow_pred (s.th t).rord
      clear ft fpend fgrow hR0 fgn hF0 np
      simp only [TF, vz, HB, Lim, valid] at ftt kf ⊢
      simp only [e_hsh, e_isB, e_size, e_tbl, e_cs, e_rz, hrl, hrg, e_clock, e_life]
      have tm := rg.2.2.1 (s.hsh (s.th t).node % (s.th t).sz)
      have hmod2 := fun h => Nat.mod_lt (s.hsh (s.th t).node) (show 0 < (s.th t).sz from h)
      have rl2 := rl.2 (s.hsh (s.th t).node % (s.th t).sz)
      st_simp
      grind [live, Pend, InAdd, HasPos, AddPc, GcPc, ZPc, HPc, Worker, InPhase]
    · refine XPend_frame e_th' ?_ fpend
      clear rtt ftt ft fgrow hR0 fgn hF0 np
      grind [Pend]
    · refine XGrow_frame hR0 e_th' e_rz h_lv2 e_tbl ?_ fgrow
      clear ftt ft fgrow hR0 fgn hF0 np
      grind [InPhase, Worker, AddPc, GcPc]
set_option maxHeartbeats 4000000 in
theorem invF_orBkt {c s s' t o} (hc : c.ownerByOr = false) (hR : InvR c s) (hF : InvF c s)
    (st : step c s t .orBkt = some (s', o)) : InvF c s' := by
  have sz0 : 0 < s.size := by have := hR.g.1.1; have := Nat.two_pow_pos (Nat.log2 s.size); omega
  st_open st
  all_goals first
    | (f_local hR hF [(s.th t).node]; done)
    | skip
  all_goals
    have np := no_pub hR hF
    have hF0 := hF
    have wf := worker_facts hR t
    f_mut_open hR hF
    have gn := fgn (s.th t).node
    simp only [GFn] at gn
    have kf : valid s (s.th t).node ∧ Worker (s.th t) ∧ (s.th t).node = s.tbl (s.th t).j ∧ (s.th t).rk = .shrink ∧
        s.size ≤ (s.th t).j ∧ (s.th t).j < 2 ^ (s.th t).rord ∧ s.tbl (s.th t).j ≠ 0 := by
      have := wf (by grind [Worker]); have := this.2.2.2.2.2.2.1 (s.th t).j
      grind [valid, vz, Worker, okp]
    have h_valid : ∀ p, valid s p → valid s' p := by
      clear rtt ftt; intro p; simp only [valid, e_life]; exact id
    have h_priv : ∀ p, p ≠ 0 → s.life p = .priv → s'.life p = .priv := by
      clear rtt ftt; intro p; simp only [e_life]; exact fun _ h => h
    have h_rem : ∀ p, (s.nxt p).rem = true → (s'.nxt p).rem = true ∧ (s'.nxt p).ptr = (s.nxt p).ptr ∧
        (s'.nxt p).bkt = (s.nxt p).bkt := by
      clear rtt; intro p; simp only [e_nxt, upd]; grind
    have h_lv : ∀ i, i < s.size → live s (s.tbl i) → live s' (s.tbl i) := by
      clear rtt ftt; intro i hi; have := rg.2.2.1 i; have := rg.2.2.1 (s.th t).j; have := rg.2.1 i hi
      simp only [live, e_life, e_nxt, upd]; grind
    have h_z : ∀ u, u ≠ t → ¬ ((s.th u).pc = .zGp ∨ (s.th u).pc = .zSync ∨ (s.th u).pc = .zFree) := by
      intro u hu hz
      have hut := hR0.t u; have htt' := hR0.t t
      simp only [TR, ZPc] at hut htt'
      have ho : s.rzOwner = u + 1 := hut.1 (by grind)
      have hp : (s.th t).parent ≠ 0 := by have := htt'.2.2.1 kf.2.1; grind
      obtain ⟨o, ho'⟩ : ∃ o, (s.th t).parent = o + 1 := ⟨(s.th t).parent - 1, by omega⟩
      have r := hR0.rel t o ho'
      have : o = u := by have := htt'.2.2.2.2.1 hp; grind
      subst this
      clear rtt ftt hut htt'
      simp only [InPhase, Worker, AddPc, GcPc] at r; grind
    refine InvF_mut (n := 0) hR0 hF0 e_th' e_hsh e_isB e_size e_tbl e_cs e_rz hrl hrg hclk h_valid h_priv
      (fun u hu hz => absurd hz (h_z u hu)) h_rem (fun u _ => np.1 u) (fun u _ => np.2 u) ?_ ?_ ?_ ?_
    · simp only [GF]
      refine ⟨?_, ?_, ?_, ?_⟩
      · intro p
        have gpp := fgn p
        clear rtt
        simp only [GFn] at gpp ⊢
        simp only [vz] at *
        simp only [valid] at gpp gn kf ⊢
        st_simp
        have := rg.2.2.1 (s.th t).j
        by_cases h1 : p = (s.th t).node <;> simp only [h1, if_true, if_false] <;> grind
      · st_simp; exact fgz
      · intro i hi; rw [e_tbl]; rw [e_size] at hi; exact h_lv i hi (fgl i hi)
      · intro u b hb; rw [e_cs] at hb; have := fgc u b hb; omega
    · have fgct := fgc t
      have hmod := Nat.mod_lt (s.hsh (s.th t).node) sz0
      have pw := @two_pow_pred (s.th t).rord
      clear ft fpend fgrow hR0 fgn hF0 np
      simp only [TF, vz, HB, Lim, valid] at ftt kf ⊢
      simp only [e_hsh, e_isB, e_size, e_tbl, e_cs, e_rz, hrl, hrg, e_clock, e_life]
      have tm := rg.2.2.1 (s.hsh (s.th t).node % (s.th t).sz)
      have hmod2 := fun h => Nat.mod_lt (s.hsh (s.th t).node) (show 0 < (s.th t).sz from h)
      have rl2 := rl.2 (s.hsh (s.th t).node % (s.th t).sz)
      st_simp
      grind [live, Pend, InAdd, HasPos, AddPc, GcPc, ZPc, HPc, Worker, InPhase]
    · refine XPend_frame e_th' ?_ fpend
      clear rtt ftt ft fgrow hR0 fgn hF0 np
      grind [Pend]
    · intro o ho hph hrk
      exfalso
      have wd := worker_disj hR0 t o
      have hto := hR0.t o; have htt' := hR0.t t
      simp only [TR] at hto htt'
      rw [e_rz] at ho
      rw [e_th'] at hph hrk
      simp only [upd] at hph hrk
      by_cases hot : o = t
      · subst hot; simp only [if_true] at hrk; clear ftt ft fgrow hR0 fgn hF0 np; grind
      · simp only [hot, if_false] at hph hrk
        have := wd hot (.inl kf.2.1) (by clear ftt rtt ft fgrow hR0 fgn hF0 np hto htt'; simp only [InPhase] at hph; grind)
        clear ftt ft fgrow hR0 fgn hF0 np; grind
set_option maxHeartbeats 4000000 in
theorem invF_callAdd {c s s' t o m n hh k} (hc : c.ownerByOr = false) (hR : InvR c s) (hF : InvF c s)
    (st : step c s t (.callAdd m n hh k) = some (s', o)) : InvF c s' := by
  st_open st
  all_goals f_alloc hR hF

set_option maxHeartbeats 4000000 in
theorem invF_callReplace {c s s' t o n hh k} (hc : c.ownerByOr = false) (hR : InvR c s) (hF : InvF c s)
    (st : step c s t (.callReplace n hh k) = some (s', o)) : InvF c s' := by
  st_open st
  all_goals f_alloc hR hF

theorem invF_orOwn {c s s' t o} (hc : c.ownerByOr = false) (hR : InvR c s) (hF : InvF c s)
    (st : step c s t .orOwn = some (s', o)) : InvF c s' := by
  have := (hF.t t).1
  st_open st
  all_goals (exfalso; grind)

end UrcuVerif.Lfht.Conc
