import UrcuVerif.Lfht.Conc.InvSUser
/-!
# Concurrent rculfhash — layer S: tactics for the per-label thread lemmas (proof-only file)
-/
namespace UrcuVerif.Lfht.Conc
open UrcuVerif
set_option linter.unusedSimpArgs false
set_option linter.unusedVariables false
set_option hygiene false in
/-- other threads: heap phase only -/
macro "ts_other" : tactic => `(tactic|
  (have e1 : s'.th u = s.th u := by rw [e_th']; simp [upd, hu]
   rw [e1]
   refine ⟨TSc_heap hc r st0 (cst.1 u hu) e_tbl (hS.t u).1, TS8_heap hc r st0 e_tbl e_rz ?_ (hS.t u).2⟩
   intro a b j h1 h2 hh
   first
     | (cases hh.1; done)
     | exact orBkt_other hR (by assumption) hu a j h1 h2 hh.2))

set_option hygiene false in
/-- threads part of layer S across a step that keeps the acting thread's section, `tbl` and `rzOwner` -/
macro "ts_step" extra:tactic : tactic => `(tactic|
  (have r' : Reach c s' := .step r st0
   have ⟨hR, hF, hL⟩ := invRFL_reach hc r
   have ⟨hR', hF', hL'⟩ := invRFL_reach hc r'
   have cst := cs_step st0
   intro u
   by_cases hu : u = t
   · have hu' : t = u := hu.symm
     subst hu'
     have ecs : s'.cs t = s.cs t := by rw [e_cs]
     have h1c := TSc_heap hc r st0 ecs e_tbl (hS.t t).1
     have h18 := TS8_heap (u := t) hc r st0 e_tbl e_rz (by intro a b j h1 h2 hh; cases hh.1) (hS.t t).2
     have e1 : s'.th t = x' := by rw [e_th']; simp [upd]
     have ft' := hF'.t t; have ft0 := hF.t t; have rt0 := hR.t t
     rw [e1] at ft'
     simp only [TF] at ft' ft0; simp only [TR] at rt0
     have f3 := ft0.2.2.1
     have f8' := ft'.2.2.2.2.2.2.2.1; have f10' := ft'.2.2.2.2.2.2.2.2.2.1; have f11' := ft'.2.2.2.2.2.2.2.2.2.2.1
     have f13' := ft'.2.2.2.2.2.2.2.2.2.2.2.2.1; have f15 := ft0.2.2.2.2.2.2.2.2.2.2.2.2.2.2.1
     have f20' := ft'.2.2.2.2.2.2.2.2.2.2.2.2.2.2.2.2.2.2.2.1
     have f8 := ft0.2.2.2.2.2.2.2.1; have f20 := ft0.2.2.2.2.2.2.2.2.2.2.2.2.2.2.2.2.2.2.2.1
     have f11 := ft0.2.2.2.2.2.2.2.2.2.2.1
     have lwk := rt0.2.2.2.2.2.2.1
     have hnx := fun p (hh : Held s' t p) (p0 : p ≠ 0) (hcs : (s'.cs t).isSome) => (held_next hc r' hh p0 hcs).1
     have hn1 := hnx (s.th t).bkt; have hn2 := hnx (s.th t).gbkt; have hn3 := hnx (s.th t).iter.ptr
     have hn4 := hnx (s.th t).cur; have hn5 := hnx (s.tbl 0)
     clear hnx
     have hz : Held s' t 0 := fun h => absurd rfl h
     have f13 := ft0.2.2.2.2.2.2.2.2.2.2.2.2.1
     have fz0 := hF.g.2.1
     have c0 : valid s (s.th t).cur → (s.th t).cur ≠ 0 := fun hv e => by rw [e] at hv; exact hv.1 fz0
     have umode := rt0.2.2.2.2.2.1; have f19 := ft0.2.2.2.2.2.2.2.2.2.2.2.2.2.2.2.2.2.2.1
     have hlk1 := fun (hh : s'.life (s.th t).bkt = .linked) => held_linked (s := s') (u := t) hh
     have hlk2 := fun (hh : s'.life (s.th t).gbkt = .linked) => held_linked (s := s') (u := t) hh
     have hlk3 := fun (hh : s'.life (s.tbl 0) = .linked) => held_linked (s := s') (u := t) hh
     have hbl1 := fun (hh : HB s t (s.th t).bkt) => And.intro (hb_facts hc r hh).1 hh.1
     have hbl2 := fun (hh : HB s t (s.th t).gbkt) => And.intro (hb_facts hc r hh).1 hh.1
     have nxd : ∀ a, nxp s' a = (s'.nxt a).ptr := fun _ => rfl
     have rg := hR.g; simp only [GR] at rg
     have sz0 : 0 < s.size := by have := rg.1.1; have := Nat.two_pow_pos (Nat.log2 s.size); omega
     have hf0 := hF.g.2.2.1 0 sz0
     ($extra:tactic)
     clear ft' ft0 rt0 hS rg
     rw [e1]
     simp only [TS, TSc, TS8, pendFrom] at h1c h18 ⊢
     simp only [ecs, e_life, e_nxt, e_tbl, e_rz] at *
     grind [HasPos, GcPc, Worker, AddPc, HPc, ZPc, InAdd, live]
   · ts_other))

set_option hygiene false in
/-- the acting thread's goal, reduced with its known new pc -/
macro "ts_red" : tactic => `(tactic|
  (rw [e1]
   simp only [TS, TSc, TS8, pendFrom, HasPos, GcPc, Worker, AddPc, HPc, ZPc, InPhase, hpc', reduceCtorEq, false_or, or_false,
     false_and, and_false, false_implies, true_or, or_true, true_implies, implies_true, true_and, and_true, not_false_eq_true,
     not_true_eq_false, ↓reduceIte, xitn, xitx, xgcont, xrk, xpfree, xgpAt, xj, xjend, xold, xnode, xmode, ne_eq, and_self]))

set_option hygiene false in
macro "ts_pre" : tactic => `(tactic|
  (have r' : Reach c s' := .step r st0
   have ⟨hR, hF, hL⟩ := invRFL_reach hc r
   have ⟨hR', hF', hL'⟩ := invRFL_reach hc r'
   have cst := cs_step st0
   have tsc := (hS.t t).1; have ts8 := (hS.t t).2
   simp only [TSc] at tsc; simp only [TS8] at ts8
   have rt0 := hR.t t; simp only [TR] at rt0
   have ft0 := hF.t t; simp only [TF] at ft0
   have e1 : s'.th t = x' := by rw [e_th']; simp [upd]
   have hz : Held s' t 0 := fun h => absurd rfl h))

set_option hygiene false in
/-- finish a reduced acting-thread goal -/
macro "ts_fin" : tactic => `(tactic|
  (ts_red
   (try simp only [e_life, e_nxt, e_tbl, e_cs, e_rz, e_unlAt, e_clock, e_size, upd, if_true])
   clear hS hR hF hL hR' hF' hL' r'
   grind [Held, live, InLevel, HasPos, GcPc, Worker, AddPc, HPc, ZPc, InPhase, pendFrom]))

set_option hygiene false in
/-- other threads, when the step changes `tbl` or `rzOwner`: nobody else is inside the resize code (`$nz`) -/
macro "ts_user" nz:term : tactic => `(tactic|
  (have e1 : s'.th u = s.th u := by rw [e_th']; simp [upd, hu]
   rw [e1]
   exact TS_user_step hc r st0 hu ($nz u hu) (hS.t u)))

end UrcuVerif.Lfht.Conc
