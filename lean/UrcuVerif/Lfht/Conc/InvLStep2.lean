import UrcuVerif.Lfht.Conc.InvL
/-! Layer L is preserved by every step (part 2) (proof-only file). -/
namespace UrcuVerif.Lfht.Conc
open UrcuVerif
set_option linter.unusedSimpArgs false
set_option linter.unusedVariables false

set_option maxHeartbeats 4000000 in
theorem invL_ldAssertW {c s s' t o} (hc : c.ownerByOr = false) (hR : InvR c s) (hF : InvF c s) (hL : InvL s)
    (st : step c s t .ldAssertW = some (s', o)) : InvL s' := by
  st_open st
  all_goals l_frame hR hF hL [(s.th t).prev, (s.th t).iter.ptr, (s.th t).cur, (s.th t).bkt, (s.th t).node, (s.th t).old]

set_option maxHeartbeats 4000000 in
theorem invL_ldHeadL {c s s' t o} (hc : c.ownerByOr = false) (hR : InvR c s) (hF : InvF c s) (hL : InvL s)
    (st : step c s t .ldHeadL = some (s', o)) : InvL s' := by
  st_open st
  all_goals l_frame hR hF hL [(s.th t).prev, (s.th t).iter.ptr, (s.th t).cur, (s.th t).bkt, (s.th t).node, (s.th t).old]

set_option maxHeartbeats 4000000 in
theorem invL_ldFirst {c s s' t o} (hc : c.ownerByOr = false) (hR : InvR c s) (hF : InvF c s) (hL : InvL s)
    (st : step c s t .ldFirst = some (s', o)) : InvL s' := by
  st_open st
  all_goals l_frame hR hF hL [(s.th t).prev, (s.th t).iter.ptr, (s.th t).cur, (s.th t).bkt, (s.th t).node, (s.th t).old]

set_option maxHeartbeats 4000000 in
theorem invL_ldAssertR {c s s' t o} (hc : c.ownerByOr = false) (hR : InvR c s) (hF : InvF c s) (hL : InvL s)
    (st : step c s t .ldAssertR = some (s', o)) : InvL s' := by
  st_open st
  all_goals l_frame hR hF hL [(s.th t).prev, (s.th t).iter.ptr, (s.th t).cur, (s.th t).bkt, (s.th t).node, (s.th t).old]

set_option maxHeartbeats 4000000 in
theorem invL_ldHeadG {c s s' t o} (hc : c.ownerByOr = false) (hR : InvR c s) (hF : InvF c s) (hL : InvL s)
    (st : step c s t .ldHeadG = some (s', o)) : InvL s' := by
  st_open st
  all_goals l_frame hR hF hL [(s.th t).prev, (s.th t).iter.ptr, (s.th t).cur, (s.th t).bkt, (s.th t).node, (s.th t).old]

set_option maxHeartbeats 4000000 in
theorem invL_ldNextG {c s s' t o} (hc : c.ownerByOr = false) (hR : InvR c s) (hF : InvF c s) (hL : InvL s)
    (st : step c s t .ldNextG = some (s', o)) : InvL s' := by
  st_open st
  all_goals l_frame hR hF hL [(s.th t).prev, (s.th t).iter.ptr, (s.th t).cur, (s.th t).bkt, (s.th t).node, (s.th t).old]

set_option maxHeartbeats 4000000 in
theorem invL_ldDel {c s s' t o} (hc : c.ownerByOr = false) (hR : InvR c s) (hF : InvF c s) (hL : InvL s)
    (st : step c s t .ldDel = some (s', o)) : InvL s' := by
  st_open st
  all_goals l_frame hR hF hL [(s.th t).prev, (s.th t).iter.ptr, (s.th t).cur, (s.th t).bkt, (s.th t).node, (s.th t).old]

set_option maxHeartbeats 4000000 in
theorem invL_orRem {c s s' t o} (hc : c.ownerByOr = false) (hR : InvR c s) (hF : InvF c s) (hL : InvL s)
    (st : step c s t .orRem = some (s', o)) : InvL s' := by
  st_open st
  all_goals l_frame hR hF hL [(s.th t).prev, (s.th t).iter.ptr, (s.th t).cur, (s.th t).bkt, (s.th t).node, (s.th t).old]

set_option maxHeartbeats 4000000 in
theorem invL_ldAssertD {c s s' t o} (hc : c.ownerByOr = false) (hR : InvR c s) (hF : InvF c s) (hL : InvL s)
    (st : step c s t .ldAssertD = some (s', o)) : InvL s' := by
  st_open st
  all_goals l_frame hR hF hL [(s.th t).prev, (s.th t).iter.ptr, (s.th t).cur, (s.th t).bkt, (s.th t).node, (s.th t).old]

set_option maxHeartbeats 4000000 in
theorem invL_ldDel2 {c s s' t o} (hc : c.ownerByOr = false) (hR : InvR c s) (hF : InvF c s) (hL : InvL s)
    (st : step c s t .ldDel2 = some (s', o)) : InvL s' := by
  st_open st
  all_goals l_frame hR hF hL [(s.th t).prev, (s.th t).iter.ptr, (s.th t).cur, (s.th t).bkt, (s.th t).node, (s.th t).old]

set_option maxHeartbeats 4000000 in
theorem invL_xchgOwn {c s s' t o} (hc : c.ownerByOr = false) (hR : InvR c s) (hF : InvF c s) (hL : InvL s)
    (st : step c s t .xchgOwn = some (s', o)) : InvL s' := by
  st_open st
  all_goals l_frame hR hF hL [(s.th t).prev, (s.th t).iter.ptr, (s.th t).cur, (s.th t).bkt, (s.th t).node, (s.th t).old]

set_option maxHeartbeats 4000000 in
theorem invL_orOwn {c s s' t o} (hc : c.ownerByOr = false) (hR : InvR c s) (hF : InvF c s) (hL : InvL s)
    (st : step c s t .orOwn = some (s', o)) : InvL s' := by
  st_open st
  all_goals l_frame hR hF hL [(s.th t).prev, (s.th t).iter.ptr, (s.th t).cur, (s.th t).bkt, (s.th t).node, (s.th t).old]

set_option maxHeartbeats 4000000 in
theorem invL_orBkt {c s s' t o} (hc : c.ownerByOr = false) (hR : InvR c s) (hF : InvF c s) (hL : InvL s)
    (st : step c s t .orBkt = some (s', o)) : InvL s' := by
  st_open st
  all_goals l_frame hR hF hL [(s.th t).prev, (s.th t).iter.ptr, (s.th t).cur, (s.th t).bkt, (s.th t).node, (s.th t).old]

end UrcuVerif.Lfht.Conc
