import UrcuVerif.Lfht.Conc.Types
/-!
# Concurrent `src/rculfhash.c`: executable L2 model — one step per load of a `next` word / of
`ht->size` and per read-modify-write, any number of threads, every interleaving

Every shared mutation of a `next` word is a `cmpxchg`, `xchg` or `lock or` (locked RMW ⇒ SC = x86-TSO for
this structure, DESIGN §2); the private initialisation of a node (`node->next = …`, `reverse_hash`) is
folded into the publishing CAS.  Thread-local computation between two accesses is folded into the step
that precedes it (the loop tests of `_cds_lfht_add`, `_cds_lfht_gc_bucket`, `cds_lfht_lookup` read only
immutable `reverse_hash`/key fields).  Grace periods are abstract (`gpStart`/`gpEnd` as in
`Poll/Model.lean`: `gpEnd` is enabled when every open section began after `gpStart`).  The resize mutex,
table allocation/free, the partition helpers (`spawn`/`join`) and the size stores are steps; the
arbitration of the resize target belongs to C09 (`Lfht/Resize.lean`).

Ghost: `L` = the nodes currently linked from bucket 0, updated by the three kinds of successful CAS;
node life cycle `fresh → priv → linked → unlinked` (+ `freed`); `wins`/`dels` count returns.
A dereference of NULL, of a freed node or of a node that was never linked sets `uaf` and changes nothing
else (`Out.crash`): memory safety is the separate obligation `reclaim_safe`.
-/
namespace UrcuVerif.Lfht.Conc
open UrcuVerif

inductive Label
  | rlock | runlock
  | callAdd (m : Mode) (n h k : Nat)
  | callReplace (n h k : Nat)
  | callDel
  | callLookup (h k : Nat) | callDup (k : Nat) | callNext | callFirst
  | ldSize
  | ldHeadA | ldNextA | casIns | casGc
  | ldWalk | ldAssertW
  | casRepl | ldAssertR
  | ldHeadG | ldNextG
  | ldDel | orRem | ldAssertD | ldDel2 | xchgOwn | orOwn
  | ldHeadL | ldFirst
  | rzLock | rzUnlock
  | tblAlloc (base : Nat) | spawn (u len : Nat) | join (u : Nat) | partBegin | partEnd
  | stSizeGrow | stSizeShrink | gpStart | gpEnd | tblFree | orBkt
  | reclaim (p : Nat)
  deriving DecidableEq, Repr

inductive Out
  | unit
  | ret (code : Int)         -- cds_lfht_replace / cds_lfht_del
  | node (p : Nat)           -- cds_lfht_add_unique / cds_lfht_add_replace (0 = NULL)
  | iter (p : Nat) (w : W)   -- lookup / next_duplicate / next / first: (iter.node, iter.next)
  | crash
  deriving DecidableEq, Repr

def ENOENT : Int := 2
def EINVAL : Int := 22

def setTh (s : State) (t : Nat) (x : Thr) : State := { s with th := upd s.th t x }
def tick (s : State) : State := { s with clock := s.clock + 1 }

/-- memory of `p` may be dereferenced -/
def okp (s : State) (p : Nat) : Bool :=
  p != 0 && !s.freed p && (s.life p == .linked || s.life p == .unlinked)

def crash (s : State) : Option (State × Out) := some ({ s with uaf := true }, .crash)

/-- insert `n` right after `p` -/
def insAfter (p n : Nat) : List Nat → List Nat
  | [] => []
  | a :: l => if a = p then a :: n :: l else a :: insAfter p n l

/-- after `cds_lfht_new(1, …)`: bucket 0 is node 1 -/
def init : State :=
  { nxt := fun p => if p = 1 then { bkt := true } else {}, hsh := fun _ => 0, rev := fun _ => 0,
    key := fun _ => 0, isB := fun p => p == 1, life := fun p => if p = 1 then .linked else .fresh,
    freed := fun _ => false, size := 1, tbl := fun j => if j = 0 then 1 else 0,
    alloc := fun o => o == 0, hi := 2, th := fun _ => {}, rzOwner := 0, L := [1], wins := fun _ => 0,
    dels := fun _ => 0, ownRet := fun _ => none, unlAt := fun _ => 0, clock := 1, cs := fun _ => none,
    uaf := false }

/-- the loop head of `_cds_lfht_add` after `iter` has been (re)loaded: insert here or look at `iter` -/
def addPos (s : State) (x : Thr) : Thr :=
  if x.iter.ptr = 0 ∨ s.rev x.node < s.rev x.iter.ptr ∨ (x.mode = .bkt ∧ s.rev x.iter.ptr = s.rev x.node)
  then { x with pc := .aCas } else { x with pc := .aNext }

/-- set up item `x.j` of a populate / remove partition, or finish the partition -/
def partItem (s : State) (x : Thr) : Thr :=
  if x.j < x.jend then
    match x.rk with
    | .grow => { x with node := s.tbl x.j, mode := .bkt, op := .none, hs := x.j, sz := 2 ^ (x.rord - 1),
                        bkt := s.tbl (x.j - 2 ^ (x.rord - 1)), pc := .aHead }
    | .shrink => { x with node := s.tbl x.j, pc := .sOr }
    | .none => { x with pc := .pEnd }
  else { x with pc := .pEnd }

/-- `_cds_lfht_gc_bucket` returns -/
def gcRet (s : State) (x : Thr) : Thr :=
  match x.gcont with
  | .repl => { x with pc := .rAssert }
  | .del => { x with pc := .dAssert }
  | .shrink => partItem s { x with j := x.j + 1 }

/-- loop head of `_cds_lfht_gc_bucket` after `iter` has been (re)loaded -/
def gcPos (s : State) (x : Thr) : Thr :=
  if x.iter.ptr = 0 ∨ s.rev x.gnode < s.rev x.iter.ptr then gcRet s x else { x with pc := .gNext }

/-- `_cds_lfht_replace` is entered / re-tested with `old_next = w` -/
def replTest (s : State) (t : Nat) (x : Thr) (w : W) : State × Out :=
  if w.rem then
    match x.op with
    | .replace => (setTh s t { x with pc := .idle, op := .none }, .ret (-ENOENT))
    | _ => (setTh s t { x with pc := .aHead }, .unit)     -- cds_lfht_add_replace: `for (;;)` again
  else (setTh s t { x with oldnx := w, pc := .rCas }, .unit)

/-- a lookup / next_duplicate / next loop ends with `(n, w)` (`n = 0`: not found) -/
def walkRet (s : State) (t : Nat) (x : Thr) (n : Nat) (w : W) : State × Out :=
  match x.wk with
  | .dupAdd =>
    if n = 0 then (setTh s t { x with pc := .aCas }, .unit)
    else match x.mode with
      | .repl => replTest s t { x with old := n } w
      | _ => (setTh s t { x with pc := .idle, op := .none }, .node n)
  | _ => (setTh s t { x with pc := .idle, op := .none, itn := n, itx := w }, .iter n w)

/-- position test of the walks after `node` moved to `n` -/
def walkPos (s : State) (t : Nat) (x : Thr) (n : Nat) : State × Out :=
  if n = 0 ∨ (x.wk ≠ .next ∧ x.rh < s.rev n) then walkRet s t x 0 {}
  else (setTh s t { x with cur := n, pc := .wNext }, .unit)

def found (s : State) (x : Thr) (w : W) : Bool :=
  !w.rem && !w.bkt &&
    match x.wk with
    | .lookup => s.rev x.cur == x.rh && s.key x.cur == x.ky
    | .dup | .dupAdd => s.key x.cur == x.ky
    | .next => true

/-- the insertion cmpxchg succeeded: `_cds_lfht_add` returns -/
def addDone (s : State) (t : Nat) (x : Thr) : State × Out :=
  match x.mode with
  | .plain => (setTh s t { x with pc := .idle, op := .none }, .unit)
  | .uniq => (setTh s t { x with pc := .idle, op := .none }, .node x.node)
  | .repl => (setTh s t { x with pc := .idle, op := .none }, .node 0)
  | .bkt => (setTh s t (partItem s { x with j := x.j + 1 }), .unit)

/-- unlink `c` (successor of `p`) with the frozen successor `w`: the gc cmpxchg succeeded -/
def unlink (s : State) (p c : Nat) (w : W) : State :=
  { s with nxt := upd s.nxt p w, L := s.L.erase c, life := upd s.life c .unlinked,
           unlAt := upd s.unlAt c s.clock }

end UrcuVerif.Lfht.Conc
