import UrcuVerif.Lfht.Conc.InvR
/-! Layer R is preserved by every step: the resize steps (proof-only file). -/
namespace UrcuVerif.Lfht.Conc
open UrcuVerif
set_option linter.unusedSimpArgs false
set_option linter.unusedVariables false

set_option maxHeartbeats 2000000 in
theorem invR_rzLock {c s s' t o} (h : InvR c s) (st : step c s t .rzLock = some (s', o)) : InvR c s' := by
  st_open st
  all_goals r_step h

set_option maxHeartbeats 2000000 in
theorem invR_rzUnlock {c s s' t o} (h : InvR c s) (st : step c s t .rzUnlock = some (s', o)) : InvR c s' := by
  st_open st
  all_goals r_step h

set_option maxHeartbeats 2000000 in
theorem invR_partBegin {c s s' t o} (h : InvR c s) (st : step c s t .partBegin = some (s', o)) : InvR c s' := by
  st_open st
  all_goals r_step h

set_option maxHeartbeats 2000000 in
theorem invR_partEnd {c s s' t o} (h : InvR c s) (st : step c s t .partEnd = some (s', o)) : InvR c s' := by
  st_open st
  all_goals r_step h

set_option maxHeartbeats 2000000 in
theorem invR_stSizeGrow {c s s' t o} (h : InvR c s) (st : step c s t .stSizeGrow = some (s', o)) : InvR c s' := by
  st_open st
  all_goals r_step h

set_option maxHeartbeats 2000000 in
theorem invR_gpStart {c s s' t o} (h : InvR c s) (st : step c s t .gpStart = some (s', o)) : InvR c s' := by
  st_open st
  all_goals r_step h

set_option maxHeartbeats 2000000 in
theorem invR_gpEnd {c s s' t o} (h : InvR c s) (st : step c s t .gpEnd = some (s', o)) : InvR c s' := by
  st_open st
  all_goals r_step h

set_option maxHeartbeats 2000000 in
theorem invR_tblFree {c s s' t o} (h : InvR c s) (st : step c s t .tblFree = some (s', o)) : InvR c s' := by
  st_open st
  all_goals r_step h

set_option hygiene false in
/-- `spawn` / `join`: threads `t` (owner) and `u` (helper) change; `$nl` is the new helper list -/
macro "r_step2" h:ident nl:term : tactic => `(tactic|
  (obtain ⟨hg, ht, hrel, hdisj, ⟨hl, hhl⟩⟩ := $h
   have htt := ht t; have htu := ht u
   simp only [XHelpers] at hhl
   obtain ⟨l1, l2, l3, l4, l5⟩ := hhl
   have l3t := l3 t; have l4t := l4 t; have l2u := l2 u; have rut := hrel u t; have rtu := hrel t u
   have pw := @two_pow_pred (s.th t).rord
   simp only [TR, AddPc, GcPc, ZPc, HPc, Worker, InPhase, GR] at htt htu hg l3t l4t rut rtu
   refine ⟨?_, ?_, ?_, ?_, ⟨$nl, ?_⟩⟩
   · simp only [GR] at hg ⊢; st_simp; exact hg
   · intro w
     by_cases hw : w = t
     · subst hw
       simp only [TR, AddPc, GcPc, ZPc, HPc, Worker, InPhase, GR] at ⊢
       st_simp
       grind
     · by_cases hw2 : w = u
       · subst hw2
         simp only [TR, AddPc, GcPc, ZPc, HPc, Worker, InPhase, GR] at ⊢
         st_simp; simp only [hw, if_false]
         grind
       · have hwt := ht w; have r1 := hrel w t; have l2w := l2 w
         simp only [TR, AddPc, GcPc, ZPc, HPc, Worker, InPhase, GR] at hwt r1 ⊢
         st_simp; simp only [hw, hw2, if_false]
         first | exact hwt | grind
   · intro a b
     have r1 := hrel a b; have r2 := hrel t b; have r3 := hrel a t; have r4 := hrel u b; have r5 := hrel a u
     have ha' := ht a; have hb' := ht b; have l2a := l2 a
     simp only [TR, AddPc, GcPc, ZPc, HPc, Worker, InPhase] at r1 r2 r3 r4 r5 ha' hb' ⊢
     st_simp
     by_cases ha : a = t <;> by_cases hb : b = t <;> by_cases ha2 : a = u <;> by_cases hb2 : b = u <;>
       simp only [ha, hb, ha2, hb2, if_true, if_false] <;> grind
   · intro a b
     have r1 := hdisj a b; have r2 := hdisj u b; have r3 := hdisj a u; have l2a := l2 a; have l2b := l2 b
     have ra := hrel a t; have rb := hrel b t; have ha' := ht a; have hb' := ht b
     simp only [TR, AddPc, GcPc, ZPc, HPc, Worker, InPhase] at ra rb ha' hb'
     st_simp
     by_cases ha : a = t <;> by_cases hb : b = t <;> by_cases ha2 : a = u <;> by_cases hb2 : b = u <;>
       simp only [ha, hb, ha2, hb2, if_true, if_false] <;> grind
   · simp only [XHelpers, TR, AddPc, GcPc, ZPc, HPc, Worker, InPhase] at ⊢
     st_simp
     refine ⟨?_, ?_, ?_, ?_, ?_⟩
     · grind [List.Nodup.erase]
     · intro w; have := l2 w; by_cases hw : w = t <;> by_cases hw2 : w = u <;> simp only [hw, hw2, if_true, if_false] <;>
         grind [List.Nodup.mem_erase_iff]
     · intro w hwz
       have hrz : s.rzOwner = t + 1 := by grind
       have : w = t := by omega
       subst this
       simp only [if_true, InPhase, Worker, AddPc, GcPc]
       grind [List.length_erase_of_mem]
     · intro w hwz
       have hrz : s.rzOwner = t + 1 := by grind
       have : w = t := by omega
       subst this
       simp only [if_true, InPhase, Worker, AddPc, GcPc]
       grind
     · grind))

set_option maxHeartbeats 4000000 in
theorem invR_spawn {c s s' t o u len} (h : InvR c s) (st : step c s t (.spawn u len) = some (s', o)) : InvR c s' := by
  st_open st
  st_open2
  r_step2 h (u :: hl)

set_option maxHeartbeats 4000000 in
theorem invR_join {c s s' t o u} (h : InvR c s) (st : step c s t (.join u) = some (s', o)) : InvR c s' := by
  st_open st
  st_open2
  r_step2 h (hl.erase u)
set_option maxHeartbeats 4000000 in
theorem invR_stSizeShrink {c s s' t o} (h : InvR c s) (st : step c s t .stSizeShrink = some (s', o)) : InvR c s' := by
  have e1 := @Nat.log2_two_pow (Nat.log2 s.size - 1)
  have e2 : ∀ r, s.size = 2 ^ r → Nat.log2 s.size = r := fun r hr => by rw [hr, Nat.log2_two_pow]
  have e2' := e2 ((s.th t).rord - 1)
  have e3 := @two_pow_pred (Nat.log2 s.size)
  have e4 : 2 ≤ s.size → s.size = 2 ^ Nat.log2 s.size → 1 ≤ Nat.log2 s.size := by
    intro h2 h3
    cases hk : Nat.log2 s.size with
    | zero => rw [hk] at h3; simp at h3; omega
    | succ n => omega
  st_open st
  all_goals r_step h
set_option maxHeartbeats 4000000 in
theorem invR_tblAlloc {c s s' t o base} (h : InvR c s) (st : step c s t (.tblAlloc base) = some (s', o)) : InvR c s' := by
  have e1 : 2 ^ (Nat.log2 s.size + 1) = 2 * 2 ^ Nat.log2 s.size := by rw [Nat.pow_succ]; omega
  have e2 : Nat.log2 s.size < 63 → 2 * 2 ^ Nat.log2 s.size ≤ 2 ^ 64 := by
    intro hk
    have : 2 ^ (Nat.log2 s.size + 1) ≤ 2 ^ 64 := Nat.pow_le_pow_right (by decide) (by omega)
    omega
  have e3 : 0 < 2 ^ Nat.log2 s.size := Nat.two_pow_pos _
  st_open st
  all_goals simp only [inRange, Bool.and_eq_true, decide_eq_true_eq, Nat.add_sub_cancel] at *
  all_goals r_step h

end UrcuVerif.Lfht.Conc
