import UrcuVerif.Lfht.Conc.InvF
/-! Layer F is preserved by every step: control steps, grace periods (proof-only file). -/
namespace UrcuVerif.Lfht.Conc
open UrcuVerif
set_option linter.unusedSimpArgs false
set_option linter.unusedVariables false

set_option maxHeartbeats 4000000 in
theorem invF_rlock {c s s' t o} (hc : c.ownerByOr = false) (hR : InvR c s) (hF : InvF c s)
    (st : step c s t .rlock = some (s', o)) : InvF c s' := by
  st_open st
  all_goals f_ctl hR hF

set_option maxHeartbeats 4000000 in
theorem invF_runlock {c s s' t o} (hc : c.ownerByOr = false) (hR : InvR c s) (hF : InvF c s)
    (st : step c s t .runlock = some (s', o)) : InvF c s' := by
  st_open st
  all_goals f_ctl hR hF

set_option maxHeartbeats 4000000 in
theorem invF_partBegin {c s s' t o} (hc : c.ownerByOr = false) (hR : InvR c s) (hF : InvF c s)
    (st : step c s t .partBegin = some (s', o)) : InvF c s' := by
  st_open st
  all_goals f_ctl hR hF

set_option maxHeartbeats 4000000 in
theorem invF_partEnd {c s s' t o} (hc : c.ownerByOr = false) (hR : InvR c s) (hF : InvF c s)
    (st : step c s t .partEnd = some (s', o)) : InvF c s' := by
  st_open st
  all_goals f_ctl hR hF

set_option maxHeartbeats 4000000 in
theorem invF_rzLock {c s s' t o} (hc : c.ownerByOr = false) (hR : InvR c s) (hF : InvF c s)
    (st : step c s t .rzLock = some (s', o)) : InvF c s' := by
  st_open st
  all_goals f_ctl hR hF

set_option maxHeartbeats 4000000 in
theorem invF_rzUnlock {c s s' t o} (hc : c.ownerByOr = false) (hR : InvR c s) (hF : InvF c s)
    (st : step c s t .rzUnlock = some (s', o)) : InvF c s' := by
  st_open st
  all_goals f_ctl hR hF

set_option maxHeartbeats 4000000 in
theorem invF_reclaim {c s s' t o p} (hc : c.ownerByOr = false) (hR : InvR c s) (hF : InvF c s)
    (st : step c s t (.reclaim p) = some (s', o)) : InvF c s' := by
  st_open st
  all_goals f_ctl hR hF
set_option maxHeartbeats 4000000 in
theorem invF_gpStart {c s s' t o} (hc : c.ownerByOr = false) (hR : InvR c s) (hF : InvF c s)
    (st : step c s t .gpStart = some (s', o)) : InvF c s' := by
  st_open st
  all_goals f_gp hR hF

set_option maxHeartbeats 4000000 in
theorem invF_gpEnd {c s s' t o} (hc : c.ownerByOr = false) (hR : InvR c s) (hF : InvF c s)
    (st : step c s t .gpEnd = some (s', o)) : InvF c s' := by
  st_open st
  all_goals f_gp hR hF

end UrcuVerif.Lfht.Conc
