import UrcuVerif.Lfht.Conc.InvSStep1
import UrcuVerif.Lfht.Conc.InvSStep2
import UrcuVerif.Lfht.Conc.InvSStep3
import UrcuVerif.Lfht.Conc.InvSStep4
import UrcuVerif.Lfht.Conc.InvSX
/-!
# Concurrent rculfhash — layer S assembled: memory safety of every reachable state (proof-only file)
-/
namespace UrcuVerif.Lfht.Conc
open UrcuVerif

theorem invSt_step {c s s' t l o} (hc : c.ownerByOr = false) (r : Reach c s) (hS : InvS s)
    (st : step c s t l = some (s', o)) : ∀ u, TS s' (s'.th u) u := by
  cases l with
  | rlock => exact invSt_rlock hc r hS st
  | runlock => exact invSt_runlock hc r hS st
  | callAdd m n h k => exact invSt_callAdd hc r hS st
  | callReplace n h k => exact invSt_callReplace hc r hS st
  | callDel => exact invSt_callDel hc r hS st
  | callLookup h k => exact invSt_callLookup hc r hS st
  | callDup k => exact invSt_callDup hc r hS st
  | callNext => exact invSt_callNext hc r hS st
  | callFirst => exact invSt_callFirst hc r hS st
  | ldSize => exact invSt_ldSize hc r hS st
  | ldHeadA => exact invSt_ldHeadA hc r hS st
  | ldNextA => exact invSt_ldNextA hc r hS st
  | casIns => exact invSt_casIns hc r hS st
  | casGc => exact invSt_casGc hc r hS st
  | ldHeadG => exact invSt_ldHeadG hc r hS st
  | ldNextG => exact invSt_ldNextG hc r hS st
  | casRepl => exact invSt_casRepl hc r hS st
  | ldAssertR => exact invSt_ldAssertR hc r hS st
  | ldWalk => exact invSt_ldWalk hc r hS st
  | ldAssertW => exact invSt_ldAssertW hc r hS st
  | ldHeadL => exact invSt_ldHeadL hc r hS st
  | ldFirst => exact invSt_ldFirst hc r hS st
  | ldDel => exact invSt_ldDel hc r hS st
  | orRem => exact invSt_orRem hc r hS st
  | ldAssertD => exact invSt_ldAssertD hc r hS st
  | ldDel2 => exact invSt_ldDel2 hc r hS st
  | xchgOwn => exact invSt_xchgOwn hc r hS st
  | orOwn => exact invSt_orOwn hc r hS st
  | orBkt => exact invSt_orBkt hc r hS st
  | rzLock => exact invSt_rzLock hc r hS st
  | rzUnlock => exact invSt_rzUnlock hc r hS st
  | tblAlloc base => exact invSt_tblAlloc hc r hS st
  | spawn v len => exact invSt_spawn hc r hS st
  | join v => exact invSt_join hc r hS st
  | partBegin => exact invSt_partBegin hc r hS st
  | partEnd => exact invSt_partEnd hc r hS st
  | stSizeGrow => exact invSt_stSizeGrow hc r hS st
  | stSizeShrink => exact invSt_stSizeShrink hc r hS st
  | gpStart => exact invSt_gpStart hc r hS st
  | gpEnd => exact invSt_gpEnd hc r hS st
  | tblFree => exact invSt_tblFree hc r hS st
  | reclaim p => exact invSt_reclaim hc r hS st

/-- layer S is preserved by every step -/
theorem invS_step {c s s' t l o} (hc : c.ownerByOr = false) (r : Reach c s) (hS : InvS s)
    (st : step c s t l = some (s', o)) : InvS s' := by
  refine ⟨invS_g hc r hS st, invSt_step hc r hS st, invS_x hc r hS st, ?_⟩
  rcases uaf_step st with h | h
  · rw [h]; exact hS.uaf
  · exact absurd h (no_crash hc r hS st)

theorem invS_reach {c s} (hc : c.ownerByOr = false) (r : Reach c s) : InvS s := by
  induction r with
  | init => exact invS_init
  | step r st ih => exact invS_step hc r ih st

/-- **reclaim_safe**: no reachable state has touched freed memory -/
theorem reclaim_safe_reach {c s} (hc : c.ownerByOr = false) (r : Reach c s) : s.uaf = false := (invS_reach hc r).uaf

/-- no step of a reachable state touches freed memory -/
theorem never_crashes_step {c s s' t l o} (hc : c.ownerByOr = false) (r : Reach c s) (st : step c s t l = some (s', o)) :
    o ≠ .crash := no_crash hc r (invS_reach hc r) st

end UrcuVerif.Lfht.Conc
