import UrcuVerif.Lfht.Conc.InvDAll
/-!
# Concurrent rculfhash — layer S: memory safety (`reclaim_safe`, `bucket_table_lifetime`) (proof-only file)

* `Held s u p`: thread `u`, inside the read-side section it opened at time `b`, may still dereference `p`:
  `p` is linked, or was unlinked at a time `≥ b`.  Loading `p->next` yields a pointer that is held again
  (`chain_L` for linked nodes, `frozen_points_forward` for unlinked ones).
* a node is freed only when every open section began after its unlink (`reclaim`: owner's return + grace
  period, with `del_returns_unlinked`; `tblFree`: all buckets of the level unlinked, then a grace period).
Together: a held pointer is never freed, so no step ever takes its `crash` branch and `uaf` stays false.
-/
namespace UrcuVerif.Lfht.Conc
open UrcuVerif
set_option linter.unusedSimpArgs false
set_option linter.unusedVariables false

def Held (s : State) (u p : Nat) : Prop :=
  p ≠ 0 → ∀ b, s.cs u = some b → s.life p = .linked ∨ (s.life p = .unlinked ∧ b ≤ s.unlAt p)

/-- first index of the partition range that has not been touched yet -/
def pendFrom (x : Thr) : Nat := if x.pc = .gHead ∨ x.pc = .gNext ∨ x.pc = .gCas then x.j + 1 else x.j

/-- indexes of bucket level `o` -/
def InLevel (o j : Nat) : Prop := 2 ^ (o - 1) ≤ j ∧ j < 2 ^ o

def GS (s : State) : Prop :=
  (∀ p, s.freed p = true → s.life p = .unlinked ∧ ∀ u b, s.cs u = some b → s.unlAt p < b) ∧
  (∀ p r, s.ownRet p = some r → s.life p = .unlinked ∧ s.unlAt p < r)

/-- pointers held by the thread, and the owner's knowledge about the level it is about to free -/
def TSc (s : State) (x : Thr) (t : Nat) : Prop :=
  (HasPos x → Held s t x.prev ∧ Held s t x.iter.ptr) ∧
  ((x.pc = .wNext ∨ x.pc = .wAssert) → Held s t x.cur) ∧
  (x.pc = .wAssert → Held s t x.wnx.ptr) ∧
  (Held s t x.itn ∧ Held s t x.itx.ptr) ∧
  (s.cs t = none → x.itn = 0 ∧ x.itx.ptr = 0) ∧
  ((x.pc = .rSize ∨ x.pc = .rCas ∨ x.pc = .rAssert ∨ (GcPc x.pc ∧ x.gcont = .repl)) → Held s t x.old) ∧
  ((x.pc = .dSize ∨ x.pc = .dLd ∨ x.pc = .dOr ∨ x.pc = .dAssert ∨ x.pc = .dLd2 ∨ x.pc = .dXchg ∨
      (GcPc x.pc ∧ x.gcont = .del)) → Held s t x.node) ∧
  -- the level that will be freed: all its buckets are unlinked, before the grace period started
  ((x.pc = .zGp ∨ x.pc = .zSync ∨ x.pc = .zFree) → x.pfree ≠ 0 →
      ∀ j, InLevel x.pfree j → s.life (s.tbl j) = .unlinked ∧ ((x.pc = .zSync ∨ x.pc = .zFree) → s.unlAt (s.tbl j) < x.gpAt)) ∧
  (x.pc = .zFree → ∀ u b, s.cs u = some b → x.gpAt < b) ∧
  ((x.pc = .zSync ∨ x.pc = .zFree) → x.gpAt < s.clock) ∧
  ((Worker x ∨ HPc x.pc ∨ ZPc x.pc) → x.itn = 0 ∧ x.itx.ptr = 0)

/-- shrink: the buckets of the partition range not touched yet are linked and not flagged -/
def TS8 (s : State) (x : Thr) (t : Nat) : Prop :=
  ((x.pc = .zPart ∧ s.rzOwner = t + 1) ∨ x.pc = .hStart ∨ Worker x) → x.rk = .shrink →
    ∀ j, pendFrom x ≤ j → j < x.jend → live s (s.tbl j)

def TS (s : State) (x : Thr) (t : Nat) : Prop := TSc s x t ∧ TS8 s x t

/-- shrink: every bucket of the level being removed is unlinked or still assigned to a worker -/
def XShrink (s : State) : Prop :=
  ∀ o, s.rzOwner = o + 1 → InPhase (s.th o) → (s.th o).rk = .shrink →
    ∀ j, InLevel (s.th o).rord j →
      s.life (s.tbl j) = .unlinked ∨ ((s.th o).j ≤ j ∧ j < (s.th o).jend) ∨
      ∃ u, (s.th u).parent = o + 1 ∧ (s.th u).j ≤ j ∧ j < (s.th u).jend

structure InvS (s : State) : Prop where
  g : GS s
  t : ∀ u, TS s (s.th u) u
  shr : XShrink s
  uaf : s.uaf = false

theorem invS_init : InvS init := by
  refine ⟨?_, ?_, ?_, rfl⟩
  · simp [GS, init]
  · intro u; simp [TS, TSc, TS8, init, Held, HasPos, GcPc, Worker, AddPc, HPc, ZPc]
  · intro o h; simp [init] at h

/-- a held pointer stays held across any step that does not change the holder's section -/
theorem held_step {c s s' t l o u p} (hc : c.ownerByOr = false) (r : Reach c s) (st : step c s t l = some (s', o))
    (hcs : s'.cs u = s.cs u) (h : Held s u p) : Held s' u p := by
  intro p0 b hb
  rw [hcs] at hb
  have hh := h p0 b hb
  have hv : valid s p := by rcases hh with h | h <;> simp [valid, h]
  have hclk := (invRFL_reach hc r).2.1.g.2.2.2 u b hb
  rcases graph_step hc r st with ⟨_, _, e, eu⟩ | ⟨a, n, i, _, e, _, _, eu⟩ | ⟨a, k, _, _, e, e2, e3, _, eu⟩
  · rw [e p hv, eu]; exact hh
  · have : p ≠ n := by intro h; rw [h] at hv; exact hv.2 i.2.2.2.1
    rw [e p this, eu]; exact hh
  · by_cases hk : p = k
    · subst hk; right; rw [e2, eu]; simp [upd]; omega
    · rw [e p hk, eu]; simp only [upd, hk, if_false]; exact hh

/-- following `next` from a held node yields a held pointer -/
theorem held_next {c s u p} (hc : c.ownerByOr = false) (r : Reach c s) (h : Held s u p) (p0 : p ≠ 0)
    (hcs : (s.cs u).isSome) : Held s u (nxp s p) ∧ valid s p := by
  have ⟨_, hF, hL⟩ := invRFL_reach hc r
  have ⟨u1, u2⟩ := invU_reach hc r
  obtain ⟨b0, hb0⟩ := Option.isSome_iff_exists.mp hcs
  have hv : valid s p := by rcases h p0 b0 hb0 with h | h <;> simp [valid, h]
  refine ⟨?_, hv⟩
  intro q0 b hb
  rcases h p0 b hb with hl | ⟨hl, ht⟩
  · left
    exact (hL.g.2.1 _).mp (chn_next_mem hL.g.2.2.1 ((hL.g.2.1 p).mpr hl) q0)
  · rcases u2 p hl with h | h | ⟨h1, h2⟩
    · exact absurd h q0
    · exact .inl h
    · exact .inr ⟨h1, by omega⟩

/-- a held, non-null pointer inside a section can be dereferenced -/
theorem held_okp {s u p} (hg : GS s) (h : Held s u p) (p0 : p ≠ 0) (hcs : (s.cs u).isSome) : okp s p = true := by
  obtain ⟨b0, hb0⟩ := Option.isSome_iff_exists.mp hcs
  have hfr : s.freed p = false := by
    cases hf : s.freed p with
    | false => rfl
    | true =>
      have := hg.1 p hf
      rcases h p0 b0 hb0 with hl | ⟨_, ht⟩
      · rw [hl] at this; cases this.1
      · have := this.2 u b0 hb0; omega
  rcases h p0 b0 hb0 with hl | ⟨hl, _⟩ <;> simp [okp, p0, hfr, hl]

end UrcuVerif.Lfht.Conc
