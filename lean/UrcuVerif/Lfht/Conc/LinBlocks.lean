import UrcuVerif.Lfht.Conc.LinUniq
/-!
# Concurrent rculfhash — linearizability, composition: the sequential history, block by block (proof-only file)
-/
namespace UrcuVerif.Lfht.Conc
open UrcuVerif
set_option linter.unusedSimpArgs false
set_option linter.unusedVariables false

set_option maxHeartbeats 1000000 in
/-- every event leaves the table alone or is a step of the specification -/
theorem mut_exists {c evs s idx} (hc : c.ownerByOr = false) (ex : Exec c init evs s) (hlt : idx < evs.length) :
    absF s (stAt evs s (idx + 1)) = absF s (stAt evs s idx) ∨ ∃ op r, LpMut evs s idx op r := by
  have he : evs[idx]? = some evs[idx] := List.getElem?_eq_getElem hlt
  obtain ⟨_, st⟩ := event_step ex he
  have r0 := exec_reach_idx ex .init idx
  have r1 := exec_reach_idx ex .init (idx + 1)
  have hA0 := finattr_idx hc ex .init idx
  have hA1 := finattr_idx hc ex .init (idx + 1)
  have ⟨hR, hF, hL⟩ := invRFL_reach hc r0
  have ⟨hR1, _, _⟩ := invRFL_reach hc r1
  show _ ∨ ∃ op r, SpecStep (absF s (stAt evs s idx)) op r (absF s (stAt evs s (idx + 1)))
  generalize stAt evs s idx = s0 at *
  generalize stAt evs s (idx + 1) = s1 at *
  generalize (evs[idx]).2.1 = u at *
  generalize (evs[idx]).2.2.1 = l at *
  generalize (evs[idx]).2.2.2 = o at *
  have same : (∀ p, vis s1 p ↔ vis s0 p) → absF s s1 = absF s s0 :=
    fun h => MS.ext' h (fun _ => rfl) (fun _ => rfl)
  have revn : ∀ n, vis s1 n → s.rev n = bitReverse64 (s1.hsh n) := by
    intro n hv
    have := hA1 n (vis_nonfresh hc r1 hv)
    have rg := hR1.g; simp only [GR] at rg
    rw [this.1, (rg.2.2.2.1 n).1]
  rcases vis_step hc r0 st with hs | ⟨_, hs⟩ | ⟨_, hs⟩ | ⟨rfl, hs⟩
  · exact .inl (same hs)
  · by_cases hv : vis s0 (s0.th u).node
    · exact .inl (same (fun p => by rw [hs p]; constructor
                                    · rintro (rfl | h); exact hv; exact h
                                    · exact .inr))
    · right
      refine ⟨.add (s0.th u).node (s1.hsh (s0.th u).node) (s.key (s0.th u).node), .unit, ?_⟩
      have hv1 : vis s1 (s0.th u).node := (hs _).mpr (.inl rfl)
      have : (absF s s0).insert (s0.th u).node (bitReverse64 (s1.hsh (s0.th u).node)) (s.key (s0.th u).node) = absF s s1 := by
        refine MS.ext' (fun p => (hs p).symm) (fun p => ?_) (fun p => ?_)
        · simp only [MS.insert, absF]; split
          · next h => rw [h, revn _ hv1]
          · rfl
        · simp only [MS.insert, absF]; split
          · next h => rw [h]
          · rfl
      rw [← this]; exact .add hv
  · by_cases hv : vis s0 (s0.th u).node
    · right
      refine ⟨.del (s0.th u).node, .ret 0, ?_⟩
      have : (absF s s0).erase (s0.th u).node = absF s s1 :=
        MS.ext' (fun p => (hs p).symm) (fun _ => rfl) (fun _ => rfl)
      rw [← this]; exact .delOk hv
    · exact .inl (same (fun p => by rw [hs p]; constructor
                                    · exact fun h => h.2
                                    · exact fun h => ⟨fun e => hv (e ▸ h), h⟩))
  · have pcf : (s0.th u).pc = .rCas := by
      have st' := st
      simp only [step, stepRepl] at st'; split at st'; cases st'; split at st'; assumption; cases st'
    have hN := invN_reach hc r0 u; simp only [TN] at hN
    have hmode := hN.2.2.2.2.2.2.2.2.2.2.1 (.inl pcf)
    have hpriv := ((hF.t u).2.2.2.2.2.1 ⟨by rw [hmode]; simp, by simp [pcf]⟩).1
    have hnn : ¬ vis s0 (s0.th u).node := by
      intro h; have := (hL.g.2.1 _).mp h.1; rw [hpriv] at this; cases this
    rcases ins_step hc r0 st with ⟨_, hh⟩ | ⟨hh, _⟩ | ⟨_, _, _, h1, h2⟩
    · exact absurd (hh _ ((hs _).mpr (.inl rfl))) hnn
    · cases hh
    · obtain ⟨_, _, _, _, hkey, hrev, vo, nvn, vn', nvo', _, _⟩ := replace_atomic_step hc r0 st h1 h2
      right
      refine ⟨.replace (s0.th u).old (s0.th u).node (s1.hsh (s0.th u).node) (s.key (s0.th u).node), .ret 0, ?_⟩
      have sn := stable_step hc r0 st (s0.th u).node (by rw [hpriv]; simp)
      have ao := hA0 _ (vis_nonfresh hc r0 vo)
      have an := hA1 _ (vis_nonfresh hc r1 vn')
      have : ((absF s s0).erase (s0.th u).old).insert (s0.th u).node (bitReverse64 (s1.hsh (s0.th u).node))
          (s.key (s0.th u).node) = absF s s1 := by
        refine MS.ext' (fun p => (hs p).symm) (fun p => ?_) (fun p => ?_)
        · simp only [MS.insert, MS.erase, absF]; split
          · next h => rw [h, revn _ vn']
          · rfl
        · simp only [MS.insert, MS.erase, absF]; split
          · next h => rw [h]
          · rfl
      rw [← this]
      refine .replaceOk ⟨vo, ?_, ?_⟩ nvn
      · simp only [absF]; rw [ao.1, ← hrev, ← sn.1, ← an.1, revn _ vn']
      · simp only [absF]; rw [ao.2, ← hkey, ← sn.2.1, ← an.2]

/-- an entry of the sequential history: operation, result, and the completed call it stands for (`none`: the effect
of a call that has not returned by the end of the execution) -/
structure LinEntry where
  op : SOp
  r : Out
  call : Option CCall
  deriving DecidableEq

/-- the history replayed on the specification -/
inductive RunL : MS → List LinEntry → MS → Prop
  | nil (σ) : RunL σ [] σ
  | cons {σ σ' σ'' a H} : SpecStep σ a.op a.r σ' → RunL σ' H σ'' → RunL σ (a :: H) σ''

theorem runL_append {σ σ' σ'' : MS} {H1 H2 : List LinEntry} (h1 : RunL σ H1 σ') (h2 : RunL σ' H2 σ'') :
    RunL σ (H1 ++ H2) σ'' := by
  induction h1 with
  | nil σ => exact h2
  | cons hs _ ih => exact .cons hs (ih h2)

theorem runL_self {σ : MS} {H : List LinEntry} (h : ∀ a, a ∈ H → SpecStep σ a.op a.r σ) : RunL σ H σ := by
  induction H with
  | nil => exact .nil _
  | cons a H ih => exact .cons (h a List.mem_cons_self) (ih (fun b hb => h b (List.mem_cons_of_mem _ hb)))

theorem nodup_filterMap {α β} {f : α → Option β} {l : List α} (hl : l.Nodup)
    (hf : ∀ a a' b, f a = some b → f a' = some b → a = a') : (l.filterMap f).Nodup := by
  induction l with
  | nil => simp
  | cons a l ih =>
    have ⟨ha, hl'⟩ := List.nodup_cons.mp hl
    cases h : f a with
    | none => rw [List.filterMap_cons_none h]; exact ih hl'
    | some b =>
      rw [List.filterMap_cons_some h]
      refine List.nodup_cons.mpr ⟨?_, ih hl'⟩
      intro hb
      obtain ⟨a', ha', hfa'⟩ := List.mem_filterMap.mp hb
      exact ha (hf a a' b h hfa' ▸ ha')

theorem count_one_of_nodup {α} [DecidableEq α] {l : List α} {a : α} (hn : l.Nodup) (ha : a ∈ l) : l.count a = 1 := by
  induction l with
  | nil => simp at ha
  | cons b l ih =>
    have ⟨hb, hn'⟩ := List.nodup_cons.mp hn
    rw [List.count_cons]
    rcases List.mem_cons.mp ha with rfl | h
    · have : l.count a = 0 := List.count_eq_zero.mpr hb
      simp [this]
    · have hne : b ≠ a := fun e => hb (e ▸ h)
      rw [ih hn' h]; simp [hne]

def ent (κ : CCall) : LinEntry := ⟨κ.op, κ.r, some κ⟩

theorem ent_inj {κ κ' : CCall} (h : ent κ = ent κ') : κ = κ' := by
  simp only [ent, LinEntry.mk.injEq, Option.some.injEq] at h; exact h.2.2

section
open Classical

/-- the completed calls of the execution, one per return event -/
noncomputable def compl (evs : List Event) (s : State) : List CCall :=
  (List.range evs.length).filterMap fun j =>
    if h : ∃ κ, Completed evs s κ ∧ κ.j = j then some (Classical.choose h) else none

theorem mem_compl {c evs s κ} (hc : c.ownerByOr = false) (ex : Exec c init evs s) :
    κ ∈ compl evs s ↔ Completed evs s κ := by
  simp only [compl, List.mem_filterMap, List.mem_range]
  constructor
  · rintro ⟨j, _, hj⟩
    split at hj
    · next h => cases hj; exact (Classical.choose_spec h).1
    · cases hj
  · intro hκ
    refine ⟨κ.j, completed_lt hκ, ?_⟩
    have h : ∃ κ', Completed evs s κ' ∧ κ'.j = κ.j := ⟨κ, hκ, rfl⟩
    rw [dif_pos h]
    have := Classical.choose_spec h
    rw [completed_same_j hc ex this.1 hκ this.2]

theorem nodup_compl {c evs s} (hc : c.ownerByOr = false) (ex : Exec c init evs s) : (compl evs s).Nodup := by
  refine nodup_filterMap List.nodup_range ?_
  intro j j' κ h1 h2
  split at h1
  · next h =>
    split at h2
    · next h' =>
      simp only [Option.some.injEq] at h1 h2
      have a := (Classical.choose_spec h).2
      have b := (Classical.choose_spec h').2
      rw [h1] at a; rw [h2] at b; omega
    · cases h2
  · cases h1

/-- the chosen linearisation point of a call -/
noncomputable def lpOf (evs : List Event) (s : State) (κ : CCall) : Nat :=
  if h : ∃ idx, κ.i ≤ idx ∧ idx ≤ κ.j ∧ (LpRO evs s idx κ.op κ.r ∨ LpMut evs s idx κ.op κ.r) then Classical.choose h else 0

theorem lpOf_spec {c evs s κ} (hc : c.ownerByOr = false) (ex : Exec c init evs s) (hD : KeyDisc evs)
    (hκ : Completed evs s κ) :
    κ.i ≤ lpOf evs s κ ∧ lpOf evs s κ ≤ κ.j ∧
      (LpRO evs s (lpOf evs s κ) κ.op κ.r ∨ LpMut evs s (lpOf evs s κ) κ.op κ.r) := by
  have h := call_lp hc ex hD hκ
  simp only [lpOf, dif_pos h]
  exact Classical.choose_spec h

/-- the call takes effect without changing the table -/
def isRO (evs : List Event) (s : State) (κ : CCall) : Prop := LpRO evs s (lpOf evs s κ) κ.op κ.r

/-- the entry of the event that changes the table: the completed call it serves, else the effect of a pending call -/
noncomputable def mutPart (evs : List Event) (s : State) (idx : Nat) : List LinEntry :=
  if h : ∃ κ, κ ∈ compl evs s ∧ lpOf evs s κ = idx ∧ ¬ isRO evs s κ then [ent (Classical.choose h)]
  else if h' : ∃ a : SOp × Out, LpMut evs s idx a.1 a.2 ∧ absF s (stAt evs s (idx + 1)) ≠ absF s (stAt evs s idx) then
    [⟨(Classical.choose h').1, (Classical.choose h').2, none⟩]
  else []

/-- the calls that take effect between the state before event `idx` and the state after it, in order -/
noncomputable def block (evs : List Event) (s : State) (idx : Nat) : List LinEntry :=
  ((compl evs s).filter fun κ => decide (lpOf evs s κ = idx ∧ isRO evs s κ)).map ent ++ mutPart evs s idx

theorem lpmut_ne {evs s idx op r} (hm : LpMut evs s idx op r) (hn : ¬ LpRO evs s idx op r) :
    absF s (stAt evs s (idx + 1)) ≠ absF s (stAt evs s idx) := by
  intro e; apply hn; simp only [LpRO, LpMut] at hm ⊢; rw [e] at hm; exact hm

/-- **the blocks are runs of the specification** from the abstract state before the event to the one after it -/
theorem block_legal {c evs s idx} (hc : c.ownerByOr = false) (ex : Exec c init evs s) (hD : KeyDisc evs)
    (hlt : idx < evs.length) :
    RunL (absF s (stAt evs s idx)) (block evs s idx) (absF s (stAt evs s (idx + 1))) := by
  simp only [block]
  refine runL_append (σ' := absF s (stAt evs s idx)) (runL_self ?_) ?_
  · intro a ha
    obtain ⟨κ, hκ, rfl⟩ := List.mem_map.mp ha
    have := (List.mem_filter.mp hκ).2
    simp only [decide_eq_true_eq] at this
    have hro := this.2
    simp only [isRO, this.1] at hro
    exact hro
  · simp only [mutPart]
    split
    · next h =>
      obtain ⟨h1, h2, h3⟩ := Classical.choose_spec h
      have hκ := (mem_compl hc ex).mp h1
      have sp := (lpOf_spec hc ex hD hκ).2.2
      rcases sp with sp | sp
      · exact absurd sp h3
      · rw [h2] at sp
        exact .cons sp (.nil _)
    · split
      · next _ h' =>
        exact .cons (Classical.choose_spec h').1 (.nil _)
      · next h h' =>
        have : absF s (stAt evs s (idx + 1)) = absF s (stAt evs s idx) := by
          rcases mut_exists hc ex hlt with e | ⟨op, r, hm⟩
          · exact e
          · false_or_by_contra; rename_i hne
            exact h' ⟨(op, r), hm, hne⟩
        rw [this]; exact .nil _

/-- what the entries of a block are -/
theorem block_sound {c evs s idx a} (hc : c.ownerByOr = false) (ex : Exec c init evs s) (ha : a ∈ block evs s idx) :
    (∃ κ, a = ent κ ∧ Completed evs s κ ∧ lpOf evs s κ = idx) ∨
    (a.call = none ∧ mutPart evs s idx = [a] ∧ LpMut evs s idx a.op a.r ∧
      absF s (stAt evs s (idx + 1)) ≠ absF s (stAt evs s idx)) := by
  simp only [block, List.mem_append] at ha
  rcases ha with ha | ha
  · obtain ⟨κ, hκ, rfl⟩ := List.mem_map.mp ha
    have h1 := List.mem_filter.mp hκ
    have h2 := h1.2; simp only [decide_eq_true_eq] at h2
    exact .inl ⟨κ, rfl, (mem_compl hc ex).mp h1.1, h2.1⟩
  · by_cases h : ∃ κ, κ ∈ compl evs s ∧ lpOf evs s κ = idx ∧ ¬ isRO evs s κ
    · simp only [mutPart, dif_pos h, List.mem_singleton] at ha
      obtain ⟨h1, h2, _⟩ := Classical.choose_spec h
      exact .inl ⟨_, ha, (mem_compl hc ex).mp h1, h2⟩
    · by_cases h' : ∃ a : SOp × Out, LpMut evs s idx a.1 a.2 ∧ absF s (stAt evs s (idx + 1)) ≠ absF s (stAt evs s idx)
      · have hm : mutPart evs s idx = [⟨(Classical.choose h').1, (Classical.choose h').2, none⟩] := by
          simp only [mutPart, dif_neg h, dif_pos h']
        rw [hm, List.mem_singleton] at ha
        right; subst ha
        exact ⟨rfl, hm, (Classical.choose_spec h').1, (Classical.choose_spec h').2⟩
      · simp only [mutPart, dif_neg h, dif_neg h'] at ha; cases ha

/-- **every completed call is in exactly one block, once, between its call and its return** -/
theorem block_complete {c evs s κ} (hc : c.ownerByOr = false) (ex : Exec c init evs s) (hD : KeyDisc evs)
    (hκ : Completed evs s κ) :
    κ.i ≤ lpOf evs s κ ∧ lpOf evs s κ ≤ κ.j ∧ (block evs s (lpOf evs s κ)).count (ent κ) = 1 ∧
    ∀ idx, idx ≠ lpOf evs s κ → ent κ ∉ block evs s idx := by
  obtain ⟨b1, b2, b3⟩ := lpOf_spec hc ex hD hκ
  have hmem := (mem_compl hc ex).mpr hκ
  have hnd := nodup_compl hc ex (evs := evs) (s := s)
  refine ⟨b1, b2, ?_, ?_⟩
  · simp only [block, List.count_append]
    by_cases hro : isRO evs s κ
    · -- in the first part, once; not in the second
      have h1 : (((compl evs s).filter fun κ' => decide (lpOf evs s κ' = lpOf evs s κ ∧ isRO evs s κ')).map ent).count (ent κ) = 1 := by
        have hnd' : (((compl evs s).filter fun κ' => decide (lpOf evs s κ' = lpOf evs s κ ∧ isRO evs s κ')).map ent).Nodup :=
          List.Pairwise.map ent (fun a b h e => h (ent_inj e)) (List.Pairwise.sublist List.filter_sublist hnd)
        exact count_one_of_nodup hnd' (List.mem_map.mpr ⟨κ, List.mem_filter.mpr ⟨hmem, by simp [hro]⟩, rfl⟩)
      have h2 : (mutPart evs s (lpOf evs s κ)).count (ent κ) = 0 := by
        apply List.count_eq_zero.mpr
        intro hin
        simp only [mutPart] at hin
        split at hin
        · next h =>
          rw [List.mem_singleton] at hin
          have := ent_inj hin
          exact (Classical.choose_spec h).2.2 (this ▸ hro)
        · split at hin
          · rw [List.mem_singleton] at hin; simp [ent] at hin
          · cases hin
      omega
    · have h1 : (((compl evs s).filter fun κ' => decide (lpOf evs s κ' = lpOf evs s κ ∧ isRO evs s κ')).map ent).count (ent κ) = 0 := by
        apply List.count_eq_zero.mpr
        intro hin
        obtain ⟨κ', hκ', he⟩ := List.mem_map.mp hin
        have := ent_inj he; subst this
        have := (List.mem_filter.mp hκ').2
        simp only [decide_eq_true_eq] at this
        exact hro this.2
      have hm : LpMut evs s (lpOf evs s κ) κ.op κ.r := by
        rcases b3 with h | h
        · exact absurd h hro
        · exact h
      have hex : ∃ κ', κ' ∈ compl evs s ∧ lpOf evs s κ' = lpOf evs s κ ∧ ¬ isRO evs s κ' := ⟨κ, hmem, rfl, hro⟩
      have h2 : mutPart evs s (lpOf evs s κ) = [ent κ] := by
        simp only [mutPart, dif_pos hex]
        obtain ⟨c1, c2, c3⟩ := Classical.choose_spec hex
        have hκ' := (mem_compl hc ex).mp c1
        have sp := (lpOf_spec hc ex hD hκ').2.2
        have hm' : LpMut evs s (lpOf evs s κ) (Classical.choose hex).op (Classical.choose hex).r := by
          rcases sp with h | h
          · exact absurd h c3
          · rw [c2] at h; exact h
        rw [claim_unique hc ex hκ' hκ hm' hm (lpmut_ne hm hro)]
      rw [h1, h2]; simp
  · intro idx hne hin
    rcases block_sound hc ex hin with ⟨κ', he, _, hl⟩ | ⟨hn, _⟩
    · have := ent_inj he; subst this; exact hne hl.symm
    · simp [ent] at hn

end

/-- blocks that are runs between consecutive states compose to one run -/
theorem runL_blocks {f : Nat → MS} {B : Nat → List LinEntry} :
    ∀ n, (∀ idx, idx < n → RunL (f idx) (B idx) (f (idx + 1))) → RunL (f 0) ((List.range n).flatMap B) (f n) := by
  intro n
  induction n with
  | zero => intro _; exact .nil _
  | succ n ih =>
    intro h
    rw [List.range_succ, List.flatMap_append]
    refine runL_append (ih (fun idx hi => h idx (by omega))) ?_
    simp only [List.flatMap_cons, List.flatMap_nil, List.append_nil]
    exact h n (by omega)

end UrcuVerif.Lfht.Conc
