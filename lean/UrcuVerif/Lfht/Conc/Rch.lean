import UrcuVerif.Lfht.Conc.ListLemmas
/-!
# Reachability along the `next` pointers (proof-only file)

`Rch f a b`: `b` is reached from `a` by following `f` zero or more times.  The three ghost-list updates
(insert behind `p`, unlink the successor of `p`) preserve reachability of every node that stays linked — this
is what makes a walker's position invariant ("the target is still ahead of me") stable under interference.
-/
namespace UrcuVerif.Lfht.Conc
open UrcuVerif

inductive Rch (f : Nat → Nat) : Nat → Nat → Prop
  | refl (a) : Rch f a a
  | head {a b} : Rch f (f a) b → Rch f a b

theorem rch_next {f a b} (h : Rch f a b) (ne : a ≠ b) : Rch f (f a) b := by
  cases h with
  | refl => exact absurd rfl ne
  | head h => exact h

theorem rch_fix {f a b} (h0 : f a = a) (h : Rch f a b) : b = a := by
  induction h with
  | refl => rfl
  | @head a' b' _ ih => exact (ih (by rw [h0]; exact h0)).trans h0

theorem rch_trans {f a b c} (h1 : Rch f a b) (h2 : Rch f b c) : Rch f a c := by
  induction h1 with
  | refl => exact h2
  | head _ ih => exact .head (ih h2)

theorem rch_congr {f g : Nat → Nat} {a b} (e : ∀ x, g x = f x) (h : Rch f a b) : Rch g a b := by
  induction h with
  | refl => exact .refl _
  | head _ ih => exact .head (by rw [e]; exact ih)

/-- insert `n` behind `p` (`g p = n`, `g n = f p`); `n` was not pointed to by anybody -/
theorem rch_insert {f g : Nat → Nat} {p n a b} (gp : g p = n) (gn : g n = f p) (go : ∀ x, x ≠ p → x ≠ n → g x = f x)
    (hn : ∀ x, f x ≠ n) (h : Rch f a b) (an : a ≠ n) : Rch g a b := by
  induction h with
  | refl => exact .refl _
  | @head a b _ ih =>
    have ih' := ih (hn a)
    by_cases e : a = p
    · subst e; exact .head (by rw [gp]; exact .head (by rw [gn]; exact ih'))
    · exact .head (by rw [go a e an]; exact ih')

/-- unlink `c`, the successor of `p` (`g p = f c`); every node other than `c` stays reachable -/
theorem rch_unlink {f g : Nat → Nat} {p c a b} (fp : f p = c) (gp : g p = f c) (go : ∀ x, x ≠ p → g x = f x)
    (pc : p ≠ c) (h : Rch f a b) (bc : b ≠ c) : Rch g a b := by
  induction h with
  | refl => exact .refl _
  | @head a b _ ih =>
    have ih' := ih bc
    by_cases e : a = p
    · subst e
      rw [fp] at ih'
      have := rch_next ih' (Ne.symm bc)
      rw [go c (Ne.symm pc)] at this
      exact .head (by rw [gp]; exact this)
    · exact .head (by rw [go a e]; exact ih')

/-- in a chain, every later element is reachable from an earlier one -/
theorem chn_rch {f : Nat → Nat} {l1 l2 : List Nat} {a b : Nat} (h : Chn f (l1 ++ a :: l2)) (hb : b ∈ a :: l2) : Rch f a b := by
  induction l1 with
  | cons x l1 ih => exact ih (chn_cons h)
  | nil =>
    simp only [List.nil_append] at h
    induction l2 generalizing a with
    | nil => simp at hb; subst hb; exact .refl _
    | cons d l2 ih2 =>
      simp only [Chn] at h
      rcases List.mem_cons.mp hb with rfl | hb'
      · exact .refl _
      · exact .head (by rw [h.1]; exact ih2 hb' h.2)

/-- a monotone measure along edges between "good" nodes grows along paths that end at a non-null node -/
theorem rch_mono {f : Nat → Nat} {P : Nat → Prop} {r : Nat → Nat} {a b : Nat} (f0 : f 0 = 0)
    (hP : ∀ x, P x → f x ≠ 0 → P (f x) ∧ r x ≤ r (f x)) (h : Rch f a b) (pa : P a) (b0 : b ≠ 0) : r a ≤ r b ∧ P b := by
  induction h with
  | refl => exact ⟨Nat.le_refl _, pa⟩
  | @head a b hh ih =>
    by_cases e : f a = 0
    · rw [e] at hh; exact absurd (rch_fix f0 hh) b0
    · have ⟨p1, p2⟩ := hP a pa e
      have ⟨i1, i2⟩ := ih p1 b0
      exact ⟨Nat.le_trans p2 i1, i2⟩

end UrcuVerif.Lfht.Conc
