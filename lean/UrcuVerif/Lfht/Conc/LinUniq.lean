import UrcuVerif.Lfht.Conc.LinCall
/-!
# Concurrent rculfhash — linearizability, composition: a change of the table serves one call (proof-only file)
-/
namespace UrcuVerif.Lfht.Conc
open UrcuVerif
set_option linter.unusedSimpArgs false
set_option linter.unusedVariables false

/-- the node a call adds, if any -/
def newNode : SOp → Nat
  | .add n _ _ | .addUnique n _ _ | .addReplace n _ _ | .replace _ n _ _ => n
  | _ => 0

/-- the calls that add a node -/
def IsIns : SOp → Prop
  | .add _ _ _ | .addUnique _ _ _ | .addReplace _ _ _ | .replace _ _ _ _ => True
  | _ => False

/-- what a step of the specification that changes the table does to the set of stored nodes -/
theorem mut_sig {σ σ' : MS} {op : SOp} {r : Out} (h : SpecStep σ op r σ') (hne : σ' ≠ σ) :
    (IsIns op ∧ ¬ σ.mem (newNode op) ∧ σ'.mem (newNode op) ∧
        ∀ q, σ'.mem q → q = newNode op ∨ σ.mem q) ∨
    (∃ p, op = .del p ∧ r = .ret 0 ∧ σ.mem p ∧ ¬ σ'.mem p ∧ (∀ q, σ'.mem q → σ.mem q) ∧ ∀ q, σ.mem q → q = p ∨ σ'.mem q) := by
  cases h with
  | @add n h k hn => left; exact ⟨trivial, hn, .inl rfl, fun q hq => hq⟩
  | @addUniqueNew n h k hn _ => left; exact ⟨trivial, hn, .inl rfl, fun q hq => hq⟩
  | addUniqueDup _ => exact absurd rfl hne
  | @addReplaceNew n h k hn _ => left; exact ⟨trivial, hn, .inl rfl, fun q hq => hq⟩
  | @addReplaceRepl n h k q hn hm =>
    left; refine ⟨trivial, hn, .inl rfl, fun q' hq => ?_⟩
    rcases hq with hq | hq
    · exact .inl hq
    · exact .inr hq.2
  | replaceNull => exact absurd rfl hne
  | replaceInval _ _ => exact absurd rfl hne
  | replaceGone _ _ _ _ => exact absurd rfl hne
  | @replaceOk old n h k hm hn =>
    left; refine ⟨trivial, hn, .inl rfl, fun q' hq => ?_⟩
    rcases hq with hq | hq
    · exact .inl hq
    · exact .inr hq.2
  | delNull => exact absurd rfl hne
  | delGone _ _ => exact absurd rfl hne
  | @delOk old hm =>
    right
    refine ⟨old, rfl, rfl, hm, fun h => h.1 rfl, fun q hq => hq.2, fun q hq => ?_⟩
    by_cases e : q = old
    · exact .inl e
    · exact .inr ⟨e, hq⟩
  | lookupFound _ => exact absurd rfl hne
  | lookupNone _ => exact absurd rfl hne

/-- two calls that take effect with the same change of the table: they add the same node, or they are two
successful `del` of the same node -/
theorem mut_same {σ σ' : MS} {op1 op2 : SOp} {r1 r2 : Out} (h1 : SpecStep σ op1 r1 σ') (h2 : SpecStep σ op2 r2 σ')
    (hne : σ' ≠ σ) :
    (newNode op1 = newNode op2 ∧ ¬ σ.mem (newNode op1) ∧ σ'.mem (newNode op1) ∧
      IsIns op1 ∧ IsIns op2) ∨
    (∃ p, op1 = .del p ∧ op2 = .del p ∧ r1 = .ret 0 ∧ r2 = .ret 0) := by
  rcases mut_sig h1 hne with ⟨a0, a1, a2, a3⟩ | ⟨p, b1, b2, b3, b4, b5, b6⟩ <;>
    rcases mut_sig h2 hne with ⟨c0, c1, c2, c3⟩ | ⟨q, d1, d2, d3, d4, d5, d6⟩
  · left
    rcases a3 _ c2 with e | e
    · exact ⟨e.symm, a1, a2, a0, c0⟩
    · exact absurd e c1
  · exact absurd (d5 _ a2) a1
  · exact absurd (b5 _ c2) c1
  · right
    rcases b6 q d3 with e | e
    · subst e; exact ⟨q, b1, d1, b2, d2⟩
    · exact absurd e d4

set_option maxHeartbeats 2000000 in
/-- the call step of a call whose linearizability is claimed: the thread was idle; a node being added was fresh
and is not fresh any more; the thread now executes that operation, unless the call has returned at once -/
theorem call_facts {c s s' t l o op} (hc : c.ownerByOr = false) (r0 : Reach c s) (st : step c s t l = some (s', o))
    (hop : opOf s t l = some op) :
    (s.th t).op = .none ∧ (IsIns op → s.life (newNode op) = .fresh ∧ s'.life (newNode op) ≠ .fresh) ∧
    ((s'.th t).op ≠ .none → curOp (s'.th t) = some op ∧ OpK (s'.th t).op) := by
  have hN := invN_reach hc r0 t; simp only [TN] at hN
  have n1 := hN.1
  cases l with
  | callAdd m n h k =>
    simp only [opOf, Option.some.injEq] at hop; subst hop
    have st0 := st
    st_open st0
    have e1 : s'.th t = x' := by rw [e_th']; simp [upd]
    have hmb : m ≠ .bkt := by grind
    refine ⟨n1 (.inl (by grind)), ?_, ?_⟩
    · intro _
      have : newNode (addOp m n h k) = n := by cases m <;> rfl
      rw [this, e_life]; simp only [upd, if_true]; exact ⟨by grind, by simp⟩
    · intro _; rw [e1]
      refine ⟨?_, by simp only [OpK, xop]; simp⟩
      simp only [curOp, xop, xmode, xnode, xhs, xky]
      cases m <;> simp [addOp] at hmb ⊢
  | callReplace n h k =>
    simp only [opOf, Option.some.injEq] at hop; subst hop
    have hidle : (s.th t).pc = .idle := by have st0 := st; st_open st0 <;> grind
    refine ⟨n1 (.inl hidle), ?_, ?_⟩
    · intro _
      simp only [newNode]
      have st0 := st
      st_open st0 <;> (rw [e_life]; simp only [upd, if_true]; exact ⟨by grind, by simp⟩)
    · intro hne
      rcases callReplace_step (r := .unit) hc r0 st with ⟨h1, _⟩ | h1
      · exact absurd h1 hne
      · exact ⟨h1.1, by simp only [OpK, h1.2.1]; simp⟩
  | callDel =>
    simp only [opOf, Option.some.injEq] at hop; subst hop
    have st0 := st
    st_open st0
    have e1 : s'.th t = x' := by rw [e_th']; simp [upd]
    refine ⟨n1 (.inl (by grind)), fun h => h.elim, ?_⟩
    intro _; rw [e1]
    exact ⟨by simp only [curOp, xop, xnode], by simp only [OpK, xop]; simp⟩
  | callLookup h k =>
    simp only [opOf, Option.some.injEq] at hop; subst hop
    have hidle : (s.th t).pc = .idle := by have st0 := st; st_open st0; grind
    obtain ⟨g1, g2, _⟩ := callLookup_step st
    exact ⟨n1 (.inl hidle), fun h => h.elim, fun _ => ⟨g1, by simp only [OpK, g2]; simp⟩⟩
  | _ => simp [opOf] at hop

theorem event_step {c evs s idx e} (ex : Exec c init evs s) (h : evs[idx]? = some e) :
    e.1 = stAt evs s idx ∧ step c (stAt evs s idx) e.2.1 e.2.2.1 = some (stAt evs s (idx + 1), e.2.2.2) := by
  have := (exec_idx ex).2 idx e h
  exact ⟨this.1, by rw [← this.1]; exact this.2⟩

/-- inside a completed call the operation tag of the thread is never `none` -/
theorem in_call_ne {c evs s κ} (ex : Exec c init evs s) (hκ : Completed evs s κ) :
    ∀ d idx, κ.j - idx = d → κ.i < idx → idx ≤ κ.j → ((stAt evs s idx).th κ.t).op ≠ .none := by
  obtain ⟨hij, _, hmid, ⟨eJ, hJ, htJ, _⟩, _⟩ := hκ
  intro d
  induction d with
  | zero =>
    intro idx hd h1 h2 hn
    have : idx = κ.j := by omega
    subst this
    have := hmid κ.j eJ h1 (Nat.le_refl _) hJ htJ
    rw [(event_step ex hJ).1, hn] at this; simp [OpK] at this
  | succ d ih =>
    intro idx hd h1 h2 hn
    have hlt : idx < evs.length := by
      have : κ.j < evs.length := by
        rcases Nat.lt_or_ge κ.j evs.length with h | h
        · exact h
        · rw [List.getElem?_eq_none h] at hJ; cases hJ
      omega
    have he : evs[idx]? = some evs[idx] := List.getElem?_eq_getElem hlt
    obtain ⟨e1, e2⟩ := event_step ex he
    by_cases ht : (evs[idx]).2.1 = κ.t
    · have := hmid idx _ h1 h2 he ht
      rw [e1, hn] at this; simp [OpK] at this
    · refine ih (idx + 1) (by omega) (by omega) (by omega) ?_
      rw [other_thread_op e2 ht]; exact hn

set_option maxHeartbeats 1000000 in
/-- inside a completed call the thread executes the operation of the call -/
theorem in_call {c evs s κ} (hc : c.ownerByOr = false) (ex : Exec c init evs s) (hκ : Completed evs s κ) :
    ∀ idx, κ.i < idx → idx ≤ κ.j → curOp ((stAt evs s idx).th κ.t) = some κ.op ∧ OpK ((stAt evs s idx).th κ.t).op := by
  have hne := in_call_ne ex hκ
  obtain ⟨hij, ⟨e0, h0, ht0, hop⟩, hmid, ⟨eJ, hJ, htJ, _⟩, _⟩ := hκ
  have hjl : κ.j < evs.length := by
    rcases Nat.lt_or_ge κ.j evs.length with h | h
    · exact h
    · rw [List.getElem?_eq_none h] at hJ; cases hJ
  intro idx
  induction idx with
  | zero => intro h; omega
  | succ idx ih =>
    intro h1 h2
    by_cases hb : idx = κ.i
    · subst hb
      obtain ⟨e1, e2⟩ := event_step ex h0
      rw [ht0] at e2
      rw [e1] at hop
      exact (call_facts hc (exec_reach_idx ex .init κ.i) e2 hop).2.2 (hne _ _ rfl h1 h2)
    · obtain ⟨i1, i2⟩ := ih (by omega) (by omega)
      have he : evs[idx]? = some evs[idx] := List.getElem?_eq_getElem (by omega)
      obtain ⟨e1, e2⟩ := event_step ex he
      by_cases ht : (evs[idx]).2.1 = κ.t
      · rw [ht] at e2
        rcases own_step_class hc (exec_reach_idx ex .init idx) e2 i2 with hcont | ⟨hnone, _⟩
        · obtain ⟨c1, c2, c3, c4, c5, c6, _⟩ := hcont
          refine ⟨?_, by rw [c1]; exact i2⟩
          simp only [curOp, c1, c2, c3, c4, c5] at i1 ⊢
          cases ho : ((stAt evs s idx).th κ.t).op <;> simp only [ho] at i1 ⊢ <;> first | exact i1 | (rw [c6 ho]; exact i1)
        · exact absurd hnone (hne _ _ rfl h1 h2)
      · obtain ⟨a1, a2, a3, a4, a5, a6, _⟩ := other_thread_args e2 ht
        refine ⟨?_, by rw [a1]; exact i2⟩
        simp only [curOp, a1, a2, a3, a4, a5, a6]; exact i1

theorem completed_lt {evs s κ} (hκ : Completed evs s κ) : κ.j < evs.length := by
  obtain ⟨_, _, _, ⟨eJ, hJ, _⟩, _⟩ := hκ
  rcases Nat.lt_or_ge κ.j evs.length with h | h
  · exact h
  · rw [List.getElem?_eq_none h] at hJ; cases hJ

/-- the call event of a completed call finds the thread outside any call -/
theorem call_pre_none {c evs s κ} (hc : c.ownerByOr = false) (ex : Exec c init evs s) (hκ : Completed evs s κ) :
    ((stAt evs s κ.i).th κ.t).op = .none := by
  obtain ⟨_, ⟨e0, h0, ht0, hop⟩, _⟩ := hκ
  obtain ⟨e1, e2⟩ := event_step ex h0
  rw [ht0] at e2; rw [e1] at hop
  exact (call_facts hc (exec_reach_idx ex .init κ.i) e2 hop).1

/-- a call event has one return -/
theorem completed_same_i {c evs s κ1 κ2} (hc : c.ownerByOr = false) (ex : Exec c init evs s)
    (h1 : Completed evs s κ1) (h2 : Completed evs s κ2) (hi : κ1.i = κ2.i) : κ1 = κ2 := by
  have key : ∀ {κ1 κ2}, Completed evs s κ1 → Completed evs s κ2 → κ1.i = κ2.i → κ1.t = κ2.t ∧ κ1.op = κ2.op ∧ ¬ κ1.j < κ2.j := by
    intro κ1 κ2 h1 h2 hi
    have ne2 := in_call_ne ex h2
    obtain ⟨hij1, ⟨e0, h0, ht0, hop⟩, _, ⟨eJ, hJ, htJ, _⟩, hend1⟩ := h1
    obtain ⟨hij2, ⟨e0', h0', ht0', hop'⟩, _, _, _⟩ := h2
    rw [hi, h0'] at h0; cases h0
    have ht : κ1.t = κ2.t := by rw [← ht0, ← ht0']
    refine ⟨ht, ?_, ?_⟩
    · rw [ht] at hop; rw [hop'] at hop; exact (Option.some.inj hop).symm
    · intro hlt
      exact ne2 _ (κ1.j + 1) rfl (by omega) (by omega) (by rw [← ht]; exact hend1)
  obtain ⟨a1, a2, a3⟩ := key h1 h2 hi
  obtain ⟨_, _, b3⟩ := key h2 h1 hi.symm
  have hj : κ1.j = κ2.j := by omega
  obtain ⟨_, _, _, ⟨eJ, hJ, _, hr1⟩, _⟩ := h1
  obtain ⟨_, _, _, ⟨eJ', hJ', _, hr2⟩, _⟩ := h2
  rw [hj, hJ'] at hJ; cases hJ
  cases κ1; cases κ2; simp only at hi hj a1 a2 hr1 hr2
  subst hi; subst hj; subst a1; subst a2; rw [hr1] at hr2; subst hr2; rfl

/-- a return event belongs to one call -/
theorem completed_same_j {c evs s κ1 κ2} (hc : c.ownerByOr = false) (ex : Exec c init evs s)
    (h1 : Completed evs s κ1) (h2 : Completed evs s κ2) (hj : κ1.j = κ2.j) : κ1 = κ2 := by
  refine completed_same_i hc ex h1 h2 ?_
  have key : ∀ {κ1 κ2}, Completed evs s κ1 → Completed evs s κ2 → κ1.j = κ2.j → ¬ κ1.i < κ2.i := by
    intro κ1 κ2 h1 h2 hj hlt
    have hn := call_pre_none hc ex h2
    obtain ⟨_, _, hmid, ⟨eJ, hJ, htJ, _⟩, _⟩ := h1
    obtain ⟨hij2, ⟨e0, h0, ht0, _⟩, _, ⟨eJ', hJ', htJ', _⟩, _⟩ := h2
    rw [hj, hJ'] at hJ; cases hJ
    have ht : κ1.t = κ2.t := by rw [← htJ, ← htJ']
    have := hmid κ2.i e0 hlt (by omega) h0 (by rw [ht0, ht])
    rw [(event_step ex h0).1, ht, hn] at this; simp [OpK] at this
  have a := key h1 h2 hj
  have b := key h2 h1 hj.symm
  omega

/-- a node is added by one call -/
theorem ins_unique {c evs s κ1 κ2} (hc : c.ownerByOr = false) (ex : Exec c init evs s)
    (h1 : Completed evs s κ1) (h2 : Completed evs s κ2) (i1 : IsIns κ1.op) (i2 : IsIns κ2.op)
    (hn : newNode κ1.op = newNode κ2.op) : κ1.i = κ2.i := by
  have key : ∀ {κ1 κ2}, Completed evs s κ1 → Completed evs s κ2 → IsIns κ1.op → IsIns κ2.op →
      newNode κ1.op = newNode κ2.op → ¬ κ1.i < κ2.i := by
    intro κ1 κ2 h1 h2 i1 i2 hn hlt
    obtain ⟨_, ⟨e0, h0, ht0, hop⟩, _⟩ := h1
    obtain ⟨_, ⟨e0', h0', ht0', hop'⟩, _⟩ := h2
    obtain ⟨a1, a2⟩ := event_step ex h0
    obtain ⟨b1, b2⟩ := event_step ex h0'
    rw [ht0] at a2; rw [a1] at hop; rw [ht0'] at b2; rw [b1] at hop'
    have f1 := ((call_facts hc (exec_reach_idx ex .init κ1.i) a2 hop).2.1 i1).2
    have f2 := ((call_facts hc (exec_reach_idx ex .init κ2.i) b2 hop').2.1 i2).1
    have := nonfresh_idx hc ex (i := κ1.i + 1) (j := κ2.i) (by omega) f1
    rw [hn, f2] at this; exact this rfl
  have a := key h1 h2 i1 i2 hn
  have b := key h2 h1 i2 i1 hn.symm
  omega

theorem del_call_label {s t l p} (h : opOf s t l = some (.del p)) : l = .callDel := by
  cases l <;> simp only [opOf, Option.some.injEq] at h <;> (try cases h) <;> (try rfl)
  rename_i m n h' k; cases m <;> simp [addOp] at h

theorem callDel_op {c s s' t o} (st : step c s t .callDel = some (s', o)) : (s'.th t).op = .del := by
  st_open st
  rw [e_th']; simp only [upd, if_true]; exact xop

theorem ownRet_idx {c evs s p i j} (ex : Exec c init evs s) (hij : i ≤ j)
    (h : (stAt evs s i).ownRet p ≠ none) : (stAt evs s j).ownRet p ≠ none := by
  induction j with
  | zero => have : i = 0 := by omega
            subst this; exact h
  | succ j ih =>
    by_cases e : i = j + 1
    · subst e; exact h
    · have hj := ih (by omega)
      by_cases hl : j < evs.length
      · have he : evs[j]? = some evs[j] := List.getElem?_eq_getElem hl
        exact ownRet_stable (event_step ex he).2 p hj
      · rw [stAt_end (by omega)]; rw [stAt_end (by omega)] at hj; exact hj

set_option maxHeartbeats 1000000 in
/-- a node is deleted with success by one call -/
theorem del_unique {c evs s κ1 κ2 p} (hc : c.ownerByOr = false) (ex : Exec c init evs s)
    (h1 : Completed evs s κ1) (h2 : Completed evs s κ2) (o1 : κ1.op = .del p) (o2 : κ2.op = .del p)
    (r1 : κ1.r = .ret 0) (r2 : κ2.r = .ret 0) : κ1.j = κ2.j := by
  have succ : ∀ {κ}, Completed evs s κ → κ.op = .del p → κ.r = .ret 0 →
      ∃ e, evs[κ.j]? = some e ∧ succFor (stAt evs s κ.j) e.2.1 e.2.2.1 e.2.2.2 = some p := by
    intro κ hκ ho hr
    have hin := in_call hc ex hκ
    have hpre := call_pre_none hc ex hκ
    obtain ⟨hij, ⟨e0, h0, ht0, hop⟩, _, ⟨eJ, hJ, htJ, hrJ⟩, hend⟩ := hκ
    have hlt : κ.i < κ.j := by
      rcases Nat.lt_or_ge κ.i κ.j with h | h
      · exact h
      · exfalso
        have : κ.i = κ.j := by omega
        obtain ⟨a1, a2⟩ := event_step ex h0
        rw [ht0] at a2; rw [a1] at hop
        have cf := (call_facts hc (exec_reach_idx ex .init κ.i) a2 hop).2.2
        rw [ho] at hop
        have hl : e0.2.2.1 = .callDel := del_call_label hop
        rw [hl] at a2
        have hq := callDel_op a2
        rw [this, hend] at hq; cases hq
    obtain ⟨c1, c2⟩ := hin κ.j hlt (Nat.le_refl _)
    obtain ⟨e1, e2⟩ := event_step ex hJ
    rw [htJ] at e2
    refine ⟨eJ, hJ, ?_⟩
    rcases own_step_class hc (exec_reach_idx ex .init κ.j) e2 c2 with hcont | ⟨_, hret⟩
    · exact absurd hend (by rw [hcont.1]; intro h; rw [h] at c2; simp [OpK] at c2)
    · rw [ho] at c1
      have hop' : ((stAt evs s κ.j).th κ.t).op = .del := by
        simp only [curOp] at c1
        cases hh : ((stAt evs s κ.j).th κ.t).op <;> simp [hh] at c1 ⊢
        cases hm : ((stAt evs s κ.j).th κ.t).mode <;> simp [hm] at c1
      have hnode : ((stAt evs s κ.j).th κ.t).node = p := by
        simp only [curOp, hop', Option.some.injEq, SOp.del.injEq] at c1; exact c1
      rw [hrJ, hr] at hret
      simp only [Ret] at hret
      rcases hret with ⟨_, _, _, a⟩ | ⟨_, _, _, _, a⟩ | ⟨_, _, _, a⟩ | ⟨_, _, _, _, _, a⟩ | ⟨_, _, _, a⟩ |
        ⟨_, _, a⟩ | ⟨_, _, _, a⟩ | ⟨_, _, _, a⟩ | ⟨hl, _, a⟩ | ⟨_, _, _, _, _, a⟩
      · rcases a with ⟨_, a⟩ | ⟨_, a⟩ | ⟨_, a⟩ <;> cases a
      · cases a
      · cases a
      · cases a
      · cases a
      · rcases a with ⟨a, _⟩ | ⟨_, a⟩
        · rw [hop'] at a; cases a
        · cases a
      · exact absurd a (by decide)
      · exact absurd a (by decide)
      · rcases a with ⟨_, a⟩ | ⟨_, _⟩
        · exact absurd a (by decide)
        · rw [htJ, hl, hrJ, hr]; simp only [succFor]; rw [hnode]
      · exact absurd a (by decide)
  have key : ∀ {κ1 κ2}, Completed evs s κ1 → Completed evs s κ2 → κ1.op = .del p → κ2.op = .del p →
      κ1.r = .ret 0 → κ2.r = .ret 0 → ¬ κ1.j < κ2.j := by
    intro κ1 κ2 h1 h2 o1 o2 r1 r2 hlt
    obtain ⟨e, he, hs⟩ := succ h1 o1 r1
    obtain ⟨e', he', hs'⟩ := succ h2 o2 r2
    have ⟨_, hF, hA⟩ := invRFA_reach hc (exec_reach_idx ex .init κ1.j)
    have ⟨_, hF', hA'⟩ := invRFA_reach hc (exec_reach_idx ex .init κ2.j)
    have s1 := (succ_once hc hF hA (event_step ex he).2 hs).2.1
    have s2 := (succ_once hc hF' hA' (event_step ex he').2 hs').1
    exact ownRet_idx ex (i := κ1.j + 1) (j := κ2.j) (by omega) s1 s2
  have a := key h1 h2 o1 o2 r1 r2
  have b := key h2 h1 o2 o1 r2 r1
  omega

/-- **no linearisation point serves two calls**: a change of the table is the effect of one completed call at most -/
theorem claim_unique {c evs s κ1 κ2 idx} (hc : c.ownerByOr = false) (ex : Exec c init evs s)
    (h1 : Completed evs s κ1) (h2 : Completed evs s κ2)
    (m1 : LpMut evs s idx κ1.op κ1.r) (m2 : LpMut evs s idx κ2.op κ2.r)
    (hne : absF s (stAt evs s (idx + 1)) ≠ absF s (stAt evs s idx)) : κ1 = κ2 := by
  rcases mut_same m1 m2 hne with ⟨a1, _, _, a4, a5⟩ | ⟨p, b1, b2, b3, b4⟩
  · exact completed_same_i hc ex h1 h2 (ins_unique hc ex h1 h2 a4 a5 a1)
  · exact completed_same_j hc ex h1 h2 (del_unique hc ex h1 h2 b1 b2 b3 b4)

end UrcuVerif.Lfht.Conc
