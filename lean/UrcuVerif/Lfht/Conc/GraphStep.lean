import UrcuVerif.Lfht.Conc.InvU
/-!
# How one step changes the pointer graph, the ghost list and the life cycle together (proof-only file)
-/
namespace UrcuVerif.Lfht.Conc
open UrcuVerif
set_option linter.unusedSimpArgs false
set_option linter.unusedVariables false

/-- nothing changed -/
def GSame (s s' : State) : Prop :=
  (∀ p, nxp s' p = nxp s p) ∧ s'.L = s.L ∧ (∀ p, valid s p → s'.life p = s.life p) ∧ s'.unlAt = s.unlAt

/-- `n` (private so far) is linked behind the linked node `p` -/
def GIns (s s' : State) (p n : Nat) : Prop :=
  InsShape s s' p n ∧ s'.L = insAfter p n s.L ∧ (∀ q, q ≠ n → s'.life q = s.life q) ∧ s'.life n = .linked ∧
  s.life p = .linked ∧ s'.unlAt = s.unlAt

/-- `k`, the flagged successor of the linked node `p`, is unlinked at time `s.clock` -/
def GUnl (s s' : State) (p k : Nat) : Prop :=
  UnlShape s s' p k ∧ s'.L = s.L.erase k ∧ (∀ q, q ≠ k → s'.life q = s.life q) ∧ s'.life k = .unlinked ∧
  s.life k = .linked ∧ s.life p = .linked ∧ s'.unlAt = upd s.unlAt k s.clock

set_option hygiene false in
macro "gs_same" : tactic => `(tactic|
  (left
   refine ⟨?_, e_L, ?_, e_unlAt⟩
   · intro p; simp only [nxp, e_nxt]
   · intro p _; rw [e_life]))

set_option hygiene false in
macro "gs_flag" hF:ident : tactic => `(tactic|
  (left
   have ftt := ($hF).t t
   simp only [TF] at ftt
   refine ⟨?_, e_L, ?_, e_unlAt⟩
   · intro p; simp only [nxp, e_nxt, upd]
     by_cases h2 : p = (s.th t).node <;> simp only [h2, if_true, if_false] <;> grind
   · intro p _; rw [e_life]))

set_option maxHeartbeats 8000000 in
theorem graph_step {c s s' t l o} (hc : c.ownerByOr = false) (r : Reach c s) (st : step c s t l = some (s', o)) :
    GSame s s' ∨ (∃ p n, GIns s s' p n) ∨ (∃ p k, GUnl s s' p k) := by
  have ⟨hR, hF, hL⟩ := invRFL_reach hc r
  cases l with
  | casIns =>
    st_open st
    all_goals first | (gs_same; done) | skip
    all_goals
      right; left
      refine ⟨(s.th t).prev, (s.th t).node, ?_⟩
      vis_open hR hF hL
      have kf : s.life (s.th t).prev = .linked ∧ s.life (s.th t).node = .priv ∧ (s.th t).iter.ptr = (s.nxt (s.th t).prev).ptr ∧
          (s.th t).node ≠ 0 := by
        clear fgn g1 g2 g3 g4 g5
        grind [valid, vz, Pend, HasPos, Worker, AddPc, InPhase, okp]
      obtain ⟨k1, k2, k3, k4⟩ := kf
      have hne : (s.th t).prev ≠ (s.th t).node := by intro e; rw [e, k2] at k1; cases k1
      refine ⟨⟨?_, ?_, ?_, k2, by simp [valid, k1], k4⟩, e_L, ?_, ?_, k1, e_unlAt⟩
      · simp only [nxp, e_nxt, upd, if_true]
      · simp only [nxp, e_nxt, upd, Ne.symm hne, if_false, if_true]; exact k3
      · intro x h1 h2; simp only [nxp, e_nxt, upd, h1, h2, if_false]
      · intro q hq; simp only [e_life, upd, hq, if_false]
      · simp only [e_life, upd, if_true]
  | casRepl =>
    st_open st
    all_goals first | (gs_same; done) | skip
    all_goals
      right; left
      refine ⟨(s.th t).old, (s.th t).node, ?_⟩
      vis_open hR hF hL
      have kf : s.life (s.th t).old = .linked ∧ s.life (s.th t).node = .priv ∧ (s.th t).oldnx.ptr = (s.nxt (s.th t).old).ptr ∧
          (s.th t).node ≠ 0 := by
        clear fgn g1 g2 g3 g4 g5
        grind [valid, vz, Pend, HasPos, okp]
      obtain ⟨k1, k2, k3, k4⟩ := kf
      have hne : (s.th t).old ≠ (s.th t).node := by intro e; rw [e, k2] at k1; cases k1
      refine ⟨⟨?_, ?_, ?_, k2, by simp [valid, k1], k4⟩, e_L, ?_, ?_, k1, e_unlAt⟩
      · simp only [nxp, e_nxt, upd, if_true]
      · simp only [nxp, e_nxt, upd, Ne.symm hne, if_false, if_true]; exact k3
      · intro x h1 h2; simp only [nxp, e_nxt, upd, h1, h2, if_false]
      · intro q hq; simp only [e_life, upd, hq, if_false]
      · simp only [e_life, upd, if_true]
  | casGc =>
    st_open st
    all_goals first | (gs_same; done) | skip
    all_goals
      right; right
      refine ⟨(s.th t).prev, (s.th t).iter.ptr, ?_⟩
      vis_open hR hF hL
      have kf : (s.nxt (s.th t).prev).ptr = (s.th t).iter.ptr ∧ (s.th t).nx.ptr = (s.nxt (s.th t).iter.ptr).ptr ∧
          (s.nxt (s.th t).iter.ptr).rem = true ∧ (s.nxt (s.th t).prev).rem = false ∧ s.life (s.th t).prev = .linked ∧
          (s.th t).iter.ptr ≠ 0 := by
        clear fgn g1 g2 g3 g4 g5
        grind [valid, vz, Pend, HasPos, okp]
      obtain ⟨k1, k2, k3, k4, k5, k6⟩ := kf
      have hpL := (g2 _).mpr k5
      have hcL : (s.th t).iter.ptr ∈ s.L := by
        have := chn_next_mem g3 hpL (by simp only [nxp, k1]; exact k6); simpa only [nxp, k1] using this
      refine ⟨⟨k1, ?_, ?_, ?_, k3⟩, e_L, ?_, ?_, (g2 _).mp hcL, k5, e_unlAt⟩
      · simp only [nxp, e_nxt, upd, if_true]; exact k2
      · intro x h1; simp only [nxp, e_nxt, upd, h1, if_false]
      · intro e; rw [e, k3] at k4; cases k4
      · intro q hq; simp only [e_life, upd, hq, if_false]
      · simp only [e_life, upd, if_true]
  | orRem => st_open st; all_goals first | (gs_same; done) | gs_flag hF
  | xchgOwn => st_open st; all_goals first | (gs_same; done) | gs_flag hF
  | orBkt => st_open st; all_goals first | (gs_same; done) | gs_flag hF
  | orOwn => st_open st; all_goals first | (gs_same; done) | gs_flag hF
  | callAdd m n h k =>
    st_open st
    all_goals (left; refine ⟨fun p => by simp only [nxp, e_nxt], e_L, ?_, e_unlAt⟩
               intro p hp; simp only [valid] at hp; simp only [e_life, upd]; have : p ≠ n := by grind
               simp [this])
  | callReplace n h k =>
    st_open st
    all_goals (left; refine ⟨fun p => by simp only [nxp, e_nxt], e_L, ?_, e_unlAt⟩
               intro p hp; simp only [valid] at hp; simp only [e_life, upd]; have : p ≠ n := by grind
               simp [this])
  | tblAlloc base =>
    have fg := hF.g; simp only [GF] at fg
    st_open st
    all_goals simp only [inRange, Bool.and_eq_true, decide_eq_true_eq] at *
    all_goals
      left; refine ⟨fun p => by simp only [nxp, e_nxt], e_L, ?_, e_unlAt⟩
      intro p hp
      have := (fg.1 p).1
      simp only [valid] at hp
      simp only [e_life]
      have hr : ¬ (base ≤ p ∧ p < base + 2 ^ s.size.log2) := by grind
      simp [hr]
  | _ => st_open st; all_goals gs_same

end UrcuVerif.Lfht.Conc
