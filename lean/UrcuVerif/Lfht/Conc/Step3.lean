import UrcuVerif.Lfht.Conc.Step2
/-! # Concurrent rculfhash: resize steps (grow = populate one level, shrink = fini one level), dispatcher, `Reach` -/
namespace UrcuVerif.Lfht.Conc
open UrcuVerif

def inRange (base len p : Nat) : Bool := decide (base ≤ p) && decide (p < base + len)

/-- `init_table` / `fini_table` level by level, under the resize mutex -/
def stepRz (c : Cfg) (s : State) (t : Nat) (x : Thr) : Label → Option (State × Out)
  | .rzLock =>
    if x.pc = .idle ∧ s.cs t = none ∧ s.rzOwner = 0 then
      some (tick (setTh { s with rzOwner := t + 1 } t { x with pc := .zIdle, rk := .none, pfree := 0 }), .unit)
    else none
  | .rzUnlock =>
    if x.pc = .zIdle ∧ x.pfree = 0 ∧ s.rzOwner = t + 1 then
      some (tick (setTh { s with rzOwner := 0 } t { x with pc := .idle }), .unit)
    else none
  | .tblAlloc base =>
    -- cds_lfht_alloc_bucket_table(ht, order) for order = log2(size)+1; the bucket nodes get identifiers base…
    let k := Nat.log2 s.size
    let len := 2 ^ k
    if x.pc = .zIdle ∧ x.pfree = 0 ∧ s.hi ≤ base ∧ 0 < base ∧ k < 63 ∧ s.alloc (k + 1) = false then
      let s1 := { s with
        tbl := fun j => if len ≤ j ∧ j < 2 * len then base + (j - len) else s.tbl j,
        isB := fun p => if inRange base len p then true else s.isB p,
        hsh := fun p => if inRange base len p then len + (p - base) else s.hsh p,
        rev := fun p => if inRange base len p then bitReverse64 (len + (p - base)) else s.rev p,
        life := fun p => if inRange base len p then .priv else s.life p,
        alloc := upd s.alloc (k + 1) true, hi := base + len }
      some (tick (setTh s1 t (levelPart { x with rk := .grow, rord := k + 1 })), .unit)
    else none
  | .spawn u len =>
    let y := s.th u
    if x.pc = .zPart ∧ u < c.n ∧ u ≠ t ∧ y.pc = .idle ∧ s.cs u = none ∧ 0 < len ∧ x.j + len ≤ x.jend then
      let s1 := setTh s u { y with pc := .hStart, rk := x.rk, rord := x.rord, j := x.j, jend := x.j + len, parent := t + 1 }
      some (tick (setTh s1 t { x with j := x.j + len, nh := x.nh + 1 }), .unit)
    else none
  | .join u =>
    let y := s.th u
    if x.pc = .zPart ∧ u ≠ t ∧ y.pc = .hDone ∧ y.parent = t + 1 ∧ 0 < x.nh then
      let s1 := setTh s u { y with pc := .idle, parent := 0, rk := .none }
      some (tick (setTh s1 t { x with nh := x.nh - 1 }), .unit)
    else none
  | .partBegin =>
    if (x.pc = .zPart ∨ x.pc = .hStart) ∧ s.cs t = none then
      some (tick (setTh { s with cs := upd s.cs t (some s.clock) } t (partItem s x)), .unit)
    else none
  | .partEnd =>
    if x.pc = .pEnd ∧ (s.cs t).isSome then
      some (tick (setTh { s with cs := upd s.cs t none } t { x with pc := if x.parent = 0 then .zPart else .hDone }), .unit)
    else none
  | .stSizeGrow =>
    if x.pc = .zPart ∧ x.rk = .grow ∧ x.j = x.jend ∧ x.nh = 0 ∧ s.cs t = none then
      some (tick (setTh { s with size := 2 ^ x.rord } t { x with pc := .zIdle, rk := .none }), .unit)
    else none
  | .stSizeShrink =>
    let k := Nat.log2 s.size
    if (x.pc = .zIdle ∧ x.pfree = 0 ∨ x.pc = .zPart ∧ x.rk = .shrink ∧ x.j = x.jend ∧ x.nh = 0) ∧ 2 ≤ s.size
        ∧ s.cs t = none then
      some (tick (setTh { s with size := 2 ^ (k - 1) } t
        { x with pfree := if x.pc = .zPart then x.rord else 0, rord := k, rk := .shrink, pc := .zGp }), .unit)
    else none
  | .gpStart =>
    if s.cs t ≠ none then none
    else if x.pc = .zGp then some (tick (setTh s t { x with gpAt := s.clock, pc := .zSync }), .unit)
    else if x.pc = .zPart ∧ x.rk = .shrink ∧ x.j = x.jend ∧ x.nh = 0 then
      some (tick (setTh s t { x with gpAt := s.clock, pfree := x.rord, rk := .none, pc := .zSync }), .unit)
    else none
  | .gpEnd =>
    if x.pc = .zSync ∧ gpElapsed c s x.gpAt then
      if x.pfree ≠ 0 then some (tick (setTh s t { x with pc := .zFree }), .unit)
      else some (tick (setTh s t (levelPart x)), .unit)
    else none
  | .tblFree =>
    let o := x.pfree
    let lo := 2 ^ (o - 1)
    if x.pc = .zFree ∧ 0 < o then
      let s1 := { s with
        freed := fun p => if ∃ j, j < 2 * lo ∧ lo ≤ j ∧ s.tbl j = p ∧ p ≠ 0 then true else s.freed p,
        tbl := fun j => if lo ≤ j ∧ j < 2 * lo then 0 else s.tbl j,
        alloc := upd s.alloc o false }
      some (tick (setTh s1 t (if x.rk = .shrink then levelPart { x with pfree := 0 } else { x with pfree := 0, pc := .zIdle })), .unit)
    else none
  | .reclaim p =>
    match s.ownRet p with
    | some r =>
      if s.life p = .unlinked ∧ s.isB p = false ∧ s.freed p = false ∧ gpElapsed c s r then
        some (tick { s with freed := upd s.freed p true }, .unit)
      else none
    | none => none
  | _ => none

/-- one step of thread `t`; `none` = not enabled -/
def step (c : Cfg) (s : State) (t : Nat) (l : Label) : Option (State × Out) :=
  if c.n ≤ t then none else
  let x := s.th t
  match l with
  | .rlock | .runlock | .callAdd .. | .callReplace .. | .callDel | .callLookup .. | .callDup _ | .callNext
  | .callFirst => stepApi c s t x l
  | .ldSize | .ldHeadA | .ldNextA | .casIns | .casGc => stepAdd c s t x l
  | .ldWalk | .ldAssertW | .ldHeadL | .ldFirst => stepWalk c s t x l
  | .casRepl | .ldAssertR => stepRepl c s t x l
  | .ldHeadG | .ldNextG => stepGc c s t x l
  | .ldDel | .orRem | .ldAssertD | .ldDel2 | .xchgOwn | .orOwn | .orBkt => stepDel c s t x l
  | _ => stepRz c s t x l

inductive Reach (c : Cfg) : State → Prop
  | init : Reach c init
  | step {s s' t l o} : Reach c s → step c s t l = some (s', o) → Reach c s'

end UrcuVerif.Lfht.Conc
