import UrcuVerif.Lfht.Conc.LinNone
/-!
# Concurrent rculfhash — linearizability, composition: executions by event index (proof-only file)
-/
namespace UrcuVerif.Lfht.Conc
open UrcuVerif
set_option linter.unusedSimpArgs false
set_option linter.unusedVariables false

/-- the state before event `i` of an execution that ends in `s` (`s` itself from the end on) -/
def stAt (evs : List Event) (s : State) (i : Nat) : State :=
  match evs[i]? with
  | some e => e.1
  | none => s

theorem stAt_cons_succ (e : Event) (evs : List Event) (s : State) (i : Nat) :
    stAt (e :: evs) s (i + 1) = stAt evs s i := by simp [stAt]

theorem stAt_cons_zero (e : Event) (evs : List Event) (s : State) : stAt (e :: evs) s 0 = e.1 := by simp [stAt]

theorem stAt_end {evs : List Event} {s : State} {i : Nat} (h : evs.length ≤ i) : stAt evs s i = s := by
  simp [stAt, List.getElem?_eq_none h]

theorem exec_idx {c s0 evs s} (ex : Exec c s0 evs s) :
    stAt evs s 0 = s0 ∧ ∀ i e, evs[i]? = some e →
      e.1 = stAt evs s i ∧ step c e.1 e.2.1 e.2.2.1 = some (stAt evs s (i + 1), e.2.2.2) := by
  induction ex with
  | nil s => exact ⟨by simp [stAt], fun i e h => by simp at h⟩
  | @cons s u l s1 o evs s2 st _ ih =>
    refine ⟨stAt_cons_zero _ _ _, ?_⟩
    intro i e h
    cases i with
    | zero =>
      simp at h; subst h
      rw [stAt_cons_succ, ih.1]; exact ⟨(stAt_cons_zero _ _ _).symm, st⟩
    | succ i =>
      simp at h
      rw [stAt_cons_succ, stAt_cons_succ]; exact ih.2 i e h

theorem exec_reach_idx {c s0 evs s} (ex : Exec c s0 evs s) (r : Reach c s0) : ∀ i, Reach c (stAt evs s i) := by
  induction ex with
  | nil s => intro i; simp [stAt]; exact r
  | @cons s u l s1 o evs s2 st _ ih =>
    intro i
    cases i with
    | zero => rw [stAt_cons_zero]; exact r
    | succ i => rw [stAt_cons_succ]; exact ih (.step r st) i

/-- the events `i ≤ · < j` form an execution from the state before `i` to the state before `j` -/
theorem exec_slice {c s0 evs s} (ex : Exec c s0 evs s) : ∀ i j, i ≤ j → j ≤ evs.length →
    Exec c (stAt evs s i) ((evs.drop i).take (j - i)) (stAt evs s j) := by
  induction ex with
  | nil s => intro i j h1 h2; simp at h2; subst h2; have : i = 0 := by omega
             subst this; simp [stAt]; exact .nil _
  | @cons s u l s1 o evs s2 st ex' ih =>
    intro i j h1 h2
    cases i with
    | zero =>
      cases j with
      | zero => simp [stAt]; exact .nil _
      | succ j =>
        have := ih 0 j (by omega) (by simp at h2; omega)
        simp only [List.drop_zero, Nat.sub_zero, List.take_succ_cons, stAt_cons_zero, stAt_cons_succ] at this ⊢
        rw [(exec_idx ex').1] at this
        exact .cons st this
    | succ i =>
      cases j with
      | zero => omega
      | succ j =>
        have := ih i j (by omega) (by simp at h2; omega)
        simp only [List.drop_succ_cons, stAt_cons_succ, Nat.add_sub_add_right]
        exact this

theorem mem_slice {evs : List Event} {i j : Nat} {e : Event} :
    e ∈ (evs.drop i).take (j - i) ↔ ∃ idx, i ≤ idx ∧ idx < j ∧ evs[idx]? = some e := by
  rw [List.mem_iff_getElem?]
  constructor
  · rintro ⟨n, hn⟩
    rw [List.getElem?_take] at hn
    split at hn
    · rw [List.getElem?_drop] at hn; exact ⟨i + n, by omega, by omega, hn⟩
    · cases hn
  · rintro ⟨idx, h1, h2, h3⟩
    refine ⟨idx - i, ?_⟩
    rw [List.getElem?_take, if_pos (by omega), List.getElem?_drop]
    have : i + (idx - i) = idx := by omega
    rw [this]; exact h3

end UrcuVerif.Lfht.Conc
