import UrcuVerif.Lfht.Conc.InvA
/-! Layer A is preserved by every step (part 3) (proof-only file). -/
namespace UrcuVerif.Lfht.Conc
open UrcuVerif
set_option linter.unusedSimpArgs false
set_option linter.unusedVariables false

set_option maxHeartbeats 4000000 in
theorem invA_orOwn {c s s' t o} (hc : c.ownerByOr = false) (hR : InvR c s) (hF : InvF c s) (hA : InvA s)
    (st : step c s t .orOwn = some (s', o)) : InvA s' := by
  st_open st
  all_goals a_step hR hF hA

set_option maxHeartbeats 4000000 in
theorem invA_orBkt {c s s' t o} (hc : c.ownerByOr = false) (hR : InvR c s) (hF : InvF c s) (hA : InvA s)
    (st : step c s t .orBkt = some (s', o)) : InvA s' := by
  st_open st
  all_goals a_step hR hF hA

set_option maxHeartbeats 4000000 in
theorem invA_reclaim {c s s' t o p} (hc : c.ownerByOr = false) (hR : InvR c s) (hF : InvF c s) (hA : InvA s)
    (st : step c s t (.reclaim p) = some (s', o)) : InvA s' := by
  st_open st
  all_goals a_step hR hF hA

set_option maxHeartbeats 4000000 in
theorem invA_rzLock {c s s' t o} (hc : c.ownerByOr = false) (hR : InvR c s) (hF : InvF c s) (hA : InvA s)
    (st : step c s t .rzLock = some (s', o)) : InvA s' := by
  st_open st
  all_goals a_step hR hF hA

set_option maxHeartbeats 4000000 in
theorem invA_rzUnlock {c s s' t o} (hc : c.ownerByOr = false) (hR : InvR c s) (hF : InvF c s) (hA : InvA s)
    (st : step c s t .rzUnlock = some (s', o)) : InvA s' := by
  st_open st
  all_goals a_step hR hF hA

set_option maxHeartbeats 4000000 in
theorem invA_partBegin {c s s' t o} (hc : c.ownerByOr = false) (hR : InvR c s) (hF : InvF c s) (hA : InvA s)
    (st : step c s t .partBegin = some (s', o)) : InvA s' := by
  st_open st
  all_goals a_step hR hF hA

set_option maxHeartbeats 4000000 in
theorem invA_partEnd {c s s' t o} (hc : c.ownerByOr = false) (hR : InvR c s) (hF : InvF c s) (hA : InvA s)
    (st : step c s t .partEnd = some (s', o)) : InvA s' := by
  st_open st
  all_goals a_step hR hF hA

set_option maxHeartbeats 4000000 in
theorem invA_stSizeGrow {c s s' t o} (hc : c.ownerByOr = false) (hR : InvR c s) (hF : InvF c s) (hA : InvA s)
    (st : step c s t .stSizeGrow = some (s', o)) : InvA s' := by
  st_open st
  all_goals a_step hR hF hA

set_option maxHeartbeats 4000000 in
theorem invA_stSizeShrink {c s s' t o} (hc : c.ownerByOr = false) (hR : InvR c s) (hF : InvF c s) (hA : InvA s)
    (st : step c s t .stSizeShrink = some (s', o)) : InvA s' := by
  st_open st
  all_goals a_step hR hF hA

set_option maxHeartbeats 4000000 in
theorem invA_gpStart {c s s' t o} (hc : c.ownerByOr = false) (hR : InvR c s) (hF : InvF c s) (hA : InvA s)
    (st : step c s t .gpStart = some (s', o)) : InvA s' := by
  st_open st
  all_goals a_step hR hF hA

set_option maxHeartbeats 4000000 in
theorem invA_gpEnd {c s s' t o} (hc : c.ownerByOr = false) (hR : InvR c s) (hF : InvF c s) (hA : InvA s)
    (st : step c s t .gpEnd = some (s', o)) : InvA s' := by
  st_open st
  all_goals a_step hR hF hA

set_option maxHeartbeats 4000000 in
theorem invA_tblFree {c s s' t o} (hc : c.ownerByOr = false) (hR : InvR c s) (hF : InvF c s) (hA : InvA s)
    (st : step c s t .tblFree = some (s', o)) : InvA s' := by
  st_open st
  all_goals a_step hR hF hA

set_option maxHeartbeats 4000000 in
theorem invA_tblAlloc {c s s' t o base} (hc : c.ownerByOr = false) (hR : InvR c s) (hF : InvF c s) (hA : InvA s)
    (st : step c s t (.tblAlloc base) = some (s', o)) : InvA s' := by
  st_open st
  all_goals a_step hR hF hA

set_option maxHeartbeats 4000000 in
theorem invA_spawn {c s s' t o u len} (hc : c.ownerByOr = false) (hR : InvR c s) (hF : InvF c s) (hA : InvA s)
    (st : step c s t (.spawn u len) = some (s', o)) : InvA s' := by
  st_open st
  st_open2
  all_goals a_step hR hF hA

set_option maxHeartbeats 4000000 in
theorem invA_join {c s s' t o u} (hc : c.ownerByOr = false) (hR : InvR c s) (hF : InvF c s) (hA : InvA s)
    (st : step c s t (.join u) = some (s', o)) : InvA s' := by
  st_open st
  st_open2
  all_goals a_step hR hF hA

end UrcuVerif.Lfht.Conc
