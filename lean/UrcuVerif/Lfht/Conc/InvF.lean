import UrcuVerif.Lfht.Conc.InvRAll
/-!
# Concurrent rculfhash — layer F: node life cycle, flag words, bucket liveness (proof-only file)

* every pointer held by a thread or stored in a published `next` word is to a published node;
* flags: `REMOVAL_OWNER ⇒ REMOVED`; a node is unlinked only after being flagged; buckets never owned;
* a thread's snapshot `nx` of a flagged word stays equal to the word's pointer part (`removed_frozen`);
* bucket liveness: every bucket below `size` — and, between the size store of a shrink and the end of
  its grace period, every bucket of the retiring level — is linked and not flagged; a bucket pointer
  taken inside a read-side section stays such a bucket until the section ends (grace-period argument);
* grow: the buckets of the level being populated are private until inserted, and all are inserted
  before the new size is stored (`grow_before_publish`).
-/
namespace UrcuVerif.Lfht.Conc
open UrcuVerif

def valid (s : State) (p : Nat) : Prop := s.life p ≠ .fresh ∧ s.life p ≠ .priv
def vz (s : State) (p : Nat) : Prop := p ≠ 0 → valid s p
/-- linked and not flagged -/
def live (s : State) (p : Nat) : Prop := s.life p = .linked ∧ (s.nxt p).rem = false

/-- the owner of the resize mutex (meaningful when `rzOwner ≠ 0`) -/
def own (s : State) : Thr := s.th (s.rzOwner - 1)

/-- a shrink has stored the smaller size and its grace period has not ended -/
def Retiring (s : State) : Prop :=
  s.rzOwner ≠ 0 ∧ (own s).rk = .shrink ∧ ((own s).pc = .zGp ∨ (own s).pc = .zSync)

instance (s : State) : Decidable (Retiring s) := by unfold Retiring; infer_instance

/-- number of bucket indexes that sections begun before the size store may still use -/
def rlim (s : State) : Nat := if Retiring s then 2 ^ (own s).rord else s.size
/-- start of the grace period that ends the retirement -/
def rgp (s : State) : Option Nat := if Retiring s ∧ (own s).pc = .zSync then some (own s).gpAt else none

/-- `n` bucket indexes are usable by thread `t` -/
def Lim (s : State) (t n : Nat) : Prop :=
  n ≤ s.size ∨ (n ≤ rlim s ∧ ∀ b g, s.cs t = some b → rgp s = some g → b < g)

/-- bucket pointer held by thread `t` -/
def HB (s : State) (t B : Nat) : Prop :=
  B ≠ 0 ∧ s.isB B = true ∧ s.tbl (s.hsh B) = B ∧ Lim s t (s.hsh B + 1)

/-- the thread still owns the unpublished node of an add / replace -/
def Pend (x : Thr) : Prop :=
  x.mode ≠ .bkt ∧ (x.pc = .aSize ∨ x.pc = .aHead ∨ x.pc = .aNext ∨ x.pc = .aCas ∨ x.pc = .aGc ∨ x.pc = .rSize ∨
    x.pc = .rCas ∨ ((x.pc = .wNext ∨ x.pc = .wAssert) ∧ x.wk = .dupAdd))

/-- inside `_cds_lfht_add` after the size load (user add or bucket population) -/
def InAdd (x : Thr) : Prop :=
  x.pc = .aHead ∨ x.pc = .aNext ∨ x.pc = .aCas ∨ x.pc = .aGc ∨ ((x.pc = .wNext ∨ x.pc = .wAssert) ∧ x.wk = .dupAdd) ∨
    (x.pc = .rCas ∧ x.op ≠ .replace)

/-- `prev`/`iter` are the insertion position -/
def HasPos (x : Thr) : Prop :=
  x.pc = .aNext ∨ x.pc = .aCas ∨ x.pc = .aGc ∨ ((x.pc = .wNext ∨ x.pc = .wAssert) ∧ x.wk = .dupAdd) ∨
    x.pc = .gNext ∨ x.pc = .gCas

/-- facts about one node -/
def GFn (s : State) (p : Nat) : Prop :=
  (s.hi ≤ p → s.life p = .fresh) ∧
  ((s.life p = .fresh ∨ s.life p = .priv) → s.nxt p = {}) ∧
  (s.life p = .fresh → s.isB p = false) ∧
  (valid s p → vz s (s.nxt p).ptr) ∧
  (valid s p → (s.nxt p).bkt = s.isB p) ∧
  ((s.nxt p).own = true → (s.nxt p).rem = true) ∧
  (s.isB p = true → (s.nxt p).own = false) ∧
  (s.life p = .unlinked → (s.nxt p).rem = true)

def GF (s : State) : Prop :=
  (∀ p, GFn s p) ∧
  s.life 0 = .fresh ∧
  (∀ i, i < s.size → live s (s.tbl i)) ∧
  (∀ u b, s.cs u = some b → b < s.clock)

def TF (c : Cfg) (s : State) (x : Thr) (t : Nat) : Prop :=
  (x.pc ≠ .dOwnOr) ∧
  (c.n ≤ t → s.cs t = none) ∧
  ((x.pc ≠ .idle ∧ ¬ ZPc x.pc ∧ ¬ HPc x.pc) → (s.cs t).isSome) ∧
  (x.pc = .zSync → x.gpAt < s.clock) ∧
  -- retiring buckets stay live until the grace period of the shrink has elapsed
  ((x.pc = .zGp ∨ x.pc = .zSync ∨ x.pc = .zFree) → x.rk = .shrink → ∀ i, i < 2 ^ x.rord → live s (s.tbl i)) ∧
  -- unpublished nodes
  (Pend x → s.life x.node = .priv ∧ x.node ≠ 0 ∧ s.isB x.node = false) ∧
  (((x.pc = .zPart ∧ s.rzOwner = t + 1) ∨ x.pc = .hStart ∨ Worker x) → x.rk = .grow →
      ∀ j, x.j ≤ j → j < x.jend → s.life (s.tbl j) = .priv) ∧
  -- `_cds_lfht_add`
  (InAdd x → HB s t x.bkt) ∧
  ((InAdd x ∨ x.pc = .rCas ∨ x.pc = .dLd ∨ x.pc = .dOr) → 0 < x.sz ∧ Lim s t x.sz) ∧
  (HasPos x → valid s x.prev ∧ x.iter.rem = false ∧ x.iter.own = false ∧ x.iter.bkt = s.isB x.prev ∧
      vz s x.iter.ptr) ∧
  ((x.pc = .aNext ∨ x.pc = .aGc ∨ x.pc = .gNext ∨ x.pc = .gCas) → x.iter.ptr ≠ 0) ∧
  ((x.pc = .aGc ∨ x.pc = .gCas) → x.nx.rem = true ∧ (s.nxt x.iter.ptr).rem = true ∧
      (s.nxt x.iter.ptr).ptr = x.nx.ptr) ∧
  -- walks
  ((x.pc = .wNext ∨ x.pc = .wAssert) → valid s x.cur) ∧
  (x.pc = .wAssert → x.wnx.bkt = false ∧ x.wnx.rem = false ∧ vz s x.wnx.ptr ∧ s.isB x.cur = false) ∧
  (x.pc = .lHead → HB s t x.bkt) ∧
  (vz s x.itn ∧ vz s x.itx.ptr ∧ (x.itn ≠ 0 → s.isB x.itn = false)) ∧
  -- replace
  ((x.pc = .rSize ∨ x.pc = .rCas ∨ x.pc = .rAssert ∨ (GcPc x.pc ∧ x.gcont = .repl)) →
      valid s x.old ∧ s.isB x.old = false) ∧
  (x.pc = .rCas → x.oldnx.rem = false) ∧
  (x.pc = .rSize → x.op = .replace) ∧
  -- `_cds_lfht_gc_bucket`
  (GcPc x.pc → HB s t x.gbkt) ∧
  -- del
  (x.pc = .dSize → vz s x.node ∧ (x.node ≠ 0 → s.isB x.node = false)) ∧
  ((x.pc = .dLd ∨ x.pc = .dOr ∨ x.pc = .dAssert ∨ x.pc = .dLd2 ∨ x.pc = .dXchg ∨ (GcPc x.pc ∧ x.gcont = .del)) →
      valid s x.node ∧ s.isB x.node = false) ∧
  ((x.pc = .dAssert ∨ x.pc = .dLd2 ∨ x.pc = .dXchg ∨ (GcPc x.pc ∧ x.gcont = .del)) → (s.nxt x.node).rem = true) ∧
  (x.pc = .dXchg → x.v.rem = true ∧ x.v.ptr = (s.nxt x.node).ptr ∧ x.v.bkt = (s.nxt x.node).bkt)

/-- unpublished nodes of different threads are different -/
def XPend (s : State) : Prop :=
  ∀ t u, t ≠ u → Pend (s.th t) → Pend (s.th u) → (s.th t).node ≠ (s.th u).node

/-- `grow_before_publish`: every bucket of the level being populated is inserted or still assigned -/
def XGrow (s : State) : Prop :=
  ∀ o, s.rzOwner = o + 1 → InPhase (s.th o) → (s.th o).rk = .grow →
    ∀ j, 2 ^ ((s.th o).rord - 1) ≤ j → j < 2 ^ (s.th o).rord →
      live s (s.tbl j) ∨ ((s.th o).j ≤ j ∧ j < (s.th o).jend) ∨
      ∃ u, (s.th u).parent = o + 1 ∧ (s.th u).j ≤ j ∧ j < (s.th u).jend

structure InvF (c : Cfg) (s : State) : Prop where
  g : GF s
  t : ∀ u, TF c s (s.th u) u
  pend : XPend s
  grow : XGrow s

theorem invF_init (c : Cfg) : InvF c init := by
  refine ⟨?_, ?_, ?_, ?_⟩ <;>
    simp [init, GF, GFn, TF, XPend, XGrow, Pend, InAdd, HasPos, HB, Lim, Retiring, rlim, rgp, own, valid, vz, live, AddPc, GcPc, ZPc, HPc, Worker,
      InPhase]
  · grind

/-- steps of a thread outside the resize control code leave the retirement window alone -/
theorem rl_frame {s s' : State} {t : Nat} {x' : Thr} (e_th : s'.th = upd s.th t x') (e_rz : s'.rzOwner = s.rzOwner)
    (e_size : s'.size = s.size) (h1 : (s.th t).pc ≠ .zGp ∧ (s.th t).pc ≠ .zSync) (h2 : x'.pc ≠ .zGp ∧ x'.pc ≠ .zSync) :
    rlim s' = rlim s ∧ rgp s' = rgp s := by
  simp only [rlim, rgp, Retiring, own, e_th, e_rz, e_size, upd] at *
  by_cases ho : s.rzOwner - 1 = t
  · subst ho; simp only [if_true]; grind
  · simp only [ho, if_false]; grind

theorem rlim_live {c s} (hR : InvR c s) (hF : InvF c s) :
    s.size ≤ rlim s ∧ ∀ i, i < rlim s → s.tbl i ≠ 0 ∧ live s (s.tbl i) := by
  have r := hR.t (s.rzOwner - 1); have f := hF.t (s.rzOwner - 1)
  have g := hR.g; have fg := hF.g
  have pw := @two_pow_pred (s.th (s.rzOwner - 1)).rord
  simp only [TR, TF, GR, GF] at r f g fg
  simp only [rlim, Retiring, own]
  by_cases hret : s.rzOwner ≠ 0 ∧ (s.th (s.rzOwner - 1)).rk = .shrink ∧
      ((s.th (s.rzOwner - 1)).pc = .zGp ∨ (s.th (s.rzOwner - 1)).pc = .zSync)
  · simp only [hret, and_self, if_true]; grind
  · simp only [hret, if_false]; grind

set_option linter.unusedSimpArgs false
/-- the step changed no shared field that the heap invariants read -/
structure SameHeap (s s' : State) : Prop where
  nxt : s'.nxt = s.nxt
  hsh : s'.hsh = s.hsh
  isB : s'.isB = s.isB
  life : s'.life = s.life
  size : s'.size = s.size
  tbl : s'.tbl = s.tbl
  hi : s'.hi = s.hi

theorem GF_frame {s s'} (h : SameHeap s s') (e_cs : s'.cs = s.cs) (hc : s.clock ≤ s'.clock) (g : GF s) : GF s' := by
  obtain ⟨e1, e2, e3, e4, e5, e6, e7⟩ := h
  simp only [GF, GFn, valid, vz, live, e1, e2, e3, e4, e5, e6, e7, e_cs] at g ⊢
  refine ⟨g.1, g.2.1, g.2.2.1, ?_⟩
  intro u b hb; have := g.2.2.2 u b hb; omega

theorem TF_frame {c s s' y u} (h : SameHeap s s') (e_cs : s'.cs u = s.cs u) (e_rz : s'.rzOwner = s.rzOwner)
    (hrl : rlim s' = rlim s) (hrg : rgp s' = rgp s) (hc : s.clock ≤ s'.clock) (g : TF c s y u) : TF c s' y u := by
  obtain ⟨e1, e2, e3, e4, e5, e6, e7⟩ := h
  simp only [TF, HB, Lim, valid, vz, live, e1, e2, e3, e4, e5, e6, e7, e_cs, e_rz, hrl, hrg] at g ⊢
  obtain ⟨g1, g2, g3, g4, g5⟩ := g
  refine ⟨g1, g2, g3, ?_, g5⟩
  intro hz; have := g4 hz; omega
theorem XPend_frame {s s' : State} {t : Nat} {x' : Thr} (e_th : s'.th = upd s.th t x')
    (hp : Pend x' → Pend (s.th t) ∧ x'.node = (s.th t).node) (g : XPend s) : XPend s' := by
  intro a b hab
  have := g a b hab; have g1 := g t b; have g2 := g a t
  simp only [e_th, upd]
  by_cases ha : a = t <;> by_cases hb : b = t <;> simp only [ha, hb, if_true, if_false] <;> grind

theorem XGrow_frame {c : Cfg} {s s' : State} {t : Nat} {x' : Thr} (hR : InvR c s) (e_th : s'.th = upd s.th t x')
    (e_rz : s'.rzOwner = s.rzOwner) (h_live : ∀ i, live s (s.tbl i) → live s' (s.tbl i)) (e_tbl : s'.tbl = s.tbl)
    (hx : x'.parent = (s.th t).parent ∧ x'.rk = (s.th t).rk ∧ x'.rord = (s.th t).rord ∧
      (s.rzOwner = t + 1 → (InPhase x' ↔ InPhase (s.th t))) ∧
      ((s.th t).rk = .grow → x'.j = (s.th t).j ∧ x'.jend = (s.th t).jend))
    (g : XGrow s) : XGrow s' := by
  intro o ho hph hrk j h1 h2
  have rel := hR.rel
  simp only [e_th, e_rz, e_tbl, upd] at ho hph hrk h1 h2 ⊢
  by_cases hot : o = t
  · subst hot
    simp only [if_true] at hph hrk h1 h2 ⊢
    rcases g o ho (by grind) (by grind) j (by grind) (by grind) with h | h | ⟨u, hu1, hu2, hu3⟩
    · exact .inl (h_live _ h)
    · exact .inr (.inl (by grind))
    · refine .inr (.inr ⟨u, ?_⟩)
      have : u ≠ o := by have := (hR.t u).2.2.2.2.1; grind
      simp only [this, if_false]; exact ⟨hu1, hu2, hu3⟩
  · simp only [hot, if_false] at hph hrk h1 h2 ⊢
    rcases g o ho hph hrk j h1 h2 with h | h | ⟨u, hu1, hu2, hu3⟩
    · exact .inl (h_live _ h)
    · exact .inr (.inl h)
    · refine .inr (.inr ⟨u, ?_⟩)
      by_cases hut : u = t
      · subst hut
        have r := rel u o hu1
        simp only [if_true]; grind
      · simp only [hut, if_false]; exact ⟨hu1, hu2, hu3⟩

/-- facts about the locals `y` of a thread `u` survive a step of another thread that keeps published nodes
published, private nodes (other than `n`) private, flagged words frozen, the usable part of the bucket table
and the retirement window -/
theorem TF_evo2 {c : Cfg} {s s' : State} {y : Thr} {u n : Nat}
    (h_hsh : ∀ p, s.life p ≠ .fresh → s'.hsh p = s.hsh p)
    (h_isB : ∀ p, s.life p ≠ .fresh → s'.isB p = s.isB p)
    (h_tbl : ∀ i, i < rlim s → s'.tbl i = s.tbl i)
    (htm : ∀ j, s.tbl j ≠ 0 → s.life (s.tbl j) ≠ .fresh)
    (hsl : s.size ≤ rlim s)
    (e_cs : s'.cs u = s.cs u) (h_own : s'.rzOwner = u + 1 ↔ s.rzOwner = u + 1)
    (hc : s.clock ≤ s'.clock)
    (h_valid : ∀ p, valid s p → valid s' p)
    (h_priv : ∀ p, p ≠ n → s.life p = .priv → s'.life p = .priv)
    (h_rem : ∀ p, (s.nxt p).rem = true → (s'.nxt p).rem = true ∧ (s'.nxt p).ptr = (s.nxt p).ptr ∧ (s'.nxt p).bkt = (s.nxt p).bkt)
    (h_lim : (s.cs u).isSome → ∀ n, Lim s u n → Lim s' u n)
    (h5 : (y.pc = .zGp ∨ y.pc = .zSync ∨ y.pc = .zFree) → y.rk = .shrink → ∀ i, i < 2 ^ y.rord → live s (s.tbl i) →
      live s' (s'.tbl i))
    (hn1 : Pend y → y.node ≠ n)
    (hn2 : ((y.pc = .zPart ∧ s.rzOwner = u + 1) ∨ y.pc = .hStart ∨ Worker y) → y.rk = .grow → ∀ j, y.j ≤ j → j < y.jend →
      s'.tbl j = s.tbl j ∧ s.tbl j ≠ n)
    (g : TF c s y u) : TF c s' y u := by
  have hb : (s.cs u).isSome → ∀ B, HB s u B → HB s' u B := by
    intro hcs B ⟨b1, b2, b3, b4⟩
    have f : s.life B ≠ .fresh := by have := htm (s.hsh B); grind
    have hl : s.hsh B < rlim s := by simp only [Lim] at b4; omega
    refine ⟨b1, by rw [h_isB B f]; exact b2, ?_, ?_⟩
    · rw [h_hsh B f, h_tbl _ hl]; exact b3
    · rw [h_hsh B f]; exact h_lim hcs _ b4
  have hvf : ∀ p, valid s p → s.life p ≠ .fresh := fun p h => h.1
  simp only [TF, e_cs] at g ⊢
  simp only [vz] at g ⊢
  obtain ⟨g1, g2, g3, g4, g5, g6, g7, g8, g9, g10, g11, g12, g13, g14, g15, g16, g17, g18, g19, g20, g21, g22, g23, g24⟩ := g
  have csi : ∀ {P : Prop}, P → (P → y.pc ≠ .idle ∧ ¬ ZPc y.pc ∧ ¬ HPc y.pc) → (s.cs u).isSome := fun hp h => g3 (h hp)
  refine ⟨g1, g2, g3, ?_, ?_, ?_, ?_, ?_, ?_, ?_, g11, ?_, ?_, ?_, ?_, ?_, ?_, g18, g19, ?_, ?_, ?_, ?_, ?_⟩
  · intro hz; have := g4 hz; omega
  · intro a b i hi; exact h5 a b i hi (g5 a b i hi)
  · intro hp; have := g6 hp; have := hn1 hp; have := h_isB y.node; grind
  · intro a b j h1 h2
    have a' : (y.pc = .zPart ∧ s.rzOwner = u + 1) ∨ y.pc = .hStart ∨ Worker y := by grind
    have := hn2 a' b j h1 h2; rw [this.1]; exact h_priv _ this.2 (g7 a' b j h1 h2)
  · intro hp; exact hb (g3 (by simp only [InAdd, ZPc, HPc] at *; grind)) _ (g8 hp)
  · intro hp; have := g9 hp; exact ⟨this.1, h_lim (g3 (by simp only [InAdd, ZPc, HPc] at *; grind)) _ this.2⟩
  · intro hp; have := g10 hp; have := h_isB y.prev; grind
  · intro hp; have := g12 hp; have := h_rem y.iter.ptr; grind
  · intro hp; exact h_valid _ (g13 hp)
  · intro hp; have := g14 hp; have := h_isB y.cur; have := g13 (.inr hp); grind
  · intro hp; exact hb (g3 (by simp only [ZPc, HPc] at *; grind)) _ (g15 hp)
  · have := h_isB y.itn; grind
  · intro hp; have := g17 hp; have := h_isB y.old; grind
  · intro hp; exact hb (g3 (by simp only [GcPc, ZPc, HPc] at *; grind)) _ (g20 hp)
  · intro hp; have := g21 hp; have := h_isB y.node; grind
  · intro hp; have := g22 hp; have := h_isB y.node; grind
  · intro hp; have := g23 hp; have := h_rem y.node; grind
  · intro hp; have := g24 hp; have := g23 (by grind); have := h_rem y.node; grind

/-- `TF_evo2` for a step that only mutates `next` words / life cycles -/
theorem TF_evo {c : Cfg} {s s' : State} {y : Thr} {u n : Nat} (hR : InvR c s) (hsl : s.size ≤ rlim s)
    (e_hsh : s'.hsh = s.hsh) (e_isB : s'.isB = s.isB) (e_size : s'.size = s.size) (e_tbl : s'.tbl = s.tbl)
    (e_cs : s'.cs u = s.cs u) (e_rz : s'.rzOwner = s.rzOwner) (hrl : rlim s' = rlim s) (hrg : rgp s' = rgp s)
    (hc : s.clock ≤ s'.clock)
    (h_valid : ∀ p, valid s p → valid s' p)
    (h_priv : ∀ p, p ≠ n → s.life p = .priv → s'.life p = .priv)
    (h_live : (y.pc = .zGp ∨ y.pc = .zSync ∨ y.pc = .zFree) → ∀ i, live s (s.tbl i) → live s' (s.tbl i))
    (h_rem : ∀ p, (s.nxt p).rem = true → (s'.nxt p).rem = true ∧ (s'.nxt p).ptr = (s.nxt p).ptr ∧ (s'.nxt p).bkt = (s.nxt p).bkt)
    (hn1 : Pend y → y.node ≠ n)
    (hn2 : ((y.pc = .zPart ∧ s.rzOwner = u + 1) ∨ y.pc = .hStart ∨ Worker y) → y.rk = .grow → ∀ j, y.j ≤ j → j < y.jend → s.tbl j ≠ n)
    (g : TF c s y u) : TF c s' y u := by
  have rg := hR.g
  simp only [GR] at rg
  refine TF_evo2 (n := n) (fun p _ => by rw [e_hsh]) (fun p _ => by rw [e_isB]) (fun i _ => by rw [e_tbl])
    (fun j hj => (rg.2.2.1 j hj).2.2.1) hsl e_cs (by rw [e_rz]) hc h_valid h_priv h_rem ?_ ?_ hn1 ?_ g
  · intro _ n hl; simpa only [Lim, e_size, hrl, hrg, e_cs] using hl
  · intro a _ i _ hl; rw [e_tbl]; exact h_live a i hl
  · intro a b j h1 h2; exact ⟨by rw [e_tbl], hn2 a b j h1 h2⟩

/-- what a thread inside the partition phase of a level knows about the level (from layer R) -/
theorem worker_facts {c s} (hR : InvR c s) (t : Nat)
    (hw : Worker (s.th t) ∨ (s.th t).pc = .hStart ∨ ((s.th t).pc = .zPart ∧ s.rzOwner = t + 1)) :
    1 ≤ (s.th t).rord ∧ (s.th t).rord ≤ 63 ∧ s.size = 2 ^ ((s.th t).rord - 1) ∧ 2 ^ ((s.th t).rord - 1) ≤ (s.th t).j ∧
    (s.th t).j ≤ (s.th t).jend ∧ (s.th t).jend ≤ 2 ^ (s.th t).rord ∧ (∀ j, j < 2 ^ (s.th t).rord → s.tbl j ≠ 0) ∧
    s.rzOwner ≠ 0 := by
  obtain ⟨z_owner, h_par, w_role, o_pc, p_pc, u_mode, l_wk, t_n, o_idle, o_phase, o_shr, o_fin, o_free, w_item, w_add, w_shr,
    w_gc, w_rk, w_done⟩ := hR.t t
  by_cases hp : (s.th t).parent = 0
  · have ho : s.rzOwner = t + 1 := by simp only [HPc] at *; grind
    have := o_phase ho (by simp only [InPhase, HPc] at *; grind)
    refine ⟨by grind, by grind, by grind, by grind, by grind, by grind, by grind, by grind⟩
  · obtain ⟨o, ho⟩ : ∃ o, (s.th t).parent = o + 1 := ⟨(s.th t).parent - 1, by omega⟩
    have r := hR.rel t o ho
    obtain ⟨z_owner', h_par', w_role', o_pc', p_pc', u_mode', l_wk', t_n', o_idle', o_phase', o_shr', o_fin', o_free', w_item',
      w_add', w_shr', w_gc', w_rk', w_done'⟩ := hR.t o
    have hrz : s.rzOwner = o + 1 := by grind
    have := o_phase' hrz r.1
    have := p_pc hp
    refine ⟨by grind, by grind, by grind, by grind, by grind, by grind, by grind, by grind⟩

/-- partition ranges of different threads of the level are disjoint -/
theorem worker_disj {c s} (hR : InvR c s) (t u : Nat) (hne : u ≠ t)
    (hw : Worker (s.th t) ∨ (s.th t).pc = .hStart ∨ ((s.th t).pc = .zPart ∧ s.rzOwner = t + 1))
    (hu : Worker (s.th u) ∨ (s.th u).pc = .hStart ∨ ((s.th u).pc = .zPart ∧ s.rzOwner = u + 1)) :
    (s.th u).rk = (s.th t).rk ∧ (s.th u).rord = (s.th t).rord ∧
      ((s.th t).jend ≤ (s.th u).j ∨ (s.th u).jend ≤ (s.th t).j) := by
  obtain ⟨z_owner, h_par, w_role, o_pc, p_pc, u_mode, l_wk, t_n, o_idle, o_phase, o_shr, o_fin, o_free, w_item, w_add, w_shr,
    w_gc, w_rk, w_done⟩ := hR.t t
  obtain ⟨z_owner', h_par', w_role', o_pc', p_pc', u_mode', l_wk', t_n', o_idle', o_phase', o_shr', o_fin', o_free', w_item',
    w_add', w_shr', w_gc', w_rk', w_done'⟩ := hR.t u
  have d := hR.disj t u (Ne.symm hne)
  by_cases hp : (s.th t).parent = 0
  · have ho : s.rzOwner = t + 1 := by simp only [HPc] at *; grind
    have hpu : (s.th u).parent ≠ 0 := by simp only [HPc] at *; grind
    obtain ⟨o, ho'⟩ : ∃ o, (s.th u).parent = o + 1 := ⟨(s.th u).parent - 1, by omega⟩
    have r := hR.rel u o ho'
    have := p_pc' hpu
    have : o = t := by grind
    subst this
    have := o_phase ho r.1
    grind
  · obtain ⟨o, ho⟩ : ∃ o, (s.th t).parent = o + 1 := ⟨(s.th t).parent - 1, by omega⟩
    have r := hR.rel t o ho
    have := p_pc hp
    by_cases hpu : (s.th u).parent = 0
    · have hou : s.rzOwner = u + 1 := by simp only [HPc] at *; grind
      have : o = u := by grind
      subst this
      have := o_phase' hou r.1
      grind
    · obtain ⟨o2, ho2⟩ : ∃ o, (s.th u).parent = o + 1 := ⟨(s.th u).parent - 1, by omega⟩
      have r2 := hR.rel u o2 ho2
      have := p_pc' hpu
      have : o2 = o := by grind
      subst this
      grind

/-- assembly of layer F after a step of `t` that only mutates `next` words / life cycles -/
theorem InvF_mut {c : Cfg} {s s' : State} {t n : Nat} {x' : Thr} (hR : InvR c s) (hF : InvF c s)
    (e_th : s'.th = upd s.th t x')
    (e_hsh : s'.hsh = s.hsh) (e_isB : s'.isB = s.isB) (e_size : s'.size = s.size) (e_tbl : s'.tbl = s.tbl)
    (e_cs : s'.cs = s.cs) (e_rz : s'.rzOwner = s.rzOwner) (hrl : rlim s' = rlim s) (hrg : rgp s' = rgp s)
    (hc : s.clock ≤ s'.clock)
    (h_valid : ∀ p, valid s p → valid s' p)
    (h_priv : ∀ p, p ≠ n → s.life p = .priv → s'.life p = .priv)
    (h_live : ∀ u, u ≠ t → ((s.th u).pc = .zGp ∨ (s.th u).pc = .zSync ∨ (s.th u).pc = .zFree) →
      ∀ i, live s (s.tbl i) → live s' (s.tbl i))
    (h_rem : ∀ p, (s.nxt p).rem = true → (s'.nxt p).rem = true ∧ (s'.nxt p).ptr = (s.nxt p).ptr ∧ (s'.nxt p).bkt = (s.nxt p).bkt)
    (hn1 : ∀ u, u ≠ t → Pend (s.th u) → (s.th u).node ≠ n)
    (hn2 : ∀ u, u ≠ t → (((s.th u).pc = .zPart ∧ s.rzOwner = u + 1) ∨ (s.th u).pc = .hStart ∨ Worker (s.th u)) →
      (s.th u).rk = .grow → ∀ j, (s.th u).j ≤ j → j < (s.th u).jend → s.tbl j ≠ n)
    (hG : GF s') (hT : TF c s' x' t) (hP : XPend s') (hGr : XGrow s') : InvF c s' := by
  refine ⟨hG, ?_, hP, hGr⟩
  intro u
  by_cases hu : u = t
  · subst hu; have e1 : s'.th u = x' := by rw [e_th]; simp [upd]
    rw [e1]; exact hT
  · have e1 : s'.th u = s.th u := by rw [e_th]; simp [upd, hu]
    rw [e1]
    exact TF_evo (n := n) hR (rlim_live hR hF).1 e_hsh e_isB e_size e_tbl (by rw [e_cs]) e_rz hrl hrg hc h_valid h_priv
      (h_live u hu) h_rem (hn1 u hu) (hn2 u hu) (hF.t u)

/-- no node is published by the step: the side conditions about the published node are void -/
theorem no_pub {c : Cfg} {s : State} (hR : InvR c s) (hF : InvF c s) :
    (∀ u, Pend (s.th u) → (s.th u).node ≠ 0) ∧
    (∀ u, (((s.th u).pc = .zPart ∧ s.rzOwner = u + 1) ∨ (s.th u).pc = .hStart ∨ Worker (s.th u)) →
      (s.th u).rk = .grow → ∀ j, (s.th u).j ≤ j → j < (s.th u).jend → s.tbl j ≠ 0) := by
  constructor
  · intro u hp; exact ((hF.t u).2.2.2.2.2.1 hp).2.1
  · intro u hw _ j h1 h2
    have := worker_facts hR u (by grind)
    exact this.2.2.2.2.2.2.1 j (by omega)

/-- a worker of a grow level has inserted bucket `j` and moves on to `j + 1` -/
theorem XGrow_adv {c : Cfg} {s s' : State} {t : Nat} {x' : Thr} (hR : InvR c s) (e_th : s'.th = upd s.th t x')
    (e_rz : s'.rzOwner = s.rzOwner) (h_live : ∀ i, live s (s.tbl i) → live s' (s.tbl i)) (e_tbl : s'.tbl = s.tbl)
    (hw : Worker (s.th t))
    (hx : x'.parent = (s.th t).parent ∧ x'.rk = (s.th t).rk ∧ x'.rord = (s.th t).rord ∧ InPhase x' ∧
      x'.j = (s.th t).j + 1 ∧ x'.jend = (s.th t).jend)
    (hl : live s' (s.tbl (s.th t).j))
    (g : XGrow s) : XGrow s' := by
  intro o ho hph hrk j h1 h2
  have rel := hR.rel
  simp only [e_th, e_rz, e_tbl, upd] at ho hph hrk h1 h2 ⊢
  by_cases hot : o = t
  · subst hot
    simp only [if_true] at hph hrk h1 h2 ⊢
    rcases g o ho (.inr hw) (by grind) j (by grind) (by grind) with h | h | ⟨u, hu1, hu2, hu3⟩
    · exact .inl (h_live _ h)
    · by_cases hj : j = (s.th o).j
      · subst hj; exact .inl hl
      · exact .inr (.inl (by grind))
    · refine .inr (.inr ⟨u, ?_⟩)
      have : u ≠ o := by have := (hR.t u).2.2.2.2.1; grind
      simp only [this, if_false]; exact ⟨hu1, hu2, hu3⟩
  · simp only [hot, if_false] at hph hrk h1 h2 ⊢
    rcases g o ho hph hrk j h1 h2 with h | h | ⟨u, hu1, hu2, hu3⟩
    · exact .inl (h_live _ h)
    · exact .inr (.inl h)
    · by_cases hut : u = t
      · subst hut
        by_cases hj : j = (s.th u).j
        · subst hj; exact .inl hl
        · refine .inr (.inr ⟨u, ?_⟩)
          simp only [if_true]; grind
      · refine .inr (.inr ⟨u, ?_⟩)
        simp only [hut, if_false]; exact ⟨hu1, hu2, hu3⟩

set_option hygiene false in
/-- common opening of a heap-mutating step of thread `t` -/
macro "f_mut_open" hR:ident hF:ident : tactic => `(tactic|
  (have rl := rlim_live $hR $hF
   have hclk : s.clock ≤ s'.clock := by rw [e_clock]; omega
   have rtt := ($hR).t t; have ftt := ($hF).t t; have rg := ($hR).g
   simp only [TR, GR] at rtt rg
   have ⟨hrl, hrg⟩ : rlim s' = rlim s ∧ rgp s' = rgp s :=
     rl_frame e_th' e_rz e_size (by grind) (by grind)
   have hR0 := $hR
   obtain ⟨fg, ft, fpend, fgrow⟩ := $hF
   simp only [GF] at fg
   obtain ⟨fgn, fgz, fgl, fgc⟩ := fg
   simp only [TF] at ftt))


/-- other threads' facts survive a control step (no heap change) of thread `t` -/
theorem TF_ctl {c : Cfg} {s s' : State} {u : Nat} {y : Thr} (hR : InvR c s) (hF : InvF c s) (hs : SameHeap s s')
    (e_cs : s'.cs u = s.cs u) (h_own : s'.rzOwner = u + 1 ↔ s.rzOwner = u + 1) (hclk : s.clock ≤ s'.clock)
    (h_lim : (s.cs u).isSome → ∀ n, Lim s u n → Lim s' u n) (g : TF c s y u) : TF c s' y u := by
  have np := no_pub hR hF
  have rg := hR.g
  simp only [GR] at rg
  obtain ⟨e1, e2, e3, e4, e5, e6, e7⟩ := hs
  have hv : ∀ p, valid s p → valid s' p := by intro p; simp only [valid, e4]; exact id
  refine TF_evo2 (n := 0) (fun p _ => by rw [e2]) (fun p _ => by rw [e3]) (fun i _ => by rw [e6])
    (fun j hj => (rg.2.2.1 j hj).2.2.1) (rlim_live hR hF).1 e_cs h_own hclk hv
    (fun p _ h => by rw [e4]; exact h) (fun p h => by rw [e1]; exact ⟨h, rfl, rfl⟩) h_lim
    (fun _ _ i _ hl => by simpa only [live, e1, e4, e6] using hl) ?_ ?_ g
  · intro hp; exact ((g.2.2.2.2.2.1 hp).2.1)
  · intro a b j h1 h2
    refine ⟨by rw [e6], ?_⟩
    have e : s.life (s.tbl j) = .priv := g.2.2.2.2.2.2.1 a b j h1 h2
    have := (hF.g).2.1
    intro h0; rw [h0] at e; rw [e] at this; cases this

/-- assembly of layer F after a control step of `t` -/
theorem InvF_ctl {c : Cfg} {s s' : State} {t : Nat} {x' : Thr} (hR : InvR c s) (hF : InvF c s)
    (e_th : s'.th = upd s.th t x') (hs : SameHeap s s')
    (h_cs : ∀ u, u ≠ t → s'.cs u = s.cs u) (h_own : ∀ u, u ≠ t → (s'.rzOwner = u + 1 ↔ s.rzOwner = u + 1))
    (hclk : s.clock ≤ s'.clock)
    (h_lim : ∀ u, u ≠ t → (s.cs u).isSome → ∀ n, Lim s u n → Lim s' u n)
    (hG : GF s') (hT : TF c s' x' t) (hP : XPend s') (hGr : XGrow s') : InvF c s' := by
  refine ⟨hG, ?_, hP, hGr⟩
  intro u
  by_cases hu : u = t
  · subst hu; have e1 : s'.th u = x' := by rw [e_th]; simp [upd]
    rw [e1]; exact hT
  · have e1 : s'.th u = s.th u := by rw [e_th]; simp [upd, hu]
    rw [e1]
    exact TF_ctl hR hF hs (h_cs u hu) (h_own u hu) hclk (h_lim u hu) (hF.t u)

/-- `GF` after a control step: only the clause about `cs`/`clock` can change -/
theorem GF_ctl {s s' : State} (hs : SameHeap s s') (g : GF s) (hcs : ∀ u b, s'.cs u = some b → b < s'.clock) : GF s' := by
  obtain ⟨e1, e2, e3, e4, e5, e6, e7⟩ := hs
  simp only [GF, GFn, valid, vz, live, e1, e2, e3, e4, e5, e6, e7] at g ⊢
  exact ⟨g.1, g.2.1, g.2.2.1, hcs⟩

set_option hygiene false in
/-- `callAdd` / `callReplace`: the fresh node `n` becomes private -/
macro "f_alloc" hR:ident hF:ident : tactic => `(tactic|
  (have hF0 := $hF
   f_mut_open $hR $hF
   have gn := fgn n
   simp only [GFn] at gn
   have kn : s.life n = .fresh ∧ n ≠ 0 := by grind
   have h_valid : ∀ p, valid s p → valid s' p := by
     clear rtt ftt; intro p; simp only [valid, e_life, upd]; grind
   have h_fr : ∀ p, s.life p ≠ .fresh → p ≠ n := by clear rtt ftt; grind
   refine ⟨?_, ?_, ?_, ?_⟩
   · simp only [GF]
     refine ⟨?_, ?_, ?_, ?_⟩
     · intro p
       have gpp := fgn p; have hv1 := h_valid (s.nxt p).ptr
       clear rtt ftt
       simp only [GFn] at gpp ⊢
       simp only [vz] at *
       simp only [valid] at gpp gn ⊢
       st_simp; simp only [Nat.max_def]
       by_cases h1 : p = n <;> simp only [h1, if_true, if_false] <;> grind
     · st_simp; grind
     · intro i hi; rw [e_tbl]; rw [e_size] at hi
       have := fgl i hi; clear rtt ftt; simp only [live, e_life, e_nxt, upd] at *; grind
     · intro u b hb; rw [e_cs] at hb; have := fgc u b hb; omega
   · intro u
     by_cases hu : u = t
     · have hu' : t = u := hu.symm
       subst hu'
       have e1 : s'.th t = x' := by rw [e_th']; simp [upd]
       rw [e1]
       have hvi := h_valid (s.th t).itn; have hvx := h_valid (s.th t).itx.ptr
       have fgct := fgc t
       have hfi := h_fr (s.th t).itn
       clear ft fpend fgrow hR0 fgn hF0
       simp only [TF, vz, HB, Lim, valid] at ftt hvi hvx hfi ⊢
       st_simp; simp only [hrl, hrg]
       grind [live, Pend, InAdd, HasPos, AddPc, GcPc, ZPc, HPc, Worker, InPhase]
     · have e1 : s'.th u = s.th u := by rw [e_th']; simp [upd, hu]
       rw [e1]
       have np := no_pub hR0 hF0
       refine TF_evo2 (n := 0) (fun p hp => by rw [e_hsh]; simp [upd, h_fr p hp]) (fun p _ => by rw [e_isB])
         (fun i _ => by rw [e_tbl]) (fun j hj => (rg.2.2.1 j hj).2.2.1) rl.1 (by rw [e_cs]) (by rw [e_rz]) hclk h_valid ?_ ?_ ?_ ?_
         (np.1 u) (fun a b j h1 h2 => ⟨by rw [e_tbl], np.2 u a b j h1 h2⟩) (ft u)
       · intro p _ hp; rw [e_life]; simp only [upd]; clear rtt ftt; grind
       · intro p hp; rw [e_nxt]; exact ⟨hp, rfl, rfl⟩
       · intro _ m hl; simpa only [Lim, e_size, hrl, hrg, e_cs] using hl
       · intro _ _ i _ hl; rw [e_tbl]; clear rtt ftt; simp only [live, e_life, e_nxt, upd] at *; grind
   · intro a b hab
     have := fpend a b hab; have g1 := fpend t b; have g2 := fpend a t
     have fa := (ft a).2.2.2.2.2.1; have fb := (ft b).2.2.2.2.2.1
     clear rtt ftt ft fgrow hR0 fgn hF0
     simp only [e_th', upd]
     by_cases ha : a = t <;> by_cases hb : b = t <;> simp only [ha, hb, if_true, if_false] <;> grind [Pend]
   · refine XGrow_frame hR0 e_th' e_rz ?_ e_tbl ?_ fgrow
     · intro i hl; clear rtt ftt; simp only [live, e_life, e_nxt, upd] at *; grind
     · clear ftt ft fgrow hR0 fgn hF0
       grind [InPhase, Worker, AddPc, GcPc]))


open Lean in
set_option hygiene false in
/-- a step of thread `t` that changes no shared field except `clock` (layer F); the term list = nodes
at which the node facts `GFn` are needed -/
macro "f_local" hR:ident hF:ident "[" ts:term,* "]" : tactic => do
  let mut inst ← `(tactic| skip)
  for t in ts.getElems do
    inst ← `(tactic| ($inst; have := fg.1 $t))
  `(tactic|
  (have rl := rlim_live $hR $hF
   have hsame : SameHeap s s' := ⟨e_nxt, e_hsh, e_isB, e_life, e_size, e_tbl, e_hi⟩
   have hclk : s.clock ≤ s'.clock := by rw [e_clock]; omega
   have rtt := ($hR).t t; have ftt := ($hF).t t; have rg := ($hR).g
   have szp := Nat.two_pow_pos (Nat.log2 s.size)
   simp only [TR, GR] at rtt rg
   have ⟨hrl, hrg⟩ : rlim s' = rlim s ∧ rgp s' = rgp s :=
     rl_frame e_th' e_rz e_size (by grind) (by grind)
   have hR0 := $hR
   obtain ⟨fg, ft, fpend, fgrow⟩ := $hF
   refine ⟨GF_frame hsame e_cs hclk fg, ?_, ?_, ?_⟩
   · intro u
     by_cases hu : u = t
     · have hu' : t = u := hu.symm
       subst hu'
       have e1 : s'.th t = x' := by rw [e_th']; simp [upd]
       rw [e1]
       refine TF_frame hsame (by rw [e_cs]) e_rz hrl hrg hclk ?_
       simp only [GF] at fg
       $inst
       have fgz := fg.2.1; have fgl := fg.2.2.1; have fgc := fg.2.2.2 t
       clear fg ft fpend fgrow hR0 hsame
       simp only [TF, GFn] at *
       grind [valid, vz, live, Pend, InAdd, HasPos, HB, Lim, AddPc, GcPc, ZPc, HPc, Worker, InPhase, found, okp]
     · have e1 : s'.th u = s.th u := by rw [e_th']; simp [upd, hu]
       rw [e1]; exact TF_frame hsame (by rw [e_cs]) e_rz hrl hrg hclk (ft u)
   · refine XPend_frame e_th' ?_ fpend
     grind [Pend]
   · refine XGrow_frame hR0 e_th' e_rz (fun i h => by simpa only [live, e_nxt, e_life] using h) e_tbl ?_ fgrow
     grind [InPhase, Worker, AddPc, GcPc]))

/-- with no helper outstanding, every other thread is outside the resize code -/
theorem no_workers {c s} (hR : InvR c s) {t : Nat} (ho : s.rzOwner = t + 1)
    (h : ¬ InPhase (s.th t) ∨ (s.th t).nh = 0) :
    ∀ u, u ≠ t → (s.th u).parent = 0 ∧ ¬ ZPc (s.th u).pc ∧ ¬ HPc (s.th u).pc ∧ ¬ Worker (s.th u) := by
  obtain ⟨hl, l1, l2, l3, l4, l5⟩ := hR.helpers
  have hnil : hl = [] := by
    by_cases hp : InPhase (s.th t)
    · have := l3 t ho hp
      have h0 : (s.th t).nh = 0 := by rcases h with h | h; exact absurd hp h; exact h
      rw [h0] at this; exact List.length_eq_zero_iff.mp this.symm
    · exact l4 t ho hp
  intro u hu
  have hp : (s.th u).parent = 0 := by
    by_cases hq : (s.th u).parent = 0
    · exact hq
    · have := (l2 u).mpr hq; rw [hnil] at this; simp at this
  obtain ⟨z_owner, h_par, w_role, o_pc, p_pc, u_mode, l_wk, t_n, o_idle, o_phase, o_shr, o_fin, o_free, w_item, w_add, w_shr,
    w_gc, w_rk, w_done⟩ := hR.t u
  refine ⟨hp, ?_, ?_, ?_⟩
  · intro hz; have := z_owner hz; omega
  · intro hz; exact h_par hz hp
  · intro hw; rcases w_role hw with h | h; exact h hp; omega

/-- facts of a thread outside the resize code survive a resize-control step that leaves published and
private nodes, the usable part of the bucket table and the retirement window alone -/
theorem TF_user {c : Cfg} {s s' : State} {u : Nat} {y : Thr} (hR : InvR c s) (hF : InvF c s)
    (nz : ¬ ZPc y.pc ∧ ¬ HPc y.pc ∧ ¬ Worker y)
    (e_nxt : s'.nxt = s.nxt) (h_life : ∀ p, s.life p ≠ .fresh → s'.life p = s.life p)
    (h_hsh : ∀ p, s.life p ≠ .fresh → s'.hsh p = s.hsh p) (h_isB : ∀ p, s.life p ≠ .fresh → s'.isB p = s.isB p)
    (h_tbl : ∀ i, i < rlim s → s'.tbl i = s.tbl i)
    (e_cs : s'.cs u = s.cs u) (h_own : s'.rzOwner = u + 1 ↔ s.rzOwner = u + 1) (hclk : s.clock ≤ s'.clock)
    (h_lim : (s.cs u).isSome → ∀ n, Lim s u n → Lim s' u n) (g : TF c s y u) : TF c s' y u := by
  have rg := hR.g
  simp only [GR] at rg
  refine TF_evo2 (n := 0) h_hsh h_isB h_tbl (fun j hj => (rg.2.2.1 j hj).2.2.1) (rlim_live hR hF).1 e_cs h_own hclk
    ?_ ?_ (fun p h => by rw [e_nxt]; exact ⟨h, rfl, rfl⟩) h_lim ?_ ?_ ?_ g
  · intro p hp; simp only [valid] at hp ⊢; rw [h_life p hp.1]; exact hp
  · intro p _ hp; rw [h_life p (by rw [hp]; simp)]; exact hp
  · intro hz; exfalso; simp only [ZPc] at nz; grind
  · intro hp; exact ((g.2.2.2.2.2.1 hp).2.1)
  · intro a; exfalso; simp only [ZPc, HPc] at nz; grind

open Lean in
set_option hygiene false in
/-- a control step of thread `t` (no heap change; `cs`, `rzOwner` may change) that keeps the retirement window -/
macro "f_ctl" hR:ident hF:ident : tactic =>
  `(tactic|
  (have rl := rlim_live $hR $hF
   have hsame : SameHeap s s' := ⟨e_nxt, e_hsh, e_isB, e_life, e_size, e_tbl, e_hi⟩
   have hclk : s.clock ≤ s'.clock := by rw [e_clock]; omega
   have rtt := ($hR).t t; have ftt := ($hF).t t; have rg := ($hR).g
   simp only [TR, GR] at rtt rg
   have hrlg : rlim s' = rlim s ∧ rgp s' = rgp s := by
     first
       | exact rl_frame e_th' e_rz e_size (by grind) (by grind)
       | (simp only [rlim, rgp, Retiring, own, e_th', e_rz, e_size, upd, ZPc] at *; grind)
   obtain ⟨hrl, hrg⟩ := hrlg
   have hR0 := $hR; have hF0 := $hF
   obtain ⟨fg, ft, fpend, fgrow⟩ := $hF
   have h_cs : ∀ u, u ≠ t → s'.cs u = s.cs u := by
     intro u hu; first | (rw [e_cs]; done) | (rw [e_cs]; simp [upd, hu])
   refine InvF_ctl hR0 hF0 e_th' hsame h_cs ?_ hclk ?_ ?_ ?_ ?_ ?_
   · intro u hu; have := hR0.t u; simp only [TR, ZPc] at this; first | (rw [e_rz]; done) | (rw [e_rz]; grind)
   · intro u hu _ m hl; simpa only [Lim, e_size, hrl, hrg, h_cs u hu] using hl
   · refine GF_ctl hsame fg ?_
     intro u b hb; have := fg.2.2.2 u b; rw [e_cs] at hb; rw [e_clock]
     first
       | (have := this hb; omega)
       | (simp only [upd] at hb
          by_cases hut : u = t
          · simp only [hut, if_true] at hb; cases hb <;> omega
          · simp only [hut, if_false] at hb; have := this hb; omega)
   · simp only [GF] at fg
     have fgz := fg.2.1; have fgl := fg.2.2.1; have fgc := fg.2.2.2 t
     have wf := worker_facts hR0 t
     have pw := @two_pow_pred (s.th t).rord
     have tm1 := rg.2.2.1 (s.th t).j; have tm2 := rg.2.2.1 ((s.th t).j - 2 ^ ((s.th t).rord - 1))
     clear fg ft fpend fgrow hR0 hF0 hsame
     simp only [TF, GFn, vz, HB, Lim] at *
     st_simp; simp only [hrl, hrg]
     grind [valid, live, Pend, InAdd, HasPos, AddPc, GcPc, ZPc, HPc, Worker, InPhase]
   · refine XPend_frame e_th' ?_ fpend
     clear ftt ft fgrow hR0 hF0
     grind [Pend, HPc, Worker, AddPc, GcPc]
   · first
       | (refine XGrow_frame hR0 e_th' e_rz (fun i h => by simpa only [live, e_nxt, e_life] using h) e_tbl ?_ fgrow
          clear ftt ft fgrow hR0 hF0
          grind [InPhase, Worker, AddPc, GcPc, ZPc, HPc])
       | (intro o ho hph hrk
          exfalso
          have hto := hR0.t o
          rw [e_th'] at hph hrk; simp only [upd] at hph hrk
          clear ftt ft fgrow hR0 hF0
          simp only [TR, InPhase, Worker, AddPc, GcPc, ZPc, HPc] at *
          grind)))


set_option hygiene false in
/-- `gpStart` / `gpEnd`: control steps that move the retirement window; `$lim` proves `h_lim` -/
macro "f_gp" hR:ident hF:ident : tactic =>
  `(tactic|
  (have rl := rlim_live $hR $hF
   have hsame : SameHeap s s' := ⟨e_nxt, e_hsh, e_isB, e_life, e_size, e_tbl, e_hi⟩
   have hclk : s.clock ≤ s'.clock := by rw [e_clock]; omega
   have rtt := ($hR).t t; have ftt := ($hF).t t; have rg := ($hR).g
   simp only [TR, GR] at rtt rg
   have hzo : s.rzOwner = t + 1 := by simp only [ZPc] at rtt; grind
   have hrt : rlim s' ≤ rlim s ∧ (Retiring s' → Retiring s ∧ rlim s' = rlim s ∧ rgp s' = some s.clock) ∧
       (¬ Retiring s' → rlim s' = s.size ∧ rgp s' = none) ∧
       (Retiring s → (s.th t).pc = .zSync → rgp s = some (s.th t).gpAt) ∧
       (Retiring s → ¬ Retiring s' → gpElapsed c s (s.th t).gpAt ∧ (s.th t).pc = .zSync) := by
     have pw := @two_pow_pred (s.th t).rord
     simp only [rlim, rgp, Retiring, own, e_th', e_rz, e_size, upd, hzo, Nat.add_sub_cancel, if_true, ZPc] at *
     grind
   have hR0 := $hR; have hF0 := $hF
   obtain ⟨fg, ft, fpend, fgrow⟩ := $hF
   have h_cs : ∀ u, u ≠ t → s'.cs u = s.cs u := by intro u hu; rw [e_cs]
   refine InvF_ctl hR0 hF0 e_th' hsame h_cs ?_ hclk ?_ ?_ ?_ ?_ ?_
   · intro u hu; rw [e_rz]
   · intro u hu hcs m hl
     have fu := (ft u).2.1; have fgc := fg.2.2.2 u
     by_cases hr : Retiring s'
     · have := (hrt.2.1 hr)
       simp only [Lim, e_size, e_cs, this.2.1, this.2.2] at hl ⊢
       rcases hl with hl | hl
       · exact .inl hl
       · refine .inr ⟨hl.1, ?_⟩
         intro b g hb hg; have := fgc b hb; cases hg; omega
     · have h2 := (hrt.2.2.1 hr)
       simp only [Lim, e_size, e_cs, h2.1, h2.2] at hl ⊢
       rcases hl with hl | hl
       · exact .inl hl
       · by_cases hrs : Retiring s
         · exfalso
           have hge := hrt.2.2.2.2 hrs hr
           have hg := hrt.2.2.2.1 hrs hge.2
           obtain ⟨b, hb⟩ := Option.isSome_iff_exists.mp hcs
           have h1 := hl.2 b _ hb hg
           have hun : u < c.n := by
             rcases Nat.lt_or_ge u c.n with h | h
             · exact h
             · have := fu h; rw [this] at hb; cases hb
           have := hge.1 u hun b hb; omega
         · simp only [rlim, hrs, if_false] at hl; exact .inl hl.1
   · refine GF_ctl hsame fg ?_
     intro u b hb; have := fg.2.2.2 u b; rw [e_cs] at hb; rw [e_clock]; have := this hb; omega
   · simp only [GF] at fg
     have fgz := fg.2.1; have fgl := fg.2.2.1; have fgc := fg.2.2.2 t
     have pw := @two_pow_pred (s.th t).rord
     clear fg ft fpend fgrow hR0 hF0 hsame hrt
     simp only [TF, GFn, vz, HB, Lim] at *
     st_simp
     grind [valid, live, Pend, InAdd, HasPos, AddPc, GcPc, ZPc, HPc, Worker, InPhase]
   · refine XPend_frame e_th' ?_ fpend
     clear ftt ft fgrow hR0 hF0
     grind [Pend, HPc, Worker, AddPc, GcPc]
   · intro o ho hph hrk
     exfalso
     rw [e_th'] at hph hrk; simp only [upd] at hph hrk
     rw [e_rz] at ho
     have : o = t := by omega
     subst this
     clear ftt ft fgrow hR0 hF0
     simp only [if_true, TR, InPhase, Worker, AddPc, GcPc, ZPc, HPc] at *
     grind))


end UrcuVerif.Lfht.Conc
