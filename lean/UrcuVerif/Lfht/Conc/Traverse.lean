import UrcuVerif.Lfht.Conc.InvSAll
import UrcuVerif.Lfht.Conc.RchBack
/-!
# Concurrent rculfhash — `resident_found` for `first`/`next` traversals (proof-only file)

Position invariant `NotYet`: the visible node `q` is reachable from the node the traversal stands on (or from the
`next` kept in the iterator between two calls); every hop keeps it, a hop onto `q` returns `q`.
-/
namespace UrcuVerif.Lfht.Conc
open UrcuVerif
set_option linter.unusedSimpArgs false
set_option linter.unusedVariables false

/-- thread `x` is inside a `first`/`next` traversal (or between two of its calls) and has not passed `q` yet -/
def NotYet (s : State) (x : Thr) (q : Nat) : Prop :=
  (x.pc ≠ .lSize ∧ x.pc ≠ .lHead) ∧
  ((x.pc = .wNext ∨ x.pc = .wAssert) → x.wk ≠ .dupAdd → x.wk = .next) ∧
  (x.pc = .fHead ∨
    (if x.pc = .wNext ∧ x.wk ≠ .dupAdd then Rch (nxp s) x.cur q
     else if x.pc = .wAssert ∧ x.wk ≠ .dupAdd then (x.cur = q ∨ Rch (nxp s) x.wnx.ptr q)
     else Rch (nxp s) x.itx.ptr q))

/-- calls that end or restart a `first`/`next` traversal -/
def Leaves : Label → Prop
  | .runlock | .callFirst | .callLookup _ _ | .callDup _ => True
  | _ => False

/-- `NotYet` for a thread whose locals the step did not touch, while `q` stays visible -/
theorem notyet_other {c s s' t l o u q} (hc : c.ownerByOr = false) (r : Reach c s) (st : step c s t l = some (s', o))
    (hv : vis s q) (h : NotYet s (s.th u) q) : NotYet s' (s.th u) q := by
  have ⟨_, hF, _⟩ := invRFL_reach hc r
  have fu := hF.t u; simp only [TF] at fu
  have gf := graph_facts hc r
  have q0 : q ≠ 0 := by
    intro e; have := ((invRFL_reach hc r).2.2.g.2.1 q).mp hv.1; rw [e, hF.g.2.1] at this; cases this
  have fwd : ∀ a, (a ≠ 0 → valid s a) → Rch (nxp s) a q → Rch (nxp s') a q := by
    intro a va hr
    have a0 : a ≠ 0 := by intro e; rw [e] at hr; exact q0 (rch_fix gf.1 hr)
    exact rch_step hc r st hr (va a0).2 hv.2.2
  obtain ⟨h1, h2, h3⟩ := h
  refine ⟨h1, h2, ?_⟩
  rcases h3 with h3 | h3
  · exact .inl h3
  · right
    split at h3
    · next hh => rw [if_pos hh]; exact fwd _ (fun _ => fu.2.2.2.2.2.2.2.2.2.2.2.2.1 (.inl hh.1)) h3
    · next hh =>
      rw [if_neg hh]
      split at h3
      · next hh2 =>
        rw [if_pos hh2]
        rcases h3 with h3 | h3
        · exact .inl h3
        · exact .inr (fwd _ (fu.2.2.2.2.2.2.2.2.2.2.2.2.2.1 hh2.1).2.2.1 h3)
      · next hh2 => rw [if_neg hh2]; exact fwd _ fu.2.2.2.2.2.2.2.2.2.2.2.2.2.2.2.1.2.1 h3

set_option hygiene false in
macro "ny_close" : tactic => `(tactic|
  (have e1 : s'.th t = x' := by rw [e_th']; simp [upd]
   rw [e1]
   have enx : nxp s' = nxp s := by funext a; simp only [nxp, e_nxt]
   refine ⟨?_, ?_⟩
   · intro w ho; rw [← e_out] at ho
     first | (cases ho; done) | (simp at ho; grind)
   · first
       | (left
          simp only [NotYet, xpc, xwk, xcur, xwnx, xitx] at h1 ⊢
          (try simp only [enx, nxp] at h1 ⊢)
          grind)
       | (right; exact ⟨_, by rw [← e_out]; grind⟩)))

set_option hygiene false in
/-- a step of the traversing thread that changes the heap (it is inside an update operation) -/
macro "ny_heap" : tactic => `(tactic|
  (have e1 : s'.th t = x' := by rw [e_th']; simp [upd]
   rw [e1]
   refine ⟨?_, ?_⟩
   · intro w ho; rw [← e_out] at ho
     first | (cases ho; done) | (simp at ho; grind)
   · left
     simp only [NotYet, xpc, xwk, xcur, xwnx, xitx] at h1 ⊢
     grind))

set_option maxHeartbeats 4000000 in
/-- the traversing thread's own steps: it does not answer "end", and it keeps `q` ahead or hands out `q` -/
theorem notyet_self {c s s' t l o q} (hc : c.ownerByOr = false) (r : Reach c s) (st : step c s t l = some (s', o))
    (hv : vis s q) (h : NotYet s (s.th t) q) (hnl : ¬ Leaves l) :
    (∀ w, o ≠ .iter 0 w) ∧ (NotYet s' (s'.th t) q ∨ ∃ w, o = .iter q w) := by
  have h1 := notyet_other hc r st hv h
  have ⟨hR, hF, hL⟩ := invRFL_reach hc r
  have ncr := no_crash hc r (invS_reach hc r) st
  have gf := graph_facts hc r
  have q0 : q ≠ 0 := by intro e; have := (hL.g.2.1 q).mp hv.1; rw [e, hF.g.2.1] at this; cases this
  have c0 : ((s.th t).pc = .wNext ∨ (s.th t).pc = .wAssert) → (s.th t).cur ≠ 0 := by
    intro h e; have := (hF.t t).2.2.2.2.2.2.2.2.2.2.2.2.1 h; rw [e] at this; exact this.1 hF.g.2.1
  have lwk := (hR.t t).2.2.2.2.2.2.1
  have hnz : ∀ a, Rch (nxp s) a q → a ≠ 0 := by intro a hr e; rw [e] at hr; exact q0 (rch_fix gf.1 hr)
  have hA : Rch (nxp s) (s.nxt (s.tbl 0)).ptr q := by
    have rg := hR.g; simp only [GR] at rg
    have sz0 : 0 < s.size := by have := rg.1.1; have := Nat.two_pow_pos (Nat.log2 s.size); omega
    have t0 := rg.2.1 0 sz0
    have m := rg.2.2.1 0 t0
    have hl := (hF.g.2.2.1 0 sz0).1
    have hne : s.tbl 0 ≠ q := by intro e; rw [e, hv.2.1] at m; cases m.1
    have hrev : s.rev (s.tbl 0) = 0 := by rw [(rg.2.2.2.1 _).1, m.2.1]; exact bitrev64_zero
    have hnok : ¬ ok s q (s.tbl 0) := by
      simp only [ok, hrev, m.1, hv.2.1]; simp
    exact rch_next (rch_of_before hc r ((hL.g.2.1 _).mpr hl) hv.1 hne hnok) hne
  have hB : Rch (nxp s) (s.th t).cur q → (s.th t).cur ≠ q → Rch (nxp s) (s.nxt (s.th t).cur).ptr q := by
    intro hr hne; exact rch_next hr hne
  have hfq : (s.th t).wk = .next → (s.th t).cur = q → found s (s.th t) (s.nxt (s.th t).cur) = true := by
    intro hw e
    have gb := (hF.g.1 q).2.2.2.2.1 (by simp only [valid, (hL.g.2.1 q).mp hv.1]; simp)
    rw [e]; simp only [found, hw, hv.2.2, gb, hv.2.1]; simp
  have hA0 := hnz _ hA
  have hB0 := hnz (s.nxt (s.th t).cur).ptr
  have hC0 := hnz (s.th t).itx.ptr
  have hD0 := hnz (s.th t).wnx.ptr
  clear hnz
  have h' := h; simp only [NotYet, nxp] at h'
  have lf : (s.th t).pc = .fHead → (s.th t).wk = .next := by
    intro hp
    have lt := hL.t t; simp only [TL] at lt
    exact (lt.2.2.2.2.2.2.2.2.2.1 (lt.2.2.2.2.2.2.2.2.2.2.1 hp)).2
  have st0 := st
  cases l with
  | runlock => exact absurd trivial hnl
  | callFirst => exact absurd trivial hnl
  | callLookup h k' => exact absurd trivial hnl
  | callDup k' => exact absurd trivial hnl
  | reclaim p' =>
    have : s'.th = s.th := reclaim_th st
    rw [this]; refine ⟨?_, .inl h1⟩
    intro w ho
    simp only [step, stepRz] at st
    split at st
    · cases st
    · split at st
      · split at st
        · cases st; cases ho
        · cases st
      · cases st
  | spawn v len => st_open st; st_open2; all_goals ny_close
  | join v => st_open st; st_open2; all_goals ny_close
  | _ =>
    st_open st
    all_goals
      first
        | (exfalso; exact ncr e_out.symm; done)
        | (ny_close; done)
        | (ny_heap; done)
        | (have e1 : s'.th t = x' := by rw [e_th']; simp [upd]
           rw [e1]
           have enx : nxp s' = nxp s := by funext a; simp only [nxp, e_nxt]
           refine ⟨?_, ?_⟩
           · intro w ho; rw [← e_out] at ho; simp at ho; grind
           · by_cases hq : (s.th t).cur = q
             · right; rw [← e_out, hq]; exact ⟨_, rfl⟩
             · left
               simp only [NotYet, xpc, xwk, xcur, xwnx, xitx] at h1 ⊢
               (try simp only [enx, nxp] at h1 ⊢)
               grind)

/-- `NotYet` of thread `w` across a step of another thread -/
theorem notyet_step_other {c s s' t l o w q} (hc : c.ownerByOr = false) (r : Reach c s)
    (st : step c s t l = some (s', o)) (hv : vis s q) (hut : t ≠ w) (h : NotYet s (s.th w) q) : NotYet s' (s'.th w) q := by
  have h1 := notyet_other hc r st hv h
  rcases other_thread_pc st hut with e | ⟨h0, e⟩ | ⟨h0, e⟩
  · rw [e]; exact h1
  · simp only [NotYet, h0, e, other_thread_itx st hut] at h1 ⊢
    simpa using h1
  · simp only [NotYet, h0, e, other_thread_itx st hut] at h1 ⊢
    simpa using h1

/-- along an execution in which `q` stays visible and `t` continues its traversal, `t` is handed `q` or never
answers "end" -/
theorem traverse_exec {c s evs s1 t q} (hc : c.ownerByOr = false) (ex : Exec c s evs s1) (r : Reach c s)
    (h : NotYet s (s.th t) q) (hv : ∀ e, e ∈ evs → vis e.1 q) (hnl : ∀ e, e ∈ evs → e.2.1 = t → ¬ Leaves e.2.2.1) :
    (∃ e w, e ∈ evs ∧ e.2.1 = t ∧ e.2.2.2 = .iter q w) ∨ ∀ e, e ∈ evs → e.2.1 = t → ∀ w, e.2.2.2 ≠ .iter 0 w := by
  induction ex with
  | nil s => right; intro e he; simp at he
  | @cons s u l s1 o evs s2 st _ ih =>
    have hvs : vis s q := hv (s, u, l, o) List.mem_cons_self
    have hv' : ∀ e, e ∈ evs → vis e.1 q := fun e he => hv e (List.mem_cons_of_mem _ he)
    have hnl' : ∀ e, e ∈ evs → e.2.1 = t → ¬ Leaves e.2.2.1 := fun e he => hnl e (List.mem_cons_of_mem _ he)
    by_cases hu : u = t
    · subst hu
      obtain ⟨a1, a2⟩ := notyet_self hc r st hvs h (hnl _ List.mem_cons_self rfl)
      rcases a2 with a2 | ⟨w, a2⟩
      · rcases ih (.step r st) a2 hv' hnl' with ⟨e, w, he, h1, h2⟩ | hh
        · exact .inl ⟨e, w, List.mem_cons_of_mem _ he, h1, h2⟩
        · right
          intro e he
          rcases List.mem_cons.mp he with rfl | he'
          · intro _ w; exact a1 w
          · exact hh e he'
      · exact .inl ⟨_, w, List.mem_cons_self, rfl, a2⟩
    · rcases ih (.step r st) (notyet_step_other hc r st hvs hu h) hv' hnl' with ⟨e, w, he, h1, h2⟩ | hh
      · exact .inl ⟨e, w, List.mem_cons_of_mem _ he, h1, h2⟩
      · right
        intro e he
        rcases List.mem_cons.mp he with rfl | he'
        · intro h1; exact absurd h1 hu
        · exact hh e he'

/-- **resident_found** for `first`/`next` traversals -/
theorem resident_found_traversal_exec {c s0 evs s1 t q} (hc : c.ownerByOr = false) (r : Reach c s0)
    (ex : Exec c s0 evs s1)
    (hcall : ∃ e0 rest, evs = e0 :: rest ∧ e0.2.1 = t ∧ e0.2.2.1 = .callFirst ∧
      ∀ e, e ∈ rest → e.2.1 = t → ¬ Leaves e.2.2.1)
    (hv : ∀ e, e ∈ evs → vis e.1 q) (hend : ∃ e w, e ∈ evs ∧ e.2.1 = t ∧ e.2.2.2 = .iter 0 w) :
    ∃ e w, e ∈ evs ∧ e.2.1 = t ∧ e.2.2.2 = .iter q w := by
  obtain ⟨e0, rest, rfl, ht, hl, hin⟩ := hcall
  cases ex with
  | @cons s u l sa o evs' s2 st ex' =>
    simp only at ht hl
    subst ht; subst hl
    have hcall : NotYet sa (sa.th u) q ∧ o = .unit := by
      have st0 := st
      st_open st0
      have e1 : sa.th u = x' := by rw [e_th']; simp [upd]
      refine ⟨?_, e_out.symm⟩
      simp only [NotYet, e1, xpc]; simp
    rcases traverse_exec hc ex' (.step r st) hcall.1 (fun e he => hv e (List.mem_cons_of_mem _ he)) hin with
      ⟨e, w, he, h1, h2⟩ | hh
    · exact ⟨e, w, List.mem_cons_of_mem _ he, h1, h2⟩
    · exfalso
      obtain ⟨e, w, he, h1, h2⟩ := hend
      rcases List.mem_cons.mp he with rfl | he'
      · simp only at h2; rw [hcall.2] at h2; cases h2
      · exact hh e he' h1 w h2

end UrcuVerif.Lfht.Conc
