import UrcuVerif.Lfht.Conc.LinFin
/-!
# Concurrent rculfhash — linearizability, composition: the completed calls of an execution and their
linearisation points by index (proof-only file)
-/
namespace UrcuVerif.Lfht.Conc
open UrcuVerif
set_option linter.unusedSimpArgs false
set_option linter.unusedVariables false

/-- the abstract operation of a call of thread `t` issued in state `s0` -/
def opOf (s0 : State) (t : Nat) : Label → Option SOp
  | .callAdd m n h k => some (addOp m n h k)
  | .callReplace n h k => some (.replace (s0.th t).itn n h k)
  | .callDel => some (.del (s0.th t).itn)
  | .callLookup h k => some (.lookup h k)
  | _ => none

/-- per (key, hash): only unique adds, or only plain adds, in the whole execution -/
def KeyDisc (evs : List Event) : Prop :=
  ∀ k h, (∀ e, e ∈ evs → UniqUse k h e.2.2.1) ∨ (∀ e, e ∈ evs → PlainUse k h e.2.2.1)

/-- a call of the execution: event `i` is the call of thread `t`, event `j` its return with result `r` -/
structure CCall where
  i : Nat
  j : Nat
  t : Nat
  op : SOp
  r : Out
  deriving DecidableEq

def Completed (evs : List Event) (s : State) (κ : CCall) : Prop :=
  κ.i ≤ κ.j ∧
  (∃ e0, evs[κ.i]? = some e0 ∧ e0.2.1 = κ.t ∧ opOf e0.1 κ.t e0.2.2.1 = some κ.op) ∧
  (∀ idx e, κ.i < idx → idx ≤ κ.j → evs[idx]? = some e → e.2.1 = κ.t → OpK (e.1.th κ.t).op) ∧
  (∃ e, evs[κ.j]? = some e ∧ e.2.1 = κ.t ∧ e.2.2.2 = κ.r) ∧
  ((stAt evs s (κ.j + 1)).th κ.t).op = .none

/-- the call takes effect just before event `idx` / with event `idx` (attributes: those of the final state) -/
def LpRO (evs : List Event) (s : State) (idx : Nat) (op : SOp) (r : Out) : Prop :=
  SpecStep (absF s (stAt evs s idx)) op r (absF s (stAt evs s idx))
def LpMut (evs : List Event) (s : State) (idx : Nat) (op : SOp) (r : Out) : Prop :=
  SpecStep (absF s (stAt evs s idx)) op r (absF s (stAt evs s (idx + 1)))

theorem invK_idx {c k h evs s} (hc : c.ownerByOr = false) (ex : Exec c init evs s)
    (hU : ∀ e, e ∈ evs → UniqUse k h e.2.2.1) : ∀ i, InvK k h (stAt evs s i) := by
  have gen : ∀ {s0 evs s}, Exec c s0 evs s → Reach c s0 → InvK k h s0 → (∀ e, e ∈ evs → UniqUse k h e.2.2.1) →
      ∀ i, InvK k h (stAt evs s i) := by
    intro s0 evs s ex
    induction ex with
    | nil s => intro _ hK _ i; simp [stAt]; exact hK
    | @cons s u l s1 o evs s2 st _ ih =>
      intro r hK hU i
      cases i with
      | zero => rw [stAt_cons_zero]; exact hK
      | succ i =>
        rw [stAt_cons_succ]
        exact ih (.step r st) (invK_step hc r hK st (hU _ List.mem_cons_self)) (fun e he => hU e (List.mem_cons_of_mem _ he)) i
  exact gen ex .init invK_init hU

theorem plainK_idx {c k h evs s} (hc : c.ownerByOr = false) (ex : Exec c init evs s)
    (hU : ∀ e, e ∈ evs → PlainUse k h e.2.2.1) : ∀ i, PlainK k h (stAt evs s i) := by
  have gen : ∀ {s0 evs s}, Exec c s0 evs s → Reach c s0 → PlainK k h s0 → (∀ e, e ∈ evs → PlainUse k h e.2.2.1) →
      ∀ i, PlainK k h (stAt evs s i) := by
    intro s0 evs s ex
    induction ex with
    | nil s => intro _ hK _ i; simp [stAt]; exact hK
    | @cons s u l s1 o evs s2 st _ ih =>
      intro r hK hU i
      cases i with
      | zero => rw [stAt_cons_zero]; exact hK
      | succ i =>
        rw [stAt_cons_succ]
        exact ih (.step r st) (plainK_step hc r hK st (hU _ List.mem_cons_self)) (fun e he => hU e (List.mem_cons_of_mem _ he)) i
  exact gen ex .init plainK_init hU

theorem nonfresh_exec {c s0 evs s p} (hc : c.ownerByOr = false) (ex : Exec c s0 evs s) (r : Reach c s0)
    (h : s0.life p ≠ .fresh) : s.life p ≠ .fresh := by
  induction ex with
  | nil s => exact h
  | @cons s u l s1 o evs s2 st _ ih =>
    refine ih (.step r st) ?_
    rcases life_step hc r st p with e | e | e | e
    · rw [e]; exact h
    · exact absurd e.1 h
    · rw [e.2]; simp
    · rw [e.2]; simp

theorem nonfresh_idx {c evs s p i j} (hc : c.ownerByOr = false) (ex : Exec c init evs s) (hij : i ≤ j)
    (h : (stAt evs s i).life p ≠ .fresh) : (stAt evs s j).life p ≠ .fresh := by
  by_cases hj : j ≤ evs.length
  · exact nonfresh_exec hc (exec_slice ex i j hij hj) (exec_reach_idx ex .init i) h
  · rw [stAt_end (by omega)]
    by_cases hi : i ≤ evs.length
    · have := nonfresh_exec hc (exec_slice ex i evs.length hi (Nat.le_refl _)) (exec_reach_idx ex .init i) h
      rwa [stAt_end (Nat.le_refl _)] at this
    · rwa [stAt_end (by omega)] at h

theorem slice_cons {evs : List Event} {i j : Nat} {e0 : Event} (h0 : evs[i]? = some e0) (hij : i ≤ j) :
    (evs.drop i).take (j + 1 - i) = e0 :: (evs.drop (i + 1)).take (j - i) := by
  have hi : i < evs.length := by
    rcases Nat.lt_or_ge i evs.length with h | h
    · exact h
    · rw [List.getElem?_eq_none h] at h0; cases h0
  have e : evs[i] = e0 := by rw [List.getElem?_eq_getElem hi] at h0; exact Option.some.inj h0
  rw [List.drop_eq_getElem_cons hi, e]
  have : j + 1 - i = (j - i) + 1 := by omega
  rw [this, List.take_succ_cons]

theorem slice_last {evs : List Event} {i j : Nat} {eJ : Event} (hJ : evs[j]? = some eJ) (hij : i ≤ j) :
    ((evs.drop i).take (j + 1 - i)).getLast? = some eJ := by
  have hj : j < evs.length := by
    rcases Nat.lt_or_ge j evs.length with h | h
    · exact h
    · rw [List.getElem?_eq_none h] at hJ; cases hJ
  rw [List.getLast?_eq_getElem?]
  have hl : ((evs.drop i).take (j + 1 - i)).length = j + 1 - i := by
    rw [List.length_take, List.length_drop]; omega
  rw [hl, List.getElem?_take, if_pos (by omega), List.getElem?_drop]
  have : i + (j + 1 - i - 1) = j := by omega
  rw [this]; exact hJ

set_option maxHeartbeats 1000000 in
/-- **every completed call of an execution has a linearisation point** (index form, final attributes) -/
theorem call_lp {c evs s κ} (hc : c.ownerByOr = false) (ex : Exec c init evs s) (hD : KeyDisc evs)
    (hκ : Completed evs s κ) :
    ∃ idx, κ.i ≤ idx ∧ idx ≤ κ.j ∧ (LpRO evs s idx κ.op κ.r ∨ LpMut evs s idx κ.op κ.r) := by
  obtain ⟨hij, ⟨e0, h0, ht0, hop⟩, hmid, ⟨eJ, hJ, htJ, hrJ⟩, hend⟩ := hκ
  have hj : κ.j < evs.length := by
    rcases Nat.lt_or_ge κ.j evs.length with h | h
    · exact h
    · rw [List.getElem?_eq_none h] at hJ; cases hJ
  have exs := exec_slice ex κ.i (κ.j + 1) (by omega) (by omega)
  have ri := exec_reach_idx ex .init κ.i
  have e0s := ((exec_idx ex).2 κ.i e0 h0).1
  have hcons := slice_cons h0 hij
  have hcall : ∀ l0, e0.2.2.1 = l0 → ∃ e0' rest, (evs.drop κ.i).take (κ.j + 1 - κ.i) = e0' :: rest ∧ e0'.2.1 = κ.t ∧
      e0'.2.2.1 = l0 ∧ ∀ e, e ∈ rest → e.2.1 = κ.t → OpK (e.1.th κ.t).op := by
    intro l0 hl
    refine ⟨e0, _, hcons, ht0, hl, ?_⟩
    intro e he hte
    have : κ.j - κ.i = (κ.j + 1) - (κ.i + 1) := by omega
    rw [this] at he
    obtain ⟨idx, h1, h2, h3⟩ := mem_slice.mp he
    exact hmid idx e (by omega) (by omega) h3 hte
  have hlast : ∃ e, ((evs.drop κ.i).take (κ.j + 1 - κ.i)).getLast? = some e ∧ e.2.1 = κ.t ∧ e.2.2.2 = κ.r :=
    ⟨eJ, slice_last hJ hij, htJ, hrJ⟩
  have hat : LinAt c ((evs.drop κ.i).take (κ.j + 1 - κ.i)) κ.op κ.r := by
    cases hl : e0.2.2.1 with
    | callAdd m n h k =>
      simp only [opOf, hl, Option.some.injEq] at hop; rw [← hop]
      refine lin_add_exec hc ri exs (hcall _ hl) ?_ hlast hend
      intro hm e he
      obtain ⟨idx, _, _, h3⟩ := mem_slice.mp he
      rw [((exec_idx ex).2 idx e h3).1]
      rcases hD k h with hU | hP
      · exact invK_idx hc ex hU idx
      · exfalso
        have hp := hP e0 (List.mem_of_getElem? h0)
        rw [hl] at hp
        exact hm (hp rfl rfl)
    | callReplace n h k =>
      simp only [opOf, hl, Option.some.injEq] at hop; rw [← hop, e0s]
      exact lin_replace_exec hc ri exs (hcall _ hl) hlast hend
    | callDel =>
      simp only [opOf, hl, Option.some.injEq] at hop; rw [← hop, e0s]
      exact lin_del_exec hc ri exs (hcall _ hl) hlast hend
    | callLookup h k =>
      simp only [opOf, hl, Option.some.injEq] at hop; rw [← hop]
      obtain ⟨q, w, hr⟩ := lookup_ret_iter hc ri exs (hcall _ hl) hlast hend
      rw [hr] at hlast ⊢
      by_cases hq : q = 0
      · subst hq
        refine lin_lookup_none_exec hc ri exs (hcall _ hl) ?_ hlast hend
        intro e he
        obtain ⟨idx, _, _, h3⟩ := mem_slice.mp he
        rw [((exec_idx ex).2 idx e h3).1]
        rcases hD k h with hU | hP
        · exact .inl (invK_idx hc ex hU idx)
        · exact .inr (plainK_idx hc ex hP idx)
      · exact lin_lookup_found_exec hc ri exs (hcall _ hl) hlast hq hend
    | _ => simp [opOf, hl] at hop
  obtain ⟨e, he, hlp⟩ := hat
  obtain ⟨idx, h1, h2, h3⟩ := mem_slice.mp he
  obtain ⟨es, hst⟩ := (exec_idx ex).2 idx e h3
  refine ⟨idx, h1, by omega, ?_⟩
  have rI := exec_reach_idx ex .init idx
  have rI1 := exec_reach_idx ex .init (idx + 1)
  have hold : ∀ old n h k, κ.op = .replace old n h k → old ≠ 0 → (stAt evs s idx).life old ≠ .fresh := by
    intro old n h k hk h0'
    have hitn : old = (e0.1.th κ.t).itn := by
      cases hl : e0.2.2.1 with
      | callAdd m n' h' k' =>
        simp only [opOf, hl, Option.some.injEq] at hop; rw [hk] at hop; cases m <;> simp [addOp] at hop
      | callReplace n' h' k' =>
        simp only [opOf, hl, Option.some.injEq] at hop; rw [hk] at hop; injection hop with a _ _ _; exact a.symm
      | callDel => simp only [opOf, hl, Option.some.injEq] at hop; rw [hk] at hop; cases hop
      | callLookup h' k' => simp only [opOf, hl, Option.some.injEq] at hop; rw [hk] at hop; cases hop
      | _ => simp [opOf, hl] at hop
    have ⟨_, hF, _⟩ := invRFL_reach hc ri
    have f16 := (hF.t κ.t).2.2.2.2.2.2.2.2.2.2.2.2.2.2.2.1
    rw [e0s] at hitn
    have : (stAt evs s κ.i).life old ≠ .fresh := by rw [hitn]; exact (f16.1 (hitn ▸ h0')).1
    exact nonfresh_idx hc ex h1 this
  rcases hlp with hro | ⟨s', σ', hs', hsp, heq⟩
  · left
    simp only [LinRO] at hro
    rw [es] at hro
    exact specF_ro hc rI (finattr_idx hc ex .init idx) hold hro
  · right
    rw [hst] at hs'
    have hs'e : s' = stAt evs s (idx + 1) := by injection hs' with a; injection a with b _; exact b.symm
    rw [es] at hsp
    rw [hs'e] at heq
    exact specF_mut hc rI rI1 (finattr_idx hc ex .init idx) (finattr_idx hc ex .init (idx + 1)) hold hsp heq

end UrcuVerif.Lfht.Conc
