import UrcuVerif.Lfht.Conc.Vis
import UrcuVerif.Lfht.Conc.Run
/-!
# Concurrent rculfhash — the specification for linearizability: a multiset of nodes per (hash, key)

`MS` = which nodes are stored, and the (reversed hash, key) of every node.  A node identifier is stored at most
once, so "multiset of nodes per key" = the set of stored nodes that carry the key; nothing is said about the order
among duplicates (`lookup` returns *some* stored node with the hash and key).  `absL s` = the visible nodes of the
ghost list `L` (linked, not a bucket, not flagged `REMOVED`) with the attributes kept in the nodes.
(definitions only; core Lean)
-/
namespace UrcuVerif.Lfht.Conc
open UrcuVerif

/-- the abstract operations: the update and lookup calls of the API with their arguments (`old` = the node of the
iterator handed to `cds_lfht_replace` / `cds_lfht_del`, 0 = empty iterator) -/
inductive SOp
  | add (n h k : Nat)
  | addUnique (n h k : Nat)
  | addReplace (n h k : Nat)
  | replace (old n h k : Nat)
  | del (old : Nat)
  | lookup (h k : Nat)
  deriving DecidableEq, Repr

structure MS where
  mem : Nat → Prop
  rev : Nat → Nat
  key : Nat → Nat

/-- same stored nodes, same attributes on them -/
def MS.Equiv (σ τ : MS) : Prop := (∀ p, σ.mem p ↔ τ.mem p) ∧ ∀ p, σ.mem p → σ.rev p = τ.rev p ∧ σ.key p = τ.key p

def MS.insert (σ : MS) (n r k : Nat) : MS :=
  ⟨fun p => p = n ∨ σ.mem p, fun p => if p = n then r else σ.rev p, fun p => if p = n then k else σ.key p⟩

def MS.erase (σ : MS) (q : Nat) : MS := ⟨fun p => p ≠ q ∧ σ.mem p, σ.rev, σ.key⟩

/-- `p` is stored with hash `h` and key `k` -/
def MS.Match (σ : MS) (h k p : Nat) : Prop := σ.mem p ∧ σ.rev p = bitReverse64 h ∧ σ.key p = k

/-- the sequential specification: each call takes effect atomically -/
inductive SpecStep (σ : MS) : SOp → Out → MS → Prop
  | add {n h k} : ¬ σ.mem n → SpecStep σ (.add n h k) .unit (σ.insert n (bitReverse64 h) k)
  | addUniqueNew {n h k} : ¬ σ.mem n → (∀ p, ¬ σ.Match h k p) →
      SpecStep σ (.addUnique n h k) (.node n) (σ.insert n (bitReverse64 h) k)
  | addUniqueDup {n h k q} : σ.Match h k q → SpecStep σ (.addUnique n h k) (.node q) σ
  | addReplaceNew {n h k} : ¬ σ.mem n → (∀ p, ¬ σ.Match h k p) →
      SpecStep σ (.addReplace n h k) (.node 0) (σ.insert n (bitReverse64 h) k)
  | addReplaceRepl {n h k q} : ¬ σ.mem n → σ.Match h k q →
      SpecStep σ (.addReplace n h k) (.node q) ((σ.erase q).insert n (bitReverse64 h) k)
  | replaceNull {n h k} : SpecStep σ (.replace 0 n h k) (.ret (-ENOENT)) σ
  | replaceInval {old n h k} : old ≠ 0 → (σ.rev old ≠ bitReverse64 h ∨ σ.key old ≠ k) →
      SpecStep σ (.replace old n h k) (.ret (-EINVAL)) σ
  | replaceGone {old n h k} : old ≠ 0 → σ.rev old = bitReverse64 h → σ.key old = k → ¬ σ.mem old →
      SpecStep σ (.replace old n h k) (.ret (-ENOENT)) σ
  | replaceOk {old n h k} : σ.Match h k old → ¬ σ.mem n →
      SpecStep σ (.replace old n h k) (.ret 0) ((σ.erase old).insert n (bitReverse64 h) k)
  | delNull : SpecStep σ (.del 0) (.ret (-ENOENT)) σ
  | delGone {old} : old ≠ 0 → ¬ σ.mem old → SpecStep σ (.del old) (.ret (-ENOENT)) σ
  | delOk {old} : σ.mem old → SpecStep σ (.del old) (.ret 0) (σ.erase old)
  | lookupFound {h k q w} : σ.Match h k q → SpecStep σ (.lookup h k) (.iter q w) σ
  | lookupNone {h k w} : (∀ p, ¬ σ.Match h k p) → SpecStep σ (.lookup h k) (.iter 0 w) σ

/-- the abstraction function -/
def absL (s : State) : MS := ⟨vis s, s.rev, s.key⟩

/-- the operation a thread is executing, with the arguments of the call -/
def curOp (x : Thr) : Option SOp :=
  match x.op with
  | .add =>
    match x.mode with
    | .plain => some (.add x.node x.hs x.ky)
    | .uniq => some (.addUnique x.node x.hs x.ky)
    | .repl => some (.addReplace x.node x.hs x.ky)
    | .bkt => none
  | .replace => some (.replace x.old x.node x.hs x.ky)
  | .del => some (.del x.node)
  | .lookup => some (.lookup x.hs x.ky)
  | _ => none

end UrcuVerif.Lfht.Conc
