import UrcuVerif.Lfht.Conc.Vis
/-! # Concurrent rculfhash — a live bucket stays live unless a shrink worker flags it (proof-only file) -/
namespace UrcuVerif.Lfht.Conc
open UrcuVerif
set_option linter.unusedSimpArgs false
set_option linter.unusedVariables false

set_option hygiene false in
macro "lb_same" : tactic => `(tactic| (intro B hB hl; left; simpa only [live, e_life, e_nxt] using hl))

set_option hygiene false in
macro "lb_mut" hR:ident hF:ident hL:ident : tactic => `(tactic|
  (intro B hB hl
   vis_open $hR $hF $hL
   have gB := fgn B; simp only [GFn] at gB
   clear fgn g1 g2 g3 g4 g5
   simp only [live] at hl ⊢
   simp only [e_life, e_nxt, upd]
   by_cases h1 : B = (s.th t).prev <;> by_cases h2 : B = (s.th t).node <;> by_cases h3 : B = (s.th t).old <;>
     by_cases h4 : B = (s.th t).iter.ptr <;>
     (try simp only [h1, h2, h3, h4, if_true, if_false]) <;> grind [valid, vz, HasPos, Pend, Worker, AddPc, okp]))

set_option maxHeartbeats 8000000 in
/-- a live bucket node stays live, except the one a shrink worker flags -/
theorem live_bucket_step {c s s' t l o} (hc : c.ownerByOr = false) (r : Reach c s) (st : step c s t l = some (s', o)) :
    ∀ B, s.isB B = true → live s B → live s' B ∨ (l = .orBkt ∧ B = (s.th t).node) := by
  have ⟨hR, hF, hL⟩ := invRFL_reach hc r
  cases l with
  | spawn u len => st_open st; lb_same
  | join u => st_open st; lb_same
  | casIns => st_open st; all_goals first | (lb_same; done) | (lb_mut hR hF hL)
  | casGc => st_open st; all_goals first | (lb_same; done) | (lb_mut hR hF hL)
  | casRepl => st_open st; all_goals first | (lb_same; done) | (lb_mut hR hF hL)
  | orRem => st_open st; all_goals first | (lb_same; done) | (lb_mut hR hF hL)
  | xchgOwn => st_open st; all_goals first | (lb_same; done) | (lb_mut hR hF hL)
  | orOwn => st_open st; all_goals first | (lb_same; done) | (lb_mut hR hF hL)
  | orBkt => st_open st; all_goals first | (lb_same; done) | (lb_mut hR hF hL)
  | callAdd m n h k =>
    st_open st
    all_goals
      intro B hB hl; left
      simp only [live, e_life, e_nxt, upd] at hl ⊢
      have : B ≠ n := by intro e; rw [e] at hl; grind
      simpa only [this, if_false] using hl
  | callReplace n h k =>
    st_open st
    all_goals
      intro B hB hl; left
      simp only [live, e_life, e_nxt, upd] at hl ⊢
      have : B ≠ n := by intro e; rw [e] at hl; grind
      simpa only [this, if_false] using hl
  | tblAlloc base =>
    have fg := hF.g; simp only [GF] at fg
    st_open st
    all_goals simp only [inRange, Bool.and_eq_true, decide_eq_true_eq] at *
    all_goals
      intro B hB hl; left
      have := (fg.1 B).1
      simp only [live, e_life, e_nxt] at hl ⊢
      have hr : ¬ (base ≤ B ∧ B < base + 2 ^ s.size.log2) := by grind
      simpa only [hr, if_false] using hl
  | _ => st_open st; all_goals lb_same

end UrcuVerif.Lfht.Conc
