import UrcuVerif.Lfht.Conc.NxpStep
import UrcuVerif.Lfht.Conc.Run
import UrcuVerif.Lfht.Conc.Stable
/-!
# Concurrent rculfhash — `resident_found` (proof-only file)

Position invariant of a lookup for a node `q` that stays visible: `q` is reachable, along the `next` pointers,
from the lookup's current position.  Interference (insertions, unlinks of *other* nodes, replaces) preserves
reachability; a hop of the lookup itself moves along the path; so the lookup cannot run past `q`, and when it
stands on `q` the match test succeeds.
-/
namespace UrcuVerif.Lfht.Conc
open UrcuVerif
set_option linter.unusedSimpArgs false
set_option linter.unusedVariables false

/-- thread `t` is inside `cds_lfht_lookup(hash(q), key(q))` and has not passed `q` -/
def Track (s : State) (t q : Nat) : Prop :=
  let x := s.th t
  (x.pc = .lSize ∨ x.pc = .lHead ∨ x.pc = .wNext ∨ x.pc = .wAssert) ∧ (x.wk = .lookup ∧ x.op = .lookup) ∧
  x.rh = s.rev q ∧ x.ky = s.key q ∧
  (x.pc = .lSize → x.rh = bitReverse64 x.hs) ∧
  (x.pc = .lHead → Rch (nxp s) x.bkt q) ∧
  (x.pc = .wNext → Rch (nxp s) x.cur q)

/-- facts about the pointer graph in a reachable state -/
theorem graph_facts {c s} (hc : c.ownerByOr = false) (r : Reach c s) :
    nxp s 0 = 0 ∧ (∀ x, valid s x → nxp s x ≠ 0 → valid s (nxp s x) ∧ s.rev x ≤ s.rev (nxp s x)) ∧
    (∀ x, s.life (nxp s x) ≠ .priv) := by
  have ⟨hR, hF, hL⟩ := invRFL_reach hc r
  have fg := hF.g
  simp only [GF] at fg
  refine ⟨?_, ?_, ?_⟩
  · have := (fg.1 0).2.1 (.inl fg.2.1); simp only [nxp, this]
  · intro x hx hn
    have h1 := (fg.1 x).2.2.2.1 hx hn
    have h2 := hL.g.2.2.2.2 x hx hn
    simp only [ok] at h2
    exact ⟨h1, by simp only [nxp]; omega⟩
  · intro x
    by_cases hx : valid s x
    · by_cases hn : nxp s x = 0
      · rw [hn, fg.2.1]; simp
      · exact ((fg.1 x).2.2.2.1 hx hn).2
    · have : s.life x = .fresh ∨ s.life x = .priv := by
        simp only [valid] at hx
        cases h : s.life x <;> simp_all
      have := (fg.1 x).2.1 this
      simp only [nxp, this, fg.2.1]; simp

/-- reachability of a node that stays unflagged survives every step -/
theorem rch_step {c s s' t l o a q} (hc : c.ownerByOr = false) (r : Reach c s) (st : step c s t l = some (s', o))
    (h : Rch (nxp s) a q) (ha : s.life a ≠ .priv) (hq : (s.nxt q).rem = false) : Rch (nxp s') a q := by
  have gf := graph_facts hc r
  rcases nxp_step hc r st with h1 | ⟨p, n, i1, i2, i3, i4, i5, i6⟩ | ⟨p, k, u1, u2, u3, u4, u5⟩
  · exact rch_congr h1 h
  · refine rch_insert i1 i2 i3 ?_ h ?_
    · intro x e; have := gf.2.2 x; rw [e, i4] at this; exact this rfl
    · intro e; rw [e] at ha; exact ha i4
  · refine rch_unlink u1 u2 u3 u4 h ?_
    intro e; rw [e, u5] at hq; cases hq

/-- steps of other threads keep the tracking invariant -/
theorem track_other {c s s' t u l o q} (hc : c.ownerByOr = false) (r : Reach c s) (st : step c s u l = some (s', o))
    (hut : u ≠ t) (hth : s'.th t = s.th t) (hrk : s'.rev q = s.rev q ∧ s'.key q = s.key q)
    (hv : vis s q) (g : Track s t q) : Track s' t q := by
  have ⟨hR, hF, hL⟩ := invRFL_reach hc r
  have ft := hF.t t
  simp only [TF] at ft
  simp only [Track, hth, hrk.1, hrk.2] at g ⊢
  obtain ⟨g1, g2, g3, g4, g5, g6, g7⟩ := g
  refine ⟨g1, g2, g3, g4, g5, ?_, ?_⟩
  · intro hp
    have hb := ft.2.2.2.2.2.2.2.2.2.2.2.2.2.2.1 hp
    have : s.life (s.th t).bkt ≠ .priv := by
      have rl := rlim_live hR hF
      simp only [HB, Lim] at hb
      have := (rl.2 (s.hsh (s.th t).bkt) (by omega)).2
      rw [hb.2.2.1] at this; rw [this.1]; simp
    exact rch_step hc r st (g6 hp) this hv.2.2
  · intro hp
    have := ft.2.2.2.2.2.2.2.2.2.2.2.2.1 (.inl hp)
    exact rch_step hc r st (g7 hp) this.2 hv.2.2

/-- a path that starts at `a`, is not yet at the visible node `q`, cannot end (NULL or beyond `q`'s hash) -/
theorem rch_not_past {c s a q} (hc : c.ownerByOr = false) (r : Reach c s) (h : Rch (nxp s) a q) (hv : vis s q)
    (va : a ≠ 0 → valid s a) : a ≠ 0 ∧ s.rev a ≤ s.rev q := by
  have gf := graph_facts hc r
  have ⟨_, hF, hL⟩ := invRFL_reach hc r
  have q0 : q ≠ 0 := by
    intro e; have := (hL.g.2.1 q).mp hv.1; rw [e, hF.g.2.1] at this; cases this
  have a0 : a ≠ 0 := by
    intro e; rw [e] at h; exact q0 (rch_fix gf.1 h)
  exact ⟨a0, (rch_mono (P := valid s) (r := s.rev) gf.1 gf.2.1 h (va a0) q0).1⟩

set_option hygiene false in
/-- closes one branch of `track_self`: the lookup returned a node, or still tracks, or the branch is impossible -/
macro "trk_close" : tactic => `(tactic|
  (first
   | (refine ⟨?_, ?_⟩
      · intro w; rw [← e_out]; simp [*]
      · left; rw [e1, xop]; simp)
   | (refine ⟨?_, .inr ⟨?_, ?_, ?_⟩⟩
      · intro w; rw [← e_out]; simp
      · simp only [Track, e1, e_rev, e_key, en]; clear ftt fq fg rg gf
        have nxpdef : ∀ a, nxp s a = (s.nxt a).ptr := fun _ => rfl
        grind
      · rw [e_rev]
      · rw [e_key])
   | (exfalso; clear ftt fq fg rg; simp only [nxp] at *; grind [found])))

set_option maxHeartbeats 4000000 in
/-- the lookup's own steps: it never answers "not found", and keeps tracking until it returns -/
theorem track_self {c s s' t l o q} (hc : c.ownerByOr = false) (r : Reach c s) (st : step c s t l = some (s', o))
    (hv : vis s q) (g : Track s t q) :
    (∀ w, o ≠ .iter 0 w) ∧ ((s'.th t).op ≠ .lookup ∨ (Track s' t q ∧ s'.rev q = s.rev q ∧ s'.key q = s.key q)) := by
  have ⟨hR, hF, hL⟩ := invRFL_reach hc r
  have gf := graph_facts hc r
  have ftt := hF.t t; have fg := hF.g; have rg := hR.g
  simp only [TF, GF] at ftt fg; simp only [GR] at rg
  obtain ⟨g1, g2, g3, g4, g5, g6, g7⟩ := g
  have fq := fg.1 q; simp only [GFn] at fq
  have hql : s.life q = .linked := (hL.g.2.1 q).mp hv.1
  have q0 : q ≠ 0 := by intro e; rw [e, fg.2.1] at hql; cases hql
  have vq : valid s q := by simp [valid, hql]
  have bb := bucket_before hR (s.th t).hs
  have sz0 : 0 < s.size := by have := rg.1.1; have := Nat.two_pow_pos (Nat.log2 s.size); omega
  have hmod := Nat.mod_lt (s.th t).hs sz0
  cases l with
  | ldSize =>
    st_open st
    all_goals (have e1 : s'.th t = x' := by rw [e_th']; simp [upd])
    all_goals (have en : nxp s' = nxp s := by funext x; simp only [nxp, e_nxt])
    all_goals first | (exfalso; clear ftt; grind) | skip
    all_goals
      have hpc : (s.th t).pc = .lSize := by assumption
      have hlv := fg.2.2.1 ((s.th t).hs % s.size) hmod
      simp only [live] at hlv
      have hBL : s.tbl ((s.th t).hs % s.size) ∈ s.L := (hL.g.2.1 _).mpr hlv.1
      have hm := rg.2.2.1 _ (rg.2.1 _ hmod)
      have hne : s.tbl ((s.th t).hs % s.size) ≠ q := by
        intro e; rw [e] at hm; have := hv.2.1; rw [hm.1] at this; cases this
      have hrh := g5 hpc
      have hnok : ¬ ok s q (s.tbl ((s.th t).hs % s.size)) := by
        simp only [ok, hm.1, hv.2.1]; rw [← g3, hrh]; simp; omega
      obtain ⟨l1, l2, hl, hq2⟩ := pairwise_before hL.g.2.2.2.1 hBL hv.1 hne hnok
      have hr := chn_rch (hl ▸ hL.g.2.2.1) (List.mem_cons_of_mem _ hq2)
      trk_close
  | ldHeadL =>
    st_open st
    all_goals (have e1 : s'.th t = x' := by rw [e_th']; simp [upd])
    all_goals (have en : nxp s' = nxp s := by funext x; simp only [nxp, e_nxt])
    all_goals
      have hpc : (s.th t).pc = .lHead := by assumption
      have hb := ftt.2.2.2.2.2.2.2.2.2.2.2.2.2.2.1 hpc
      have hB : s.isB (s.th t).bkt = true ∧ valid s (s.th t).bkt := by
        have rl := rlim_live hR hF
        simp only [HB, Lim] at hb
        have := (rl.2 (s.hsh (s.th t).bkt) (by omega)).2
        rw [hb.2.2.1] at this; exact ⟨hb.2.1, by simp [valid, this.1]⟩
      have hne : (s.th t).bkt ≠ q := by intro e; rw [e, hv.2.1] at hB; cases hB.1
      have hr := rch_next (g6 hpc) hne
      have hnp := rch_not_past hc r hr hv (fun h0 => (gf.2.1 _ hB.2 h0).1)
      trk_close
  | ldWalk =>
    st_open st
    all_goals (have e1 : s'.th t = x' := by rw [e_th']; simp [upd])
    all_goals (have en : nxp s' = nxp s := by funext x; simp only [nxp, e_nxt])
    all_goals
      have hpc : (s.th t).pc = .wNext := by assumption
      have hcv := ftt.2.2.2.2.2.2.2.2.2.2.2.2.1 (.inl hpc)
      have hr0 := g7 hpc
      have hfq : (s.th t).cur = q → found s (s.th t) (s.nxt (s.th t).cur) = true := by
        intro e; simp only [found, g2.1, e, hv.2.2, fq.2.2.2.2.1 vq, hv.2.1, ← g3, ← g4]; simp
      have hnx : (s.th t).cur ≠ q → Rch (nxp s) (s.nxt (s.th t).cur).ptr q ∧ (s.nxt (s.th t).cur).ptr ≠ 0 ∧
          s.rev (s.nxt (s.th t).cur).ptr ≤ s.rev q := by
        intro hne
        have hr := rch_next hr0 hne
        have hnp := rch_not_past hc r hr hv (fun h0 => (gf.2.1 _ hcv h0).1)
        exact ⟨hr, hnp.1, hnp.2⟩
      trk_close
  | ldAssertW =>
    st_open st
    all_goals (have e1 : s'.th t = x' := by rw [e_th']; simp [upd])
    all_goals (have en : nxp s' = nxp s := by funext x; simp only [nxp, e_nxt])
    all_goals
      have hpc : (s.th t).pc = .wAssert := by assumption
      have hcv := ftt.2.2.2.2.2.2.2.2.2.2.2.2.1 (.inr hpc)
      have hc0 : (s.th t).cur ≠ 0 := by intro e; rw [e] at hcv; exact hcv.1 fg.2.1
      first
        | (refine ⟨?_, .inl ?_⟩
           · intro w h; rw [← e_out] at h; injection h with h1 h2; exact hc0 h1
           · rw [e1, xop]; simp)
        | trk_close
  | reclaim p =>
    st_open st
    all_goals (have e1 : s'.th t = x' := by rw [e_th']; simp [upd])
    all_goals (have en : nxp s' = nxp s := by funext x; simp only [nxp, e_nxt])
    all_goals trk_close
  | _ =>
    exfalso
    st_open st
    all_goals (clear ftt fq fg rg; grind)

set_option maxHeartbeats 4000000 in
/-- a step of `t` does not touch the operation tag of another thread -/
theorem other_thread_op {c s s' t l o w} (st : step c s t l = some (s', o)) (hut : t ≠ w) : (s'.th w).op = (s.th w).op := by
  cases l with
  | spawn v len =>
    st_open st; st_open2
    rw [e_th']; simp only [upd, Ne.symm hut, if_false]; split <;> simp_all
  | join v =>
    st_open st; st_open2
    rw [e_th']; simp only [upd, Ne.symm hut, if_false]; split <;> simp_all
  | _ =>
    st_open st
    all_goals (rw [e_th']; simp [upd, Ne.symm hut])

/-- along an execution in which `q` stays visible, a tracked lookup never answers "not found" -/
theorem track_exec {c s evs s' t q} (hc : c.ownerByOr = false) (e : Exec c s evs s') (r : Reach c s)
    (h0 : (s.th t).op ≠ .lookup ∨ Track s t q)
    (hv : ∀ e, e ∈ evs → vis e.1 q) (hin : ∀ e, e ∈ evs → e.2.1 = t → (e.1.th t).op = .lookup) :
    ∀ e, e ∈ evs → e.2.1 = t → ∀ w, e.2.2.2 ≠ .iter 0 w := by
  induction e with
  | nil s => intro e he; simp at he
  | @cons s u l s1 o evs s2 st _ ih =>
    have hvs : vis s q := hv (s, u, l, o) List.mem_cons_self
    have hnext : (s1.th t).op ≠ .lookup ∨ Track s1 t q := by
      by_cases hu : u = t
      · subst hu
        have hop := hin (s, u, l, o) List.mem_cons_self rfl
        simp only at hop
        rcases h0 with h | h
        · exact absurd hop h
        · rcases (track_self hc r st hvs h).2 with h1 | h1
          · exact .inl h1
          · exact .inr h1.1
      · rcases h0 with h | h
        · left; rw [other_thread_op st hu]; exact h
        · right
          have hp : (s.th t).pc ≠ .idle ∧ (s.th t).pc ≠ .hDone := by
            rcases h.1 with p | p | p | p <;> simp [p]
          have hth := other_thread_same st hu hp
          have hql : s.life q ≠ .fresh := by
            have := ((invRFL_reach hc r).2.2.g.2.1 q).mp hvs.1; rw [this]; simp
          have hst := stable_step hc r st q hql
          exact track_other hc r st hu hth ⟨hst.1, hst.2.1⟩ hvs h
    intro e he
    rcases List.mem_cons.mp he with rfl | he'
    · intro hu w
      simp only at hu ⊢
      subst hu
      have hop := hin (s, u, l, o) List.mem_cons_self rfl
      simp only at hop
      rcases h0 with h | h
      · exact absurd hop h
      · exact (track_self hc r st hvs h).1 w
    · exact ih (.step r st) hnext (fun e he => hv e (List.mem_cons_of_mem _ he))
        (fun e he => hin e (List.mem_cons_of_mem _ he)) e he'

theorem track_call {c s s' t o h k q} (st : step c s t (.callLookup h k) = some (s', o))
    (h1 : s.rev q = bitReverse64 h) (h2 : s.key q = k) : Track s' t q ∧ o = .unit := by
  st_open st
  have e1 : s'.th t = x' := by rw [e_th']; simp [upd]
  refine ⟨?_, e_out.symm⟩
  simp only [Track, e1, e_rev, e_key, xpc, xwk, xop, xrh, xky, xhs, reduceCtorEq, false_or, or_false, true_or, or_true,
    false_implies, true_implies, true_and, and_true]
  exact ⟨h1.symm, h2.symm⟩

/-- **resident_found**: a `cds_lfht_lookup(h, k)` during which a node `q` with that hash and key stays visible
never reports "not found" -/
theorem resident_found_exec {c s0 evs s1 t h k q} (hc : c.ownerByOr = false) (r : Reach c s0) (ex : Exec c s0 evs s1)
    (hcall : ∃ e0 rest, evs = e0 :: rest ∧ e0.2.1 = t ∧ e0.2.2.1 = .callLookup h k ∧
      ∀ e, e ∈ rest → e.2.1 = t → (e.1.th t).op = .lookup)
    (hv : ∀ e, e ∈ evs → vis e.1 q ∧ e.1.rev q = bitReverse64 h ∧ e.1.key q = k) :
    ∀ e, e ∈ evs → e.2.1 = t → ∀ w, e.2.2.2 ≠ .iter 0 w := by
  obtain ⟨e0, rest, rfl, ht, hl, hin⟩ := hcall
  cases ex with
  | @cons s u l sa o evs' s2 st ex' =>
    simp only at ht hl
    subst ht; subst hl
    have hv0 := hv _ List.mem_cons_self
    simp only at hv0
    have hq : s0.life q ≠ .fresh := by
      have := ((invRFL_reach hc r).2.2.g.2.1 q).mp hv0.1.1; rw [this]; simp
    have hst := stable_step hc r st q hq
    have htr := track_call (q := q) st hv0.2.1 hv0.2.2
    intro e he
    rcases List.mem_cons.mp he with rfl | he'
    · intro _ w; simp only; rw [htr.2]; simp
    · exact track_exec hc ex' (.step r st) (.inr htr.1) (fun e he => (hv e (List.mem_cons_of_mem _ he)).1) hin e he'

/-- the load that decides a successful lookup / `next_duplicate` / `next` (and the duplicate scan of an add) sees a
node that is visible at that instant -/
theorem found_was_visible {c s s' t o} (hc : c.ownerByOr = false) (r : Reach c s)
    (st : step c s t .ldWalk = some (s', o)) (hp : (s'.th t).pc = .wAssert) (hd : okp s (s.th t).cur = true) :
    vis s (s.th t).cur ∧ (s'.th t).cur = (s.th t).cur ∧
    ((s.th t).wk = .lookup → s.rev (s.th t).cur = (s.th t).rh ∧ s.key (s.th t).cur = (s.th t).ky) := by
  have ⟨hR, hF, hL⟩ := invRFL_reach hc r
  have fc := hF.g.1 (s.th t).cur
  simp only [GFn] at fc
  st_open st
  all_goals (have e1 : s'.th t = x' := by rw [e_th']; simp [upd])
  all_goals (rw [e1] at hp ⊢; first | (rw [xpc] at hp; cases hp; done) | (exfalso; simp_all; done) | skip)
  all_goals
    have hv : valid s (s.th t).cur := by grind [valid, okp]
    have hf : found s (s.th t) (s.nxt (s.th t).cur) = true := by assumption
    have h1 : (s.nxt (s.th t).cur).rem = false ∧ (s.nxt (s.th t).cur).bkt = false := by
      simp only [found] at hf; grind
    have hl : s.life (s.th t).cur = .linked := by
      simp only [valid] at hv
      cases h : s.life (s.th t).cur <;> simp_all
    refine ⟨⟨(hL.g.2.1 _).mpr hl, by rw [← fc.2.2.2.2.1 hv]; exact h1.2, h1.1⟩, xcur, ?_⟩
    intro hw; simp only [found, hw] at hf; grind

end UrcuVerif.Lfht.Conc
