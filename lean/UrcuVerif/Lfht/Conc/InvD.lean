import UrcuVerif.Lfht.Conc.GraphStep
import UrcuVerif.Lfht.Conc.Owner
/-!
# Concurrent rculfhash — layer D: the postcondition of `_cds_lfht_gc_bucket` (proof-only file)

`del_returns_unlinked`: while the target of a gc pass is still linked it is reachable from the pass's position;
the pass never advances over a flagged node, so it cannot run past the target; hence when the pass returns
(`NULL` or a larger reversed hash) the target is no longer in `L`.
-/
namespace UrcuVerif.Lfht.Conc
open UrcuVerif
set_option linter.unusedSimpArgs false
set_option linter.unusedVariables false

/-- the flagged node a `_cds_lfht_gc_bucket` call has to see unlinked -/
def tgt (x : Thr) : Nat := if x.gcont = .repl then x.old else x.node

def TD (s : State) (x : Thr) : Prop :=
  ((InAdd x ∨ x.pc = .rCas ∨ x.pc = .dLd ∨ x.pc = .dOr) → x.sz = 2 ^ Nat.log2 x.sz ∧ Nat.log2 x.sz ≤ 63) ∧
  (GcPc x.pc → (s.nxt (tgt x)).rem = true ∧ valid s (tgt x) ∧ s.rev (tgt x) = s.rev x.gnode ∧ valid s x.gnode ∧
      valid s x.gbkt ∧
      (s.rev x.gbkt < s.rev (tgt x) ∨ (s.rev x.gbkt = s.rev (tgt x) ∧ s.isB (tgt x) = false))) ∧
  ((x.pc = .gNext ∨ x.pc = .gCas) → tgt x ∈ s.L → Rch (nxp s) x.iter.ptr (tgt x)) ∧
  ((x.pc = .dAssert ∨ x.pc = .dLd2 ∨ x.pc = .dXchg) → x.node ∉ s.L) ∧
  (x.pc = .rAssert → x.old ∉ s.L)

def InvD (s : State) : Prop := ∀ u, TD s (s.th u)

theorem invD_init : InvD init := by
  intro u; simp [TD, init, InAdd, GcPc]

/-- membership in `L` of an already published node can only be lost -/
theorem mem_L_step {c s s' t l o p} (hc : c.ownerByOr = false) (r : Reach c s) (st : step c s t l = some (s', o))
    (hv : valid s p) (h : p ∈ s'.L) : p ∈ s.L := by
  rcases graph_step hc r st with ⟨_, e, _, _⟩ | ⟨a, n, i, e, _, _, _, _⟩ | ⟨a, k, _, e, _, _, _, _, _⟩
  · rw [e] at h; exact h
  · rw [e] at h
    have ⟨_, _, hL⟩ := invRFL_reach hc r
    have hpL : a ∈ s.L := (hL.g.2.1 a).mpr (by assumption)
    rcases (mem_insAfter hpL).mp h with h | h
    · exfalso; rw [h] at hv; exact hv.2 i.2.2.2.1
    · exact h
  · rw [e] at h; exact List.mem_of_mem_erase h

theorem valid_step {c s s' t l o p} (hc : c.ownerByOr = false) (r : Reach c s) (st : step c s t l = some (s', o))
    (hv : valid s p) : valid s' p := by
  rcases graph_step hc r st with ⟨_, _, e, _⟩ | ⟨a, n, i, _, e, _, _, _⟩ | ⟨a, k, _, _, e, e2, e3, _, _⟩
  · simpa only [valid, e p hv] using hv
  · have : p ≠ n := by intro h; rw [h] at hv; exact hv.2 i.2.2.2.1
    simpa only [valid, e p this] using hv
  · by_cases h : p = k
    · rw [h]; simp [valid, e2]
    · simpa only [valid, e p h] using hv

/-- reachability of a node that is still in `L` after the step survives the step -/
theorem rch_step_L {c s s' t l o a q} (hc : c.ownerByOr = false) (r : Reach c s) (st : step c s t l = some (s', o))
    (h : Rch (nxp s) a q) (ha : s.life a ≠ .priv) (hq : q ∈ s'.L) : Rch (nxp s') a q := by
  have gf := graph_facts hc r
  have ⟨_, _, hL⟩ := invRFL_reach hc r
  rcases graph_step hc r st with ⟨e, _, _, _⟩ | ⟨p, n, ⟨i1, i2, i3, i4, i5, i6⟩, _, _, _, _, _⟩ |
      ⟨p, k, ⟨u1, u2, u3, u4, u5⟩, eL, _, _, _, _, _⟩
  · exact rch_congr e h
  · refine rch_insert i1 i2 i3 ?_ h ?_
    · intro x e; have := gf.2.2 x; rw [e, i4] at this; exact this rfl
    · intro e; rw [e] at ha; exact ha i4
  · refine rch_unlink u1 u2 u3 u4 h ?_
    intro e; rw [e, eL] at hq
    exact (List.Nodup.mem_erase_iff hL.g.1).mp hq |>.1 rfl

/-- phase 1: the heap effect of any step, with the thread's locals unchanged -/
theorem TD_heap {c s s' t l o u} (hc : c.ownerByOr = false) (r : Reach c s) (st : step c s t l = some (s', o))
    (g : TD s (s.th u)) : TD s' (s.th u) := by
  have ⟨hR, hF, hL⟩ := invRFL_reach hc r
  have fu := hF.t u; simp only [TF] at fu
  have rf := rem_frozen_step hc hR hF st
  have sst := stable_step hc r st
  obtain ⟨d1, d2, d3, d4, d5⟩ := g
  refine ⟨d1, ?_, ?_, ?_, ?_⟩
  · intro hp
    obtain ⟨a1, a2, a3, a4, a5, a6⟩ := d2 hp
    have s1 := sst _ a2.1; have s2 := sst _ a4.1; have s3 := sst _ a5.1
    refine ⟨(rf _ a1).1, valid_step hc r st a2, by rw [s1.1, s2.1]; exact a3, valid_step hc r st a4,
      valid_step hc r st a5, ?_⟩
    rw [s1.1, s3.1, s1.2.2.1]; exact a6
  · intro hp hm
    have hv := (d2 (by simp only [GcPc]; rcases hp with h | h <;> simp [h])).2.1
    have hm' := mem_L_step hc r st hv hm
    have hpos := fu.2.2.2.2.2.2.2.2.2.1 (by simp only [HasPos]; rcases hp with h | h <;> simp [h])
    have hi0 := fu.2.2.2.2.2.2.2.2.2.2.1 (by rcases hp with h | h <;> simp [h])
    exact rch_step_L hc r st (d3 hp hm') (hpos.2.2.2.2 hi0).2 hm
  · intro hp hm
    have hv := (fu.2.2.2.2.2.2.2.2.2.2.2.2.2.2.2.2.2.2.2.2.2.1 (by rcases hp with h | h | h <;> simp [h])).1
    exact d4 hp (mem_L_step hc r st hv hm)
  · intro hp hm
    have hv := (fu.2.2.2.2.2.2.2.2.2.2.2.2.2.2.2.2.1 (by simp [hp])).1
    exact d5 hp (mem_L_step hc r st hv hm)

/-- in the sorted duplicate-free chain, a member that may not precede `a` is reachable from `a` -/
theorem rch_of_before {c s a b} (hc : c.ownerByOr = false) (r : Reach c s) (ha : a ∈ s.L) (hb : b ∈ s.L) (hab : a ≠ b)
    (hn : ¬ ok s b a) : Rch (nxp s) a b := by
  have ⟨_, _, hL⟩ := invRFL_reach hc r
  obtain ⟨l1, l2, hl, hq2⟩ := pairwise_before hL.g.2.2.2.1 ha hb hab hn
  exact chn_rch (hl ▸ hL.g.2.2.1) (List.mem_cons_of_mem _ hq2)

/-- a path to a linked node does not start at NULL and does not start beyond its reversed hash -/
theorem rch_bound {c s a q} (hc : c.ownerByOr = false) (r : Reach c s) (h : Rch (nxp s) a q) (hq : q ∈ s.L)
    (va : a ≠ 0 → valid s a) : a ≠ 0 ∧ s.rev a ≤ s.rev q := by
  have gf := graph_facts hc r
  have ⟨_, hF, hL⟩ := invRFL_reach hc r
  have q0 : q ≠ 0 := by
    intro e; have := (hL.g.2.1 q).mp hq; rw [e, hF.g.2.1] at this; cases this
  have a0 : a ≠ 0 := by
    intro e; rw [e] at h; exact q0 (rch_fix gf.1 h)
  exact ⟨a0, (rch_mono (P := valid s) (r := s.rev) gf.1 gf.2.1 h (va a0) q0).1⟩

/-- the bucket chosen for hash `h` under a power-of-two size snapshot sorts before `h` -/
theorem bucket_before_sz {c s} (hR : InvR c s) (h sz : Nat) (hsz : sz = 2 ^ Nat.log2 sz ∧ Nat.log2 sz ≤ 63)
    (hne : s.tbl (h % sz) ≠ 0) : s.rev (s.tbl (h % sz)) ≤ bitReverse64 h := by
  have rg := hR.g
  simp only [GR] at rg
  have m := rg.2.2.1 _ hne
  rw [(rg.2.2.2.1 _).1, m.2.1]
  have := bitrev_bucket_le (Nat.log2 sz) h (by omega)
  rw [mask_eq_mod, ← hsz.1] at this
  exact this

/-- a bucket pointer held by a thread is linked, unflagged, a bucket, and in `L` -/
theorem hb_facts {c s t B} (hc : c.ownerByOr = false) (r : Reach c s) (hb : HB s t B) :
    s.life B = .linked ∧ (s.nxt B).rem = false ∧ s.isB B = true ∧ B ∈ s.L ∧ valid s B := by
  have ⟨hR, hF, hL⟩ := invRFL_reach hc r
  have rl := rlim_live hR hF
  simp only [HB, Lim] at hb
  have := (rl.2 (s.hsh B) (by omega)).2
  rw [hb.2.2.1] at this
  exact ⟨this.1, this.2, hb.2.1, (hL.g.2.1 B).mpr this.1, by simp [valid, this.1]⟩

/-- one hop of a gc pass over an unflagged node `p` while the flagged target `q` is still linked -/
theorem gc_hop {c s p q} (hc : c.ownerByOr = false) (r : Reach c s) (h : Rch (nxp s) p q) (hq : q ∈ s.L)
    (hqr : (s.nxt q).rem = true) (hpr : (s.nxt p).rem = false) (hpv : valid s p) :
    Rch (nxp s) (s.nxt p).ptr q ∧ (s.nxt p).ptr ≠ 0 ∧ s.rev (s.nxt p).ptr ≤ s.rev q := by
  have hne : p ≠ q := by intro e; rw [e, hqr] at hpr; cases hpr
  have h1 := rch_next h hne
  have gf := graph_facts hc r
  have hb := rch_bound hc r h1 hq (fun h0 => (gf.2.1 p hpv h0).1)
  exact ⟨h1, hb.1, hb.2⟩

/-- the first hop of a gc pass, from the bucket -/
theorem gc_first {c s t B q} (hc : c.ownerByOr = false) (r : Reach c s) (hb : HB s t B) (hq : q ∈ s.L)
    (hqr : (s.nxt q).rem = true)
    (hord : s.rev B < s.rev q ∨ (s.rev B = s.rev q ∧ s.isB q = false)) :
    Rch (nxp s) (s.nxt B).ptr q ∧ (s.nxt B).ptr ≠ 0 ∧ s.rev (s.nxt B).ptr ≤ s.rev q := by
  obtain ⟨b1, b2, b3, b4, b5⟩ := hb_facts hc r hb
  have hne : B ≠ q := by intro e; rw [e, hqr] at b2; cases b2
  have hn : ¬ ok s q B := by
    simp only [ok, b3]; rcases hord with h | ⟨h1, h2⟩
    · simp; omega
    · simp [h2]; omega
  exact gc_hop hc r (rch_of_before hc r b4 hq hne hn) hq hqr b2 b5

set_option hygiene false in
/-- layer D across one step: heap phase by `TD_heap`, then the change of the acting thread's locals in the new state -/
macro "d_step" extra:tactic : tactic => `(tactic|
  (have r' : Reach c s' := .step r st0
   have ⟨hR, hF, hL⟩ := invRFL_reach hc r
   have ⟨hR', hF', hL'⟩ := invRFL_reach hc r'
   intro u
   by_cases hu : u = t
   · have hu' : t = u := hu.symm
     subst hu'
     have h1 := TD_heap hc r st0 (hD t)
     have e1 : s'.th t = x' := by rw [e_th']; simp [upd]
     have ft' := hF'.t t; have lt' := hL'.t t; have rg' := hR'.g; have ft0 := hF.t t; have lt0 := hL.t t
     rw [e1] at ft' lt'
     simp only [TF] at ft' ft0; simp only [GR] at rg'; simp only [TL] at lt' lt0
     have f10 := ft'.2.2.2.2.2.2.2.2.2.1; have f11 := ft'.2.2.2.2.2.2.2.2.2.2.1
     have f17 := ft'.2.2.2.2.2.2.2.2.2.2.2.2.2.2.2.2.1; have f20 := ft'.2.2.2.2.2.2.2.2.2.2.2.2.2.2.2.2.2.2.2.1
     have f22 := ft'.2.2.2.2.2.2.2.2.2.2.2.2.2.2.2.2.2.2.2.2.2.1
     have f23 := ft'.2.2.2.2.2.2.2.2.2.2.2.2.2.2.2.2.2.2.2.2.2.2.1
     have f9 := ft'.2.2.2.2.2.2.2.2.1
     have l6 := lt0.2.2.2.2.2.1
     have hbf := fun h => hb_facts (t := t) (B := x'.gbkt) hc r' (f20 h)
     have szp := rg'.1
     have rt0 := hR.t t; simp only [TR] at rt0
     have lwk := rt0.2.2.2.2.2.2.1; have zow := rt0.1; have wf := worker_facts hR t
     clear rt0
     have pw := @Nat.log2_two_pow ((s.th t).rord - 1)
     ($extra:tactic)
     clear ft' lt' ft0 lt0 hD
     rw [e1]
     simp only [TD, tgt, InAdd, GcPc] at h1 ⊢
     (try simp only [e_size] at szp)
     grind [Worker, AddPc, GcPc, ZPc, tgt]
   · first
       | (have e1 : s'.th u = s.th u := by rw [e_th']; simp [upd, hu]
          rw [e1]; exact TD_heap hc r st0 (hD u))
       | (have h1 := TD_heap (u := u) hc r st0 (hD u)
          by_cases hu2 : u = v
          · subst hu2
            have e1 : s'.th u = y' := by rw [e_th']; simp [upd, hu]
            rw [e1]; simp only [TD, tgt, InAdd, GcPc, ypc, reduceCtorEq, false_or, or_false, false_and, false_implies,
              implies_true, and_true]
          · have e1 : s'.th u = s.th u := by rw [e_th']; simp [upd, hu, hu2]
            rw [e1]; exact h1)))

set_option hygiene false in
/-- acting thread enters `_cds_lfht_gc_bucket` (`gHead`): only the target clause is non-trivial -/
macro "d_enter" : tactic => `(tactic|
  (have r' : Reach c s' := .step r st0
   have ⟨hR, hF, hL⟩ := invRFL_reach hc r
   have ⟨hR', hF', hL'⟩ := invRFL_reach hc r'
   intro u
   by_cases hu : u = t
   rotate_left
   · have e1 : s'.th u = s.th u := by rw [e_th']; simp [upd, hu]
     rw [e1]; exact TD_heap hc r st0 (hD u)
   have hu' : t = u := hu.symm
   subst hu'
   have e1 : s'.th t = x' := by rw [e_th']; simp [upd]
   have ft' := hF'.t t; have rg' := hR'.g; have lt0 := hL.t t; have d1 := (hD t).1
   rw [e1] at ft'
   simp only [TF] at ft'; simp only [GR] at rg'; simp only [TL] at lt0
   have f17 := ft'.2.2.2.2.2.2.2.2.2.2.2.2.2.2.2.2.1; have f20 := ft'.2.2.2.2.2.2.2.2.2.2.2.2.2.2.2.2.2.2.2.1
   have f22 := ft'.2.2.2.2.2.2.2.2.2.2.2.2.2.2.2.2.2.2.2.2.2.1
   have f23 := ft'.2.2.2.2.2.2.2.2.2.2.2.2.2.2.2.2.2.2.2.2.2.2.1
   have l6 := lt0.2.2.2.2.2.1
   have hgp : GcPc x'.pc := by simp only [GcPc, xpc]; simp
   have hbf := hb_facts (t := t) (B := x'.gbkt) hc r' (f20 hgp)
   clear ft' lt0
   rw [e1]
   simp only [TD, tgt, InAdd, GcPc, xpc, xgcont, reduceCtorEq, ↓reduceIte, false_or, or_false, false_and, and_false, false_implies,
     true_or, or_true, true_implies, implies_true, true_and, and_true]))


end UrcuVerif.Lfht.Conc
