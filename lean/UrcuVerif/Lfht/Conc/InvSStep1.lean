import UrcuVerif.Lfht.Conc.InvSTac
/-!
# Concurrent rculfhash — layer S, threads part: API entry and add/gc steps (proof-only file)
-/
namespace UrcuVerif.Lfht.Conc
open UrcuVerif
set_option linter.unusedSimpArgs false
set_option linter.unusedVariables false

set_option maxHeartbeats 4000000 in
theorem invSt_rlock {c s s' t o} (hc : c.ownerByOr = false) (r : Reach c s) (hS : InvS s)
    (st : step c s t .rlock = some (s', o)) : ∀ u, TS s' (s'.th u) u := by
  have st0 := st
  st_open st
  ts_pre
  intro u
  by_cases hu : u = t
  · have hu' : t = u := hu.symm
    subst hu'
    have hpc : (s.th t).pc = .idle := by assumption
    have hpc' : x'.pc = .idle := by rw [xpc]; exact hpc
    ts_fin
  · ts_other

set_option maxHeartbeats 4000000 in
theorem invSt_runlock {c s s' t o} (hc : c.ownerByOr = false) (r : Reach c s) (hS : InvS s)
    (st : step c s t .runlock = some (s', o)) : ∀ u, TS s' (s'.th u) u := by
  have st0 := st
  st_open st
  ts_pre
  intro u
  by_cases hu : u = t
  · have hu' : t = u := hu.symm
    subst hu'
    have hpc : (s.th t).pc = .idle := by assumption
    have hpc' : x'.pc = .idle := by rw [xpc]; exact hpc
    ts_fin
  · ts_other

set_option maxHeartbeats 4000000 in
theorem invSt_callAdd {c s s' t o m n hh k} (hc : c.ownerByOr = false) (r : Reach c s) (hS : InvS s)
    (st : step c s t (.callAdd m n hh k) = some (s', o)) : ∀ u, TS s' (s'.th u) u := by
  have st0 := st
  st_open st
  all_goals ts_step skip

set_option maxHeartbeats 4000000 in
theorem invSt_callReplace {c s s' t o n hh k} (hc : c.ownerByOr = false) (r : Reach c s) (hS : InvS s)
    (st : step c s t (.callReplace n hh k) = some (s', o)) : ∀ u, TS s' (s'.th u) u := by
  have st0 := st
  st_open st
  all_goals ts_step skip

set_option maxHeartbeats 4000000 in
theorem invSt_callDel {c s s' t o} (hc : c.ownerByOr = false) (r : Reach c s) (hS : InvS s)
    (st : step c s t .callDel = some (s', o)) : ∀ u, TS s' (s'.th u) u := by
  have st0 := st
  st_open st
  all_goals ts_step skip

set_option maxHeartbeats 4000000 in
theorem invSt_callLookup {c s s' t o hh k} (hc : c.ownerByOr = false) (r : Reach c s) (hS : InvS s)
    (st : step c s t (.callLookup hh k) = some (s', o)) : ∀ u, TS s' (s'.th u) u := by
  have st0 := st
  st_open st
  all_goals ts_step skip

set_option maxHeartbeats 4000000 in
theorem invSt_callDup {c s s' t o k} (hc : c.ownerByOr = false) (r : Reach c s) (hS : InvS s)
    (st : step c s t (.callDup k) = some (s', o)) : ∀ u, TS s' (s'.th u) u := by
  have st0 := st
  st_open st
  all_goals ts_step skip

set_option maxHeartbeats 4000000 in
theorem invSt_callNext {c s s' t o} (hc : c.ownerByOr = false) (r : Reach c s) (hS : InvS s)
    (st : step c s t .callNext = some (s', o)) : ∀ u, TS s' (s'.th u) u := by
  have st0 := st
  st_open st
  all_goals ts_step skip

set_option maxHeartbeats 4000000 in
theorem invSt_callFirst {c s s' t o} (hc : c.ownerByOr = false) (r : Reach c s) (hS : InvS s)
    (st : step c s t .callFirst = some (s', o)) : ∀ u, TS s' (s'.th u) u := by
  have st0 := st
  st_open st
  all_goals ts_step skip

set_option maxHeartbeats 4000000 in
theorem invSt_ldSize {c s s' t o} (hc : c.ownerByOr = false) (r : Reach c s) (hS : InvS s)
    (st : step c s t .ldSize = some (s', o)) : ∀ u, TS s' (s'.th u) u := by
  have st0 := st
  st_open st
  all_goals ts_step skip

set_option maxHeartbeats 4000000 in
theorem invSt_ldHeadA {c s s' t o} (hc : c.ownerByOr = false) (r : Reach c s) (hS : InvS s)
    (st : step c s t .ldHeadA = some (s', o)) : ∀ u, TS s' (s'.th u) u := by
  have st0 := st
  st_open st
  all_goals ts_step skip

set_option maxHeartbeats 4000000 in
theorem invSt_ldNextA {c s s' t o} (hc : c.ownerByOr = false) (r : Reach c s) (hS : InvS s)
    (st : step c s t .ldNextA = some (s', o)) : ∀ u, TS s' (s'.th u) u := by
  have st0 := st
  st_open st
  all_goals ts_step skip

set_option maxHeartbeats 4000000 in
theorem invSt_casIns {c s s' t o} (hc : c.ownerByOr = false) (r : Reach c s) (hS : InvS s)
    (st : step c s t .casIns = some (s', o)) : ∀ u, TS s' (s'.th u) u := by
  have st0 := st
  st_open st
  all_goals ts_step skip

set_option maxHeartbeats 4000000 in
theorem invSt_casGc {c s s' t o} (hc : c.ownerByOr = false) (r : Reach c s) (hS : InvS s)
    (st : step c s t .casGc = some (s', o)) : ∀ u, TS s' (s'.th u) u := by
  have st0 := st
  st_open st
  all_goals ts_step skip

end UrcuVerif.Lfht.Conc
