import UrcuVerif.Lfht.Conc.Step3
/-!
# Concurrent rculfhash — proof infrastructure (proof-only file)

`st_open st` turns `st : step c s t l = some (s', o)` into one goal per enabled branch of the step, with
the post-state described by one small equation per field (`e_nxt : s'.nxt = …`, …, `e_th' : s'.th =
upd s.th t x'`) and the new locals of the acting thread by one equation per field of the opaque `x'`
(`xpc : x'.pc = …`, …).  This keeps the 21-field / 31-field record terms out of the goals.
-/
namespace UrcuVerif.Lfht.Conc
open UrcuVerif

theorem State.fields {s' : State} {a1 a2 a3 a4 a5 a6 a7 a8 a9 a10 a11 a12 a13 a14 a15 a16 a17 a18 a19 a20 a21}
    (h : State.mk a1 a2 a3 a4 a5 a6 a7 a8 a9 a10 a11 a12 a13 a14 a15 a16 a17 a18 a19 a20 a21 = s') :
    s'.nxt = a1 ∧ s'.hsh = a2 ∧ s'.rev = a3 ∧ s'.key = a4 ∧ s'.isB = a5 ∧ s'.life = a6 ∧ s'.freed = a7 ∧
    s'.size = a8 ∧ s'.tbl = a9 ∧ s'.alloc = a10 ∧ s'.hi = a11 ∧ s'.th = a12 ∧ s'.rzOwner = a13 ∧ s'.L = a14 ∧
    s'.wins = a15 ∧ s'.dels = a16 ∧ s'.ownRet = a17 ∧ s'.unlAt = a18 ∧ s'.clock = a19 ∧ s'.cs = a20 ∧ s'.uaf = a21 := by
  subst h; simp

/-- the acting thread's new locals, field by field -/
theorem Thr.fields {f th : Nat → Thr} {t : Nat} {b1 b2 b3 b4 b5 b6 b7 b8 b9 b10 b11 b12 b13 b14 b15 b16 b17 b18 b19 b20 b21 b22 b23 b24 b25 b26 b27 b28 b29 b30 b31}
    (h : f = upd th t (Thr.mk b1 b2 b3 b4 b5 b6 b7 b8 b9 b10 b11 b12 b13 b14 b15 b16 b17 b18 b19 b20 b21 b22 b23 b24 b25 b26 b27 b28 b29 b30 b31)) :
    ∃ x' : Thr, f = upd th t x' ∧ x'.pc = b1 ∧ x'.op = b2 ∧ x'.mode = b3 ∧ x'.node = b4 ∧ x'.hs = b5 ∧ x'.sz = b6 ∧
      x'.bkt = b7 ∧ x'.prev = b8 ∧ x'.iter = b9 ∧ x'.nx = b10 ∧ x'.old = b11 ∧ x'.oldnx = b12 ∧ x'.cur = b13 ∧
      x'.wnx = b14 ∧ x'.wk = b15 ∧ x'.rh = b16 ∧ x'.ky = b17 ∧ x'.gbkt = b18 ∧ x'.gnode = b19 ∧ x'.gcont = b20 ∧
      x'.v = b21 ∧ x'.itn = b22 ∧ x'.itx = b23 ∧ x'.rk = b24 ∧ x'.rord = b25 ∧ x'.j = b26 ∧ x'.jend = b27 ∧
      x'.nh = b28 ∧ x'.parent = b29 ∧ x'.pfree = b30 ∧ x'.gpAt = b31 := ⟨_, h, by simp⟩

theorem upd_self {α} (f : Nat → α) (t : Nat) : upd f t (f t) = f := by
  funext j; simp only [upd]; split <;> simp_all

/-- a step that leaves all locals alone -/
theorem Thr.fields_same {f th : Nat → Thr} (t : Nat) (h : f = th) :
    ∃ x' : Thr, f = upd th t x' ∧ x'.pc = (th t).pc ∧ x'.op = (th t).op ∧ x'.mode = (th t).mode ∧ x'.node = (th t).node ∧
      x'.hs = (th t).hs ∧ x'.sz = (th t).sz ∧
      x'.bkt = (th t).bkt ∧ x'.prev = (th t).prev ∧ x'.iter = (th t).iter ∧ x'.nx = (th t).nx ∧ x'.old = (th t).old ∧
      x'.oldnx = (th t).oldnx ∧ x'.cur = (th t).cur ∧
      x'.wnx = (th t).wnx ∧ x'.wk = (th t).wk ∧ x'.rh = (th t).rh ∧ x'.ky = (th t).ky ∧ x'.gbkt = (th t).gbkt ∧
      x'.gnode = (th t).gnode ∧ x'.gcont = (th t).gcont ∧
      x'.v = (th t).v ∧ x'.itn = (th t).itn ∧ x'.itx = (th t).itx ∧ x'.rk = (th t).rk ∧ x'.rord = (th t).rord ∧
      x'.j = (th t).j ∧ x'.jend = (th t).jend ∧
      x'.nh = (th t).nh ∧ x'.parent = (th t).parent ∧ x'.pfree = (th t).pfree ∧ x'.gpAt = (th t).gpAt :=
  ⟨th t, by rw [upd_self]; exact h, by simp⟩

set_option hygiene false in
/-- unfold the step, one goal per enabled branch, post-state as field equations -/
macro "st_open" st:ident : tactic => `(tactic|
  (simp only [step, stepApi, stepAdd, stepWalk, stepRepl, stepGc, stepDel, stepRz, crash, walkPos, walkRet, replTest,
     addDone, gcPos, gcRet, addPos, partItem, levelPart, unlink, setTh, tick] at $st:ident
   repeat' (split at $st:ident)
   all_goals first | (simp at $st:ident; done) | skip
   all_goals (simp only [Option.some.injEq, Prod.mk.injEq] at $st:ident
              obtain ⟨e_nxt, e_hsh, e_rev, e_key, e_isB, e_life, e_freed, e_size, e_tbl, e_alloc, e_hi, e_th, e_rz, e_L, e_wins,
                      e_dels, e_ownRet, e_unlAt, e_clock, e_cs, e_uaf⟩ := State.fields ($st).1
              have e_out := ($st).2
              obtain ⟨x', e_th', xpc, xop, xmode, xnode, xhs, xsz, xbkt, xprev, xiter, xnx, xold, xoldnx, xcur, xwnx, xwk, xrh,
                       xky, xgbkt, xgnode, xgcont, xv, xitn, xitx, xrk, xrord, xj, xjend, xnh, xparent, xpfree, xgpAt⟩ :=
                (by first | exact Thr.fields e_th | exact Thr.fields_same t e_th)
              clear e_th $st)))

set_option hygiene false in
/-- rewrite the post-state away (goal only) -/
macro "st_simp" : tactic => `(tactic|
  simp only [e_nxt, e_hsh, e_rev, e_key, e_isB, e_life, e_freed, e_size, e_tbl, e_alloc, e_hi, e_th', e_rz, e_L, e_wins, e_dels,
    e_ownRet, e_unlAt, e_clock, e_cs, e_uaf, upd, if_true, if_false, ite_true, ite_false])


/-- `spawn` / `join`: the second thread touched by the step -/
theorem Thr.fields2 {f th : Nat → Thr} {t u : Nat} {x' : Thr} {b1 b2 b3 b4 b5 b6 b7 b8 b9 b10 b11 b12 b13 b14 b15 b16 b17 b18 b19 b20 b21 b22 b23 b24 b25 b26 b27 b28 b29 b30 b31}
    (h : f = upd (upd th u (Thr.mk b1 b2 b3 b4 b5 b6 b7 b8 b9 b10 b11 b12 b13 b14 b15 b16 b17 b18 b19 b20 b21 b22 b23 b24 b25 b26 b27 b28 b29 b30 b31)) t x') :
    ∃ y' : Thr, f = upd (upd th u y') t x' ∧ y'.pc = b1 ∧ y'.op = b2 ∧ y'.mode = b3 ∧ y'.node = b4 ∧ y'.hs = b5 ∧ y'.sz = b6 ∧
      y'.bkt = b7 ∧ y'.prev = b8 ∧ y'.iter = b9 ∧ y'.nx = b10 ∧ y'.old = b11 ∧ y'.oldnx = b12 ∧ y'.cur = b13 ∧
      y'.wnx = b14 ∧ y'.wk = b15 ∧ y'.rh = b16 ∧ y'.ky = b17 ∧ y'.gbkt = b18 ∧ y'.gnode = b19 ∧ y'.gcont = b20 ∧
      y'.v = b21 ∧ y'.itn = b22 ∧ y'.itx = b23 ∧ y'.rk = b24 ∧ y'.rord = b25 ∧ y'.j = b26 ∧ y'.jend = b27 ∧
      y'.nh = b28 ∧ y'.parent = b29 ∧ y'.pfree = b30 ∧ y'.gpAt = b31 := ⟨_, h, by simp⟩

set_option hygiene false in
macro "st_open2" : tactic => `(tactic|
  (obtain ⟨y', e_th2, ypc, yop, ymode, ynode, yhs, ysz, ybkt, yprev, yiter, ynx, yold, yoldnx, ycur, ywnx, ywk, yrh,
           yky, ygbkt, ygnode, ygcont, yv, yitn, yitx, yrk, yrord, yj, yjend, ynh, yparent, ypfree, ygpAt⟩ := Thr.fields2 e_th'
   clear e_th'; have e_th' := e_th2; clear e_th2))

theorem two_pow_pred {r : Nat} (h : 1 ≤ r) : 2 ^ r = 2 * 2 ^ (r - 1) := by
  obtain ⟨k, rfl⟩ : ∃ k, r = k + 1 := ⟨r - 1, by omega⟩
  simp [Nat.pow_succ]; omega

theorem bitrev64_zero : bitReverse64 0 = 0 := by rw [bitReverse64_eq, revBits_zero]

end UrcuVerif.Lfht.Conc
