import UrcuVerif.Lfht.Conc.Owner
/-!
# Concurrent rculfhash — per-step facts about `cs`, `freed`, `ownRet`, `tbl`, `rzOwner`, bucket liveness
(proof-only file)
-/
namespace UrcuVerif.Lfht.Conc
open UrcuVerif
set_option linter.unusedSimpArgs false
set_option linter.unusedVariables false

set_option maxHeartbeats 8000000 in
/-- only the acting thread's section changes, and a section that opens is stamped with the current clock -/
theorem cs_step {c s s' t l o} (st : step c s t l = some (s', o)) :
    (∀ w, w ≠ t → s'.cs w = s.cs w) ∧ (∀ b, s'.cs t = some b → s.cs t = some b ∨ b = s.clock) ∧
    s.clock ≤ s'.clock := by
  cases l with
  | spawn u len => st_open st; exact ⟨fun w _ => by rw [e_cs], fun b hb => .inl (by rw [← e_cs]; exact hb), by rw [e_clock]; omega⟩
  | join u => st_open st; exact ⟨fun w _ => by rw [e_cs], fun b hb => .inl (by rw [← e_cs]; exact hb), by rw [e_clock]; omega⟩
  | _ =>
    st_open st
    all_goals
      refine ⟨?_, ?_, by rw [e_clock]; omega⟩
      · intro w hw; simp [e_cs, upd, hw]
      · intro b hb
        first
          | exact .inl (by rw [← e_cs]; exact hb)
          | (simp only [e_cs, upd, if_true] at hb
             first | (injection hb with hb; exact .inr hb.symm) | cases hb)

set_option maxHeartbeats 8000000 in
theorem freed_step {c s s' t l o} (st : step c s t l = some (s', o)) :
    s'.freed = s.freed ∨ (∃ p, l = .reclaim p) ∨ l = .tblFree := by
  cases l with
  | reclaim p => exact .inr (.inl ⟨p, rfl⟩)
  | tblFree => exact .inr (.inr rfl)
  | spawn u len => st_open st; exact .inl e_freed
  | join u => st_open st; exact .inl e_freed
  | _ => st_open st; all_goals exact .inl e_freed

set_option maxHeartbeats 8000000 in
theorem tbl_step {c s s' t l o} (st : step c s t l = some (s', o)) :
    (s'.tbl = s.tbl ∨ (∃ b, l = .tblAlloc b) ∨ l = .tblFree) ∧ (s'.rzOwner = s.rzOwner ∨ l = .rzLock ∨ l = .rzUnlock) := by
  cases l with
  | tblAlloc b => st_open st; exact ⟨.inr (.inl ⟨b, rfl⟩), .inl e_rz⟩
  | tblFree => st_open st; all_goals exact ⟨.inr (.inr rfl), .inl e_rz⟩
  | rzLock => st_open st; exact ⟨.inl e_tbl, .inr (.inl rfl)⟩
  | rzUnlock => st_open st; exact ⟨.inl e_tbl, .inr (.inr rfl)⟩
  | spawn u len => st_open st; exact ⟨.inl e_tbl, .inl e_rz⟩
  | join u => st_open st; exact ⟨.inl e_tbl, .inl e_rz⟩
  | _ => st_open st; all_goals exact ⟨.inl e_tbl, .inl e_rz⟩

set_option maxHeartbeats 8000000 in
/-- `ownRet` is written only by a success return, with the current clock -/
theorem ownRet_step {c s s' t l o} (st : step c s t l = some (s', o)) :
    ∀ p, s'.ownRet p = s.ownRet p ∨ (s'.ownRet p = some s.clock ∧ (succFor s t l o = some p ∨ l = .orOwn)) := by
  cases l with
  | spawn u len => st_open st; intro p; exact .inl (by rw [e_ownRet])
  | join u => st_open st; intro p; exact .inl (by rw [e_ownRet])
  | xchgOwn =>
    st_open st
    all_goals
      intro p; rw [e_ownRet]
      first
        | exact .inl rfl
        | (simp only [upd]; by_cases hp : p = (s.th t).node
           · right; simp only [hp, if_true, succFor, ← e_out]; simp
           · left; simp only [hp, if_false])
  | ldAssertR =>
    st_open st
    all_goals
      intro p; rw [e_ownRet]
      first
        | exact .inl rfl
        | (simp only [upd]; by_cases hp : p = (s.th t).old
           · right; simp only [hp, if_true, succFor, ← e_out]; simp
           · left; simp only [hp, if_false])
  | orOwn =>
    st_open st
    all_goals
      intro p; rw [e_ownRet]
      first
        | exact .inl rfl
        | (simp only [upd]; by_cases hp : p = (s.th t).node
           · right; simp only [hp, if_true]; simp
           · left; simp only [hp, if_false])
  | _ => st_open st; all_goals (intro p; exact .inl (by rw [e_ownRet]))

end UrcuVerif.Lfht.Conc
