import UrcuVerif.Lfht.Conc.InvN
import UrcuVerif.Lfht.Conc.InvSAll
/-!
# Concurrent rculfhash — linearizability: classification of the own steps of a call, tracking along executions
(proof-only file)
-/
namespace UrcuVerif.Lfht.Conc
open UrcuVerif
set_option linter.unusedSimpArgs false
set_option linter.unusedVariables false

/-- after the replace CAS: unlinking the old node, then the final assertion -/
def InRepl (x : Thr) : Prop := (GcPc x.pc ∧ x.gcont = .repl) ∨ x.pc = .rAssert

/-- after the load of `cds_lfht_del` that saw the node unflagged -/
def PostLd (p : Pc) : Prop := p = .dOr ∨ GcPc p ∨ p = .dAssert ∨ p = .dLd2 ∨ p = .dXchg

/-- the ways an `add*` / `replace` / `del` / `lookup` call returns, with what the returning step saw -/
def Ret (s : State) (t : Nat) (l : Label) (o : Out) : Prop :=
  let x := s.th t
  (l = .casIns ∧ x.pc = .aCas ∧ s.nxt x.prev = x.iter ∧
    ((x.mode = .plain ∧ o = .unit) ∨ (x.mode = .uniq ∧ o = .node x.node) ∨ (x.mode = .repl ∧ o = .node 0))) ∨
  (l = .ldAssertW ∧ x.pc = .wAssert ∧ x.wk = .dupAdd ∧ x.mode = .uniq ∧ o = .node x.cur) ∨
  (l = .ldAssertW ∧ x.pc = .wAssert ∧ x.wk ≠ .dupAdd ∧ o = .iter x.cur x.wnx) ∨
  (l = .ldWalk ∧ x.pc = .wNext ∧ x.wk ≠ .dupAdd ∧ found s x (s.nxt x.cur) = false ∧
    ((s.nxt x.cur).ptr = 0 ∨ (x.wk ≠ .next ∧ x.rh < s.rev (s.nxt x.cur).ptr)) ∧ o = .iter 0 {}) ∨
  (l = .ldHeadL ∧ x.pc = .lHead ∧ ((s.nxt x.bkt).ptr = 0 ∨ (x.wk ≠ .next ∧ x.rh < s.rev (s.nxt x.bkt).ptr)) ∧
    o = .iter 0 {}) ∨
  (l = .ldAssertR ∧ x.pc = .rAssert ∧ ((x.op = .replace ∧ o = .ret 0) ∨ (x.op ≠ .replace ∧ o = .node x.old))) ∨
  (l = .ldSize ∧ x.pc = .dSize ∧ x.node = 0 ∧ o = .ret (-ENOENT)) ∨
  (l = .ldDel ∧ x.pc = .dLd ∧ (s.nxt x.node).rem = true ∧ o = .ret (-ENOENT)) ∨
  (l = .xchgOwn ∧ x.pc = .dXchg ∧
    (((s.nxt x.node).own = true ∧ o = .ret (-ENOENT)) ∨ ((s.nxt x.node).own = false ∧ o = .ret 0))) ∨
  (l = .casRepl ∧ x.pc = .rCas ∧ s.nxt x.old ≠ x.oldnx ∧ (s.nxt x.old).rem = true ∧ x.op = .replace ∧ o = .ret (-ENOENT))

/-- an own step inside an `add*` / `replace` / `del` / `lookup` call that does not return -/
def Cont (s s' : State) (t : Nat) (l : Label) (o : Out) : Prop :=
  let x := s.th t; let x' := s'.th t
  x'.op = x.op ∧ x'.hs = x.hs ∧ x'.ky = x.ky ∧ x'.mode = x.mode ∧ x'.node = x.node ∧ (x.op = .replace → x'.old = x.old) ∧
  o = .unit ∧
  (x'.pc = .wAssert → (x.pc = .wAssert ∧ x'.cur = x.cur ∧ x'.wnx = x.wnx) ∨
    (l = .ldWalk ∧ x.pc = .wNext ∧ x'.cur = x.cur ∧ x'.wnx = s.nxt x.cur ∧ found s x (s.nxt x.cur) = true)) ∧
  (InRepl x' → (InRepl x ∧ x'.old = x.old) ∨
    (l = .casRepl ∧ x.pc = .rCas ∧ s.nxt x.old = x.oldnx ∧ okp s x.old = true ∧ x'.old = x.old)) ∧
  (x.op = .del → PostLd x'.pc → PostLd x.pc ∨ (l = .ldDel ∧ x.pc = .dLd ∧ (s.nxt x.node).rem = false)) ∧
  (x.op = .lookup →
    (x'.pc = .lHead → (x.pc = .lHead ∧ x'.bkt = x.bkt) ∨ (l = .ldSize ∧ x.pc = .lSize ∧ x'.bkt = s.tbl (x.hs % s.size))) ∧
    (x'.pc = .wNext → (x.pc = .wNext ∧ x'.cur = x.cur) ∨
      (l = .ldWalk ∧ x.pc = .wNext ∧ x'.cur = (s.nxt x.cur).ptr ∧ found s x (s.nxt x.cur) = false) ∨
      (l = .ldHeadL ∧ x.pc = .lHead ∧ x'.cur = (s.nxt x.bkt).ptr)))

set_option maxHeartbeats 8000000 in
theorem own_step_class {c s s' t l o} (hc : c.ownerByOr = false) (r : Reach c s) (st : step c s t l = some (s', o))
    (hop : (s.th t).op = .add ∨ (s.th t).op = .replace ∨ (s.th t).op = .del ∨ (s.th t).op = .lookup) :
    Cont s s' t l o ∨ ((s'.th t).op = .none ∧ Ret s t l o) := by
  have ⟨hR, hF, hL⟩ := invRFL_reach hc r
  have ncr := no_crash hc r (invS_reach hc r) st
  have hN := invN_reach hc r t; simp only [TN] at hN
  have c0 : ((s.th t).pc = .wNext ∨ (s.th t).pc = .wAssert) → (s.th t).cur ≠ 0 := by
    intro h e; have := (hF.t t).2.2.2.2.2.2.2.2.2.2.2.2.1 h; rw [e] at this; exact this.1 hF.g.2.1
  have ft := hF.t t; simp only [TF] at ft
  have f19 := ft.2.2.2.2.2.2.2.2.2.2.2.2.2.2.2.2.2.2.1
  have wrole := (hR.t t).2.2.1
  have nd := (hF.t t).1
  have l11 := (hL.t t).2.2.2.2.2.2.2.2.2.2.1
  clear ft
  have st0 := st
  cases l with
  | reclaim p =>
    left
    have e := reclaim_th st
    have ho : o = .unit := by
      simp only [step, stepRz] at st
      split at st
      · cases st
      · split at st
        · split at st
          · cases st; rfl
          · cases st
        · cases st
    simp only [Cont, e, ho]; simp
  | spawn v len => exfalso; st_open st; simp only [ZPc, HPc, Worker, AddPc, GcPc] at hN; grind
  | join v => exfalso; st_open st; simp only [ZPc, HPc, Worker, AddPc, GcPc] at hN; grind
  | _ =>
    st_open st
    all_goals
      first
        | (exfalso; exact ncr e_out.symm; done)
        | (exfalso; simp only [ZPc, HPc, Worker, AddPc, GcPc] at hN wrole; grind; done)
        | (have e1 : s'.th t = x' := by rw [e_th']; simp [upd]
           left
           simp only [Cont, e1, xop, xhs, xky, xmode, xnode, xold, xpc, xcur, xwnx, xgcont, xbkt, InRepl, PostLd, GcPc, ← e_out]
           simp only [ZPc, HPc, Worker, AddPc, GcPc] at hN wrole
           grind; done)
        | (have e1 : s'.th t = x' := by rw [e_th']; simp [upd]
           right
           refine ⟨by rw [e1, xop], ?_⟩
           simp only [Ret, ← e_out]
           simp only [ZPc, HPc, Worker, AddPc, GcPc] at hN wrole
           grind [found])

/-- the calls whose linearizability is claimed -/
def OpK (o : Op) : Prop := o = .add ∨ o = .replace ∨ o = .del ∨ o = .lookup

theorem op_none_stays {c s evs s' t} (ex : Exec c s evs s') (h : (s.th t).op = .none) (he : ∃ e, e ∈ evs ∧ e.2.1 = t) :
    ∃ e, e ∈ evs ∧ e.2.1 = t ∧ (e.1.th t).op = .none := by
  induction ex with
  | nil s => obtain ⟨e, he, _⟩ := he; simp at he
  | @cons s u l s1 o evs s2 st _ ih =>
    by_cases hu : u = t
    · exact ⟨(s, u, l, o), List.mem_cons_self, hu, h⟩
    · have h1 : (s1.th t).op = .none := by rw [other_thread_op st hu]; exact h
      obtain ⟨e, he1, he2⟩ := he
      rcases List.mem_cons.mp he1 with rfl | he1
      · exact absurd he2 hu
      · obtain ⟨e', a, b, c'⟩ := ih h1 ⟨e, he1, he2⟩
        exact ⟨e', List.mem_cons_of_mem _ a, b, c'⟩

/-- tracking a property of one call of `t` along an execution: either a witness event is met, or the returning
step happens with the property still in force -/
theorem op_track {c t} (Inv : State → Prop) (Ev Wit Fin : State × Nat × Label × Out → Prop)
    (hown : ∀ s l o s', Reach c s → step c s t l = some (s', o) → Ev (s, t, l, o) → Inv s → OpK (s.th t).op →
      ((s'.th t).op ≠ .none ∧ (Inv s' ∨ Wit (s, t, l, o))) ∨ ((s'.th t).op = .none ∧ Fin (s, t, l, o)))
    (hoth : ∀ s u l o s', u ≠ t → Reach c s → step c s u l = some (s', o) → Ev (s, u, l, o) → Inv s →
      Inv s' ∨ Wit (s, u, l, o))
    {s evs s1} (ex : Exec c s evs s1) (r : Reach c s) (h0 : Inv s) (hev : ∀ e, e ∈ evs → Ev e)
    (hin : ∀ e, e ∈ evs → e.2.1 = t → OpK (e.1.th t).op)
    (hlast : ∃ e, evs.getLast? = some e ∧ e.2.1 = t) (hend : (s1.th t).op = .none) :
    (∃ e, e ∈ evs ∧ Wit e) ∨ (∃ e, evs.getLast? = some e ∧ Fin e) := by
  induction ex with
  | nil s => obtain ⟨e, he, _⟩ := hlast; simp at he
  | @cons s u l s1 o evs s2 st ex' ih =>
    have r1 : Reach c s1 := .step r st
    have hin' : ∀ e, e ∈ evs → e.2.1 = t → OpK (e.1.th t).op := fun e he => hin e (List.mem_cons_of_mem _ he)
    have hev' : ∀ e, e ∈ evs → Ev e := fun e he => hev e (List.mem_cons_of_mem _ he)
    have hev0 := hev (s, u, l, o) List.mem_cons_self
    have lift : ((∃ e, e ∈ evs ∧ Wit e) ∨ (∃ e, evs.getLast? = some e ∧ Fin e)) → evs ≠ [] →
        (∃ e, e ∈ (s, u, l, o) :: evs ∧ Wit e) ∨ (∃ e, ((s, u, l, o) :: evs).getLast? = some e ∧ Fin e) := by
      intro h hne
      rcases h with ⟨e, he, hw⟩ | ⟨e, he, hf⟩
      · exact .inl ⟨e, List.mem_cons_of_mem _ he, hw⟩
      · right; refine ⟨e, ?_, hf⟩
        cases evs with
        | nil => exact absurd rfl hne
        | cons a b => rw [List.getLast?_cons_cons]; exact he
    by_cases hu : u = t
    · subst hu
      have hk := hin (s, u, l, o) List.mem_cons_self rfl
      rcases hown s l o s1 r st hev0 h0 hk with ⟨a1, a2⟩ | ⟨b1, b2⟩
      · cases evs with
        | nil => cases ex'; exact absurd hend a1
        | cons e' rest =>
          have hl' : ∃ e, (e' :: rest).getLast? = some e ∧ e.2.1 = u := by
            obtain ⟨e, he, x⟩ := hlast
            exact ⟨e, by rw [List.getLast?_cons_cons] at he; exact he, x⟩
          rcases a2 with a2 | a2
          · exact lift (ih r1 a2 hev' hin' hl' hend) (by simp)
          · exact .inl ⟨_, List.mem_cons_self, a2⟩
      · cases evs with
        | nil => right; exact ⟨_, by simp, b2⟩
        | cons e' rest =>
          exfalso
          obtain ⟨e, he, x⟩ := hlast
          rw [List.getLast?_cons_cons] at he
          have hm : e ∈ e' :: rest := List.mem_of_getLast? he
          obtain ⟨e2, m1, m2, m3⟩ := op_none_stays ex' b1 ⟨e, hm, x⟩
          have := hin' e2 m1 m2
          simp only [OpK, m3] at this; simp at this
    · cases evs with
      | nil =>
        obtain ⟨e, he, x⟩ := hlast
        simp at he; subst he; exact absurd x hu
      | cons e' rest =>
        have hl' : ∃ e, (e' :: rest).getLast? = some e ∧ e.2.1 = t := by
          obtain ⟨e, he, x⟩ := hlast
          exact ⟨e, by rw [List.getLast?_cons_cons] at he; exact he, x⟩
        rcases hoth s u l o s1 hu r st hev0 h0 with a | a
        · exact lift (ih r1 a hev' hin' hl' hend) (by simp)
        · exact .inl ⟨_, List.mem_cons_self, a⟩

end UrcuVerif.Lfht.Conc
