import UrcuVerif.Lfht.Conc.InvA
/-! Layer A is preserved by every step (part 2) (proof-only file). -/
namespace UrcuVerif.Lfht.Conc
open UrcuVerif
set_option linter.unusedSimpArgs false
set_option linter.unusedVariables false

set_option maxHeartbeats 4000000 in
theorem invA_ldWalk {c s s' t o} (hc : c.ownerByOr = false) (hR : InvR c s) (hF : InvF c s) (hA : InvA s)
    (st : step c s t .ldWalk = some (s', o)) : InvA s' := by
  st_open st
  all_goals a_step hR hF hA

set_option maxHeartbeats 4000000 in
theorem invA_ldAssertW {c s s' t o} (hc : c.ownerByOr = false) (hR : InvR c s) (hF : InvF c s) (hA : InvA s)
    (st : step c s t .ldAssertW = some (s', o)) : InvA s' := by
  st_open st
  all_goals a_step hR hF hA

set_option maxHeartbeats 4000000 in
theorem invA_ldHeadL {c s s' t o} (hc : c.ownerByOr = false) (hR : InvR c s) (hF : InvF c s) (hA : InvA s)
    (st : step c s t .ldHeadL = some (s', o)) : InvA s' := by
  st_open st
  all_goals a_step hR hF hA

set_option maxHeartbeats 4000000 in
theorem invA_ldFirst {c s s' t o} (hc : c.ownerByOr = false) (hR : InvR c s) (hF : InvF c s) (hA : InvA s)
    (st : step c s t .ldFirst = some (s', o)) : InvA s' := by
  st_open st
  all_goals a_step hR hF hA

set_option maxHeartbeats 4000000 in
theorem invA_casRepl {c s s' t o} (hc : c.ownerByOr = false) (hR : InvR c s) (hF : InvF c s) (hA : InvA s)
    (st : step c s t .casRepl = some (s', o)) : InvA s' := by
  st_open st
  all_goals a_step hR hF hA

set_option maxHeartbeats 4000000 in
theorem invA_ldAssertR {c s s' t o} (hc : c.ownerByOr = false) (hR : InvR c s) (hF : InvF c s) (hA : InvA s)
    (st : step c s t .ldAssertR = some (s', o)) : InvA s' := by
  st_open st
  all_goals a_step hR hF hA

set_option maxHeartbeats 4000000 in
theorem invA_ldHeadG {c s s' t o} (hc : c.ownerByOr = false) (hR : InvR c s) (hF : InvF c s) (hA : InvA s)
    (st : step c s t .ldHeadG = some (s', o)) : InvA s' := by
  st_open st
  all_goals a_step hR hF hA

set_option maxHeartbeats 4000000 in
theorem invA_ldNextG {c s s' t o} (hc : c.ownerByOr = false) (hR : InvR c s) (hF : InvF c s) (hA : InvA s)
    (st : step c s t .ldNextG = some (s', o)) : InvA s' := by
  st_open st
  all_goals a_step hR hF hA

set_option maxHeartbeats 4000000 in
theorem invA_ldDel {c s s' t o} (hc : c.ownerByOr = false) (hR : InvR c s) (hF : InvF c s) (hA : InvA s)
    (st : step c s t .ldDel = some (s', o)) : InvA s' := by
  st_open st
  all_goals a_step hR hF hA

set_option maxHeartbeats 4000000 in
theorem invA_orRem {c s s' t o} (hc : c.ownerByOr = false) (hR : InvR c s) (hF : InvF c s) (hA : InvA s)
    (st : step c s t .orRem = some (s', o)) : InvA s' := by
  st_open st
  all_goals a_step hR hF hA

set_option maxHeartbeats 4000000 in
theorem invA_ldAssertD {c s s' t o} (hc : c.ownerByOr = false) (hR : InvR c s) (hF : InvF c s) (hA : InvA s)
    (st : step c s t .ldAssertD = some (s', o)) : InvA s' := by
  st_open st
  all_goals a_step hR hF hA

set_option maxHeartbeats 4000000 in
theorem invA_ldDel2 {c s s' t o} (hc : c.ownerByOr = false) (hR : InvR c s) (hF : InvF c s) (hA : InvA s)
    (st : step c s t .ldDel2 = some (s', o)) : InvA s' := by
  st_open st
  all_goals a_step hR hF hA

set_option maxHeartbeats 4000000 in
theorem invA_xchgOwn {c s s' t o} (hc : c.ownerByOr = false) (hR : InvR c s) (hF : InvF c s) (hA : InvA s)
    (st : step c s t .xchgOwn = some (s', o)) : InvA s' := by
  st_open st
  all_goals a_step hR hF hA

end UrcuVerif.Lfht.Conc
