import UrcuVerif.Lfht.Conc.NxpStep
import UrcuVerif.Lfht.Conc.Stable
import UrcuVerif.Lfht.Conc.Resident
/-!
# Concurrent rculfhash — layer U: frozen edges point forward in time (proof-only file)

`frozen_points_forward`: the `next` of an unlinked node is the successor it had when it was unlinked; that
successor is still linked, or was unlinked later (ghost unlink times strictly increase along frozen edges).
Hence following `next` pointers from any published node reaches `L` after finitely many hops — the basis of
the wait-freedom bound of lookups / traversals (C17).
-/
namespace UrcuVerif.Lfht.Conc
open UrcuVerif
set_option linter.unusedSimpArgs false
set_option linter.unusedVariables false

def GU (s : State) : Prop :=
  (∀ p, s.life p = .unlinked → s.unlAt p < s.clock) ∧
  (∀ p, s.life p = .unlinked → nxp s p = 0 ∨ s.life (nxp s p) = .linked ∨
    (s.life (nxp s p) = .unlinked ∧ s.unlAt p < s.unlAt (nxp s p)))

theorem invU_init : GU init := by
  refine ⟨?_, ?_⟩ <;> intro p h <;> simp [init] at h <;> split at h <;> cases h

set_option hygiene false in
macro "u_same" : tactic => `(tactic|
  (obtain ⟨u1, u2⟩ := hU
   refine ⟨?_, ?_⟩
   · intro p hp; simp only [e_life, e_unlAt, e_clock] at hp ⊢; have := u1 p hp; omega
   · intro p hp; simp only [e_life, e_unlAt, nxp, e_nxt] at hp ⊢; exact u2 p hp))

set_option hygiene false in
/-- `life` changes only on nodes that are not published yet, `next` pointers and unlink times are unchanged -/
macro "u_alloc" hF:ident : tactic => `(tactic|
  (obtain ⟨u1, u2⟩ := hU
   have fg := ($hF).g; simp only [GF] at fg
   refine ⟨?_, ?_⟩
   · intro p hp
     have := fg.1 p; simp only [GFn] at this
     have hp' : s.life p = .unlinked := by simp only [e_life, upd] at hp; grind
     simp only [e_unlAt, e_clock]; have := u1 p hp'; omega
   · intro p hp
     have g1 := fg.1 p; have g2 := fg.1 (nxp s p); simp only [GFn] at g1 g2
     have hp' : s.life p = .unlinked := by simp only [e_life, upd] at hp; grind
     have := u2 p hp'
     simp only [nxp, e_nxt, e_life, e_unlAt, upd] at this ⊢
     grind))

set_option hygiene false in
/-- a flag update: pointer parts, life cycle and unlink times are unchanged -/
macro "u_flag" hF:ident : tactic => `(tactic|
  (obtain ⟨u1, u2⟩ := hU
   have ftt := ($hF).t t; simp only [TF] at ftt
   have hpt : ∀ p, (s'.nxt p).ptr = (s.nxt p).ptr := by
     intro p; simp only [e_nxt, upd]
     by_cases h2 : p = (s.th t).node <;> simp only [h2, if_true, if_false] <;> grind
   clear ftt
   refine ⟨?_, ?_⟩
   · intro p hp; simp only [e_life, e_unlAt, e_clock] at hp ⊢; have := u1 p hp; omega
   · intro p hp; simp only [e_life, e_unlAt, nxp, hpt] at hp ⊢; exact u2 p hp))

set_option hygiene false in
/-- an insertion: `nd` (private so far) becomes linked behind the linked node `pv` -/
macro "u_ins" hc:ident r:ident pv:term "," nd:term : tactic => `(tactic|
  (obtain ⟨u1, u2⟩ := hU
   have gf := graph_facts $hc $r
   have ⟨hR, hF, hL⟩ := invRFL_reach $hc $r
   vis_open hR hF hL
   have kf : s.life $pv = .linked ∧ s.life $nd = .priv := by
     clear fgn g1 g2 g3 g4 g5 u1 u2 gf
     grind [valid, vz, Pend, HasPos, Worker, AddPc, InPhase, okp]
   clear ftt rtt fgn g1 g2 g3 g4 g5
   refine ⟨?_, ?_⟩
   · intro p hp
     have hp' : s.life p = .unlinked := by simp only [e_life, upd] at hp; grind
     simp only [e_unlAt, e_clock]; have := u1 p hp'; omega
   · intro p hp
     have hp' : s.life p = .unlinked := by simp only [e_life, upd] at hp; grind
     have := u2 p hp'; have := gf.2.2 p
     have h1 : p ≠ $pv := by intro e; rw [e, kf.1] at hp'; cases hp'
     have h2 : p ≠ $nd := by intro e; rw [e, kf.2] at hp'; cases hp'
     simp only [nxp, e_nxt, e_life, e_unlAt, upd, h1, h2, if_false] at *
     grind))

set_option maxHeartbeats 4000000 in
theorem invU_step {c s s' t l o} (hc : c.ownerByOr = false) (r : Reach c s) (hU : GU s)
    (st : step c s t l = some (s', o)) : GU s' := by
  have ⟨hR, hF, hL⟩ := invRFL_reach hc r
  cases l with
  | callAdd m n h k => st_open st; all_goals u_alloc hF
  | callReplace n h k => st_open st; all_goals u_alloc hF
  | tblAlloc base =>
    st_open st
    all_goals simp only [inRange, Bool.and_eq_true, decide_eq_true_eq] at *
    all_goals
      obtain ⟨u1, u2⟩ := hU
      have fg := hF.g; simp only [GF] at fg
      have hfr : ∀ p, s.life p ≠ .fresh → s'.life p = s.life p := by
        intro p hp; have := (fg.1 p).1; rw [e_life]; simp only
        have hr : ¬ (base ≤ p ∧ p < base + 2 ^ s.size.log2) := by grind
        simp [hr]
      have hun : ∀ p, s'.life p = .unlinked → s.life p = .unlinked := by
        intro p hp; rw [e_life] at hp; simp only at hp; split at hp <;> simp_all
      refine ⟨?_, ?_⟩
      · intro p hp; simp only [e_unlAt, e_clock]; have := u1 p (hun p hp); omega
      · intro p hp
        have := u2 p (hun p hp)
        simp only [nxp, e_nxt, e_unlAt] at this ⊢
        rcases this with h | h | h
        · exact .inl h
        · exact .inr (.inl (by rw [hfr _ (by rw [h]; simp)]; exact h))
        · exact .inr (.inr ⟨by rw [hfr _ (by rw [h.1]; simp)]; exact h.1, h.2⟩)
  | orRem => st_open st; all_goals first | (u_same; done) | u_flag hF
  | xchgOwn => st_open st; all_goals first | (u_same; done) | u_flag hF
  | orBkt => st_open st; all_goals first | (u_same; done) | u_flag hF
  | orOwn => st_open st; all_goals first | (u_same; done) | u_flag hF
  | casIns => st_open st; all_goals first | (u_same; done) | u_ins hc r (s.th t).prev, (s.th t).node
  | casRepl => st_open st; all_goals first | (u_same; done) | u_ins hc r (s.th t).old, (s.th t).node
  | casGc =>
    st_open st
    all_goals first | (u_same; done) | skip
    all_goals
      obtain ⟨u1, u2⟩ := hU
      vis_open hR hF hL
      have kf : s.life (s.th t).prev = .linked ∧ (s.nxt (s.th t).prev).ptr = (s.th t).iter.ptr ∧ (s.th t).iter.ptr ≠ 0 ∧
          (s.nxt (s.th t).iter.ptr).rem = true ∧ (s.nxt (s.th t).prev).rem = false := by
        clear fgn g1 g2 g3 g4 g5 u1 u2
        grind [valid, vz, Pend, HasPos, okp]
      obtain ⟨k1, k2, k3, k4, k5⟩ := kf
      have hpL := (g2 _).mpr k1
      have hcL : (s.th t).iter.ptr ∈ s.L := by
        have := chn_next_mem g3 hpL (by simp only [nxp, k2]; exact k3); simpa only [nxp, k2] using this
      have hcl := (g2 _).mp hcL
      have hpc : (s.th t).prev ≠ (s.th t).iter.ptr := by intro e; rw [e, k4] at k5; cases k5
      have hcn : nxp s (s.th t).iter.ptr = 0 ∨ s.life (nxp s (s.th t).iter.ptr) = .linked := by
        by_cases h0 : nxp s (s.th t).iter.ptr = 0
        · exact .inl h0
        · exact .inr ((g2 _).mp (chn_next_mem g3 hcL h0))
      have hself : nxp s (s.th t).iter.ptr ≠ (s.th t).iter.ptr := by
        intro e
        obtain ⟨l1, l2, hl⟩ := List.append_of_mem hcL
        cases l2 with
        | nil => have := chn_last (hl ▸ g3); rw [this] at e; exact k3 e.symm
        | cons b l2 =>
          have hb := chn_succ (hl ▸ g3); rw [e] at hb
          have nd := g1; rw [hl] at nd
          have := (List.nodup_append.mp nd).2.1
          rw [hb] at this; simp at this
      clear ftt rtt fgn g4 g5
      refine ⟨?_, ?_⟩
      · intro p hp
        simp only [e_life, e_unlAt, e_clock, upd] at hp ⊢
        by_cases e : p = (s.th t).iter.ptr
        · simp only [e, if_true]; omega
        · simp only [e, if_false] at hp ⊢; have := u1 p hp; omega
      · intro p hp
        simp only [e_life, upd] at hp
        by_cases e : p = (s.th t).iter.ptr
        · -- the node just unlinked: its successor is linked
          subst e
          have hne : (s.th t).iter.ptr ≠ (s.th t).prev := Ne.symm hpc
          simp only [nxp, e_nxt, e_life, e_unlAt, upd, hne, if_false, if_true]
          simp only [nxp] at hcn hself
          rcases hcn with h | h
          · exact .inl h
          · exact .inr (.inl (by simp only [hself, if_false]; exact h))
        · simp only [e, if_false] at hp
          have hpp : p ≠ (s.th t).prev := by intro e2; rw [e2, k1] at hp; cases hp
          have := u2 p hp; have := u1 p hp
          simp only [nxp, e_nxt, e_life, e_unlAt, upd, hpp, e, if_false] at *
          by_cases e3 : (s.nxt p).ptr = (s.th t).iter.ptr
          · simp only [e3, if_true]; right; right; exact ⟨trivial, by omega⟩
          · simp only [e3, if_false]; assumption
  | _ => st_open st; all_goals u_same

theorem invU_reach {c s} (hc : c.ownerByOr = false) (r : Reach c s) : GU s := by
  induction r with
  | init => exact invU_init
  | step r st ih => exact invU_step hc r ih st

end UrcuVerif.Lfht.Conc
