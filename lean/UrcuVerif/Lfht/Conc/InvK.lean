import UrcuVerif.Lfht.Conc.RchBack
import UrcuVerif.Lfht.Conc.C06Thms
/-!
# Concurrent rculfhash — layer K: scan coverage of `add_unique` / `add_replace` (proof-only file)

For a key `k` that is only ever added with `add_unique` / `add_replace` / `replace` and always with the same hash:
* `GK`: all nodes with key `k` carry the same reversed hash, and at most one of them is visible;
* `Cov`: while a thread scans the run of equal reversed hashes for a duplicate of `k` (and afterwards, until its
  insertion CAS), every visible node with key `k` that can be reached from the head of the run it recorded
  (`iter`) is still ahead of the scan.  New nodes with key `k` are linked before that head (at the run head of the
  moment, `unique_inserts_at_run_head`), or right behind the visible one they replace.
-/
namespace UrcuVerif.Lfht.Conc
open UrcuVerif
set_option linter.unusedSimpArgs false
set_option linter.unusedVariables false

/-- usage restriction of C06 on key `k`: it is only added with `add_unique` / `add_replace` / `replace`, always with
hash `hk` -/
def UniqUse (k hk : Nat) : Label → Prop
  | .callAdd m _ h k' => k' = k → (m ≠ .plain ∧ h = hk)
  | .callReplace _ h k' => k' = k → h = hk
  | _ => True

def GK (k hk : Nat) (s : State) : Prop :=
  (∀ p, s.life p ≠ .fresh → s.isB p = false → s.key p = k → s.rev p = bitReverse64 hk) ∧
  (∀ p q, vis s p → vis s q → s.key p = k → s.key q = k → p = q)

/-- scanning for a duplicate, or done scanning and about to insert -/
def Scan (x : Thr) : Prop := (x.mode = .uniq ∨ x.mode = .repl) ∧ (x.pc = .aCas ∨ (x.pc = .wNext ∧ x.wk = .dupAdd))

def Cov (k : Nat) (s : State) (x : Thr) : Prop :=
  ∀ q, vis s q → s.key q = k → Rch (nxp s) x.iter.ptr q → x.pc = .wNext ∧ Rch (nxp s) x.cur q

def TK (k : Nat) (s : State) (x : Thr) : Prop :=
  (Pend x → s.key x.node = k → x.mode ≠ .plain) ∧ (Scan x → s.key x.node = k → Cov k s x)

structure InvK (k hk : Nat) (s : State) : Prop where
  g : GK k hk s
  t : ∀ u, TK k s (s.th u)

theorem invK_init {k hk} : InvK k hk init := by
  refine ⟨⟨?_, ?_⟩, ?_⟩
  · intro p h; simp only [init] at h; split at h <;> simp_all [init]
  · intro p q hp hq; simp only [vis, init] at hp hq
    have h1 := hp.1; have h2 := hq.1; simp at h1 h2; omega
  · intro u; simp [TK, init, Pend, Scan]

set_option maxHeartbeats 8000000 in
/-- how a step changes the graph and the visible set: nothing new / the insertion CAS / the replace CAS / an unlink -/
theorem ins_step {c s s' t l o} (hc : c.ownerByOr = false) (r : Reach c s) (st : step c s t l = some (s', o)) :
    ((GSame s s' ∨ ∃ p k, GUnl s s' p k) ∧ ∀ q, vis s' q → vis s q) ∨
    (l = .casIns ∧ GIns s s' (s.th t).prev (s.th t).node ∧ (s.th t).pc = .aCas ∧ s.nxt (s.th t).prev = (s.th t).iter ∧
      ∀ q, vis s' q → q = (s.th t).node ∨ vis s q) ∨
    (l = .casRepl ∧ GIns s s' (s.th t).old (s.th t).node ∧ (s.th t).pc = .rCas ∧ s.nxt (s.th t).old = (s.th t).oldnx ∧
      okp s (s.th t).old = true) := by
  have ⟨hR, hF, hL⟩ := invRFL_reach hc r
  have hvs := vis_step hc r st
  have hgs := graph_step hc r st
  have st0 := st
  cases l with
  | casIns =>
    st_open st
    all_goals first | (left; exact ⟨by gs_same, fun q h => by simpa only [vis, e_L, e_isB, e_nxt] using h⟩; done) | skip
    all_goals
      right; left
      have hpc : (s.th t).pc = .aCas := by assumption
      have hcas : s.nxt (s.th t).prev = (s.th t).iter := by assumption
      refine ⟨rfl, ?_, hpc, hcas, ?_⟩
      rotate_left
      · intro q hq
        rcases hvs with h | ⟨_, h⟩ | ⟨h, _⟩ | ⟨h, _⟩
        · exact .inr ((h q).mp hq)
        · exact (h q).mp hq
        · cases h
        · cases h
      vis_open hR hF hL
      have kf : s.life (s.th t).prev = .linked ∧ s.life (s.th t).node = .priv ∧ (s.th t).iter.ptr = (s.nxt (s.th t).prev).ptr ∧
          (s.th t).node ≠ 0 := by
        clear fgn g1 g2 g3 g4 g5 hvs hgs
        grind [valid, vz, Pend, HasPos, Worker, AddPc, InPhase, okp]
      obtain ⟨k1, k2, k3, k4⟩ := kf
      have hne : (s.th t).prev ≠ (s.th t).node := by intro e; rw [e, k2] at k1; cases k1
      refine ⟨⟨?_, ?_, ?_, k2, by simp [valid, k1], k4⟩, e_L, ?_, ?_, k1, e_unlAt⟩
      · simp only [nxp, e_nxt, upd, if_true]
      · simp only [nxp, e_nxt, upd, Ne.symm hne, if_false, if_true]; exact k3
      · intro x h1 h2; simp only [nxp, e_nxt, upd, h1, h2, if_false]
      · intro q hq; simp only [e_life, upd, hq, if_false]
      · simp only [e_life, upd, if_true]
  | casRepl =>
    st_open st
    all_goals first | (left; exact ⟨by gs_same, fun q h => by simpa only [vis, e_L, e_isB, e_nxt] using h⟩; done) | skip
    all_goals
      right; right
      have hpc : (s.th t).pc = .rCas := by assumption
      have hcas : s.nxt (s.th t).old = (s.th t).oldnx := by assumption
      have hok : okp s (s.th t).old = true := by grind
      refine ⟨rfl, ?_, hpc, hcas, hok⟩
      vis_open hR hF hL
      have kf : s.life (s.th t).old = .linked ∧ s.life (s.th t).node = .priv ∧ (s.th t).oldnx.ptr = (s.nxt (s.th t).old).ptr ∧
          (s.th t).node ≠ 0 := by
        clear fgn g1 g2 g3 g4 g5 hvs hgs
        grind [valid, vz, Pend, HasPos, okp]
      obtain ⟨k1, k2, k3, k4⟩ := kf
      have hne : (s.th t).old ≠ (s.th t).node := by intro e; rw [e, k2] at k1; cases k1
      refine ⟨⟨?_, ?_, ?_, k2, by simp [valid, k1], k4⟩, e_L, ?_, ?_, k1, e_unlAt⟩
      · simp only [nxp, e_nxt, upd, if_true]
      · simp only [nxp, e_nxt, upd, Ne.symm hne, if_false, if_true]; exact k3
      · intro x h1 h2; simp only [nxp, e_nxt, upd, h1, h2, if_false]
      · intro q hq; simp only [e_life, upd, hq, if_false]
      · simp only [e_life, upd, if_true]
  | _ =>
    left
    refine ⟨?_, ?_⟩
    · rcases hgs with h | ⟨p, n, h⟩ | h
      · exact .inl h
      · exfalso
        have hn : n ∈ s'.L := by rw [h.2.1]; exact (mem_insAfter ((hL.g.2.1 p).mpr h.2.2.2.2.1)).mpr (.inl rfl)
        have hnl : n ∉ s.L := by intro hm; have := (hL.g.2.1 n).mp hm; rw [h.1.2.2.2.1] at this; cases this
        revert hn hnl
        st_open st0 <;> (rw [e_L]; intro a b; first | exact b a | exact b (List.mem_of_mem_erase a))
      · exact .inr h
    · intro q hq
      rcases hvs with h | ⟨h, _⟩ | ⟨_, h⟩ | ⟨h, _⟩
      · exact (h q).mp hq
      · cases h
      · exact ((h q).mp hq).2
      · cases h

theorem low_contra {R ri rp : Nat} {bi bp : Bool} (h3 : R < ri ∨ (R = ri ∧ bi = false)) (h14 : rp < R ∨ (rp = R ∧ bp = true))
    (hok : (ri = rp ∧ bi = bp) ∨ ri < rp ∨ (ri = rp ∧ (bp = false ∨ bi = true))) : False := by
  rcases h3 with a | ⟨a, b⟩ <;> rcases h14 with c | ⟨c, d⟩ <;> rcases hok with ⟨e, f⟩ | e | ⟨e, f | f⟩ <;>
    first | omega | (subst_vars; simp_all)

/-- the node of a pending unique add with key `k`: private, not a bucket, reversed hash of `k` -/
theorem pend_node {c k hk s u} (hc : c.ownerByOr = false) (r : Reach c s) (hK : InvK k hk s) (hp : Pend (s.th u))
    (hk1 : s.key (s.th u).node = k) :
    s.life (s.th u).node = .priv ∧ s.isB (s.th u).node = false ∧ s.rev (s.th u).node = bitReverse64 hk ∧
    (s.th u).mode ≠ .plain := by
  have ⟨_, hF, _⟩ := invRFL_reach hc r
  have f6 := (hF.t u).2.2.2.2.2.1 hp
  exact ⟨f6.1, f6.2.2, hK.g.1 _ (by rw [f6.1]; simp) f6.2.2 hk1, (hK.t u).1 hp hk1⟩

set_option maxHeartbeats 1000000 in
/-- layer K for a thread whose locals the step did not touch -/
theorem TK_other {c k hk s s' t l o u} (hc : c.ownerByOr = false) (r : Reach c s) (st : step c s t l = some (s', o))
    (hK : InvK k hk s) : TK k s' (s.th u) := by
  have r' : Reach c s' := .step r st
  have ⟨hR, hF, hL⟩ := invRFL_reach hc r
  have ⟨hR', hF', hL'⟩ := invRFL_reach hc r'
  have stable := stable_step hc r st
  have fu := hF.t u; simp only [TF] at fu
  have lu := hL.t u; simp only [TL] at lu
  have ku := hK.t u
  have gf := graph_facts hc r
  have gf' := graph_facts hc r'
  refine ⟨?_, ?_⟩
  · intro hp hk1
    have f6 := fu.2.2.2.2.2.1 hp
    rw [(stable _ (by rw [f6.1]; simp)).2.1] at hk1
    exact ku.1 hp hk1
  · intro hsc hk1 q hv' hkq hr'
    have hp : Pend (s.th u) := by
      refine ⟨by rcases hsc.1 with h | h <;> simp [h], ?_⟩
      rcases hsc.2 with h | ⟨h1, h2⟩
      · simp [h]
      · simp [h1, h2]
    have f6 := fu.2.2.2.2.2.1 hp
    rw [(stable _ (by rw [f6.1]; simp)).2.1] at hk1
    obtain ⟨n1, n2, n3, n4⟩ := pend_node hc r hK hp hk1
    have hpos : HasPos (s.th u) := by
      simp only [HasPos]
      rcases hsc.2 with h | ⟨h1, h2⟩
      · simp [h]
      · simp [h1, h2]
    have f10 := fu.2.2.2.2.2.2.2.2.2.1 hpos
    have cov := ku.2 hsc hk1
    have q0 : q ≠ 0 := by
      intro e; have := (hL'.g.2.1 q).mp hv'.1; rw [e, hF'.g.2.1] at this; cases this
    have i0 : (s.th u).iter.ptr ≠ 0 := by
      intro e; rw [e] at hr'; exact q0 (rch_fix gf'.1 hr')
    have vi := f10.2.2.2.2 i0
    have old : vis s q → (s.th u).pc = .wNext ∧ Rch (nxp s') (s.th u).cur q := by
      intro hv
      have hql := (hL.g.2.1 q).mp hv.1
      have hkq' : s.key q = k := by rw [← (stable q (by rw [hql]; simp)).2.1]; exact hkq
      have back := rch_step_back hc r st hr' vi.2 (by rw [hql]; simp)
      have ⟨h1, h2⟩ := cov q hv hkq' back
      exact ⟨h1, rch_step hc r st h2 (fu.2.2.2.2.2.2.2.2.2.2.2.2.1 (.inl h1)).2 hv.2.2⟩
    have l3 := lu.2.2.1 (by
      rcases hsc.2 with h | ⟨h1, h2⟩
      · exact .inl h
      · exact .inr ⟨.inl h1, h2⟩)
    rcases ins_step hc r st with ⟨_, h⟩ | ⟨rfl, gi, hpc, hcas, h⟩ | ⟨rfl, gi, hpc, hcas, hok⟩
    · exact old (h q hv')
    · rcases h q hv' with rfl | hv
      rotate_left
      · exact old hv
      exfalso
      obtain ⟨⟨i1, i2, i3, i4, i5, i6⟩, eL, elife, _, hpl, _⟩ := gi
      have ft := hF.t t; simp only [TF] at ft
      have lt := hL.t t; simp only [TL] at lt
      have st4 := stable (s.th t).node (by rw [i4]; simp)
      have hb4 : s.isB (s.th t).node = false := by rw [← st4.2.2.1]; exact hv'.2.1
      have hk4 : s.key (s.th t).node = k := by rw [← st4.2.1]; exact hkq
      have hmb : (s.th t).mode ≠ .bkt := by
        intro hm
        have hw : Worker (s.th t) := .inl ⟨by simp [AddPc, hpc], hm⟩
        have rt := hR.t t; simp only [TR] at rt
        have wi := rt.2.2.2.2.2.2.2.2.2.2.2.2.2.1 hw (by rw [hpc]; simp)
        obtain ⟨w1, w2, w3, w4, w5, w6, w7, _⟩ := worker_facts hR t (.inl hw)
        have rg := hR.g; simp only [GR] at rg
        have := (rg.2.2.1 (s.th t).j (w7 _ (by omega))).1
        rw [← wi.2, hb4] at this; cases this
      have hpt : Pend (s.th t) := ⟨hmb, by simp [hpc]⟩
      obtain ⟨m1, m2, m3, m4⟩ := pend_node hc r hK hpt hk4
      have l14 := lt.2.2.2.2.2.2.2.2.2.2.2.2.2.1 (by cases hm : (s.th t).mode <;> simp_all) (.inr (.inl hpc))
      have hn : ∀ x, nxp s x ≠ (s.th t).node := by intro x e; have := gf.2.2 x; rw [e, i4] at this; exact this rfl
      have ne : (s.th u).iter.ptr ≠ (s.th t).node := by intro e; rw [e] at vi; exact vi.2 i4
      have hb := rch_insert_new i1 i3 hn hr' rfl ne
      have l3' : bitReverse64 hk < s.rev (s.th u).iter.ptr ∨
          (bitReverse64 hk = s.rev (s.th u).iter.ptr ∧ s.isB (s.th u).iter.ptr = false) := by
        rw [n3] at l3
        rcases l3 with h | h | ⟨h1, h2 | h2⟩
        · exact absurd h i0
        · exact .inl h
        · exact absurd h2 hp.1
        · exact .inr ⟨h1, h2⟩
      rw [m3] at l14
      by_cases e : (s.th u).iter.ptr = (s.th t).prev
      · exact low_contra l3' l14 (.inl ⟨by rw [e], by rw [e]⟩)
      · have hok := rch_ok hc r hb vi (by intro e0; rw [e0] at i5; exact i5.1 hF.g.2.1) e
        simp only [ok] at hok
        exact low_contra l3' l14 (.inr hok)
    · obtain ⟨_, _, _, _, hkey, hrev, vo, nvn, vn', nvo', hvis, _⟩ := replace_atomic_step hc r st hcas hok
      rcases (hvis q).mp hv' with rfl | ⟨_, hv⟩
      rotate_left
      · exact old hv
      obtain ⟨⟨i1, i2, i3, i4, i5, i6⟩, eL, elife, _, hpl, _⟩ := gi
      have st4 := stable (s.th t).node (by rw [i4]; simp)
      have hk4 : s.key (s.th t).old = k := by rw [← hkey, ← st4.2.1]; exact hkq
      have hn : ∀ x, nxp s x ≠ (s.th t).node := by intro x e; have := gf.2.2 x; rw [e, i4] at this; exact this rfl
      have ne : (s.th u).iter.ptr ≠ (s.th t).node := by intro e; rw [e] at vi; exact vi.2 i4
      have hb := rch_insert_new i1 i3 hn hr' rfl ne
      have ⟨h1, h2⟩ := cov _ vo hk4 hb
      have h3 := rch_step hc r st h2 (fu.2.2.2.2.2.2.2.2.2.2.2.2.1 (.inl h1)).2 vo.2.2
      exact ⟨h1, rch_trans h3 (.head (by rw [i1]; exact .refl _))⟩


end UrcuVerif.Lfht.Conc
