import UrcuVerif.Lfht.Conc.NoCrash
/-!
# Concurrent rculfhash — layer S: the global part (who may be freed) is preserved by every step (proof-only file)
-/
namespace UrcuVerif.Lfht.Conc
open UrcuVerif
set_option linter.unusedSimpArgs false
set_option linter.unusedVariables false

theorem orOwn_dead {c s s' t o} (hc : c.ownerByOr = false) (r : Reach c s) (st : step c s t .orOwn = some (s', o)) : False := by
  have nd := ((invRFL_reach hc r).2.1.t t).1
  st_open st
  all_goals (apply nd; assumption)

/-- the node handed to a caller is unlinked -/
theorem succ_unlinked {c s s' t l o p} (hc : c.ownerByOr = false) (r : Reach c s) (st : step c s t l = some (s', o))
    (hs : succFor s t l o = some p) : s.life p = .unlinked := by
  have ⟨_, hF, hL⟩ := invRFL_reach hc r
  have hnl := (del_returns_unlinked_step hc r st hs).1
  have ft := hF.t t; simp only [TF] at ft
  have hv : valid s p := by
    cases l with
    | xchgOwn =>
      st_open st
      all_goals (simp only [succFor, ENOENT, ← e_out] at hs; try simp at hs)
      all_goals (subst hs; exact (ft.2.2.2.2.2.2.2.2.2.2.2.2.2.2.2.2.2.2.2.2.2.1 (by grind)).1)
    | ldAssertR =>
      st_open st
      all_goals (simp only [succFor, ENOENT, ← e_out] at hs; try simp at hs)
      all_goals (subst hs; exact (ft.2.2.2.2.2.2.2.2.2.2.2.2.2.2.2.2.1 (by grind)).1)
    | _ => simp [succFor] at hs
  have hnl' : s.life p ≠ .linked := fun h => hnl ((hL.g.2.1 p).mpr h)
  simp only [valid] at hv
  cases h : s.life p <;> simp_all

set_option maxHeartbeats 4000000 in
theorem invS_g {c s s' t l o} (hc : c.ownerByOr = false) (r : Reach c s) (hS : InvS s)
    (st : step c s t l = some (s', o)) : GS s' := by
  have ⟨hR, hF, hL⟩ := invRFL_reach hc r
  have ⟨u1, _⟩ := invU_reach hc r
  have hor : ∀ p, s'.ownRet p = s.ownRet p ∨ (s'.ownRet p = some s.clock ∧ s.life p = .unlinked) := by
    intro p
    rcases ownRet_step st p with h | ⟨h, h2 | h2⟩
    · exact .inl h
    · exact .inr ⟨h, succ_unlinked hc r st h2⟩
    · subst h2; exact (orOwn_dead hc r st).elim
  rcases freed_step st with h | ⟨p, rfl⟩ | rfl
  · exact GS_step hc r st hS.g h hor
  · -- reclaim: owner returned, node unlinked, grace period elapsed
    have g := hS.g
    have ft := fun u => (hF.t u).2.1
    st_open st
    refine ⟨?_, ?_⟩
    · intro q hq
      simp only [e_freed, upd] at hq
      simp only [e_life, e_unlAt, e_cs]
      by_cases e : q = p
      · subst e
        obtain ⟨rr, hrr, hge⟩ : ∃ rr, s.ownRet q = some rr ∧ gpElapsed c s rr := ⟨_, by assumption, by grind⟩
        have hsp := g.2 q rr hrr
        refine ⟨hsp.1, ?_⟩
        intro u b hb
        have hun : u < c.n := by
          rcases Nat.lt_or_ge u c.n with h | h
          · exact h
          · have := ft u h; rw [this] at hb; cases hb
        have := hge u hun b hb; omega
      · simp only [e, if_false] at hq; exact g.1 q hq
    · intro q rr hq; simp only [e_ownRet, e_life, e_unlAt] at hq ⊢; exact g.2 q rr hq
  · -- tblFree: every bucket of the level is unlinked, and the grace period after that has elapsed
    have g := hS.g
    have tsc := (hS.t t).1; simp only [TSc] at tsc
    have rtt := hR.t t; simp only [TR] at rtt
    st_open st
    all_goals
      have hpc : (s.th t).pc = .zFree := by grind
      have hpf : (s.th t).pfree ≠ 0 := by grind
      have c8 := tsc.2.2.2.2.2.2.2.1 (.inr (.inr hpc)) hpf
      have c9 := tsc.2.2.2.2.2.2.2.2.1 hpc
      refine ⟨?_, ?_⟩
      · intro q hq
        simp only [e_freed] at hq
        simp only [e_life, e_unlAt, e_cs]
        split at hq
        · rename_i hx
          obtain ⟨j, j1, j2, j3, _⟩ := hx
          have pw := @two_pow_pred (s.th t).pfree (by omega)
          have h8 := c8 j ⟨j2, by omega⟩
          rw [j3] at h8
          exact ⟨h8.1, fun u b hb => by have h9 := c9 u b hb; have := h8.2 (.inr hpc); omega⟩
        · exact g.1 q hq
      · intro q rr hq; simp only [e_ownRet, e_life, e_unlAt] at hq ⊢; exact g.2 q rr hq

end UrcuVerif.Lfht.Conc
