import UrcuVerif.Lfht.Conc.InvKAll
import UrcuVerif.Lfht.Conc.WaitFree
/-!
# Concurrent rculfhash — `no_two_visible`: what lies ahead of a traversal that has returned the visible node of a
unique key (proof-only file)
-/
namespace UrcuVerif.Lfht.Conc
open UrcuVerif
set_option linter.unusedSimpArgs false
set_option linter.unusedVariables false

/-- `a` is NULL or sorts at or after the non-bucket nodes with the reversed hash of `hk` -/
def NonLow (hk : Nat) (s : State) (a : Nat) : Prop :=
  a = 0 ∨ bitReverse64 hk < s.rev a ∨ (bitReverse64 hk = s.rev a ∧ s.isB a = false)

/-- where the traversal of the thread continues: the node it stands on, or the `next` stored in its iterator -/
def wpos (x : Thr) : Nat :=
  if x.pc = .wNext ∧ x.wk ≠ .dupAdd then x.cur
  else if x.pc = .wAssert ∧ x.wk ≠ .dupAdd then x.wnx.ptr else x.itx.ptr

/-- the traversal of `x` has returned `p`, the visible node with key `k`: nothing else with key `k` that a
traversal could return lies ahead -/
def Mark (k hk : Nat) (s : State) (x : Thr) (p : Nat) : Prop :=
  valid s p ∧ NonLow hk s (wpos x) ∧ ¬ Rch (nxp s) (wpos x) p ∧
  (∀ y, y ≠ 0 → s.isB y = false → s.key y = k → y ≠ p → Rch (nxp s) (wpos x) y → (s.nxt y).rem = true) ∧
  (x.pc = .wAssert → x.wk ≠ .dupAdd → s.key x.cur = k → x.cur = p) ∧
  (x.pc ≠ .lSize ∧ x.pc ≠ .lHead ∧ x.pc ≠ .fHead)

/-- calls that start a new traversal (or end the read-side section) -/
def Restart : Label → Prop
  | .runlock | .callFirst | .callLookup _ _ => True
  | _ => False

theorem rch_wmu {c s a b} (hc : c.ownerByOr = false) (r : Reach c s) (h : Rch (nxp s) a b) (va : a ≠ 0 → valid s a)
    (b0 : b ≠ 0) : wmu s b ≤ wmu s a := by
  have gf := graph_facts hc r
  induction h with
  | refl a => exact Nat.le_refl _
  | @head a b hh ih =>
    have a0 : a ≠ 0 := by intro e; rw [e, gf.1] at hh; exact b0 (rch_fix gf.1 hh)
    have n0 : nxp s a ≠ 0 := by intro e; rw [e] at hh; exact b0 (rch_fix gf.1 hh)
    have := ih (fun _ => (gf.2.1 a (va a0) n0).1) b0
    have := wmu_hop hc r (va a0) a0
    omega

/-- the pointer graph of published nodes has no cycle -/
theorem rch_acyclic {c s p} (hc : c.ownerByOr = false) (r : Reach c s) (hv : valid s p) (p0 : p ≠ 0) :
    ¬ Rch (nxp s) (nxp s p) p := by
  intro h
  have gf := graph_facts hc r
  have n0 : nxp s p ≠ 0 := by intro e; rw [e] at h; exact p0 (rch_fix gf.1 h)
  have := rch_wmu hc r h (fun _ => (gf.2.1 p hv n0).1) p0
  have := wmu_hop hc r hv p0
  omega

theorem nonlow_next {c hk s a} (hc : c.ownerByOr = false) (r : Reach c s) (h : NonLow hk s a) (va : a ≠ 0 → valid s a) :
    NonLow hk s (nxp s a) := by
  have gf := graph_facts hc r
  have ⟨_, _, hL⟩ := invRFL_reach hc r
  by_cases a0 : a = 0
  · rw [a0, gf.1]; exact .inl rfl
  by_cases n0 : nxp s a = 0
  · exact .inl n0
  have hok := hL.g.2.2.2.2 a (va a0) n0
  simp only [ok] at hok
  rcases h with h | h | ⟨h1, h2⟩
  · exact absurd h a0
  · right; left; simp only [nxp]; omega
  · rcases hok with h' | ⟨h', h'' | h''⟩
    · right; left; simp only [nxp]; omega
    · right; right; exact ⟨by simp only [nxp]; omega, h''⟩
    · rw [h2] at h''; cases h''

/-- the position of the traversal of thread `u` is NULL or a published node -/
theorem wpos_valid {c s u} (hc : c.ownerByOr = false) (r : Reach c s) : wpos (s.th u) ≠ 0 → valid s (wpos (s.th u)) := by
  have ⟨_, hF, _⟩ := invRFL_reach hc r
  have fu := hF.t u; simp only [TF] at fu
  simp only [wpos]
  split
  · next h => intro _; exact fu.2.2.2.2.2.2.2.2.2.2.2.2.1 (.inl h.1)
  · split
    · next h => exact (fu.2.2.2.2.2.2.2.2.2.2.2.2.2.1 h.1).2.2.1
    · exact fu.2.2.2.2.2.2.2.2.2.2.2.2.2.2.2.1.2.1

set_option maxHeartbeats 1000000 in
/-- `Mark` for a thread whose locals the step did not touch -/
theorem mark_other {c k hk s s' t l o u p} (hc : c.ownerByOr = false) (r : Reach c s) (st : step c s t l = some (s', o))
    (hK : InvK k hk s) (hm : Mark k hk s (s.th u) p) : Mark k hk s' (s.th u) p := by
  have r' : Reach c s' := .step r st
  have ⟨hR, hF, hL⟩ := invRFL_reach hc r
  have ⟨hR', hF', hL'⟩ := invRFL_reach hc r'
  have stable := stable_step hc r st
  have gf := graph_facts hc r
  have gf' := graph_facts hc r'
  have fu := hF.t u; simp only [TF] at fu
  obtain ⟨m1, m2, m3, m4, m5, m6⟩ := hm
  have vp := wpos_valid (u := u) hc r
  have p0 : p ≠ 0 := by intro e; rw [e] at m1; exact m1.1 hF.g.2.1
  refine ⟨valid_step hc r st m1, ?_, ?_, ?_, ?_, m6⟩
  · by_cases h0 : wpos (s.th u) = 0
    · exact .inl h0
    · rcases m2 with h | h
      · exact absurd h h0
      · have sv := stable _ (vp h0).1
        right; rw [sv.1, sv.2.2.1]; exact h
  · intro h
    by_cases h0 : wpos (s.th u) = 0
    · rw [h0] at h; exact p0 (rch_fix gf'.1 h)
    · exact m3 (rch_step_back hc r st h (vp h0).2 m1.2)
  · intro y y0 yb yk yp hr
    have h0 : wpos (s.th u) ≠ 0 := by intro e; rw [e] at hr; exact y0 (rch_fix gf'.1 hr)
    have vpos := vp h0
    by_cases vy : s.life y = .priv
    · -- `y` is the node linked by this step
      exfalso
      have hy' : valid s' y := (rch_mono (P := valid s') (r := s'.rev) gf'.1 gf'.2.1 hr (valid_step hc r st vpos) y0).2
      have hne : wpos (s.th u) ≠ y := by intro e; rw [e] at vpos; exact vpos.2 vy
      have hn : ∀ x, nxp s x ≠ y := by intro x e; have := gf.2.2 x; rw [e] at this; exact this vy
      have sy := stable y (by rw [vy]; simp)
      have l3' : bitReverse64 hk < s.rev (wpos (s.th u)) ∨
          (bitReverse64 hk = s.rev (wpos (s.th u)) ∧ s.isB (wpos (s.th u)) = false) := by
        rcases m2 with h | h
        · exact absurd h h0
        · exact h
      rcases ins_step hc r st with ⟨hh, _⟩ | ⟨rfl, gi, hpc, hcas, _⟩ | ⟨rfl, gi, hpc, hcas, hok⟩
      · have back : Rch (nxp s) (wpos (s.th u)) y := by
          rcases hh with hh | ⟨a, b, hh⟩
          · exact rch_congr (fun x => (hh.1 x).symm) hr
          · exact rch_unlink_back hh.1.1 hh.1.2.1 hh.1.2.2.1 hr
        exact (rch_mono (P := valid s) (r := s.rev) gf.1 gf.2.1 back vpos y0).2.2 vy
      · obtain ⟨⟨i1, i2, i3, i4, i5, i6⟩, eL, elife, _, hpl, _⟩ := gi
        have hyn : y = (s.th t).node := by
          false_or_by_contra; rename_i hne'
          have := elife y hne'; rw [vy] at this; exact hy'.2 this
        subst hyn
        have lt := hL.t t; simp only [TL] at lt
        have hb4 : s.isB (s.th t).node = false := by rw [← sy.2.2.1]; exact yb
        have hk4 : s.key (s.th t).node = k := by rw [← sy.2.1]; exact yk
        have hmb : (s.th t).mode ≠ .bkt := by
          intro hm
          have hw : Worker (s.th t) := .inl ⟨by simp [AddPc, hpc], hm⟩
          have rt := hR.t t; simp only [TR] at rt
          have wi := rt.2.2.2.2.2.2.2.2.2.2.2.2.2.1 hw (by rw [hpc]; simp)
          obtain ⟨w1, w2, w3, w4, w5, w6, w7, _⟩ := worker_facts hR t (.inl hw)
          have rg := hR.g; simp only [GR] at rg
          have := (rg.2.2.1 (s.th t).j (w7 _ (by omega))).1
          rw [← wi.2, hb4] at this; cases this
        have hpt : Pend (s.th t) := ⟨hmb, by simp [hpc]⟩
        obtain ⟨n1, n2, n3, n4⟩ := pend_node hc r hK hpt hk4
        have l14 := lt.2.2.2.2.2.2.2.2.2.2.2.2.2.1 (by cases hm : (s.th t).mode <;> simp_all) (.inr (.inl hpc))
        rw [n3] at l14
        have hb := rch_insert_new i1 i3 hn hr rfl hne
        by_cases e : wpos (s.th u) = (s.th t).prev
        · exact low_contra l3' l14 (.inl ⟨by rw [e], by rw [e]⟩)
        · have hok := rch_ok hc r hb vpos (by intro e0; rw [e0] at i5; exact i5.1 hF.g.2.1) e
          simp only [ok] at hok
          exact low_contra l3' l14 (.inr hok)
      · obtain ⟨_, _, _, _, hkey, hrev, vo, nvn, vn', nvo', hvis, _⟩ := replace_atomic_step hc r st hcas hok
        obtain ⟨⟨i1, i2, i3, i4, i5, i6⟩, eL, elife, _, hpl, _⟩ := gi
        have hyn : y = (s.th t).node := by
          false_or_by_contra; rename_i hne'
          have := elife y hne'; rw [vy] at this; exact hy'.2 this
        subst hyn
        have hk4 : s.key (s.th t).old = k := by rw [← hkey, ← sy.2.1]; exact yk
        have hb := rch_insert_new i1 i3 hn hr rfl hne
        have o0 : (s.th t).old ≠ 0 := by intro e0; rw [e0] at i5; exact i5.1 hF.g.2.1
        by_cases e : (s.th t).old = p
        · rw [e] at hb; exact m3 hb
        · have := m4 _ o0 vo.2.1 hk4 e hb
          rw [vo.2.2] at this; cases this
    · have hvy : s.life y ≠ .fresh := by
        intro e
        have := rch_step_back hc r st hr vpos.2 vy
        have hy' : valid s y := (rch_mono (P := valid s) (r := s.rev) gf.1 gf.2.1 this vpos y0).2
        exact hy'.1 e
      have sy := stable y hvy
      have back := rch_step_back hc r st hr vpos.2 vy
      have := m4 y y0 (by rw [← sy.2.2.1]; exact yb) (by rw [← sy.2.1]; exact yk) yp back
      exact (rem_frozen_step hc hR hF st y this).1
  · intro h1 h2 h3
    have vc := fu.2.2.2.2.2.2.2.2.2.2.2.2.1 (.inr h1)
    rw [(stable _ vc.1).2.1] at h3
    exact m5 h1 h2 h3

end UrcuVerif.Lfht.Conc
