import UrcuVerif.Lfht.Conc.InvSHeap
/-!
# Concurrent rculfhash — under the safety invariant no step dereferences a reclaimed / unpublished node
(proof-only file)
-/
namespace UrcuVerif.Lfht.Conc
open UrcuVerif
set_option linter.unusedSimpArgs false
set_option linter.unusedVariables false

set_option maxHeartbeats 8000000 in
/-- `uaf` changes only in a `crash` branch -/
theorem uaf_step {c s s' t l o} (st : step c s t l = some (s', o)) : s'.uaf = s.uaf ∨ o = .crash := by
  cases l with
  | spawn u len => st_open st; exact .inl e_uaf
  | join u => st_open st; exact .inl e_uaf
  | _ => st_open st; all_goals first | exact .inl e_uaf | exact .inr e_out.symm

/-- a linked node that is not freed can be dereferenced -/
theorem okp_linked {c s p} (hc : c.ownerByOr = false) (r : Reach c s) (hg : GS s) (hl : s.life p = .linked) :
    okp s p = true := by
  have hF := (invRFL_reach hc r).2.1
  have p0 : p ≠ 0 := by intro e; rw [e, hF.g.2.1] at hl; cases hl
  have hfr : s.freed p = false := by
    cases hf : s.freed p with
    | false => rfl
    | true => have := (hg.1 p hf).1; rw [hl] at this; cases this
  simp [okp, p0, hfr, hl]

theorem okp_hb {c s t B} (hc : c.ownerByOr = false) (r : Reach c s) (hg : GS s) (hb : HB s t B) : okp s B = true :=
  okp_linked hc r hg (hb_facts hc r hb).1

theorem okp_held {c s t p} (hc : c.ownerByOr = false) (r : Reach c s) (hg : GS s) (h : Held s t p) (hv : valid s p)
    (hcs : (s.cs t).isSome) : okp s p = true := by
  have hF := (invRFL_reach hc r).2.1
  have p0 : p ≠ 0 := by intro e; rw [e] at hv; exact hv.1 hF.g.2.1
  exact held_okp hg h p0 hcs

set_option hygiene false in
/-- closes a branch of `no_crash`: not a crash output, or the guard `!okp` contradicts `hk` -/
macro "nc" : tactic => `(tactic|
  (first
    | (intro h; rw [← e_out] at h; cases h; done)
    | (exfalso; simp_all)))

set_option maxHeartbeats 8000000 in
theorem no_crash {c s s' t l o} (hc : c.ownerByOr = false) (r : Reach c s) (hS : InvS s)
    (st : step c s t l = some (s', o)) : o ≠ .crash := by
  have ⟨hR, hF, hL⟩ := invRFL_reach hc r
  have ft := hF.t t; simp only [TF] at ft
  have tsc := (hS.t t).1; simp only [TSc] at tsc
  have ts8 := (hS.t t).2
  have hg := hS.g
  have f3 := ft.2.2.1
  have f10 := ft.2.2.2.2.2.2.2.2.2.1
  have f11 := ft.2.2.2.2.2.2.2.2.2.2.1
  have f13 := ft.2.2.2.2.2.2.2.2.2.2.2.2.1
  have f17 := ft.2.2.2.2.2.2.2.2.2.2.2.2.2.2.2.2.1
  have f22 := ft.2.2.2.2.2.2.2.2.2.2.2.2.2.2.2.2.2.2.2.2.2.1
  have fz := hF.g.2.1
  cases l with
  | spawn u len => st_open st; nc
  | join u => st_open st; nc
  | ldHeadA =>
    have hk : (s.th t).pc = .aHead → okp s (s.th t).bkt = true := fun h =>
      okp_hb hc r hg (ft.2.2.2.2.2.2.2.1 (by simp [InAdd, h]))
    clear ft; st_open st; all_goals nc
  | ldNextA =>
    have hk : (s.th t).pc = .aNext → okp s (s.th t).iter.ptr = true := fun h => by
      have hp := f10 (by simp [HasPos, h])
      exact okp_held hc r hg (tsc.1 (by simp [HasPos, h])).2 (hp.2.2.2.2 (f11 (.inl h)))
        (f3 ⟨by rw [h]; simp, by simp [ZPc, h], by simp [HPc, h]⟩)
    clear ft; st_open st; all_goals nc
  | casIns =>
    have hk : (s.th t).pc = .aCas → okp s (s.th t).prev = true := fun h => by
      have hp := f10 (by simp [HasPos, h])
      exact okp_held hc r hg (tsc.1 (by simp [HasPos, h])).1 hp.1 (f3 ⟨by rw [h]; simp, by simp [ZPc, h], by simp [HPc, h]⟩)
    clear ft; st_open st; all_goals nc
  | casGc =>
    have hk : ((s.th t).pc = .aGc ∨ (s.th t).pc = .gCas) → okp s (s.th t).prev = true := fun h => by
      have hp := f10 (by simp only [HasPos]; rcases h with h | h <;> simp [h])
      exact okp_held hc r hg (tsc.1 (by simp only [HasPos]; rcases h with h | h <;> simp [h])).1 hp.1
        (f3 ⟨by rcases h with h | h <;> simp [h], by rcases h with h | h <;> simp [ZPc, h], by rcases h with h | h <;> simp [HPc, h]⟩)
    clear ft; st_open st; all_goals nc
  | ldWalk =>
    have hk : (s.th t).pc = .wNext → okp s (s.th t).cur = true := fun h =>
      okp_held hc r hg (tsc.2.1 (.inl h)) (f13 (.inl h)) (f3 ⟨by rw [h]; simp, by simp [ZPc, h], by simp [HPc, h]⟩)
    clear ft; st_open st; all_goals nc
  | ldAssertW =>
    have hk : (s.th t).pc = .wAssert → okp s (s.th t).cur = true := fun h =>
      okp_held hc r hg (tsc.2.1 (.inr h)) (f13 (.inr h)) (f3 ⟨by rw [h]; simp, by simp [ZPc, h], by simp [HPc, h]⟩)
    clear ft; st_open st; all_goals nc
  | ldHeadL =>
    have hk : (s.th t).pc = .lHead → okp s (s.th t).bkt = true := fun h =>
      okp_hb hc r hg (ft.2.2.2.2.2.2.2.2.2.2.2.2.2.2.1 h)
    clear ft; st_open st; all_goals nc
  | ldFirst =>
    have hk : okp s (s.tbl 0) = true := by
      have rg := hR.g; simp only [GR] at rg
      have sz0 : 0 < s.size := by have := rg.1.1; have := Nat.two_pow_pos (Nat.log2 s.size); omega
      exact okp_linked hc r hg (hF.g.2.2.1 0 sz0).1
    clear ft; st_open st; all_goals nc
  | casRepl =>
    have hk : (s.th t).pc = .rCas → okp s (s.th t).old = true := fun h =>
      okp_held hc r hg (tsc.2.2.2.2.2.1 (.inr (.inl h))) (f17 (.inr (.inl h))).1
        (f3 ⟨by rw [h]; simp, by simp [ZPc, h], by simp [HPc, h]⟩)
    clear ft; st_open st; all_goals nc
  | ldAssertR =>
    have hk : (s.th t).pc = .rAssert → okp s (s.th t).old = true := fun h =>
      okp_held hc r hg (tsc.2.2.2.2.2.1 (.inr (.inr (.inl h)))) (f17 (.inr (.inr (.inl h)))).1
        (f3 ⟨by rw [h]; simp, by simp [ZPc, h], by simp [HPc, h]⟩)
    clear ft; st_open st; all_goals nc
  | ldHeadG =>
    have hk : (s.th t).pc = .gHead → okp s (s.th t).gbkt = true := fun h =>
      okp_hb hc r hg (ft.2.2.2.2.2.2.2.2.2.2.2.2.2.2.2.2.2.2.2.1 (by simp [GcPc, h]))
    clear ft; st_open st; all_goals nc
  | ldNextG =>
    have hk : (s.th t).pc = .gNext → okp s (s.th t).iter.ptr = true := fun h => by
      have hp := f10 (by simp [HasPos, h])
      exact okp_held hc r hg (tsc.1 (by simp [HasPos, h])).2 (hp.2.2.2.2 (f11 (.inr (.inr (.inl h)))))
        (f3 ⟨by rw [h]; simp, by simp [ZPc, h], by simp [HPc, h]⟩)
    clear ft; st_open st; all_goals nc
  | ldDel =>
    have hk : (s.th t).pc = .dLd → okp s (s.th t).node = true := fun h =>
      okp_held hc r hg (tsc.2.2.2.2.2.2.1 (.inr (.inl h))) (f22 (.inl h)).1 (f3 ⟨by rw [h]; simp, by simp [ZPc, h], by simp [HPc, h]⟩)
    clear ft; st_open st; all_goals nc
  | orRem =>
    have hk : (s.th t).pc = .dOr → okp s (s.th t).node = true := fun h =>
      okp_held hc r hg (tsc.2.2.2.2.2.2.1 (.inr (.inr (.inl h)))) (f22 (.inr (.inl h))).1
        (f3 ⟨by rw [h]; simp, by simp [ZPc, h], by simp [HPc, h]⟩)
    clear ft; st_open st; all_goals nc
  | ldAssertD =>
    have hk : (s.th t).pc = .dAssert → okp s (s.th t).node = true := fun h =>
      okp_held hc r hg (tsc.2.2.2.2.2.2.1 (.inr (.inr (.inr (.inl h))))) (f22 (.inr (.inr (.inl h)))).1
        (f3 ⟨by rw [h]; simp, by simp [ZPc, h], by simp [HPc, h]⟩)
    clear ft; st_open st; all_goals nc
  | ldDel2 =>
    have hk : (s.th t).pc = .dLd2 → okp s (s.th t).node = true := fun h =>
      okp_held hc r hg (tsc.2.2.2.2.2.2.1 (.inr (.inr (.inr (.inr (.inl h)))))) (f22 (.inr (.inr (.inr (.inl h))))).1
        (f3 ⟨by rw [h]; simp, by simp [ZPc, h], by simp [HPc, h]⟩)
    clear ft; st_open st; all_goals nc
  | xchgOwn =>
    have hk : (s.th t).pc = .dXchg → okp s (s.th t).node = true := fun h =>
      okp_held hc r hg (tsc.2.2.2.2.2.2.1 (.inr (.inr (.inr (.inr (.inr (.inl h))))))) (f22 (.inr (.inr (.inr (.inr (.inl h)))))).1
        (f3 ⟨by rw [h]; simp, by simp [ZPc, h], by simp [HPc, h]⟩)
    clear ft; st_open st; all_goals nc
  | orOwn =>
    have nd := ft.1
    clear ft; st_open st; all_goals (exfalso; apply nd; assumption)
  | orBkt =>
    have hk : (s.th t).pc = .sOr → okp s (s.th t).node = true := fun h => by
      have hw : Worker (s.th t) := by simp [Worker, h]
      have rt := hR.t t; simp only [TR] at rt
      have wi := rt.2.2.2.2.2.2.2.2.2.2.2.2.2.1 hw (by rw [h]; simp)
      have rk := rt.2.2.2.2.2.2.2.2.2.2.2.2.2.2.2.1 (.inr h)
      have := ts8 (.inr (.inr hw)) rk (s.th t).j (by simp [pendFrom, h]) wi.1
      rw [wi.2]; exact okp_linked hc r hg this.1
    clear ft; st_open st; all_goals nc
  | _ => st_open st; all_goals nc

end UrcuVerif.Lfht.Conc
