import UrcuVerif.Lfht.Conc.SoloStepH
/-!
# Concurrent rculfhash — `solo_terminates`: own CAS / fetch-or steps, and the step theorem (proof-only file)
-/
namespace UrcuVerif.Lfht.Conc
open UrcuVerif
set_option linter.unusedSimpArgs false
set_option linter.unusedVariables false

set_option hygiene false in
/-- close a branch in which the number of passes to come drops (`hA`), given `hW : Wt s' x' ≤ Wt s (s.th t)` -/
macro "mu_drop" : tactic => `(tactic|
  (right
   have hP : Pp s' x' ≤ Pp s (s.th t) := by simp only [Pp]; omega
   refine ⟨?_, ?_, ?_, ?_⟩
   · rw [e1]; simp only [Mu]
     exact lex_lt (Nat.le_of_lt hA) hP (.inr ⟨hA, Nat.lt_of_lt_of_le pos_lt hP⟩)
   · rw [e1, xparent]; exact hp0
   · rw [e_rz]; exact hrz
   · rw [e1]; simp only [opLabel, xpc]; simp))

set_option hygiene false in
/-- a failed CAS: the thread carried a stale value (`hne`), now it does not, and it starts a new pass -/
macro "mu_fail" : tactic => `(tactic|
  (mu_heap
   have hs0 : stl s' x' = 0 := by
     have := cas_fail_resets st0 hne ncr
     rw [e1] at this
     simp only [stl]; rw [if_pos ⟨by rw [xpc]; simp, this⟩]
   have hW : Wt s' x' ≤ Wt s (s.th t) := by
     simp only [Wt, e_L, hunl, Pend, xpc, xmode, xwk, hpc, reduceCtorEq, false_or, or_false, true_or, or_true, false_and,
       and_false, true_and, and_true, ne_eq, not_false_eq_true, not_true_eq_false, ↓reduceIte]
     (try split) <;> (try split) <;> (try omega) <;> (try (simp_all; done))
   have hA : flg s' + stl s' x' + Kp x' < flg s + stl s (s.th t) + Kp (s.th t) := by
     simp only [Kp, xpc, hpc, hflg, hs0, hs1]; omega
   mu_drop))

set_option maxHeartbeats 4000000 in
theorem prog_aCas {c s s' t o} (hc : c.ownerByOr = false) (r : Reach c s) (hp0 : (s.th t).parent = 0)
    (hrz : s.rzOwner ≠ t + 1) (hpc : (s.th t).pc = .aCas) (st : step c s t .casIns = some (s', o)) : Prog c s t s' := by
  have ⟨hR, hF, hL⟩ := invRFL_reach hc r
  have ncr := no_crash hc r (invS_reach hc r) st
  have rt := hR.t t; simp only [TR] at rt
  have wrole := rt.2.2.1
  have st0 := st
  st_open st
  all_goals
    first
      | (exfalso; exact ncr e_out.symm; done)
      | (left; rw [e_th']; simp only [upd, if_true]; exact xpc; done)
      | (exfalso; simp only [Worker, AddPc, GcPc] at wrole; grind; done)
      | (have hne : (Label.casIns = .casIns ∧ s.nxt (s.th t).prev ≠ (s.th t).iter) ∨
            (Label.casIns = .casGc ∧ s.nxt (s.th t).prev ≠ (s.th t).iter) ∨
            (Label.casIns = .casRepl ∧ s.nxt (s.th t).old ≠ (s.th t).oldnx) := .inl ⟨rfl, by assumption⟩
         have hs1 : stl s (s.th t) = 1 := by
           simp only [stl]; rw [if_neg]; intro ⟨_, hf⟩; exact hne.elim (fun h => h.2 (hf.1 (by simp [HasPos, hpc]))) (by simp)
         mu_fail)

set_option maxHeartbeats 4000000 in
theorem prog_aGc {c s s' t o} (hc : c.ownerByOr = false) (r : Reach c s) (hp0 : (s.th t).parent = 0)
    (hrz : s.rzOwner ≠ t + 1) (hpc : (s.th t).pc = .aGc) (st : step c s t .casGc = some (s', o)) : Prog c s t s' := by
  have ⟨hR, hF, hL⟩ := invRFL_reach hc r
  have ncr := no_crash hc r (invS_reach hc r) st
  have rt := hR.t t; simp only [TR] at rt
  have wrole := rt.2.2.1
  have st0 := st
  st_open st
  all_goals
    first
      | (exfalso; exact ncr e_out.symm; done)
      | (exfalso; grind; done)
      | (have hne : (Label.casGc = .casIns ∧ s.nxt (s.th t).prev ≠ (s.th t).iter) ∨
            (Label.casGc = .casGc ∧ s.nxt (s.th t).prev ≠ (s.th t).iter) ∨
            (Label.casGc = .casRepl ∧ s.nxt (s.th t).old ≠ (s.th t).oldnx) := .inr (.inl ⟨rfl, by assumption⟩)
         have hs1 : stl s (s.th t) = 1 := by
           simp only [stl]; rw [if_neg]; intro ⟨_, hf⟩
           exact hne.elim (by simp) (fun h => h.elim (fun h => h.2 (hf.1 (by simp [HasPos, hpc]))) (by simp))
         mu_fail; done)
      | (have e1 : s'.th t = x' := by rw [e_th']; simp [upd]
         have hcas : s.nxt (s.th t).prev = (s.th t).iter := by assumption
         vis_open hR hF hL
         have kf : (s.nxt (s.th t).prev).ptr = (s.th t).iter.ptr ∧ (s.nxt (s.th t).iter.ptr).rem = true ∧
             (s.th t).iter.rem = false ∧ s.life (s.th t).prev = .linked ∧ (s.th t).iter.ptr ≠ 0 := by
           clear fgn g1 g2 g3 g4 g5
           grind [valid, vz, Pend, HasPos, okp]
         obtain ⟨k1, k3, k4, k5, k6⟩ := kf
         have hpL := (g2 _).mpr k5
         have hcL : (s.th t).iter.ptr ∈ s.L := by
           have := chn_next_mem g3 hpL (by simp only [nxp, k1]; exact k6); simpa only [nxp, k1] using this
         have hfl := flg_unlink e_L e_nxt (by rw [hcas, k4]) hcL k3
         have hchi : (s.th t).iter.ptr < s.hi := by
           rcases Nat.lt_or_ge (s.th t).iter.ptr s.hi with h | h
           · exact h
           · have := (fgn (s.th t).iter.ptr).1 h; rw [(g2 _).mp hcL] at this; cases this
         have hun := unl_unlink e_hi e_life ((g2 _).mp hcL) hchi
         have hlen : s'.L.length + 1 = s.L.length := by
           rw [e_L, List.length_erase_of_mem hcL]; have := List.length_pos_of_mem hcL; omega
         have hs0 : stl s' x' = 0 := by simp [stl, Fresh, HasPos, xpc]
         have hst1 := stl_le s (s.th t)
         have hW : Wt s' x' ≤ Wt s (s.th t) := by
           simp only [Wt, Pend, xpc, xmode, xwk, hpc, reduceCtorEq, false_or, or_false, true_or, or_true, false_and,
             and_false, true_and, and_true, ne_eq, not_false_eq_true, not_true_eq_false, ↓reduceIte]
           (try split) <;> omega
         have hA : flg s' + stl s' x' + Kp x' < flg s + stl s (s.th t) + Kp (s.th t) := by
           simp only [Kp, xpc, hpc, hs0]; omega
         mu_drop)

set_option maxHeartbeats 4000000 in
theorem prog_gCas {c s s' t o} (hc : c.ownerByOr = false) (r : Reach c s) (hp0 : (s.th t).parent = 0)
    (hrz : s.rzOwner ≠ t + 1) (hpc : (s.th t).pc = .gCas) (st : step c s t .casGc = some (s', o)) : Prog c s t s' := by
  have ⟨hR, hF, hL⟩ := invRFL_reach hc r
  have ncr := no_crash hc r (invS_reach hc r) st
  have rt := hR.t t; simp only [TR] at rt
  have wrole := rt.2.2.1
  have st0 := st
  st_open st
  all_goals
    first
      | (exfalso; exact ncr e_out.symm; done)
      | (exfalso; grind; done)
      | (have hne : (Label.casGc = .casIns ∧ s.nxt (s.th t).prev ≠ (s.th t).iter) ∨
            (Label.casGc = .casGc ∧ s.nxt (s.th t).prev ≠ (s.th t).iter) ∨
            (Label.casGc = .casRepl ∧ s.nxt (s.th t).old ≠ (s.th t).oldnx) := .inr (.inl ⟨rfl, by assumption⟩)
         have hs1 : stl s (s.th t) = 1 := by
           simp only [stl]; rw [if_neg]; intro ⟨_, hf⟩
           exact hne.elim (by simp) (fun h => h.elim (fun h => h.2 (hf.1 (by simp [HasPos, hpc]))) (by simp))
         mu_fail; done)
      | (have e1 : s'.th t = x' := by rw [e_th']; simp [upd]
         have hcas : s.nxt (s.th t).prev = (s.th t).iter := by assumption
         vis_open hR hF hL
         have kf : (s.nxt (s.th t).prev).ptr = (s.th t).iter.ptr ∧ (s.nxt (s.th t).iter.ptr).rem = true ∧
             (s.th t).iter.rem = false ∧ s.life (s.th t).prev = .linked ∧ (s.th t).iter.ptr ≠ 0 := by
           clear fgn g1 g2 g3 g4 g5
           grind [valid, vz, Pend, HasPos, okp]
         obtain ⟨k1, k3, k4, k5, k6⟩ := kf
         have hpL := (g2 _).mpr k5
         have hcL : (s.th t).iter.ptr ∈ s.L := by
           have := chn_next_mem g3 hpL (by simp only [nxp, k1]; exact k6); simpa only [nxp, k1] using this
         have hfl := flg_unlink e_L e_nxt (by rw [hcas, k4]) hcL k3
         have hchi : (s.th t).iter.ptr < s.hi := by
           rcases Nat.lt_or_ge (s.th t).iter.ptr s.hi with h | h
           · exact h
           · have := (fgn (s.th t).iter.ptr).1 h; rw [(g2 _).mp hcL] at this; cases this
         have hun := unl_unlink e_hi e_life ((g2 _).mp hcL) hchi
         have hlen : s'.L.length + 1 = s.L.length := by
           rw [e_L, List.length_erase_of_mem hcL]; have := List.length_pos_of_mem hcL; omega
         have hs0 : stl s' x' = 0 := by simp [stl, Fresh, HasPos, xpc]
         have hst1 := stl_le s (s.th t)
         have hW : Wt s' x' ≤ Wt s (s.th t) := by
           simp only [Wt, Pend, xpc, xmode, xwk, hpc, reduceCtorEq, false_or, or_false, true_or, or_true, false_and,
             and_false, true_and, and_true, ne_eq, not_false_eq_true, not_true_eq_false, ↓reduceIte]
           (try split) <;> omega
         have hA : flg s' + stl s' x' + Kp x' < flg s + stl s (s.th t) + Kp (s.th t) := by
           simp only [Kp, xpc, hpc, hs0]; omega
         mu_drop)

set_option maxHeartbeats 4000000 in
theorem prog_dXchg {c s s' t o} (hc : c.ownerByOr = false) (r : Reach c s) (hp0 : (s.th t).parent = 0)
    (hrz : s.rzOwner ≠ t + 1) (hpc : (s.th t).pc = .dXchg) (st : step c s t .xchgOwn = some (s', o)) : Prog c s t s' := by
  have ncr := no_crash hc r (invS_reach hc r) st
  st_open st
  all_goals
    first
      | (exfalso; exact ncr e_out.symm; done)
      | (left; rw [e_th']; simp only [upd, if_true]; exact xpc)

set_option maxHeartbeats 4000000 in
theorem prog_dOr {c s s' t o} (hc : c.ownerByOr = false) (r : Reach c s) (hp0 : (s.th t).parent = 0)
    (hrz : s.rzOwner ≠ t + 1) (hpc : (s.th t).pc = .dOr) (st : step c s t .orRem = some (s', o)) : Prog c s t s' := by
  have ⟨hR, hF, hL⟩ := invRFL_reach hc r
  have ncr := no_crash hc r (invS_reach hc r) st
  have st0 := st
  st_open st
  all_goals
    first
      | (exfalso; exact ncr e_out.symm; done)
      | (have e1 : s'.th t = x' := by rw [e_th']; simp [upd]
         have hfl := flg_flag (s := s) (s' := s') (a := (s.th t).node) hL.g.1 e_L (by
           intro q hq; rw [e_nxt]; simp only [upd, hq, if_false])
         have hun : unl s' = unl s := by simp only [unl, e_life, e_hi]
         have hs0 : stl s' x' = 0 := by simp [stl, Fresh, HasPos, xpc]
         have hst1 := stl_le s (s.th t)
         have hW : Wt s' x' ≤ Wt s (s.th t) := by
           simp only [Wt, e_L, hun, Pend, xpc, xmode, xwk, hpc, reduceCtorEq, false_or, or_false, true_or, or_true, false_and,
             and_false, true_and, and_true, ne_eq, not_false_eq_true, not_true_eq_false, ↓reduceIte]
           (try split) <;> omega
         have hA : flg s' + stl s' x' + Kp x' < flg s + stl s (s.th t) + Kp (s.th t) := by
           simp only [Kp, xpc, hpc, hs0]; omega
         mu_drop)

set_option maxHeartbeats 4000000 in
theorem prog_rCas {c s s' t o} (hc : c.ownerByOr = false) (r : Reach c s) (hp0 : (s.th t).parent = 0)
    (hrz : s.rzOwner ≠ t + 1) (hpc : (s.th t).pc = .rCas) (st : step c s t .casRepl = some (s', o)) : Prog c s t s' := by
  have ⟨hR, hF, hL⟩ := invRFL_reach hc r
  have ncr := no_crash hc r (invS_reach hc r) st
  have rt := hR.t t; simp only [TR] at rt
  have wrole := rt.2.2.1
  have st0 := st
  st_open st
  all_goals
    first
      | (exfalso; exact ncr e_out.symm; done)
      | (left; rw [e_th']; simp only [upd, if_true]; exact xpc; done)
      | (have hne : (Label.casRepl = .casIns ∧ s.nxt (s.th t).prev ≠ (s.th t).iter) ∨
            (Label.casRepl = .casGc ∧ s.nxt (s.th t).prev ≠ (s.th t).iter) ∨
            (Label.casRepl = .casRepl ∧ s.nxt (s.th t).old ≠ (s.th t).oldnx) := .inr (.inr ⟨rfl, by assumption⟩)
         have hs1 : stl s (s.th t) = 1 := by
           simp only [stl]; rw [if_neg]; intro ⟨_, hf⟩
           exact hne.elim (by simp) (fun h => h.elim (by simp) (fun h => h.2 (hf.2.1 hpc)))
         mu_fail; done)
      | (have e1 : s'.th t = x' := by rw [e_th']; simp [upd]
         have hcas : s.nxt (s.th t).old = (s.th t).oldnx := by assumption
         vis_open hR hF hL
         have kf : s.life (s.th t).old = .linked ∧ s.life (s.th t).node = .priv ∧ (s.th t).mode ≠ .bkt := by
           clear fgn g1 g2 g3 g4 g5
           grind [valid, vz, Pend, HasPos, okp, Worker, AddPc]
         obtain ⟨k1, k2, k3⟩ := kf
         have hoL := (g2 _).mpr k1
         have hnL : (s.th t).node ∉ s.L := fun h => by have := (g2 _).mp h; rw [k2] at this; cases this
         have hne' : (s.th t).old ≠ (s.th t).node := fun e => hnL (e ▸ hoL)
         have hfl := flg_repl g1 hoL hnL e_L (by
           intro q h1 h2; rw [e_nxt]; simp only [upd, h1, h2, if_false]) (by
           rw [e_nxt]; simp only [upd, Ne.symm hne', if_false, if_true])
         have hun : unl s' = unl s := unl_same e_hi (by
           intro q; rw [e_life]; simp only [upd]; split
           · next h => rw [h, k2]; simp
           · rfl)
         have hlen : s'.L.length = s.L.length + 1 := by rw [e_L, length_insAfter hoL]
         have hs0 : stl s' x' = 0 := by simp [stl, Fresh, HasPos, xpc]
         have hst1 := stl_le s (s.th t)
         have hW : Wt s' x' ≤ Wt s (s.th t) := by
           have hp1 : Pend (s.th t) := ⟨k3, by simp [hpc]⟩
           have hp2 : ¬ Pend x' := by simp [Pend, xpc]
           simp only [Wt, hun, hlen, if_pos hp1, if_neg hp2]; omega
         have hA : flg s' + stl s' x' + Kp x' < flg s + stl s (s.th t) + Kp (s.th t) := by
           simp only [Kp, xpc, hpc, hs0]; omega
         mu_drop)

set_option maxHeartbeats 4000000 in
theorem op_enabled {c s t l} (ht : t < c.n) (hl : opLabel (s.th t) = some l) : ∃ s' o, step c s t l = some (s', o) := by
  cases hst : step c s t l with
  | some res => exact ⟨res.1, res.2, rfl⟩
  | none =>
    exfalso
    cases hpc : (s.th t).pc <;> simp only [opLabel, hpc, reduceCtorEq] at hl <;> (try cases hl) <;>
      simp only [step, stepApi, stepAdd, stepWalk, stepRepl, stepGc, stepDel, stepRz, Nat.not_le.mpr ht, if_false, hpc, if_true,
        walkPos, walkRet, replTest, addDone, crash, gcPos, gcRet, addPos, reduceCtorEq, or_true, true_or] at hst <;>
      (repeat' (split at hst)) <;> simp at hst

/-- every own step of a user operation is enabled, does not crash, and makes progress -/
theorem solo_step {c s t l} (hc : c.ownerByOr = false) (r : Reach c s) (ht : t < c.n) (hp0 : (s.th t).parent = 0)
    (hrz : s.rzOwner ≠ t + 1) (hl : opLabel (s.th t) = some l) : ∃ s' o, step c s t l = some (s', o) ∧ Prog c s t s' := by
  obtain ⟨s', o, st⟩ := op_enabled ht hl
  refine ⟨s', o, st, ?_⟩
  cases hpc : (s.th t).pc <;> simp only [opLabel, hpc, reduceCtorEq] at hl <;> (try cases hl)
  all_goals
    first
      | exact prog_aSize hc r hp0 hrz hpc st
      | exact prog_rSize hc r hp0 hrz hpc st
      | exact prog_dSize hc r hp0 hrz hpc st
      | exact prog_lSize hc r hp0 hrz hpc st
      | exact prog_aHead hc r hp0 hrz hpc st
      | exact prog_aNext hc r hp0 hrz hpc st
      | exact prog_aCas hc r hp0 hrz hpc st
      | exact prog_aGc hc r hp0 hrz hpc st
      | exact prog_gCas hc r hp0 hrz hpc st
      | exact prog_wNext hc r hp0 hrz hpc st
      | exact prog_wAssert hc r hp0 hrz hpc st
      | exact prog_lHead hc r hp0 hrz hpc st
      | exact prog_fHead hc r hp0 hrz hpc st
      | exact prog_rCas hc r hp0 hrz hpc st
      | exact prog_rAssert hc r hp0 hrz hpc st
      | exact prog_gHead hc r hp0 hrz hpc st
      | exact prog_gNext hc r hp0 hrz hpc st
      | exact prog_dLd hc r hp0 hrz hpc st
      | exact prog_dOr hc r hp0 hrz hpc st
      | exact prog_dAssert hc r hp0 hrz hpc st
      | exact prog_dLd2 hc r hp0 hrz hpc st
      | exact prog_dXchg hc r hp0 hrz hpc st

theorem soloOp_succ {c t k s l s' o} (hl : opLabel (s.th t) = some l) (st : step c s t l = some (s', o)) :
    soloOp c t (k + 1) s = soloOp c t k s' := by
  simp only [soloOp, hl, st]

/-- a user operation run alone returns within `Mu + 1` own steps -/
theorem solo_terminates_mu {c t} (hc : c.ownerByOr = false) (ht : t < c.n) :
    ∀ n s, Reach c s → (s.th t).parent = 0 → s.rzOwner ≠ t + 1 → (opLabel (s.th t)).isSome → Mu s (s.th t) ≤ n →
      ∃ k s', k ≤ n + 1 ∧ soloOp c t k s = some s' ∧ (s'.th t).pc = .idle := by
  intro n
  induction n with
  | zero =>
    intro s r hp0 hrz hop hm
    obtain ⟨l, hl⟩ := Option.isSome_iff_exists.mp hop
    obtain ⟨s', o, st, hpr⟩ := solo_step hc r ht hp0 hrz hl
    rcases hpr with h | ⟨h, _⟩
    · exact ⟨1, s', by omega, by rw [soloOp_succ hl st]; rfl, h⟩
    · omega
  | succ n ih =>
    intro s r hp0 hrz hop hm
    obtain ⟨l, hl⟩ := Option.isSome_iff_exists.mp hop
    obtain ⟨s', o, st, hpr⟩ := solo_step hc r ht hp0 hrz hl
    rcases hpr with h | ⟨h1, h2, h3, h4⟩
    · exact ⟨1, s', by omega, by rw [soloOp_succ hl st]; rfl, h⟩
    · obtain ⟨k, s2, hk, hs, hp⟩ := ih s' (.step r st) h2 h3 h4 (by omega)
      exact ⟨k + 1, s2, by omega, by rw [soloOp_succ hl st]; exact hs, hp⟩

theorem mu_bound (s : State) (x : Thr) : Mu s x + 1 ≤ (flg s + 5) * (2 * (s.L.length + unl s) + 14) := by
  have h1 := stl_le s x
  have h2 : Kp x ≤ 3 := by simp only [Kp]; split <;> omega
  have h3 := @pos_lt s x
  have h4 : Pp s x ≤ 2 * (s.L.length + unl s) + 14 := by simp only [Pp, Wt]; split <;> omega
  have h5 : (flg s + stl s x + Kp x) * Pp s x ≤ (flg s + 4) * Pp s x := Nat.mul_le_mul_right _ (by omega)
  have h6 : (flg s + 5) * Pp s x ≤ (flg s + 5) * (2 * (s.L.length + unl s) + 14) := Nat.mul_le_mul_left _ h4
  have h7 : (flg s + 5) * Pp s x = (flg s + 4) * Pp s x + Pp s x := by
    have : flg s + 5 = (flg s + 4) + 1 := rfl
    rw [this, Nat.add_mul, Nat.one_mul]
  simp only [Mu]
  omega

/-- **solo_terminates**: `add` / `add_unique` / `add_replace` / `replace` / `del` (and the traversals), run alone
from any reachable state, return within `(flagged-but-linked + 5) · (2·(|L| + unlinked) + 14)` own steps -/
theorem solo_terminates {c s t} (hc : c.ownerByOr = false) (r : Reach c s) (ht : t < c.n) (hp0 : (s.th t).parent = 0)
    (hrz : s.rzOwner ≠ t + 1) (hop : (opLabel (s.th t)).isSome) :
    ∃ k s', k ≤ (flg s + 5) * (2 * (s.L.length + unl s) + 14) ∧ soloOp c t k s = some s' ∧ (s'.th t).pc = .idle := by
  obtain ⟨k, s', hk, hs, hp⟩ := solo_terminates_mu hc ht (Mu s (s.th t)) s r hp0 hrz hop (Nat.le_refl _)
  exact ⟨k, s', Nat.le_trans hk (mu_bound s (s.th t)), hs, hp⟩

end UrcuVerif.Lfht.Conc
