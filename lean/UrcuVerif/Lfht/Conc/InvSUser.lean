import UrcuVerif.Lfht.Conc.InvSG
/-!
# Concurrent rculfhash — layer S: threads outside the resize code across resize-control steps (proof-only file)
-/
namespace UrcuVerif.Lfht.Conc
open UrcuVerif
set_option linter.unusedSimpArgs false
set_option linter.unusedVariables false

/-- while the resize mutex is free nobody is inside the resize code -/
theorem no_rz_free {c s} (hR : InvR c s) (h0 : s.rzOwner = 0) :
    ∀ u, ¬ ZPc (s.th u).pc ∧ ¬ HPc (s.th u).pc ∧ ¬ Worker (s.th u) := by
  intro u
  have ht := hR.t u; simp only [TR] at ht
  obtain ⟨z_owner, h_par, w_role, o_pc, p_pc, _⟩ := ht
  refine ⟨?_, ?_, ?_⟩
  · intro h; have := z_owner h; omega
  · intro h; have hp := h_par h; have := (p_pc hp).2.1; omega
  · intro h
    rcases w_role h with h | h
    · have hq := h; have := (p_pc h).2.1; omega
    · omega

/-- the safety facts of a thread outside the resize code survive any step of another thread -/
theorem TS_user_step {c s s' t l o u} (hc : c.ownerByOr = false) (r : Reach c s) (st : step c s t l = some (s', o))
    (hut : u ≠ t) (nz : ¬ ZPc (s.th u).pc ∧ ¬ HPc (s.th u).pc ∧ ¬ Worker (s.th u)) (g : TS s (s.th u) u) :
    TS s' (s.th u) u := by
  have hcs := (cs_step st).1 u hut
  have hs := fun p (h : Held s u p) => held_step hc r st hcs h
  obtain ⟨⟨g1, g2, g3, g4, g5, g6, g7, g9, g10, g11, g12⟩, g8⟩ := g
  refine ⟨⟨fun h => ⟨hs _ (g1 h).1, hs _ (g1 h).2⟩, fun h => hs _ (g2 h), fun h => hs _ (g3 h), ⟨hs _ g4.1, hs _ g4.2⟩,
    ?_, fun h => hs _ (g6 h), fun h => hs _ (g7 h), ?_, ?_, ?_, g12⟩, ?_⟩
  · intro h; rw [hcs] at h; exact g5 h
  · intro a; exfalso; apply nz.1; simp only [ZPc]; rcases a with a | a | a <;> simp [a]
  · intro a; exfalso; apply nz.1; simp [ZPc, a]
  · intro a; exfalso; apply nz.1; simp only [ZPc]; rcases a with a | a <;> simp [a]
  · intro a; exfalso
    rcases a with a | a | a
    · apply nz.1; simp [ZPc, a.1]
    · apply nz.2.1; simp [HPc, a]
    · exact nz.2.2 a

end UrcuVerif.Lfht.Conc
