import UrcuVerif.Lfht.Conc.InvD
/-! Layer D is preserved by every step (part 2) (proof-only file). -/
namespace UrcuVerif.Lfht.Conc
open UrcuVerif
set_option linter.unusedSimpArgs false
set_option linter.unusedVariables false

set_option maxHeartbeats 4000000 in
theorem invD_casGc {c s s' t o} (hc : c.ownerByOr = false) (r : Reach c s) (hD : InvD s)
    (st : step c s t .casGc = some (s', o)) : InvD s' := by
  have st0 := st
  st_open st
  all_goals d_step skip

set_option maxHeartbeats 4000000 in
theorem invD_ldWalk {c s s' t o} (hc : c.ownerByOr = false) (r : Reach c s) (hD : InvD s)
    (st : step c s t .ldWalk = some (s', o)) : InvD s' := by
  have st0 := st
  st_open st
  all_goals d_step skip

set_option maxHeartbeats 4000000 in
theorem invD_ldAssertW {c s s' t o} (hc : c.ownerByOr = false) (r : Reach c s) (hD : InvD s)
    (st : step c s t .ldAssertW = some (s', o)) : InvD s' := by
  have st0 := st
  st_open st
  all_goals d_step skip

set_option maxHeartbeats 4000000 in
theorem invD_ldHeadL {c s s' t o} (hc : c.ownerByOr = false) (r : Reach c s) (hD : InvD s)
    (st : step c s t .ldHeadL = some (s', o)) : InvD s' := by
  have st0 := st
  st_open st
  all_goals d_step skip

set_option maxHeartbeats 4000000 in
theorem invD_ldFirst {c s s' t o} (hc : c.ownerByOr = false) (r : Reach c s) (hD : InvD s)
    (st : step c s t .ldFirst = some (s', o)) : InvD s' := by
  have st0 := st
  st_open st
  all_goals d_step skip

set_option maxHeartbeats 4000000 in
theorem invD_ldAssertR {c s s' t o} (hc : c.ownerByOr = false) (r : Reach c s) (hD : InvD s)
    (st : step c s t .ldAssertR = some (s', o)) : InvD s' := by
  have st0 := st
  st_open st
  all_goals d_step skip

set_option maxHeartbeats 4000000 in
theorem invD_ldDel {c s s' t o} (hc : c.ownerByOr = false) (r : Reach c s) (hD : InvD s)
    (st : step c s t .ldDel = some (s', o)) : InvD s' := by
  have st0 := st
  st_open st
  all_goals d_step skip

set_option maxHeartbeats 4000000 in
theorem invD_ldAssertD {c s s' t o} (hc : c.ownerByOr = false) (r : Reach c s) (hD : InvD s)
    (st : step c s t .ldAssertD = some (s', o)) : InvD s' := by
  have st0 := st
  st_open st
  all_goals d_step skip

set_option maxHeartbeats 4000000 in
theorem invD_ldDel2 {c s s' t o} (hc : c.ownerByOr = false) (r : Reach c s) (hD : InvD s)
    (st : step c s t .ldDel2 = some (s', o)) : InvD s' := by
  have st0 := st
  st_open st
  all_goals d_step skip

set_option maxHeartbeats 4000000 in
theorem invD_xchgOwn {c s s' t o} (hc : c.ownerByOr = false) (r : Reach c s) (hD : InvD s)
    (st : step c s t .xchgOwn = some (s', o)) : InvD s' := by
  have st0 := st
  st_open st
  all_goals d_step skip

set_option maxHeartbeats 4000000 in
theorem invD_orOwn {c s s' t o} (hc : c.ownerByOr = false) (r : Reach c s) (hD : InvD s)
    (st : step c s t .orOwn = some (s', o)) : InvD s' := by
  have st0 := st
  st_open st
  all_goals d_step skip

set_option maxHeartbeats 4000000 in
theorem invD_reclaim {c s s' t o p} (hc : c.ownerByOr = false) (r : Reach c s) (hD : InvD s)
    (st : step c s t (.reclaim p) = some (s', o)) : InvD s' := by
  have st0 := st
  st_open st
  all_goals d_step skip

set_option maxHeartbeats 4000000 in
theorem invD_rzLock {c s s' t o} (hc : c.ownerByOr = false) (r : Reach c s) (hD : InvD s)
    (st : step c s t .rzLock = some (s', o)) : InvD s' := by
  have st0 := st
  st_open st
  all_goals d_step skip

end UrcuVerif.Lfht.Conc
