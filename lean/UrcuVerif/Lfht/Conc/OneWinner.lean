import UrcuVerif.Lfht.Conc.InvSAll
import UrcuVerif.Lfht.Conc.Resident
/-!
# Concurrent rculfhash — `one_winner`: what `cds_lfht_add_unique` returns (proof-only file)
-/
namespace UrcuVerif.Lfht.Conc
open UrcuVerif
set_option linter.unusedSimpArgs false
set_option linter.unusedVariables false

/-- thread `t` is inside `cds_lfht_add_unique(node n, key k)` -/
def InCall (s : State) (t n k : Nat) : Prop :=
  (s.th t).op = .add ∧ (s.th t).mode = .uniq ∧ (s.th t).node = n ∧ (s.th t).ky = k ∧
  ((s.th t).pc = .aSize ∨ (s.th t).pc = .aHead ∨ (s.th t).pc = .aNext ∨ (s.th t).pc = .aCas ∨ (s.th t).pc = .aGc ∨
    (((s.th t).pc = .wNext ∨ (s.th t).pc = .wAssert) ∧ (s.th t).wk = .dupAdd))

set_option maxHeartbeats 4000000 in
/-- one step of the caller inside `add_unique`: it stays inside without returning a node — and if it has just
found a duplicate, that node is visible now and has the key — or it returns its own node or the duplicate found -/
theorem ow_self {c s s' t l o n k} (hc : c.ownerByOr = false) (r : Reach c s) (st : step c s t l = some (s', o))
    (h : InCall s t n k) :
    (InCall s' t n k ∧ (∀ q, o ≠ .node q) ∧
      ((s'.th t).pc = .wAssert → ((s.th t).pc = .wAssert ∧ (s'.th t).cur = (s.th t).cur) ∨
        (vis s (s'.th t).cur ∧ s.key (s'.th t).cur = k))) ∨
    ((s'.th t).op ≠ .add ∧ ∀ q, o = .node q → q = n ∨ ((s.th t).pc = .wAssert ∧ q = (s.th t).cur)) := by
  have ⟨hR, hF, hL⟩ := invRFL_reach hc r
  have ncr := no_crash hc r (invS_reach hc r) st
  have c0 : ((s.th t).pc = .wNext ∨ (s.th t).pc = .wAssert) → (s.th t).cur ≠ 0 := by
    intro h e; have := (hF.t t).2.2.2.2.2.2.2.2.2.2.2.2.1 h; rw [e] at this; exact this.1 hF.g.2.1
  have l15 := (invRFL_reach hc (.step r st)).2.2.t t
  simp only [TL] at l15
  have l15 := l15.2.2.2.2.2.2.2.2.2.2.2.2.2.2
  obtain ⟨i1, i2, i3, i4, i5⟩ := h
  have st0 := st
  cases l with
  | reclaim p =>
    have : s'.th = s.th := by
      simp only [step, stepRz] at st
      split at st
      · cases st
      · split at st
        · split at st
          · cases st; rfl
          · cases st
        · cases st
    have ho : o = .unit := by
      simp only [step, stepRz] at st
      split at st
      · cases st
      · split at st
        · split at st
          · cases st; rfl
          · cases st
        · cases st
    left; simp only [InCall, this, ho]; exact ⟨⟨i1, i2, i3, i4, i5⟩, by simp, fun hp => .inl ⟨hp, trivial⟩⟩
  | spawn v len => exfalso; st_open st; grind
  | join v => exfalso; st_open st; grind
  | ldWalk =>
    st_open st
    all_goals
      first
        | (exfalso; exact ncr e_out.symm; done)
        | (have e1 : s'.th t = x' := by rw [e_th']; simp [upd]
           have hd : okp s (s.th t).cur = true := by grind
           have fw := found_was_visible hc r st0 (by rw [e1, xpc]) hd
           rw [e1] at fw l15 ⊢
           left
           have hvis : vis s x'.cur := by rw [fw.2.1]; exact fw.1
           have hkey : s.key x'.cur = k := by
             have := l15 xpc (by rw [xwk]; grind)
             rw [xky, i4, e_key] at this; exact this
           refine ⟨?_, ?_, fun _ => .inr ⟨hvis, hkey⟩⟩
           · simp only [InCall, e1, xop, xmode, xnode, xky, xpc, xwk]; grind
           · rw [← e_out]; simp)
        | (have e1 : s'.th t = x' := by rw [e_th']; simp [upd]
           rw [e1]
           first
             | (left
                refine ⟨?_, ?_, ?_⟩
                · simp only [InCall, e1, xop, xmode, xnode, xky, xpc, xwk]; grind
                · rw [← e_out]; simp
                · intro hp; rw [xpc] at hp; cases hp)
             | (right
                refine ⟨?_, fun q hq => ?_⟩
                · rw [xop]; simp
                · rw [← e_out] at hq; grind))
  | _ =>
    st_open st
    all_goals
      first
        | (exfalso; exact ncr e_out.symm; done)
        | (exfalso; grind; done)
        | (have e1 : s'.th t = x' := by rw [e_th']; simp [upd]
           rw [e1]
           first
             | (left
                refine ⟨?_, ?_, ?_⟩
                · simp only [InCall, e1, xop, xmode, xnode, xky, xpc, xwk]; grind
                · rw [← e_out]; simp
                · intro hp; rw [xpc] at hp; first | cases hp | grind)
             | (right
                refine ⟨?_, fun q hq => ?_⟩
                · rw [xop]; simp
                · rw [← e_out] at hq; simp at hq; grind))

/-- once the operation tag of `t` is not `add`, the next event of `t` starts from such a state -/
theorem op_stays {c s evs s' t} (ex : Exec c s evs s') (h : (s.th t).op ≠ .add) (he : ∃ e, e ∈ evs ∧ e.2.1 = t) :
    ∃ e, e ∈ evs ∧ e.2.1 = t ∧ (e.1.th t).op ≠ .add := by
  induction ex with
  | nil s => obtain ⟨e, he, _⟩ := he; simp at he
  | @cons s u l s1 o evs s2 st _ ih =>
    by_cases hu : u = t
    · exact ⟨(s, u, l, o), List.mem_cons_self, hu, h⟩
    · have h1 : (s1.th t).op ≠ .add := by rw [other_thread_op st hu]; exact h
      obtain ⟨e, he1, he2⟩ := he
      rcases List.mem_cons.mp he1 with rfl | he1
      · exact absurd he2 hu
      · obtain ⟨e', a, b, c'⟩ := ih h1 ⟨e, he1, he2⟩
        exact ⟨e', List.mem_cons_of_mem _ a, b, c'⟩

/-- **one_winner**, execution form -/
theorem ow_exec {c s evs s1 t n k q} (hc : c.ownerByOr = false) (ex : Exec c s evs s1) (Q : Nat → Prop) (r : Reach c s)
    (h : InCall s t n k) (hq : (s.th t).pc = .wAssert → Q (s.th t).cur)
    (hin : ∀ e, e ∈ evs → e.2.1 = t → (e.1.th t).op = .add)
    (hlast : ∃ e, evs.getLast? = some e ∧ e.2.1 = t ∧ e.2.2.2 = .node q) (hqn : q ≠ n) :
    Q q ∨ ∃ e, e ∈ evs ∧ vis e.1 q ∧ e.1.key q = k := by
  induction ex generalizing Q with
  | nil s => obtain ⟨e, he, _⟩ := hlast; simp at he
  | @cons s u l s1 o evs s2 st ex' ih =>
    have r1 : Reach c s1 := .step r st
    have hin' : ∀ e, e ∈ evs → e.2.1 = t → (e.1.th t).op = .add := fun e he => hin e (List.mem_cons_of_mem _ he)
    by_cases hu : u = t
    · subst hu
      rcases ow_self hc r st h with ⟨a1, a2, a3⟩ | ⟨b1, b2⟩
      · cases evs with
        | nil =>
          obtain ⟨e, he, _, ho⟩ := hlast
          simp at he; subst he; simp only at ho
          exact absurd ho (a2 q)
        | cons e' rest =>
          have hl' : ∃ e, (e' :: rest).getLast? = some e ∧ e.2.1 = u ∧ e.2.2.2 = .node q := by
            obtain ⟨e, he, x, y⟩ := hlast
            exact ⟨e, by rw [List.getLast?_cons_cons] at he; exact he, x, y⟩
          have := ih (fun x => Q x ∨ (vis s x ∧ s.key x = k)) r1 a1 (by
            intro hp
            rcases a3 hp with ⟨c1, c2⟩ | c
            · left; rw [c2]; exact hq c1
            · right; exact c) hin' hl'
          rcases this with (hh | hh) | ⟨e, he, hv⟩
          · exact .inl hh
          · exact .inr ⟨_, List.mem_cons_self, hh⟩
          · exact .inr ⟨e, List.mem_cons_of_mem _ he, hv⟩
      · cases evs with
        | nil =>
          obtain ⟨e, he, _, ho⟩ := hlast
          simp at he; subst he; simp only at ho
          rcases b2 q ho with hh | ⟨c1, c2⟩
          · exact absurd hh hqn
          · left; rw [c2]; exact hq c1
        | cons e' rest =>
          exfalso
          obtain ⟨e, he, x, _⟩ := hlast
          rw [List.getLast?_cons_cons] at he
          have hm : e ∈ e' :: rest := List.mem_of_getLast? he
          obtain ⟨e2, m1, m2, m3⟩ := op_stays ex' b1 ⟨e, hm, x⟩
          exact m3 (hin' e2 m1 m2)
    · have hp : (s.th t).pc ≠ .idle ∧ (s.th t).pc ≠ .hDone := by
        obtain ⟨_, _, _, _, i5⟩ := h
        rcases i5 with p | p | p | p | p | ⟨p | p, _⟩ <;> simp [p]
      have hth := other_thread_same st hu hp
      cases evs with
      | nil =>
        obtain ⟨e, he, x, _⟩ := hlast
        simp at he; subst he; exact absurd x hu
      | cons e' rest =>
        have hl' : ∃ e, (e' :: rest).getLast? = some e ∧ e.2.1 = t ∧ e.2.2.2 = .node q := by
          obtain ⟨e, he, x, y⟩ := hlast
          exact ⟨e, by rw [List.getLast?_cons_cons] at he; exact he, x, y⟩
        have := ih Q r1 (by simp only [InCall, hth]; exact h) (by rw [hth]; exact hq) hin' hl'
        rcases this with hh | ⟨e, he, hv⟩
        · exact .inl hh
        · exact .inr ⟨e, List.mem_cons_of_mem _ he, hv⟩

theorem ow_call {c s s' t o n h k} (st : step c s t (.callAdd .uniq n h k) = some (s', o)) : InCall s' t n k ∧ o = .unit := by
  st_open st
  have e1 : s'.th t = x' := by rw [e_th']; simp [upd]
  refine ⟨?_, e_out.symm⟩
  simp only [InCall, e1, xop, xmode, xnode, xky, xpc]; simp

/-- **one_winner**: a `cds_lfht_add_unique` that returns another node returns a node that was visible, with the
key of the call, at some instant during the call -/
theorem one_winner_exec {c s0 evs s1 t n h k q} (hc : c.ownerByOr = false) (r : Reach c s0) (ex : Exec c s0 evs s1)
    (hcall : ∃ e rest, evs = e :: rest ∧ e.2.1 = t ∧ e.2.2.1 = .callAdd .uniq n h k ∧
      ∀ e', e' ∈ rest → e'.2.1 = t → (e'.1.th t).op = .add)
    (hlast : ∃ e, evs.getLast? = some e ∧ e.2.1 = t ∧ e.2.2.2 = .node q) (hqn : q ≠ n) :
    ∃ e, e ∈ evs ∧ vis e.1 q ∧ e.1.key q = k := by
  obtain ⟨e0, rest, rfl, ht, hl, hin⟩ := hcall
  cases ex with
  | @cons s u l sa o evs' s2 st ex' =>
    simp only at ht hl
    subst ht; subst hl
    have ⟨hic, ho⟩ := ow_call st
    cases rest with
    | nil =>
      obtain ⟨e, he, _, hout⟩ := hlast
      simp at he; subst he; simp only at hout; rw [ho] at hout; cases hout
    | cons e' rest' =>
      have hl' : ∃ e, (e' :: rest').getLast? = some e ∧ e.2.1 = u ∧ e.2.2.2 = .node q := by
        obtain ⟨e, he, x, y⟩ := hlast
        exact ⟨e, by rw [List.getLast?_cons_cons] at he; exact he, x, y⟩
      have := ow_exec hc ex' (fun _ => False) (.step r st) hic (by
        intro hp; obtain ⟨_, _, _, _, i5⟩ := hic
        have : (sa.th u).pc = .aSize := by
          have st0 := st; st_open st0
          have e1 : sa.th u = x' := by rw [e_th']; simp [upd]
          rw [e1]; exact xpc
        rw [this] at hp; cases hp) hin hl' hqn
      rcases this with hh | ⟨e, he, hv⟩
      · exact hh.elim
      · exact ⟨e, List.mem_cons_of_mem _ he, hv⟩

end UrcuVerif.Lfht.Conc
