import UrcuVerif.Lfht.Conc.InvSHeap
/-!
# Concurrent rculfhash — layer S: the shrink bookkeeping `XShrink` across every step (proof-only file)
-/
namespace UrcuVerif.Lfht.Conc
open UrcuVerif
set_option linter.unusedSimpArgs false
set_option linter.unusedVariables false

/-- a `_cds_lfht_gc_bucket` pass on behalf of `remove_table_partition` only returns once the bucket is unlinked -/
theorem gc_shrink_ret {c s s' t l o} (hc : c.ownerByOr = false) (r : Reach c s) (st : step c s t l = some (s', o))
    (hl : l = .ldHeadG ∨ l = .ldNextG) (hg : (s.th t).gcont = .shrink) (hnc : o ≠ .crash) (hret : ¬ GcPc (s'.th t).pc) :
    s'.life (s.th t).node = .unlinked := by
  have hD := invD_reach hc r
  have ⟨hR, hF, hL⟩ := invRFL_reach hc r
  have d2 := (hD t).2.1
  have d3 := (hD t).2.2.1
  have hb := (hF.t t).2.2.2.2.2.2.2.2.2.2.2.2.2.2.2.2.2.2.2.1
  have hmem := hL.g.2.1 (s.th t).node
  have st0 := st
  suffices h : (s.th t).node ∉ s.L by
    have hv : valid s (s.th t).node := by
      have : GcPc (s.th t).pc := by rcases hl with rfl | rfl <;> (st_open st <;> simp [GcPc, *])
      have := (d2 this).2.1; simpa only [tgt, hg, reduceCtorEq, if_false] using this
    have hlife : s'.life = s.life := by rcases hl with rfl | rfl <;> (st_open st <;> exact e_life)
    rw [hlife]
    have : s.life (s.th t).node ≠ .linked := fun e => h (hmem.mpr e)
    simp only [valid] at hv
    cases hlf : s.life (s.th t).node <;> simp_all
  intro hq
  rcases hl with rfl | rfl
  · st_open st
    · exact hnc e_out.symm
    all_goals
      have hpc : (s.th t).pc = .gHead := by assumption
      have d2 := d2 (by simp [GcPc, hpc])
      simp only [tgt, hg, reduceCtorEq, if_false] at d2
      have gf := gc_first hc r (hb (by simp [GcPc, hpc])) hq d2.1 d2.2.2.2.2.2
      have e1 : s'.th t = x' := by rw [e_th']; simp [upd]
      rw [e1] at hret
      simp only [GcPc, xpc] at hret
      grind
  · st_open st
    · exact hnc e_out.symm
    all_goals
      have hpc : (s.th t).pc = .gNext := by assumption
      have d2 := d2 (by simp [GcPc, hpc])
      simp only [tgt, hg, reduceCtorEq, if_false] at d2
      have d3 := d3 (.inl hpc)
      simp only [tgt, hg, reduceCtorEq, if_false] at d3
      have hvp : okp s (s.th t).iter.ptr = true → valid s (s.th t).iter.ptr := by
        intro h; simp only [okp] at h; simp only [valid]; grind
      have gh := fun hpr hpv => gc_hop hc r (d3 hq) hq d2.1 hpr hpv
      have e1 : s'.th t = x' := by rw [e_th']; simp [upd]
      rw [e1] at hret
      simp only [GcPc, xpc] at hret
      grind

set_option hygiene false in
/-- `XShrink` across a step that keeps the acting thread's role and partition range -/
macro "xs_frame" : tactic => `(tactic|
  (have hR := (invRFL_reach hc r).1
   have rt0 := hR.t t; simp only [TR] at rt0
   refine XShrink_frame hc r st0 e_th' e_rz e_tbl ?_ hS.shr
   simp only [xparent, xrk, xrord, xj, xjend, xpc, xmode, xgcont, InPhase, Worker, AddPc, GcPc]
   grind [ZPc, HPc, Worker, AddPc, GcPc, InPhase]))

set_option hygiene false in
/-- a shrink worker's gc pass returns: its bucket is unlinked and it moves on -/
macro "xs_adv" lab:term : tactic => `(tactic|
  (have hR := (invRFL_reach hc r).1
   have rt0 := hR.t t; simp only [TR] at rt0
   have hg : (s.th t).gcont = .shrink := by assumption
   have hw : Worker (s.th t) := by simp only [Worker, GcPc]; grind
   have wi := rt0.2.2.2.2.2.2.2.2.2.2.2.2.2.1 hw (by grind)
   have e1 : s'.th t = x' := by rw [e_th']; simp [upd]
   refine XShrink_adv hc r st0 e_th' e_rz e_tbl hw ?_ ?_ hS.shr
   · simp only [xparent, xrk, xrord, xj, xjend, xpc, xmode, xgcont, InPhase, Worker, AddPc, GcPc]
     grind [ZPc, HPc, Worker, AddPc, GcPc, InPhase]
   · rw [← wi.2]
     exact gc_shrink_ret hc r st0 $lab hg (by rw [← e_out]; simp) (by rw [e1]; simp [GcPc, xpc])))

set_option hygiene false in
/-- after the step the mutex owner is not in a shrink partition phase -/
macro "xs_none" : tactic => `(tactic|
  (have hR := (invRFL_reach hc r).1
   have rt0 := hR.t t; simp only [TR] at rt0
   have zo := rt0.1
   intro o ho hph hrk j hj
   exfalso
   have e1 : s'.th t = x' := by rw [e_th']; simp [upd]
   by_cases hot : o = t
   · subst hot
     rw [e1] at hph hrk
     simp only [InPhase, Worker, AddPc, GcPc, xpc, xrk, xmode, xgcont] at hph hrk
     grind [ZPc]
   · simp only [e_rz] at ho
     grind [ZPc]))

set_option hygiene false in
/-- the owner starts the partition phase of a level: the whole level is in its range -/
macro "xs_level" : tactic => `(tactic|
  (have hR := (invRFL_reach hc r).1
   have rt0 := hR.t t; simp only [TR] at rt0
   have zo := rt0.1
   intro o ho hph hrk j hj
   have e1 : s'.th t = x' := by rw [e_th']; simp [upd]
   have hot : o = t := by simp only [e_rz] at ho; grind [ZPc]
   subst hot
   rw [e1] at hj ⊢
   simp only [InLevel, xrord, xj, xjend] at hj ⊢
   exact .inr (.inl hj)))

set_option maxHeartbeats 4000000 in
theorem invS_x_spawn {c s s' t o v len} (hc : c.ownerByOr = false) (r : Reach c s) (hS : InvS s)
    (st : step c s t (.spawn v len) = some (s', o)) : XShrink s' := by
  have st0 := st
  st_open st
  st_open2
  all_goals
    have hR := (invRFL_reach hc r).1
    have rt0 := hR.t t; simp only [TR] at rt0
    have zo := rt0.1
    have hvt : v ≠ t := by grind
    have hpc : (s.th t).pc = .zPart := by grind
    have ho' := zo (by simp [ZPc, hpc])
    have opc := rt0.2.2.2.1 ho'
    intro o ho hph hrk j hj
    have hot : o = t := by simp only [e_rz] at ho; omega
    subst hot
    have e1 : s'.th o = x' := by rw [e_th']; simp [upd]
    have e2 : s'.th v = y' := by rw [e_th']; simp [upd, hvt]
    rw [e1] at hph hrk hj ⊢
    simp only [xrk, xrord, xj, xjend, e_life, e_tbl] at hrk hj ⊢
    rcases hS.shr o ho' (.inl hpc) hrk j hj with h | h | ⟨u, h1, h2, h3⟩
    · exact .inl h
    · by_cases hjl : j < (s.th o).j + len
      · refine .inr (.inr ⟨v, ?_⟩)
        rw [e2]; simp only [yparent, yj, yjend]; exact ⟨trivial, h.1, hjl⟩
      · exact .inr (.inl (by omega))
    · refine .inr (.inr ⟨u, ?_⟩)
      have huo : u ≠ o := by intro e; rw [e] at h1; omega
      have huv : u ≠ v := by
        intro e; rw [e] at h1
        have := ((hR.t v).2.2.2.2.1 (by omega)).1
        simp only [HPc, Worker, AddPc, GcPc] at this
        grind
      have e3 : s'.th u = s.th u := by rw [e_th']; simp [upd, huo, huv]
      rw [e3]; exact ⟨h1, h2, h3⟩

set_option maxHeartbeats 4000000 in
theorem invS_x_join {c s s' t o v} (hc : c.ownerByOr = false) (r : Reach c s) (hS : InvS s)
    (st : step c s t (.join v) = some (s', o)) : XShrink s' := by
  have st0 := st
  st_open st
  st_open2
  all_goals
    have hR := (invRFL_reach hc r).1
    have rt0 := hR.t t; simp only [TR] at rt0
    have zo := rt0.1
    have hvt : v ≠ t := by grind
    have hpc : (s.th t).pc = .zPart := by grind
    have ho' := zo (by simp [ZPc, hpc])
    have opc := rt0.2.2.2.1 ho'
    intro o ho hph hrk j hj
    have hot : o = t := by simp only [e_rz] at ho; omega
    subst hot
    have e1 : s'.th o = x' := by rw [e_th']; simp [upd]
    rw [e1] at hph hrk hj ⊢
    simp only [xrk, xrord, xj, xjend, e_life, e_tbl] at hrk hj ⊢
    rcases hS.shr o ho' (.inl hpc) hrk j hj with h | h | ⟨u, h1, h2, h3⟩
    · exact .inl h
    · exact .inr (.inl h)
    · refine .inr (.inr ⟨u, ?_⟩)
      have huo : u ≠ o := by intro e; rw [e] at h1; omega
      have huv : u ≠ v := by
        intro e; rw [e] at h2 h3
        have rv := hR.t v; simp only [TR] at rv
        have := rv.2.2.2.2.2.2.2.2.2.2.2.2.2.2.2.2.2.2 (.inr (by grind))
        omega
      have e3 : s'.th u = s.th u := by rw [e_th']; simp [upd, huo, huv]
      rw [e3]; exact ⟨h1, h2, h3⟩


set_option maxHeartbeats 4000000 in
theorem invS_x {c s s' t l o} (hc : c.ownerByOr = false) (r : Reach c s) (hS : InvS s)
    (st : step c s t l = some (s', o)) : XShrink s' := by
  have st0 := st
  cases l with
  | ldHeadG => st_open st; all_goals first | (xs_frame; done) | (xs_adv (.inl rfl))
  | ldNextG => st_open st; all_goals first | (xs_frame; done) | (xs_adv (.inr rfl))
  | rzLock => st_open st; all_goals xs_none
  | rzUnlock => st_open st; all_goals xs_none
  | tblAlloc base => st_open st; all_goals xs_none
  | gpStart => st_open st; all_goals xs_none
  | stSizeShrink => st_open st; all_goals xs_none
  | stSizeGrow => st_open st; all_goals xs_none
  | gpEnd => st_open st; all_goals first | (xs_none; done) | xs_level
  | tblFree => st_open st; all_goals first | (xs_none; done) | xs_level
  | spawn v len => exact invS_x_spawn hc r hS st
  | join v => exact invS_x_join hc r hS st
  | _ => st_open st; all_goals xs_frame
end UrcuVerif.Lfht.Conc
