import UrcuVerif.Lfht.Conc.InvSTac
/-!
# Concurrent rculfhash — layer S, threads part: delete steps, reclaim, grow publication (proof-only file)
-/
namespace UrcuVerif.Lfht.Conc
open UrcuVerif
set_option linter.unusedSimpArgs false
set_option linter.unusedVariables false

set_option maxHeartbeats 4000000 in
theorem invSt_ldDel {c s s' t o} (hc : c.ownerByOr = false) (r : Reach c s) (hS : InvS s)
    (st : step c s t .ldDel = some (s', o)) : ∀ u, TS s' (s'.th u) u := by
  have st0 := st
  st_open st
  all_goals ts_step skip

set_option maxHeartbeats 4000000 in
theorem invSt_orRem {c s s' t o} (hc : c.ownerByOr = false) (r : Reach c s) (hS : InvS s)
    (st : step c s t .orRem = some (s', o)) : ∀ u, TS s' (s'.th u) u := by
  have st0 := st
  st_open st
  all_goals ts_step skip

set_option maxHeartbeats 4000000 in
theorem invSt_ldAssertD {c s s' t o} (hc : c.ownerByOr = false) (r : Reach c s) (hS : InvS s)
    (st : step c s t .ldAssertD = some (s', o)) : ∀ u, TS s' (s'.th u) u := by
  have st0 := st
  st_open st
  all_goals ts_step skip

set_option maxHeartbeats 4000000 in
theorem invSt_ldDel2 {c s s' t o} (hc : c.ownerByOr = false) (r : Reach c s) (hS : InvS s)
    (st : step c s t .ldDel2 = some (s', o)) : ∀ u, TS s' (s'.th u) u := by
  have st0 := st
  st_open st
  all_goals ts_step skip

set_option maxHeartbeats 4000000 in
theorem invSt_xchgOwn {c s s' t o} (hc : c.ownerByOr = false) (r : Reach c s) (hS : InvS s)
    (st : step c s t .xchgOwn = some (s', o)) : ∀ u, TS s' (s'.th u) u := by
  have st0 := st
  st_open st
  all_goals ts_step skip

set_option maxHeartbeats 4000000 in
theorem invSt_orOwn {c s s' t o} (hc : c.ownerByOr = false) (r : Reach c s) (hS : InvS s)
    (st : step c s t .orOwn = some (s', o)) : ∀ u, TS s' (s'.th u) u := by
  have st0 := st
  st_open st
  all_goals ts_step skip

set_option maxHeartbeats 4000000 in
theorem invSt_reclaim {c s s' t o p} (hc : c.ownerByOr = false) (r : Reach c s) (hS : InvS s)
    (st : step c s t (.reclaim p) = some (s', o)) : ∀ u, TS s' (s'.th u) u := by
  have st0 := st
  st_open st
  all_goals ts_step skip

set_option maxHeartbeats 4000000 in
theorem invSt_stSizeGrow {c s s' t o} (hc : c.ownerByOr = false) (r : Reach c s) (hS : InvS s)
    (st : step c s t .stSizeGrow = some (s', o)) : ∀ u, TS s' (s'.th u) u := by
  have st0 := st
  st_open st
  all_goals ts_step skip

set_option maxHeartbeats 4000000 in
theorem invSt_orBkt {c s s' t o} (hc : c.ownerByOr = false) (r : Reach c s) (hS : InvS s)
    (st : step c s t .orBkt = some (s', o)) : ∀ u, TS s' (s'.th u) u := by
  have st0 := st
  have ncr := no_crash hc r hS st0
  st_open st
  · exact absurd e_out.symm ncr
  · ts_pre
    intro u
    by_cases hu : u = t
    · have hu' : t = u := hu.symm
      subst hu'
      have hpc : (s.th t).pc = .sOr := by assumption
      have hpc' := xpc
      have hw : Worker (s.th t) := by simp [Worker, hpc]
      have wi := rt0.2.2.2.2.2.2.2.2.2.2.2.2.2.1 hw (by rw [hpc]; simp)
      have wshr := rt0.2.2.2.2.2.2.2.2.2.2.2.2.2.2.2.1 (.inr hpc)
      have h1c := TSc_heap hc r st0 (by rw [e_cs]) e_tbl (hS.t t).1
      have rg := hR.g; simp only [GR] at rg
      have h18 : ∀ j, (s.th t).j + 1 ≤ j → j < (s.th t).jend → live s' (s.tbl j) := by
        intro j h1 h2
        have hl := ts8 (.inr (.inr hw)) wshr j (by simp only [pendFrom, hpc]; simp; omega) h2
        have h0 : s.tbl j ≠ 0 := by intro e; rw [e] at hl; have := hF.g.2.1; rw [hl.1] at this; cases this
        rcases live_bucket_step hc r st0 _ (rg.2.2.1 j h0).1 hl with h | h
        · exact h
        · exfalso
          have e := h.2; rw [wi.2] at e
          have a1 := (rg.2.2.1 j h0).2.1
          have a2 := (rg.2.2.1 (s.th t).j (by rw [← e]; exact h0)).2.1
          rw [e] at a1; omega
      clear ts8
      simp only [TSc] at h1c
      ts_fin
    · ts_other

end UrcuVerif.Lfht.Conc
