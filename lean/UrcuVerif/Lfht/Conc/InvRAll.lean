import UrcuVerif.Lfht.Conc.InvRStepA
import UrcuVerif.Lfht.Conc.InvRStepB
import UrcuVerif.Lfht.Conc.InvRStepC
/-! Layer R holds in every reachable state (proof-only file). -/
namespace UrcuVerif.Lfht.Conc
open UrcuVerif

theorem invR_step {c s s' t l o} (h : InvR c s) (st : step c s t l = some (s', o)) : InvR c s' := by
  cases l with
  | rlock => exact invR_rlock h st
  | runlock => exact invR_runlock h st
  | callAdd _ _ _ _ => exact invR_callAdd h st
  | callReplace _ _ _ => exact invR_callReplace h st
  | callDel => exact invR_callDel h st
  | callLookup _ _ => exact invR_callLookup h st
  | callDup _ => exact invR_callDup h st
  | callNext => exact invR_callNext h st
  | callFirst => exact invR_callFirst h st
  | ldSize => exact invR_ldSize h st
  | ldHeadA => exact invR_ldHeadA h st
  | ldNextA => exact invR_ldNextA h st
  | casIns => exact invR_casIns h st
  | casGc => exact invR_casGc h st
  | ldWalk => exact invR_ldWalk h st
  | ldAssertW => exact invR_ldAssertW h st
  | ldHeadL => exact invR_ldHeadL h st
  | ldFirst => exact invR_ldFirst h st
  | casRepl => exact invR_casRepl h st
  | ldAssertR => exact invR_ldAssertR h st
  | ldHeadG => exact invR_ldHeadG h st
  | ldNextG => exact invR_ldNextG h st
  | ldDel => exact invR_ldDel h st
  | orRem => exact invR_orRem h st
  | ldAssertD => exact invR_ldAssertD h st
  | ldDel2 => exact invR_ldDel2 h st
  | xchgOwn => exact invR_xchgOwn h st
  | orOwn => exact invR_orOwn h st
  | orBkt => exact invR_orBkt h st
  | reclaim _ => exact invR_reclaim h st
  | rzLock => exact invR_rzLock h st
  | rzUnlock => exact invR_rzUnlock h st
  | partBegin => exact invR_partBegin h st
  | partEnd => exact invR_partEnd h st
  | stSizeGrow => exact invR_stSizeGrow h st
  | gpStart => exact invR_gpStart h st
  | gpEnd => exact invR_gpEnd h st
  | tblFree => exact invR_tblFree h st
  | spawn _ _ => exact invR_spawn h st
  | join _ => exact invR_join h st
  | stSizeShrink => exact invR_stSizeShrink h st
  | tblAlloc _ => exact invR_tblAlloc h st

theorem invR_reach {c s} (r : Reach c s) : InvR c s := by
  induction r with
  | init => exact invR_init c
  | step _ st ih => exact invR_step ih st

end UrcuVerif.Lfht.Conc
