import UrcuVerif.Lfht.Conc.SoloCas
import UrcuVerif.Lfht.Conc.InvSAll
/-!
# Concurrent rculfhash — the measure of `solo_terminates` (proof-only file)
-/
namespace UrcuVerif.Lfht.Conc
open UrcuVerif
set_option linter.unusedSimpArgs false
set_option linter.unusedVariables false

/-- the only step an operation can take at its pc -/
def opLabel (x : Thr) : Option Label :=
  match x.pc with
  | .aSize | .rSize | .dSize | .lSize => some .ldSize
  | .aHead => some .ldHeadA | .aNext => some .ldNextA | .aCas => some .casIns | .aGc | .gCas => some .casGc
  | .wNext => some .ldWalk | .wAssert => some .ldAssertW | .lHead => some .ldHeadL | .fHead => some .ldFirst
  | .rCas => some .casRepl | .rAssert => some .ldAssertR | .gHead => some .ldHeadG | .gNext => some .ldNextG
  | .dLd => some .ldDel | .dOr => some .orRem | .dAssert => some .ldAssertD | .dLd2 => some .ldDel2
  | .dXchg => some .xchgOwn
  | _ => none

/-- `k` consecutive steps of an operation of thread `t` alone (every other thread frozen wherever it is) -/
def soloOp (c : Cfg) (t : Nat) : Nat → State → Option State
  | 0, s => some s
  | k + 1, s => match opLabel (s.th t) with
    | some l => match step c s t l with
      | some (s', _) => soloOp c t k s'
      | none => none
    | none => none

/-- flagged nodes still linked: what a lock-free operation may have to help unlink -/
def flg (s : State) : Nat := s.L.countP fun p => (s.nxt p).rem

theorem countP_change {l : List Nat} {p p' : Nat → Bool} {a : Nat} (hn : l.Nodup) (h : ∀ q, q ≠ a → p' q = p q) :
    l.countP p' ≤ l.countP p + 1 ∧ (a ∉ l → l.countP p' = l.countP p) ∧
    (a ∈ l → p a = false → p' a = true → l.countP p' = l.countP p + 1) := by
  induction l with
  | nil => simp
  | cons b l ih =>
    have ⟨hb, hn'⟩ := List.nodup_cons.mp hn
    have ⟨i1, i2, i3⟩ := ih hn'
    by_cases e : b = a
    · subst e
      have := i2 hb
      simp only [List.countP_cons, this]
      refine ⟨by split <;> split <;> omega, fun h => absurd List.mem_cons_self h, ?_⟩
      intro _ h1 h2; simp [h1, h2]
    · simp only [List.countP_cons, h b e]
      refine ⟨by omega, ?_, ?_⟩
      · intro h; rw [i2 (fun h' => h (List.mem_cons_of_mem _ h'))]
      · intro h h1 h2
        rcases List.mem_cons.mp h with h | h
        · exact absurd h.symm e
        · rw [i3 h h1 h2]; omega

theorem countP_erase_mem {l : List Nat} {p : Nat → Bool} {a : Nat} (h : a ∈ l) :
    l.countP p = (l.erase a).countP p + (if p a then 1 else 0) := by
  have := (List.perm_cons_erase h).countP_eq p
  rw [this, List.countP_cons]

theorem insAfter_perm {p n : Nat} {l : List Nat} (h : p ∈ l) : (insAfter p n l).Perm (n :: l) := by
  induction l with
  | nil => simp at h
  | cons b l ih =>
    simp only [insAfter]
    split
    · exact List.Perm.swap n b l
    · next hne =>
      rcases List.mem_cons.mp h with h | h
      · exact absurd h.symm hne
      · exact (List.Perm.cons b (ih h)).trans (List.Perm.swap n b l)

instance (s : State) (x : Thr) : Decidable (Fresh s x) := by unfold Fresh HasPos; infer_instance
instance (x : Thr) : Decidable (Pend x) := by unfold Pend; infer_instance

/-- 1 if the next CAS of the thread may fail although it runs alone (it carries a stale value) -/
def stl (s : State) (x : Thr) : Nat := if x.pc ≠ .rSize ∧ Fresh s x then 0 else 1

/-- passes still to come after the current one, not counting helping and the stale CAS -/
def Kp (x : Thr) : Nat :=
  match x.pc with
  | .gHead | .gNext | .gCas => 1
  | .dAssert | .dLd2 | .dXchg | .rAssert => 0
  | _ => 3

/-- published nodes, plus the private node the thread is about to publish -/
def Wt (s : State) (x : Thr) : Nat := s.L.length + unl s + (if Pend x then 1 else 0)

/-- bound on the own steps of one pass over a bucket chain -/
def Pp (s : State) (x : Thr) : Nat := 2 * Wt s x + 12

/-- own steps left in the current pass -/
def pos (s : State) (x : Thr) : Nat :=
  match x.pc with
  | .aSize | .dSize => Pp s x - 1
  | .aHead => 2 * wmu s x.bkt + 4
  | .aNext => 2 * wmu s x.iter.ptr + 3
  | .wNext => 2 * wmu s x.cur + 2
  | .wAssert => 2 * wmu s x.cur + 1
  | .gHead => 2 * wmu s x.gbkt + 4
  | .lSize => Pp s x - 1
  | .lHead => 2 * wmu s x.bkt + 4
  | .fHead => 2 * wmu s (s.tbl 0) + 4
  | .gNext => 2 * wmu s x.iter.ptr + 3
  | .rSize | .dLd | .dLd2 => 2
  | .dAssert => 3
  | .aCas | .aGc | .rCas | .gCas | .dOr | .dXchg | .rAssert => 1
  | _ => 0

/-- the measure: (passes to come) × (length of a pass) + (steps left in this pass) -/
def Mu (s : State) (x : Thr) : Nat := (flg s + stl s x + Kp x) * Pp s x + pos s x

theorem lex_lt {a a' P P' p p' : Nat} (ha : a' ≤ a) (hP : P' ≤ P) (h : p' < p ∨ (a' < a ∧ p' < P)) :
    a' * P' + p' < a * P + p := by
  have h1 : a' * P' ≤ a' * P := Nat.mul_le_mul_left _ hP
  rcases h with h | ⟨h2, h3⟩
  · have : a' * P ≤ a * P := Nat.mul_le_mul_right _ ha
    omega
  · have : (a' + 1) * P ≤ a * P := Nat.mul_le_mul_right _ h2
    rw [Nat.add_mul] at this
    omega

theorem stl_le (s : State) (x : Thr) : stl s x ≤ 1 := by simp only [stl]; split <;> omega

theorem pos_lt {s x} : pos s x < Pp s x := by
  have h1 := wmu_le s x.bkt; have h2 := wmu_le s x.iter.ptr; have h3 := wmu_le s x.cur; have h4 := wmu_le s x.gbkt
  have h5 := wmu_le s (s.tbl 0)
  simp only [pos, Pp, Wt]
  split <;> omega

/-- own steps do not make the thread's values staler -/
theorem stl_mono {c s s' t l o} (hc : c.ownerByOr = false) (r : Reach c s) (st : step c s t l = some (s', o))
    (hpc' : (s'.th t).pc ≠ .rSize) : stl s' (s'.th t) ≤ stl s (s.th t) := by
  simp only [stl]
  split
  · omega
  · next h1 =>
    split
    · next h2 =>
      exfalso
      rcases own_step_fresh hc r st h2.2 with h | ⟨_, h⟩
      · exact h1 ⟨hpc', h⟩
      · exact h2.1 h
    · omega

theorem countP_change_mem {l : List Nat} {p p' : Nat → Bool} {a : Nat} (hn : l.Nodup) (h : ∀ q, q ∈ l → q ≠ a → p' q = p q) :
    l.countP p' ≤ l.countP p + 1 := by
  induction l with
  | nil => simp
  | cons b l ih =>
    have ⟨hb, hn'⟩ := List.nodup_cons.mp hn
    by_cases e : b = a
    · subst e
      have : l.countP p' = l.countP p :=
        List.countP_congr (fun q hq => by rw [h q (List.mem_cons_of_mem _ hq) (fun e => hb (e ▸ hq))])
      simp only [List.countP_cons, this]; split <;> split <;> omega
    · have := ih hn' (fun q hq => h q (List.mem_cons_of_mem _ hq))
      simp only [List.countP_cons, h b List.mem_cons_self e]; omega

theorem length_insAfter {p n : Nat} {l : List Nat} (h : p ∈ l) : (insAfter p n l).length = l.length + 1 := by
  rw [(insAfter_perm h).length_eq]; simp

/-- the unlink CAS removes one flagged node from the list -/
theorem flg_unlink {s s' : State} {p c : Nat} {w : W} (e_L : s'.L = s.L.erase c) (e_nxt : s'.nxt = upd s.nxt p w)
    (hw : w.rem = (s.nxt p).rem) (hc : c ∈ s.L) (hr : (s.nxt c).rem = true) : flg s' + 1 = flg s := by
  have hp : ∀ q, (s'.nxt q).rem = (s.nxt q).rem := by
    intro q; rw [e_nxt]; simp only [upd]; split
    · next h => rw [h, hw]
    · rfl
  simp only [flg, e_L, hp]
  rw [countP_erase_mem (p := fun q => (s.nxt q).rem) hc, hr]; simp

/-- flagging one node, or replacing one node by a new unflagged one, adds at most one flagged node -/
theorem flg_flag {s s' : State} {a : Nat} (hn : s.L.Nodup) (e_L : s'.L = s.L)
    (h : ∀ q, q ≠ a → (s'.nxt q).rem = (s.nxt q).rem) : flg s' ≤ flg s + 1 := by
  simp only [flg, e_L]
  exact countP_change_mem hn (fun q _ hq => h q hq)

theorem flg_repl {s s' : State} {a n : Nat} (hn : s.L.Nodup) (ha : a ∈ s.L) (hnl : n ∉ s.L) (e_L : s'.L = insAfter a n s.L)
    (h : ∀ q, q ≠ a → q ≠ n → (s'.nxt q).rem = (s.nxt q).rem) (hnn : (s'.nxt n).rem = false) : flg s' ≤ flg s + 1 := by
  simp only [flg, e_L]
  rw [(insAfter_perm ha).countP_eq, List.countP_cons, hnn]
  have := countP_change_mem (p := fun q => (s.nxt q).rem) (p' := fun q => (s'.nxt q).rem) (a := a) hn
    (fun q hq hqa => h q hqa (fun e => hnl (e ▸ hq)))
  simpa using this

theorem unl_same {s s' : State} (e_hi : s'.hi = s.hi) (h : ∀ q, (s'.life q = .unlinked) ↔ (s.life q = .unlinked)) :
    unl s' = unl s := by
  simp only [unl, e_hi]
  apply List.countP_congr
  intro q _
  have := h q
  by_cases h1 : s.life q = .unlinked
  · simp [h1, this.mpr h1]
  · have h2 : ¬ s'.life q = .unlinked := fun e => h1 (this.mp e)
    simp [h1, h2]

theorem unl_unlink {s s' : State} {c : Nat} (e_hi : s'.hi = s.hi) (e_life : s'.life = upd s.life c .unlinked)
    (hl : s.life c = .linked) (hc : c < s.hi) : unl s' = unl s + 1 := by
  simp only [unl, e_hi]
  refine (countP_change (p := fun q => s.life q == .unlinked) (p' := fun q => s'.life q == .unlinked) (a := c)
    List.nodup_range ?_).2.2 (List.mem_range.mpr hc) (by simp [hl]) (by simp [e_life, upd])
  intro q hq; simp [e_life, upd, hq]

end UrcuVerif.Lfht.Conc
