import UrcuVerif.Lfht.Conc.InvAAll
import UrcuVerif.Lfht.Conc.ListLemmas
/-!
# Concurrent rculfhash — layer L: the ghost list (proof-only file)

`L` = the nodes linked from bucket 0, in list order:
* `chain_L`: the pointer part of `a.next` is `a`'s successor in `L` (NULL for the last one);
* `unremoved_linked_in_L`: `p ∈ L ↔ life p = linked`; with layer F (a node is unlinked only after being
  flagged) every published, unflagged node is in `L`;
* `sorted_L`: `L` is sorted by `(reverse_hash, bucket-first)`;
* `sorted_edges`: every `next` edge of a published node (also a frozen edge of an unlinked node) goes to
  a node that sorts behind it.
-/
namespace UrcuVerif.Lfht.Conc
open UrcuVerif

/-- pointer part of `p->next` -/
def nxp (s : State) : Nat → Nat := fun p => (s.nxt p).ptr

/-- split order: `a` may precede `b` — smaller reversed hash, or equal and bucket nodes first -/
def ok (s : State) (a b : Nat) : Prop :=
  s.rev a < s.rev b ∨ (s.rev a = s.rev b ∧ (s.isB b = false ∨ s.isB a = true))

theorem ok_trans {s a b c} (h1 : ok s a b) (h2 : ok s b c) : ok s a c := by
  simp only [ok] at *
  rcases h1 with h1 | ⟨e1, f1⟩ <;> rcases h2 with h2 | ⟨e2, f2⟩
  · exact .inl (by omega)
  · exact .inl (by omega)
  · exact .inl (by omega)
  · refine .inr ⟨by omega, ?_⟩
    rcases f2 with f2 | f2
    · exact .inl f2
    · rcases f1 with f1 | f1
      · rw [f1] at f2; cases f2
      · exact .inr f1

def GL (s : State) : Prop :=
  s.L.Nodup ∧ (∀ p, p ∈ s.L ↔ s.life p = .linked) ∧ Chn (nxp s) s.L ∧ s.L.Pairwise (ok s) ∧
  (∀ p, valid s p → (s.nxt p).ptr ≠ 0 → ok s p (s.nxt p).ptr)

/-- the step left `L`, the pointer parts, the life cycle of published nodes and the order keys of published
nodes alone -/
theorem GL_frame {s s' : State} (g : GL s) (e_L : s'.L = s.L) (h_ptr : ∀ p, (s'.nxt p).ptr = (s.nxt p).ptr)
    (h_life : ∀ p, (s'.life p = .linked ↔ s.life p = .linked) ∧ (valid s' p ↔ valid s p))
    (h_rev : ∀ p, valid s p → s'.rev p = s.rev p ∧ s'.isB p = s.isB p)
    (h_nv : ∀ p, valid s p → vz s (s.nxt p).ptr) : GL s' := by
  obtain ⟨g1, g2, g3, g4, g5⟩ := g
  have hok : ∀ a b, valid s a → valid s b → (ok s' a b ↔ ok s a b) := by
    intro a b ha hb; simp only [ok, (h_rev a ha).1, (h_rev a ha).2, (h_rev b hb).1, (h_rev b hb).2]
  have hv : ∀ p, p ∈ s.L → valid s p := by
    intro p hp; have := (g2 p).mp hp; simp only [valid, this]; simp
  refine ⟨by rw [e_L]; exact g1, ?_, ?_, ?_, ?_⟩
  · intro p; rw [e_L, (h_life p).1]; exact g2 p
  · rw [e_L]; exact chn_congr g3 (fun x _ => by simp only [nxp, h_ptr])
  · rw [e_L]
    exact g4.imp_of_mem (fun ha hb h => (hok _ _ (hv _ ha) (hv _ hb)).mpr h)
  · intro p hp hn
    have hp' := (h_life p).2.mp hp
    rw [h_ptr] at hn ⊢
    have := h_nv p hp' hn
    exact (hok _ _ hp' this).mpr (g5 p hp' hn)

/-- the insertion CAS / the replace CAS: `node` is linked right behind `prev` -/
theorem GL_insert {s s' : State} (g : GL s) {prev node : Nat} {w1 w2 : W}
    (e_nxt : s'.nxt = upd (upd s.nxt node w1) prev w2) (e_life : s'.life = upd s.life node .linked)
    (e_L : s'.L = insAfter prev node s.L) (e_rev : s'.rev = s.rev) (e_isB : s'.isB = s.isB)
    (hw1 : w1.ptr = (s.nxt prev).ptr) (hw2 : w2.ptr = node)
    (hp : s.life prev = .linked) (hn : s.life node = .priv) (hz : s.life 0 ≠ .linked)
    (h1 : ok s prev node) (h2 : (s.nxt prev).ptr ≠ 0 → ok s node (s.nxt prev).ptr) : GL s' := by
  obtain ⟨g1, g2, g3, g4, g5⟩ := g
  have hpL : prev ∈ s.L := (g2 prev).mpr hp
  have hnL : node ∉ s.L := fun h => by have := (g2 node).mp h; rw [hn] at this; cases this
  have hne : prev ≠ node := fun e => hnL (e ▸ hpL)
  have hok : ∀ a b, ok s' a b ↔ ok s a b := by intro a b; simp only [ok, e_rev, e_isB]
  refine ⟨?_, ?_, ?_, ?_, ?_⟩
  · rw [e_L]; exact nodup_insAfter g1 hnL
  · intro p
    rw [e_L, mem_insAfter hpL, e_life, g2 p]
    simp only [upd]
    by_cases e : p = node
    · simp [e]
    · simp [e]
  · rw [e_L]
    refine chn_insAfter g3 g1 hpL hnL ?_ ?_ ?_
    · simp only [nxp, e_nxt, upd, if_true]; exact hw2
    · simp only [nxp, e_nxt, upd, (Ne.symm hne), if_false, if_true]; exact hw1
    · intro x h1 h2; simp only [nxp, e_nxt, upd, h1, h2, if_false]
  · rw [e_L]
    have g4' : s.L.Pairwise (ok s') := g4.imp (fun h => (hok _ _).mpr h)
    refine pairwise_insAfter (fun a b c h1 h2 => ok_trans h1 h2) g4' g1 hpL ((hok _ _).mpr h1) ?_
    intro b l1 l2 hl
    have hb : nxp s prev = b := chn_succ (hl ▸ g3)
    have hbL : b ∈ s.L := by rw [hl]; simp
    have hb0 : b ≠ 0 := fun e => hz ((g2 0).mp (e ▸ hbL))
    simp only [nxp] at hb
    exact (hok _ _).mpr (hb ▸ h2 (hb ▸ hb0))
  · intro p hv hnz
    rw [hok]
    have hvs : p ≠ node → valid s p := by
      intro e; simpa only [valid, e_life, upd, e, if_false] using hv
    simp only [e_nxt, upd] at hnz ⊢
    by_cases e1 : p = prev
    · simp only [e1, if_true] at hnz ⊢; rw [hw2]; exact h1
    · by_cases e2 : p = node
      · subst e2
        simp only [e1, if_false, if_true] at hnz ⊢
        rw [hw1] at hnz ⊢; exact h2 hnz
      · simp only [e1, e2, if_false] at hnz ⊢
        exact g5 p (hvs e2) hnz

/-- the unlink CAS: `c`, the successor of `prev`, leaves the list; `prev.next := c.next` -/
theorem GL_unlink {s s' : State} (g : GL s) {prev c : Nat} {w : W}
    (e_nxt : s'.nxt = upd s.nxt prev w) (e_life : s'.life = upd s.life c .unlinked)
    (e_L : s'.L = s.L.erase c) (e_rev : s'.rev = s.rev) (e_isB : s'.isB = s.isB)
    (hw : w.ptr = (s.nxt c).ptr) (hp : s.life prev = .linked) (hc : (s.nxt prev).ptr = c) (c0 : c ≠ 0)
    : GL s' := by
  obtain ⟨g1, g2, g3, g4, g5⟩ := g
  have hpL : prev ∈ s.L := (g2 prev).mpr hp
  have hcL : c ∈ s.L := by
    have := chn_next_mem g3 hpL (by simp only [nxp, hc]; exact c0); simpa only [nxp, hc] using this
  have hcl : s.life c = .linked := (g2 c).mp hcL
  have hok : ∀ a b, ok s' a b ↔ ok s a b := by intro a b; simp only [ok, e_rev, e_isB]
  have hvc : valid s c := by simp only [valid, hcl]; simp
  refine ⟨?_, ?_, ?_, ?_, ?_⟩
  · rw [e_L]; exact g1.erase c
  · intro p
    rw [e_L, g1.mem_erase_iff, e_life, g2 p]
    simp only [upd]
    by_cases e : p = c
    · simp [e]
    · simp [e]
  · rw [e_L]
    refine chn_erase g3 g1 hpL (by simp only [nxp, hc]) c0 ?_ ?_
    · simp only [nxp, e_nxt, upd, if_true]; exact hw
    · intro x hx; simp only [nxp, e_nxt, upd, hx, if_false]
  · rw [e_L]
    exact (g4.sublist List.erase_sublist).imp (fun h => (hok _ _).mpr h)
  · intro p hv hnz
    rw [hok]
    have hvs : valid s p := by
      by_cases e : p = c
      · rw [e]; exact hvc
      · simpa only [valid, e_life, upd, e, if_false] using hv
    simp only [e_nxt, upd] at hnz ⊢
    by_cases e1 : p = prev
    · simp only [e1, if_true] at hnz ⊢
      rw [hw] at hnz ⊢
      have h1 := g5 prev (by simp only [valid, hp]; simp) (by rw [hc]; exact c0)
      rw [hc] at h1
      exact ok_trans h1 (g5 c hvc hnz)
    · simp only [e1, if_false] at hnz ⊢
      exact g5 p hvs hnz

/-- the walk inside `_cds_lfht_add` that looks for a duplicate -/
def DupW (x : Thr) : Prop := (x.pc = .wNext ∨ x.pc = .wAssert) ∧ x.wk = .dupAdd

/-- `a` sorts strictly before the node being inserted, or equal with the node a non-bucket -/
def Before (s : State) (x : Thr) (a : Nat) : Prop :=
  s.rev a < s.rev x.node ∨ (s.rev a = s.rev x.node ∧ x.mode ≠ .bkt)

/-- order facts about the locals of a thread inside `_cds_lfht_add` / `_cds_lfht_replace` -/
def TL (s : State) (x : Thr) : Prop :=
  ((x.pc = .aNext ∨ x.pc = .aCas ∨ x.pc = .aGc ∨ DupW x) → Before s x x.prev) ∧
  (x.pc = .aNext → Before s x x.iter.ptr) ∧
  ((x.pc = .aCas ∨ DupW x) → (x.iter.ptr = 0 ∨ s.rev x.node < s.rev x.iter.ptr ∨
      (s.rev x.node = s.rev x.iter.ptr ∧ (x.mode = .bkt ∨ s.isB x.iter.ptr = false)))) ∧
  (InAdd x → Before s x x.bkt) ∧
  (DupW x → x.rh = s.rev x.node ∧ s.rev x.cur = x.rh) ∧
  ((x.pc = .rCas ∨ x.pc = .rSize) → s.rev x.old = s.rev x.node) ∧
  (x.pc = .aSize → s.rev x.node = bitReverse64 x.hs) ∧
  (x.pc = .wAssert → x.wnx.ptr ≠ 0 → ok s x.cur x.wnx.ptr) ∧
  (¬ (x.op = .first ∧ (x.pc = .wNext ∨ x.pc = .wAssert)) → x.itn ≠ 0 → x.itx.ptr ≠ 0 → ok s x.itn x.itx.ptr) ∧
  (x.op = .first → (x.pc = .fHead ∨ x.pc = .wNext ∨ x.pc = .wAssert) ∧ x.wk = .next) ∧
  (x.pc = .fHead → x.op = .first) ∧
  -- keys (C06)
  ((x.pc = .aSize ∨ InAdd x ∨ x.pc = .rSize ∨ x.pc = .rCas) → x.mode ≠ .bkt → s.key x.node = x.ky) ∧
  ((x.pc = .rCas ∨ x.pc = .rSize) → s.key x.old = s.key x.node) ∧
  ((x.mode = .uniq ∨ x.mode = .repl) → (x.pc = .aNext ∨ x.pc = .aCas ∨ x.pc = .aGc ∨ DupW x) →
      (s.rev x.prev < s.rev x.node ∨ (s.rev x.prev = s.rev x.node ∧ s.isB x.prev = true))) ∧
  (x.pc = .wAssert → x.wk = .dupAdd → s.key x.cur = x.ky)

structure InvL (s : State) : Prop where
  g : GL s
  t : ∀ u, TL s (s.th u)

theorem invL_init : InvL init := by
  refine ⟨?_, ?_⟩
  · simp only [GL, init, nxp, Chn, valid, ok]
    refine ⟨by simp, ?_, by simp, by simp, ?_⟩
    · intro p; by_cases h : p = 1 <;> simp [h]
    · intro p _ h; by_cases e : p = 1 <;> simp [e] at h
  · intro u; simp [TL, init, InAdd, DupW, ok]

set_option linter.unusedSimpArgs false
set_option linter.unusedVariables false
/-- the parent bucket sorts strictly before the bucket being populated -/
theorem parent_before {c s} (hR : InvR c s) (t : Nat)
    (hw : Worker (s.th t) ∨ (s.th t).pc = .hStart ∨ ((s.th t).pc = .zPart ∧ s.rzOwner = t + 1)) (j : Nat)
    (h1 : (s.th t).j ≤ j) (h2 : j < (s.th t).jend) :
    s.rev (s.tbl (j - 2 ^ ((s.th t).rord - 1))) < s.rev (s.tbl j) := by
  obtain ⟨w1, w2, w3, w4, w5, w6, w7, _⟩ := worker_facts hR t hw
  have rg := hR.g
  simp only [GR] at rg
  have pw := @two_pow_pred (s.th t).rord w1
  have hj : j < 2 ^ (s.th t).rord := by omega
  have hp : j - 2 ^ ((s.th t).rord - 1) < 2 ^ (s.th t).rord := by omega
  have m1 := rg.2.2.1 j (w7 j hj); have m2 := rg.2.2.1 _ (w7 _ hp)
  rw [(rg.2.2.2.1 _).1, (rg.2.2.2.1 _).1, m1.2.1, m2.2.1]
  have : (s.th t).rord - 1 + 1 = (s.th t).rord := by omega
  exact bitrev_parent_lt ((s.th t).rord - 1) j (by omega) (by omega) (by rw [this]; exact hj)

/-- the bucket chosen for hash `h` under table size `2^k` sorts before `h` -/
theorem bucket_before {c s} (hR : InvR c s) (h : Nat) :
    s.rev (s.tbl (h % s.size)) ≤ bitReverse64 h := by
  have rg := hR.g
  simp only [GR] at rg
  have sz0 : 0 < s.size := by have := rg.1.1; have := Nat.two_pow_pos (Nat.log2 s.size); omega
  have hm := Nat.mod_lt h sz0
  have m := rg.2.2.1 _ (rg.2.1 _ hm)
  rw [(rg.2.2.2.1 _).1, m.2.1]
  have := bitrev_bucket_le (Nat.log2 s.size) h (by have := rg.1.2; omega)
  rw [mask_eq_mod, ← rg.1.1] at this
  exact this

/-- order facts survive a step that changes `reverse_hash` / the bucket mark only on fresh nodes -/
theorem TL_stable {c : Cfg} {s s' : State} {u : Nat} (hR : InvR c s) (hF : InvF c s)
    (h : ∀ p, s.life p ≠ .fresh → s'.rev p = s.rev p ∧ s'.isB p = s.isB p ∧ s'.key p = s.key p) (g : TL s (s.th u)) :
    TL s' (s.th u) := by
  have rg := hR.g; have fu := hF.t u; have ru := hR.t u
  simp only [GR] at rg
  have hv : ∀ p, valid s p → s'.rev p = s.rev p ∧ s'.isB p = s.isB p ∧ s'.key p = s.key p := fun p hp => h p hp.1
  have hb : ∀ B, HB s u B → s'.rev B = s.rev B ∧ s'.isB B = s.isB B ∧ s'.key B = s.key B := by
    intro B ⟨b1, b2, b3, _⟩; refine h B ?_; have := rg.2.2.1 (s.hsh B) (by rw [b3]; exact b1); rw [b3] at this; exact this.2.2.1
  simp only [TF] at fu
  simp only [TR] at ru
  obtain ⟨f1, f2, f3, f4, f5, f6, f7, f8, f9, f10, f11, f12, f13, f14, f15, f16, f17, f18, f19, f20, f21, f22, f23, f24⟩ := fu
  have e_prev : HasPos (s.th u) → s'.rev (s.th u).prev = s.rev (s.th u).prev ∧ s'.isB (s.th u).prev = s.isB (s.th u).prev ∧ s'.key (s.th u).prev = s.key (s.th u).prev :=
    fun hp => hv _ (f10 hp).1
  have e_iter : HasPos (s.th u) → (s.th u).iter.ptr ≠ 0 →
      s'.rev (s.th u).iter.ptr = s.rev (s.th u).iter.ptr ∧ s'.isB (s.th u).iter.ptr = s.isB (s.th u).iter.ptr ∧ s'.key (s.th u).iter.ptr = s.key (s.th u).iter.ptr :=
    fun hp h0 => hv _ ((f10 hp).2.2.2.2 h0)
  have e_bkt : InAdd (s.th u) → s'.rev (s.th u).bkt = s.rev (s.th u).bkt ∧ s'.isB (s.th u).bkt = s.isB (s.th u).bkt ∧ s'.key (s.th u).bkt = s.key (s.th u).bkt :=
    fun hp => hb _ (f8 hp)
  have e_cur : ((s.th u).pc = .wNext ∨ (s.th u).pc = .wAssert) →
      s'.rev (s.th u).cur = s.rev (s.th u).cur ∧ s'.isB (s.th u).cur = s.isB (s.th u).cur ∧ s'.key (s.th u).cur = s.key (s.th u).cur := fun hp => hv _ (f13 hp)
  have e_old : ((s.th u).pc = .rSize ∨ (s.th u).pc = .rCas) →
      s'.rev (s.th u).old = s.rev (s.th u).old ∧ s'.isB (s.th u).old = s.isB (s.th u).old ∧ s'.key (s.th u).old = s.key (s.th u).old :=
    fun hp => hv _ (f17 (by grind)).1
  have e_node : (InAdd (s.th u) ∨ (s.th u).pc = .rSize ∨ (s.th u).pc = .rCas ∨ (s.th u).pc = .aSize) →
      s'.rev (s.th u).node = s.rev (s.th u).node ∧ s'.isB (s.th u).node = s.isB (s.th u).node ∧ s'.key (s.th u).node = s.key (s.th u).node := by
    intro hp
    by_cases hm : (s.th u).mode = .bkt
    · have hw : Worker (s.th u) := by simp only [Worker, AddPc, InAdd] at *; grind
      have wi := ru.2.2.2.2.2.2.2.2.2.2.2.2.2.1 hw (by simp only [InAdd] at hp; grind)
      obtain ⟨w1, w2, w3, w4, w5, w6, w7, _⟩ := worker_facts hR u (.inl hw)
      have pw := @two_pow_pred (s.th u).rord w1
      rw [wi.2]; exact h _ (rg.2.2.1 _ (w7 _ (by omega))).2.2.1
    · have := f6 (by simp only [Pend, InAdd] at *; grind)
      exact h _ (by rw [this.1]; simp)
  have e_wnx : (s.th u).pc = .wAssert → (s.th u).wnx.ptr ≠ 0 →
      s'.rev (s.th u).wnx.ptr = s.rev (s.th u).wnx.ptr ∧ s'.isB (s.th u).wnx.ptr = s.isB (s.th u).wnx.ptr ∧ s'.key (s.th u).wnx.ptr = s.key (s.th u).wnx.ptr :=
    fun hp h0 => hv _ ((f14 hp).2.2.1 h0)
  have e_itn : (s.th u).itn ≠ 0 → s'.rev (s.th u).itn = s.rev (s.th u).itn ∧ s'.isB (s.th u).itn = s.isB (s.th u).itn ∧ s'.key (s.th u).itn = s.key (s.th u).itn :=
    fun h0 => hv _ (f16.1 h0)
  have e_itx : (s.th u).itx.ptr ≠ 0 →
      s'.rev (s.th u).itx.ptr = s.rev (s.th u).itx.ptr ∧ s'.isB (s.th u).itx.ptr = s.isB (s.th u).itx.ptr ∧ s'.key (s.th u).itx.ptr = s.key (s.th u).itx.ptr :=
    fun h0 => hv _ (f16.2.1 h0)
  have i0 := f11
  clear f1 f2 f3 f4 f5 f6 f7 f8 f9 f10 f12 f13 f14 f15 f16 f17 f18 f19 f20 f21 f22 f23 f24 ru hb hv h rg
  simp only [TL, Before, DupW, ok] at g ⊢
  obtain ⟨g1, g2, g3, g4, g5, g6, g7, g8, g9, g10, g11, g12, g13, g14, g15⟩ := g
  refine ⟨?_, ?_, ?_, ?_, ?_, ?_, ?_, ?_, ?_, ?_, ?_, ?_, ?_, ?_, ?_⟩ <;> grind [InAdd, HasPos]

open Lean in
set_option hygiene false in
/-- layer L across a step of thread `t` that leaves `L` and all pointer parts alone; the term list = nodes at
which the node facts (`GFn`, sorted edge) are instantiated for the acting thread -/
macro "l_frame" hR:ident hF:ident hL:ident "[" ts:term,* "]" : tactic => do
  let mut inst ← `(tactic| skip)
  for t in ts.getElems do
    inst ← `(tactic| ($inst; have := fgn $t; have := lg5 $t))
  `(tactic|
  (have hR0 := $hR; have hF0 := $hF
   have ftt := ($hF).t t; have rtt := ($hR).t t; have ltt := ($hL).t t; have fg := ($hF).g; have lg := ($hL).g
   have rg := ($hR).g; have lt := ($hL).t; have ft := ($hF).t
   simp only [TF, TR, GF, GR] at ftt rtt fg rg
   obtain ⟨fgn, fgz, fgl, fgc⟩ := fg
   have lg5 := lg.2.2.2.2
   refine ⟨?_, ?_⟩
   · refine GL_frame lg e_L ?_ ?_ ?_ (fun p hp => ((fgn p).2.2.2.1 hp))
     · intro p
       first
         | (rw [e_nxt]; done)
         | (have := fgn (s.th t).node; simp only [GFn] at this; clear lt ft lg lg5 fgn
            rw [e_nxt]; simp only [upd]; split <;> grind)
     · intro p
       first
         | (simp only [valid, e_life]; exact ⟨Iff.rfl, Iff.rfl⟩)
         | (have := fgn p; simp only [GFn] at this; clear lt ft lg lg5 fgn ftt rtt
            simp only [valid, e_life, upd]; grind)
     · intro p hp
       first
         | (rw [e_rev, e_isB]; exact ⟨rfl, rfl⟩)
         | (have := fgn p; simp only [GFn, valid] at this hp; clear lt ft lg lg5 fgn ftt rtt
            simp only [e_rev, e_isB, upd]; grind)
   · intro u
     by_cases hu : u = t
     · have hu' : t = u := hu.symm
       subst hu'
       have e1 : s'.th t = x' := by rw [e_th']; simp [upd]
       rw [e1]
       skip
       ($inst:tactic)
       clear lt ft lg fgn lg5
       simp only [TL, Before, DupW, InAdd, GFn, ok] at *
       st_simp
       grind [valid, vz, live, Pend, HasPos, HB, AddPc, GcPc, ZPc, HPc, Worker, InPhase, found, okp]
     · have e1 : s'.th u = s.th u := by rw [e_th']; simp [upd, hu]
       rw [e1]
       have ltu := lt u
       first
         | (simpa only [TL, Before, DupW, InAdd, ok, e_rev, e_isB, e_key] using ltu)
         | (refine TL_stable hR0 hF0 ?_ ltu
            intro p hp
            have := fgn p; simp only [GFn, valid] at this; clear lt ft lg lg5 fgn ftt rtt ltt
            simp only [e_rev, e_isB, e_key, upd]; grind)))

end UrcuVerif.Lfht.Conc
