import UrcuVerif.Lfht.Conc.InvR
/-! Layer R is preserved by every step: API entry points and `_cds_lfht_add` (proof-only file). -/
namespace UrcuVerif.Lfht.Conc
open UrcuVerif
set_option linter.unusedSimpArgs false
set_option linter.unusedVariables false

set_option maxHeartbeats 2000000 in
theorem invR_rlock {c s s' t o} (h : InvR c s) (st : step c s t .rlock = some (s', o)) : InvR c s' := by
  st_open st
  all_goals r_step h

set_option maxHeartbeats 2000000 in
theorem invR_runlock {c s s' t o} (h : InvR c s) (st : step c s t .runlock = some (s', o)) : InvR c s' := by
  st_open st
  all_goals r_step h

set_option maxHeartbeats 2000000 in
theorem invR_callAdd {c s s' t o m n hh k} (h : InvR c s) (st : step c s t (.callAdd m n hh k) = some (s', o)) : InvR c s' := by
  st_open st
  all_goals r_step h

set_option maxHeartbeats 2000000 in
theorem invR_callReplace {c s s' t o n hh k} (h : InvR c s) (st : step c s t (.callReplace n hh k) = some (s', o)) : InvR c s' := by
  st_open st
  all_goals r_step h

set_option maxHeartbeats 2000000 in
theorem invR_callDel {c s s' t o} (h : InvR c s) (st : step c s t .callDel = some (s', o)) : InvR c s' := by
  st_open st
  all_goals r_step h

set_option maxHeartbeats 2000000 in
theorem invR_callLookup {c s s' t o hh k} (h : InvR c s) (st : step c s t (.callLookup hh k) = some (s', o)) : InvR c s' := by
  st_open st
  all_goals r_step h

set_option maxHeartbeats 2000000 in
theorem invR_callDup {c s s' t o k} (h : InvR c s) (st : step c s t (.callDup k) = some (s', o)) : InvR c s' := by
  st_open st
  all_goals r_step h

set_option maxHeartbeats 2000000 in
theorem invR_callNext {c s s' t o} (h : InvR c s) (st : step c s t .callNext = some (s', o)) : InvR c s' := by
  st_open st
  all_goals r_step h

set_option maxHeartbeats 2000000 in
theorem invR_callFirst {c s s' t o} (h : InvR c s) (st : step c s t .callFirst = some (s', o)) : InvR c s' := by
  st_open st
  all_goals r_step h

set_option maxHeartbeats 2000000 in
theorem invR_ldSize {c s s' t o} (h : InvR c s) (st : step c s t .ldSize = some (s', o)) : InvR c s' := by
  st_open st
  all_goals r_step h

set_option maxHeartbeats 2000000 in
theorem invR_ldHeadA {c s s' t o} (h : InvR c s) (st : step c s t .ldHeadA = some (s', o)) : InvR c s' := by
  st_open st
  all_goals r_step h

set_option maxHeartbeats 2000000 in
theorem invR_ldNextA {c s s' t o} (h : InvR c s) (st : step c s t .ldNextA = some (s', o)) : InvR c s' := by
  st_open st
  all_goals r_step h

set_option maxHeartbeats 2000000 in
theorem invR_casIns {c s s' t o} (h : InvR c s) (st : step c s t .casIns = some (s', o)) : InvR c s' := by
  st_open st
  all_goals r_step h

set_option maxHeartbeats 2000000 in
theorem invR_casGc {c s s' t o} (h : InvR c s) (st : step c s t .casGc = some (s', o)) : InvR c s' := by
  st_open st
  all_goals r_step h

end UrcuVerif.Lfht.Conc
