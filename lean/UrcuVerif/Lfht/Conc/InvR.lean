import UrcuVerif.Lfht.Conc.Tac
/-!
# Concurrent rculfhash — layer R: the resize skeleton (proof-only file)

Who holds the resize mutex, the partition helpers (counted through an existential list: `nh = 0` means
"all joined"), the disjoint index ranges of the partitions, the shape of `size`/`tbl`, the immutable
data of bucket nodes.  Nothing about the list itself.

Shape used by all layers: `G* s` (clauses about shared state), `T* c s x t` (clauses about the locals
`x` of thread `t`), cross-thread clauses; `Inv* c s := G* s ∧ (∀ t, T* c s (s.th t) t) ∧ …`.
-/
namespace UrcuVerif.Lfht.Conc
open UrcuVerif

def AddPc (p : Pc) : Prop := p = .aHead ∨ p = .aNext ∨ p = .aCas ∨ p = .aGc
def GcPc (p : Pc) : Prop := p = .gHead ∨ p = .gNext ∨ p = .gCas
def ZPc (p : Pc) : Prop := p = .zIdle ∨ p = .zPart ∨ p = .zGp ∨ p = .zSync ∨ p = .zFree
def HPc (p : Pc) : Prop := p = .hStart ∨ p = .hDone

/-- inside the loop of `init_table_populate_partition` / `remove_table_partition` (read-side section held) -/
def Worker (x : Thr) : Prop :=
  (AddPc x.pc ∧ x.mode = .bkt) ∨ (GcPc x.pc ∧ x.gcont = .shrink) ∨ x.pc = .sOr ∨ x.pc = .pEnd

/-- the owner of the resize mutex is in the partition phase of a level -/
def InPhase (x : Thr) : Prop := x.pc = .zPart ∨ Worker x

def GR (s : State) : Prop :=
  (s.size = 2 ^ Nat.log2 s.size ∧ Nat.log2 s.size ≤ 63) ∧
  (∀ j, j < s.size → s.tbl j ≠ 0) ∧
  (∀ j, s.tbl j ≠ 0 → s.isB (s.tbl j) = true ∧ s.hsh (s.tbl j) = j ∧ s.life (s.tbl j) ≠ .fresh ∧
            s.tbl j < s.hi ∧ j < 2 ^ 64) ∧
  (∀ p, s.rev p = bitReverse64 (s.hsh p) ∧ s.hsh p < 2 ^ 64) ∧
  0 < s.hi

def TR (c : Cfg) (s : State) (x : Thr) (t : Nat) : Prop :=
  -- roles
  (ZPc x.pc → s.rzOwner = t + 1) ∧
  (HPc x.pc → x.parent ≠ 0) ∧
  (Worker x → x.parent ≠ 0 ∨ s.rzOwner = t + 1) ∧
  (s.rzOwner = t + 1 → x.parent = 0 ∧ (ZPc x.pc ∨ Worker x)) ∧
  (x.parent ≠ 0 → (HPc x.pc ∨ Worker x) ∧ s.rzOwner = x.parent ∧ x.parent ≠ t + 1 ∧
      2 ^ (x.rord - 1) ≤ x.j ∧ x.j ≤ x.jend) ∧
  ((x.pc = .rSize ∨ x.pc = .rCas ∨ x.pc = .aSize ∨ ((x.pc = .wNext ∨ x.pc = .wAssert) ∧ x.wk = .dupAdd)) →
      x.mode ≠ .bkt) ∧
  ((x.pc = .lSize ∨ x.pc = .lHead ∨ x.pc = .fHead) → x.wk ≠ .dupAdd) ∧
  (c.n ≤ t → x.pc = .idle ∧ x.parent = 0) ∧
  -- the level in progress
  (x.pc = .zIdle → x.pfree = 0) ∧
  (s.rzOwner = t + 1 → InPhase x →
      (x.rk = .grow ∨ x.rk = .shrink) ∧ 1 ≤ x.rord ∧ x.rord ≤ 63 ∧ s.size = 2 ^ (x.rord - 1) ∧
      2 ^ (x.rord - 1) ≤ x.j ∧ x.j ≤ x.jend ∧ x.jend = 2 ^ x.rord ∧ (∀ j, j < 2 ^ x.rord → s.tbl j ≠ 0) ∧ x.pfree = 0) ∧
  ((x.pc = .zGp ∨ x.pc = .zSync ∨ x.pc = .zFree) → x.rk = .shrink →
      1 ≤ x.rord ∧ x.rord ≤ 63 ∧ s.size = 2 ^ (x.rord - 1) ∧ (∀ j, j < 2 ^ x.rord → s.tbl j ≠ 0) ∧
      (x.pfree = 0 ∨ x.pfree = x.rord + 1)) ∧
  ((x.pc = .zGp ∨ x.pc = .zSync ∨ x.pc = .zFree) → x.rk ≠ .shrink →
      x.pc ≠ .zGp ∧ x.rk = .none ∧ 1 ≤ x.pfree ∧ s.size = 2 ^ (x.pfree - 1)) ∧
  (x.pc = .zFree → x.pfree ≠ 0) ∧
  -- a worker's current item
  (Worker x → x.pc ≠ .pEnd → x.j < x.jend ∧ x.node = s.tbl x.j) ∧
  (AddPc x.pc → x.mode = .bkt → x.rk = .grow ∧ x.bkt = s.tbl (x.j - 2 ^ (x.rord - 1))) ∧
  (((GcPc x.pc ∧ x.gcont = .shrink) ∨ x.pc = .sOr) → x.rk = .shrink) ∧
  (GcPc x.pc → x.gcont = .shrink → x.gbkt = s.tbl (x.j - 2 ^ (x.rord - 1)) ∧ x.gnode = x.node) ∧
  ((Worker x ∨ HPc x.pc) → x.rk = .grow ∨ x.rk = .shrink) ∧
  ((x.pc = .pEnd ∨ x.pc = .hDone) → x.j = x.jend)

/-- helper ↔ owner -/
def XRel (s : State) : Prop :=
  ∀ t o, (s.th t).parent = o + 1 → InPhase (s.th o) ∧ (s.th t).rk = (s.th o).rk ∧
    (s.th t).rord = (s.th o).rord ∧ (s.th t).jend ≤ (s.th o).j

def XDisj (s : State) : Prop :=
  ∀ t u, t ≠ u → (s.th t).parent ≠ 0 → (s.th u).parent ≠ 0 →
    (s.th t).jend ≤ (s.th u).j ∨ (s.th u).jend ≤ (s.th t).j

def XHelpers (s : State) (hl : List Nat) : Prop :=
  hl.Nodup ∧ (∀ u, u ∈ hl ↔ (s.th u).parent ≠ 0) ∧
    (∀ o, s.rzOwner = o + 1 → InPhase (s.th o) → (s.th o).nh = hl.length) ∧
    (∀ o, s.rzOwner = o + 1 → ¬ InPhase (s.th o) → hl = []) ∧ (s.rzOwner = 0 → hl = [])

structure InvR (c : Cfg) (s : State) : Prop where
  g : GR s
  t : ∀ u, TR c s (s.th u) u
  rel : XRel s
  disj : XDisj s
  helpers : ∃ hl, XHelpers s hl

theorem invR_init (c : Cfg) : InvR c init := by
  refine ⟨?_, ?_, ?_, ?_, ⟨[], ?_⟩⟩ <;>
    simp [init, GR, TR, XRel, XDisj, XHelpers, AddPc, GcPc, ZPc, HPc, Worker, InPhase, bitrev64_zero]
  · decide

set_option linter.unusedSimpArgs false
set_option hygiene false in
/-- a step of thread `t` that does not touch other threads' locals -/
macro "r_step" h:ident : tactic => `(tactic|
  (obtain ⟨hg, ht, hrel, hdisj, ⟨hl, hhl⟩⟩ := $h
   have htt := ht t
   simp only [XHelpers] at hhl
   obtain ⟨l1, l2, l3, l4, l5⟩ := hhl
   have l3t := l3 t; have l4t := l4 t
   have pw := @two_pow_pred (s.th t).rord; have pw' := @two_pow_pred (s.th t).pfree
   have lg := @Nat.log2_two_pow (s.th t).rord; have lg' := @Nat.log2_two_pow ((s.th t).rord - 1)
   refine ⟨?_, ?_, ?_, ?_, ⟨hl, ?_⟩⟩
   · simp only [GR] at hg ⊢; st_simp; first | exact hg | (simp only [TR, AddPc, GcPc, ZPc, HPc, Worker, InPhase] at htt; grind)
   · intro u
     by_cases hu : u = t
     · subst hu
       simp only [TR, AddPc, GcPc, ZPc, HPc, Worker, InPhase, GR] at htt hg l3t l4t ⊢
       st_simp
       grind
     · have hut := ht u; have r1 := hrel u t; have l2u := l2 u
       simp only [TR, AddPc, GcPc, ZPc, HPc, Worker, InPhase, GR] at hut hg htt r1 l3t l4t ⊢
       st_simp; simp only [hu, if_false]
       first | exact hut | grind
   · intro a o
     have r1 := hrel a o; have r2 := hrel t o; have r3 := hrel a t; have ha' := ht a; have ho' := ht o; have l2a := l2 a
     simp only [TR, AddPc, GcPc, ZPc, HPc, Worker, InPhase] at htt r1 r2 r3 ha' ho' l3t l4t ⊢
     st_simp
     by_cases ha : a = t <;> by_cases ho : o = t <;> simp only [ha, ho, if_true, if_false] <;> grind
   · intro a b
     have r1 := hdisj a b; have r2 := hdisj t b; have r3 := hdisj a t; have l2a := l2 a; have l2b := l2 b
     simp only [TR, AddPc, GcPc, ZPc, HPc, Worker, InPhase] at htt l3t l4t
     st_simp
     by_cases ha : a = t <;> by_cases hb : b = t <;> simp only [ha, hb, if_true, if_false] <;> grind
   · simp only [XHelpers, TR, AddPc, GcPc, ZPc, HPc, Worker, InPhase] at htt l3t l4t ⊢
     st_simp
     refine ⟨l1, ?_, ?_, ?_, ?_⟩
     · intro u; have := l2 u; by_cases hu : u = t <;> simp only [hu, if_true, if_false] <;> grind
     · intro u; have := l3 u; have := l4 u; by_cases hu : u = t <;> simp only [hu, if_true, if_false, InPhase, Worker, AddPc, GcPc] at * <;> grind
     · intro u; have := l4 u; have := l3 u; by_cases hu : u = t <;> simp only [hu, if_true, if_false, InPhase, Worker, AddPc, GcPc] at * <;> grind
     · grind))

end UrcuVerif.Lfht.Conc
