import UrcuVerif.Lfht.Conc.InvAStep1
import UrcuVerif.Lfht.Conc.InvAStep2
import UrcuVerif.Lfht.Conc.InvAStep3
import UrcuVerif.Lfht.Conc.InvAStep4
/-! Layers R, F, A hold in every reachable state of the unmutated model (proof-only file). -/
namespace UrcuVerif.Lfht.Conc
open UrcuVerif

theorem invA_step {c s s' t l o} (hc : c.ownerByOr = false) (hR : InvR c s) (hF : InvF c s) (hA : InvA s)
    (st : step c s t l = some (s', o)) : InvA s' := by
  cases l with
  | rlock => exact invA_rlock hc hR hF hA st
  | runlock => exact invA_runlock hc hR hF hA st
  | callAdd _ _ _ _ => exact invA_callAdd hc hR hF hA st
  | callReplace _ _ _ => exact invA_callReplace hc hR hF hA st
  | callDel => exact invA_callDel hc hR hF hA st
  | callLookup _ _ => exact invA_callLookup hc hR hF hA st
  | callDup _ => exact invA_callDup hc hR hF hA st
  | callNext => exact invA_callNext hc hR hF hA st
  | callFirst => exact invA_callFirst hc hR hF hA st
  | ldSize => exact invA_ldSize hc hR hF hA st
  | ldHeadA => exact invA_ldHeadA hc hR hF hA st
  | ldNextA => exact invA_ldNextA hc hR hF hA st
  | casIns => exact invA_casIns hc hR hF hA st
  | casGc => exact invA_casGc hc hR hF hA st
  | ldWalk => exact invA_ldWalk hc hR hF hA st
  | ldAssertW => exact invA_ldAssertW hc hR hF hA st
  | ldHeadL => exact invA_ldHeadL hc hR hF hA st
  | ldFirst => exact invA_ldFirst hc hR hF hA st
  | casRepl => exact invA_casRepl hc hR hF hA st
  | ldAssertR => exact invA_ldAssertR hc hR hF hA st
  | ldHeadG => exact invA_ldHeadG hc hR hF hA st
  | ldNextG => exact invA_ldNextG hc hR hF hA st
  | ldDel => exact invA_ldDel hc hR hF hA st
  | orRem => exact invA_orRem hc hR hF hA st
  | ldAssertD => exact invA_ldAssertD hc hR hF hA st
  | ldDel2 => exact invA_ldDel2 hc hR hF hA st
  | xchgOwn => exact invA_xchgOwn hc hR hF hA st
  | orOwn => exact invA_orOwn hc hR hF hA st
  | orBkt => exact invA_orBkt hc hR hF hA st
  | reclaim _ => exact invA_reclaim hc hR hF hA st
  | rzLock => exact invA_rzLock hc hR hF hA st
  | rzUnlock => exact invA_rzUnlock hc hR hF hA st
  | partBegin => exact invA_partBegin hc hR hF hA st
  | partEnd => exact invA_partEnd hc hR hF hA st
  | stSizeGrow => exact invA_stSizeGrow hc hR hF hA st
  | stSizeShrink => exact invA_stSizeShrink hc hR hF hA st
  | gpStart => exact invA_gpStart hc hR hF hA st
  | gpEnd => exact invA_gpEnd hc hR hF hA st
  | tblFree => exact invA_tblFree hc hR hF hA st
  | tblAlloc _ => exact invA_tblAlloc hc hR hF hA st
  | spawn _ _ => exact invA_spawn hc hR hF hA st
  | join _ => exact invA_join hc hR hF hA st

theorem invRFA_reach {c s} (hc : c.ownerByOr = false) (r : Reach c s) : InvR c s ∧ InvF c s ∧ InvA s := by
  induction r with
  | init => exact ⟨invR_init c, invF_init c, invA_init⟩
  | step _ st ih => exact ⟨invR_step ih.1 st, invF_step hc ih.1 ih.2.1 st, invA_step hc ih.1 ih.2.1 ih.2.2 st⟩

end UrcuVerif.Lfht.Conc
