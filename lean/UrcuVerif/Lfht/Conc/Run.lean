import UrcuVerif.Lfht.Conc.Step3
/-! # Concurrent rculfhash: executable runs (schedules as lists) and recorded executions (core Lean only) -/
namespace UrcuVerif.Lfht.Conc
open UrcuVerif

/-- run a schedule (`none` = some step was not enabled) -/
def run (c : Cfg) : State → List (Nat × Label) → Option State
  | s, [] => some s
  | s, (t, l) :: r => match step c s t l with
    | some (s', _) => run c s' r
    | none => none

/-- run a schedule and collect the outputs -/
def runOut (c : Cfg) : State → List (Nat × Label) → Option (State × List Out)
  | s, [] => some (s, [])
  | s, (t, l) :: r => match step c s t l with
    | some (s', o) => (runOut c s' r).map fun x => (x.1, o :: x.2)
    | none => none

/-- an execution with its events (pre-state, thread, label, output) -/
inductive Exec (c : Cfg) : State → List (State × Nat × Label × Out) → State → Prop
  | nil (s) : Exec c s [] s
  | cons {s t l s1 o evs s2} : step c s t l = some (s1, o) → Exec c s1 evs s2 → Exec c s ((s, t, l, o) :: evs) s2

theorem run_reach {c s sch s'} (r : Reach c s) (h : run c s sch = some s') : Reach c s' := by
  induction sch generalizing s with
  | nil => simp [run] at h; exact h ▸ r
  | cons a sch ih =>
    obtain ⟨t, l⟩ := a
    simp only [run] at h
    split at h
    · next s1 o e => exact ih (.step r e) h
    · cases h

end UrcuVerif.Lfht.Conc
