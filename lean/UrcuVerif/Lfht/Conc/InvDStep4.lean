import UrcuVerif.Lfht.Conc.InvD
/-! Layer D is preserved by every step (entering and running `_cds_lfht_gc_bucket`) (proof-only file). -/
namespace UrcuVerif.Lfht.Conc
open UrcuVerif
set_option linter.unusedSimpArgs false
set_option linter.unusedVariables false

set_option maxHeartbeats 4000000 in
theorem invD_orRem {c s s' t o} (hc : c.ownerByOr = false) (r : Reach c s) (hD : InvD s)
    (st : step c s t .orRem = some (s', o)) : InvD s' := by
  have st0 := st
  st_open st
  · d_step skip
  · d_enter
    have hsz := d1 (by grind)
    have bb := bucket_before_sz hR' (s.hsh (s.th t).node) (s.th t).sz hsz (by rw [e_tbl, ← xgbkt]; exact (f20 hgp).1)
    have rh := (rg'.2.2.2.1 (s.th t).node).1
    rw [e_hsh] at rh; rw [e_tbl] at bb
    have h22 := f22 (by simp [xpc, GcPc, xgcont]); have h23 := f23 (by simp [xpc, GcPc, xgcont])
    rw [xnode] at h22 h23
    refine ⟨by rw [xnode]; exact h23, by rw [xnode]; exact h22.1, by rw [xgnode, xnode], by rw [xgnode]; exact h22.1, hbf.2.2.2.2, ?_⟩
    rw [xnode, xgbkt]
    have : s'.rev (s.tbl (s.hsh (s.th t).node % (s.th t).sz)) ≤ s'.rev (s.th t).node := by rw [rh]; exact bb
    rcases Nat.lt_or_ge (s'.rev (s.tbl (s.hsh (s.th t).node % (s.th t).sz))) (s'.rev (s.th t).node) with h | h
    · exact .inl h
    · exact .inr ⟨by omega, h22.2⟩

set_option maxHeartbeats 4000000 in
theorem invD_casRepl {c s s' t o} (hc : c.ownerByOr = false) (r : Reach c s) (hD : InvD s)
    (st : step c s t .casRepl = some (s', o)) : InvD s' := by
  have st0 := st
  st_open st
  all_goals first | (d_step skip; done) | skip
  all_goals
    d_enter
    have hpc : (s.th t).pc = .rCas := by assumption
    have hsz := d1 (.inr (.inl hpc))
    have bb := bucket_before_sz hR' (s.hsh (s.th t).old) (s.th t).sz hsz (by rw [e_tbl, ← xgbkt]; exact (f20 hgp).1)
    have rh := (rg'.2.2.2.1 (s.th t).old).1
    rw [e_hsh] at rh; rw [e_tbl] at bb
    have h17 := f17 (by simp [xpc, GcPc, xgcont])
    rw [xold] at h17
    have hrev := l6 (.inl hpc)
    have hvn : valid s' (s.th t).node := by simp [valid, e_life, upd]
    have hrm : (s'.nxt (s.th t).old).rem = true := by rw [e_nxt]; simp [upd]
    refine ⟨by rw [xold]; exact hrm, by rw [xold]; exact h17.1, by rw [xold, xgnode, e_rev]; exact hrev,
      by rw [xgnode]; exact hvn, hbf.2.2.2.2, ?_⟩
    rw [xold, xgbkt]
    have : s'.rev (s.tbl (s.hsh (s.th t).old % (s.th t).sz)) ≤ s'.rev (s.th t).old := by rw [rh]; exact bb
    rcases Nat.lt_or_ge (s'.rev (s.tbl (s.hsh (s.th t).old % (s.th t).sz))) (s'.rev (s.th t).old) with h | h
    · exact .inl h
    · exact .inr ⟨by omega, h17.2⟩

set_option maxHeartbeats 4000000 in
theorem invD_orBkt {c s s' t o} (hc : c.ownerByOr = false) (r : Reach c s) (hD : InvD s)
    (st : step c s t .orBkt = some (s', o)) : InvD s' := by
  have st0 := st
  st_open st
  · d_step skip
  · d_enter
    have hpc : (s.th t).pc = .sOr := by assumption
    have hw : Worker (s.th t) := by simp only [Worker, hpc]; simp
    have rt1 := hR.t t; simp only [TR] at rt1
    have wi := rt1.2.2.2.2.2.2.2.2.2.2.2.2.2.1 hw (by rw [hpc]; simp)
    have pb := parent_before hR t (.inl hw) (s.th t).j (Nat.le_refl _) wi.1
    have hrm : (s'.nxt (s.th t).node).rem = true := by rw [e_nxt]; simp [upd]
    have hvn : valid s' (s.th t).node := by
      have : okp s (s.th t).node = true := by grind
      simp only [okp] at this; simp only [valid, e_life]; grind
    refine ⟨by rw [xnode]; exact hrm, by rw [xnode]; exact hvn, by rw [xgnode, xnode], by rw [xgnode]; exact hvn, hbf.2.2.2.2, ?_⟩
    rw [xnode, xgbkt, e_rev, wi.2]; exact .inl pb
set_option maxHeartbeats 4000000 in
theorem invD_ldHeadG {c s s' t o} (hc : c.ownerByOr = false) (r : Reach c s) (hD : InvD s)
    (st : step c s t .ldHeadG = some (s', o)) : InvD s' := by
  have st0 := st
  st_open st
  all_goals d_step (
    have en : nxp s' = nxp s := (by funext x; simp only [nxp, e_nxt]);
    have hpc : (s.th t).pc = .gHead := (by assumption);
    have d2 := (hD t).2.1 (by simp [GcPc, hpc]);
    have hb := (hF.t t).2.2.2.2.2.2.2.2.2.2.2.2.2.2.2.2.2.2.2.1 (by simp [GcPc, hpc]);
    have gf := fun hq => gc_first hc r hb hq d2.1 d2.2.2.2.2.2;
    have nxd : nxp s (s.th t).gbkt = (s.nxt (s.th t).gbkt).ptr := rfl)

set_option maxHeartbeats 4000000 in
theorem invD_ldNextG {c s s' t o} (hc : c.ownerByOr = false) (r : Reach c s) (hD : InvD s)
    (st : step c s t .ldNextG = some (s', o)) : InvD s' := by
  have st0 := st
  st_open st
  all_goals d_step (
    have en : nxp s' = nxp s := (by funext x; simp only [nxp, e_nxt]);
    have hpc : (s.th t).pc = .gNext := (by assumption);
    have d2 := (hD t).2.1 (by simp [GcPc, hpc]);
    have d3 := (hD t).2.2.1 (.inl hpc);
    have hvp : okp s (s.th t).iter.ptr = true → valid s (s.th t).iter.ptr := (by intro h; simp only [okp] at h; simp only [valid]; grind);
    have gh := fun hq hpr hpv => gc_hop hc r (d3 hq) hq d2.1 hpr hpv)

end UrcuVerif.Lfht.Conc
