import UrcuVerif.Lfht.Conc.Model
/-! # Concurrent rculfhash: the step function (split by function of the C text) -/
namespace UrcuVerif.Lfht.Conc
open UrcuVerif

/-- read-side section markers and the API entry points (no shared access yet) -/
def stepApi (_c : Cfg) (s : State) (t : Nat) (x : Thr) : Label → Option (State × Out)
  | .rlock =>
    match s.cs t with
    | none => if x.pc = .idle then some (tick { s with cs := upd s.cs t (some s.clock) }, .unit) else none
    | some _ => none
  | .runlock =>
    match s.cs t with
    | some _ =>
      if x.pc = .idle then
        some (tick (setTh { s with cs := upd s.cs t none } t { x with itn := 0, itx := {} }), .unit)
      else none
    | none => none
  | .callAdd m n h k =>
    if x.pc = .idle ∧ (s.cs t).isSome ∧ m ≠ .bkt ∧ n ≠ 0 ∧ s.life n = .fresh ∧ h < 2^64 then
      let s1 := { s with life := upd s.life n .priv, hsh := upd s.hsh n h,
                         rev := upd s.rev n (bitReverse64 h), key := upd s.key n k, hi := max s.hi (n + 1) }
      some (tick (setTh s1 t { x with op := .add, mode := m, node := n, hs := h, ky := k, pc := .aSize }), .unit)
    else none
  | .callReplace n h k =>
    if x.pc = .idle ∧ (s.cs t).isSome ∧ n ≠ 0 ∧ s.life n = .fresh ∧ h < 2^64 then
      let s1 := { s with life := upd s.life n .priv, hsh := upd s.hsh n h,
                         rev := upd s.rev n (bitReverse64 h), key := upd s.key n k, hi := max s.hi (n + 1) }
      if x.itn = 0 then some (tick s1, .ret (-ENOENT))
      else if s.rev x.itn ≠ bitReverse64 h then some (tick s1, .ret (-EINVAL))
      else if s.key x.itn ≠ k then some (tick s1, .ret (-EINVAL))
      else some (tick (setTh s1 t { x with op := .replace, mode := .repl, node := n, hs := h, ky := k,
                                           old := x.itn, oldnx := x.itx, pc := .rSize }), .unit)
    else none
  | .callDel =>
    if x.pc = .idle ∧ (s.cs t).isSome then
      some (tick (setTh s t { x with op := .del, node := x.itn, pc := .dSize }), .unit)
    else none
  | .callLookup h k =>
    if x.pc = .idle ∧ (s.cs t).isSome ∧ h < 2^64 then
      some (tick (setTh s t { x with op := .lookup, wk := .lookup, hs := h, ky := k, rh := bitReverse64 h,
                                     pc := .lSize }), .unit)
    else none
  | .callDup k =>
    if x.pc = .idle ∧ (s.cs t).isSome ∧ x.itn ≠ 0 then
      let (s', o) := walkPos s t { x with op := .dup, wk := .dup, ky := k, rh := s.rev x.itn } x.itx.ptr
      some (tick s', o)
    else none
  | .callNext =>
    if x.pc = .idle ∧ (s.cs t).isSome then
      let (s', o) := walkPos s t { x with op := .next, wk := .next } x.itx.ptr
      some (tick s', o)
    else none
  | .callFirst =>
    if x.pc = .idle ∧ (s.cs t).isSome then
      some (tick (setTh s t { x with op := .first, wk := .next, pc := .fHead }), .unit)
    else none
  | _ => none

/-- `_cds_lfht_add` (all modes, incl. the bucket path of populate) and the size loads -/
def stepAdd (_c : Cfg) (s : State) (t : Nat) (x : Thr) : Label → Option (State × Out)
  | .ldSize =>
    match x.pc with
    | .aSize => some (tick (setTh s t { x with sz := s.size, bkt := s.tbl (x.hs % s.size), pc := .aHead }), .unit)
    | .rSize => let (s', o) := replTest s t { x with sz := s.size } x.oldnx; some (tick s', o)
    | .dSize =>
      if x.node = 0 then some (tick (setTh s t { x with sz := s.size, pc := .idle, op := .none }), .ret (-ENOENT))
      else some (tick (setTh s t { x with sz := s.size, pc := .dLd }), .unit)
    | .lSize => some (tick (setTh s t { x with sz := s.size, bkt := s.tbl (x.hs % s.size), pc := .lHead }), .unit)
    | _ => none
  | .ldHeadA =>
    if x.pc = .aHead then
      if !okp s x.bkt then crash s else
      some (tick (setTh s t (addPos s { x with prev := x.bkt, iter := s.nxt x.bkt })), .unit)
    else none
  | .ldNextA =>
    if x.pc = .aNext then
      let p := x.iter.ptr
      if !okp s p then crash s else
      let w := s.nxt p
      if w.rem then some (tick (setTh s t { x with nx := w, pc := .aGc }), .unit)
      else if (x.mode = .uniq ∨ x.mode = .repl) ∧ w.bkt = false ∧ s.rev p = s.rev x.node then
        some (tick (setTh s t { x with nx := w, wk := .dupAdd, rh := s.rev x.node, cur := p, pc := .wNext }), .unit)
      else some (tick (setTh s t (addPos s { x with nx := w, prev := p, iter := w })), .unit)
    else none
  | .casIns =>
    if x.pc = .aCas then
      if !okp s x.prev then crash s else
      if s.nxt x.prev = x.iter then
        let s1 := { s with nxt := upd (upd s.nxt x.node { ptr := x.iter.ptr, bkt := x.mode == .bkt }) x.prev
                                  { ptr := x.node, bkt := x.iter.bkt },
                           L := insAfter x.prev x.node s.L, life := upd s.life x.node .linked }
        let (s', o) := addDone s1 t x
        some (tick s', o)
      else some (tick (setTh s t { x with pc := .aHead }), .unit)
    else none
  | .casGc =>
    if x.pc = .aGc ∨ x.pc = .gCas then
      if !okp s x.prev then crash s else
      let pc' : Pc := if x.pc = .aGc then .aHead else .gHead
      if s.nxt x.prev = x.iter then
        some (tick (setTh (unlink s x.prev x.iter.ptr { ptr := x.nx.ptr, bkt := x.iter.bkt }) t { x with pc := pc' }), .unit)
      else some (tick (setTh s t { x with pc := pc' }), .unit)
    else none
  | _ => none

/-- `cds_lfht_lookup`, `cds_lfht_next_duplicate` (also inside `_cds_lfht_add`), `cds_lfht_next`, `cds_lfht_first` -/
def stepWalk (_c : Cfg) (s : State) (t : Nat) (x : Thr) : Label → Option (State × Out)
  | .ldWalk =>
    if x.pc = .wNext then
      if !okp s x.cur then crash s else
      let w := s.nxt x.cur
      if found s x w then some (tick (setTh s t { x with wnx := w, pc := .wAssert }), .unit)
      else let (s', o) := walkPos s t { x with wnx := w } w.ptr; some (tick s', o)
    else none
  | .ldAssertW =>
    if x.pc = .wAssert then
      if !okp s x.cur then crash s else
      let (s', o) := walkRet s t x x.cur x.wnx; some (tick s', o)
    else none
  | .ldHeadL =>
    if x.pc = .lHead then
      if !okp s x.bkt then crash s else
      let (s', o) := walkPos s t x (s.nxt x.bkt).ptr; some (tick s', o)
    else none
  | .ldFirst =>
    if x.pc = .fHead then
      if !okp s (s.tbl 0) then crash s else
      let w := s.nxt (s.tbl 0)
      let (s', o) := walkPos s t { x with itx := w } w.ptr; some (tick s', o)
    else none
  | _ => none

end UrcuVerif.Lfht.Conc
