import UrcuVerif.Lfht.Conc.InvAAll
/-!
# Concurrent rculfhash — consequences of layers R/F/A used by C07 (proof-only file)

`removed_frozen` as a step property, the success returns of `del` / `replace` / `add_replace`, and the
"at most one success per node along any run" argument through the ghost `ownRet`.
-/
namespace UrcuVerif.Lfht.Conc
open UrcuVerif
set_option linter.unusedSimpArgs false
set_option linter.unusedVariables false

/-- the node that the step hands to its caller, if any: `cds_lfht_del` returning 0 (decided by the
`xchg`), `cds_lfht_replace` returning 0 / `cds_lfht_add_replace` returning the old node (both at the
final assertion load after the unlink) -/
def succFor (s : State) (t : Nat) (l : Label) (o : Out) : Option Nat :=
  match l, o with
  | .xchgOwn, .ret 0 => some (s.th t).node
  | .ldAssertR, .ret 0 => some (s.th t).old
  | .ldAssertR, .node p => some p
  | _, _ => none

set_option hygiene false in
macro "rf_same" : tactic => `(tactic| (intro p hp; rw [e_nxt]; exact ⟨hp, rfl⟩))

set_option hygiene false in
macro "rf_mut" hF:ident : tactic => `(tactic|
  (have ftt := ($hF).t t; have fg := ($hF).g
   simp only [TF, GF] at ftt fg
   have fgo := fg.1 (s.th t).old; have fgn := fg.1 (s.th t).node; have fgp := fg.1 (s.th t).prev
   simp only [GFn] at fgo fgn fgp
   clear fg
   intro p hp; rw [e_nxt]; simp only [upd]
   by_cases h1 : p = (s.th t).prev <;> by_cases h2 : p = (s.th t).node <;> by_cases h3 : p = (s.th t).old <;>
     (try simp only [h1, h2, h3, if_true, if_false]) <;> grind [valid, vz, HasPos, Pend, Worker, AddPc, GcPc, ZPc, HPc, InPhase]))

set_option maxHeartbeats 4000000 in
/-- **removed_frozen** (step form): once `REMOVED` is set in `p->next` the flag stays and the pointer
part never changes -/
theorem rem_frozen_step {c s s' t l o} (hc : c.ownerByOr = false) (hR : InvR c s) (hF : InvF c s)
    (st : step c s t l = some (s', o)) :
    ∀ p, (s.nxt p).rem = true → (s'.nxt p).rem = true ∧ (s'.nxt p).ptr = (s.nxt p).ptr := by
  have rtt := hR.t t
  simp only [TR] at rtt
  cases l with
  | spawn u len => st_open st; st_open2; rf_same
  | join u => st_open st; st_open2; rf_same
  | casIns => st_open st; all_goals first | rf_same | rf_mut hF
  | casGc => st_open st; all_goals first | rf_same | rf_mut hF
  | casRepl => st_open st; all_goals first | rf_same | rf_mut hF
  | orRem => st_open st; all_goals first | rf_same | rf_mut hF
  | xchgOwn => st_open st; all_goals first | rf_same | rf_mut hF
  | orOwn => st_open st; all_goals first | rf_same | rf_mut hF
  | orBkt => st_open st; all_goals first | rf_same | rf_mut hF
  | _ => st_open st; all_goals rf_same

set_option maxHeartbeats 4000000 in
/-- the winner's return is recorded once and for all -/
theorem ownRet_stable {c s s' t l o} (st : step c s t l = some (s', o)) :
    ∀ p, s.ownRet p ≠ none → s'.ownRet p ≠ none := by
  cases l with
  | spawn u len => st_open st; st_open2; intro p hp; rw [e_ownRet]; exact hp
  | join u => st_open st; st_open2; intro p hp; rw [e_ownRet]; exact hp
  | _ =>
    st_open st
    all_goals (intro p hp; rw [e_ownRet]; first | exact hp | (simp only [upd]; split <;> first | exact hp | simp))

set_option maxHeartbeats 1000000 in
/-- a success return for `p` happens in a state where no success for `p` has been returned yet, and
records itself -/
theorem succ_once {c s s' t l o p} (hc : c.ownerByOr = false) (hF : InvF c s) (hA : InvA s)
    (st : step c s t l = some (s', o)) (hs : succFor s t l o = some p) :
    s.ownRet p = none ∧ s'.ownRet p ≠ none ∧ s'.wins p = 1 := by
  have att := hA.t t; have ag := hA.g p; have ftt := hF.t t
  simp only [TA, InReplCont, GA, GcPc] at att ag
  cases l with
  | xchgOwn =>
    st_open st
    all_goals (simp only [succFor, ENOENT, ← e_out] at hs; try simp at hs)
    all_goals (subst hs; simp only [e_ownRet, e_wins, e_nxt, upd, if_true]; grind)
  | ldAssertR =>
    st_open st
    all_goals (simp only [succFor, ENOENT, ← e_out] at hs; try simp at hs)
    all_goals (subst hs; simp only [e_ownRet, e_wins, e_nxt, upd, if_true]; grind)
  | _ => simp [succFor] at hs

set_option maxHeartbeats 8000000 in
/-- only the `xchg` of `_cds_lfht_del` and the final load of `_cds_lfht_replace` return 0
(`orOwn` is the mutant's step) -/
theorem ret_zero_label {c s s' t l} (st : step c s t l = some (s', .ret 0)) :
    l = .xchgOwn ∨ l = .ldAssertR ∨ l = .orOwn := by
  cases l with
  | xchgOwn => simp
  | ldAssertR => simp
  | orOwn => simp
  | _ =>
    exfalso
    st_open st
    all_goals (first | (simp [ENOENT, EINVAL] at e_out; done) | (simp only [ENOENT, EINVAL] at e_out; injection e_out with h; omega))

end UrcuVerif.Lfht.Conc
