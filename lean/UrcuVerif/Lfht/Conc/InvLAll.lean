import UrcuVerif.Lfht.Conc.InvLStep1
import UrcuVerif.Lfht.Conc.InvLStep2
import UrcuVerif.Lfht.Conc.InvLStep3
import UrcuVerif.Lfht.Conc.InvLStep4
/-! Layers R, F, A, L hold in every reachable state of the unmutated model (proof-only file). -/
namespace UrcuVerif.Lfht.Conc
open UrcuVerif

theorem invL_step {c s s' t l o} (hc : c.ownerByOr = false) (hR : InvR c s) (hF : InvF c s) (hL : InvL s)
    (st : step c s t l = some (s', o)) : InvL s' := by
  cases l with
  | rlock => exact invL_rlock hc hR hF hL st
  | runlock => exact invL_runlock hc hR hF hL st
  | callAdd _ _ _ _ => exact invL_callAdd hc hR hF hL st
  | callReplace _ _ _ => exact invL_callReplace hc hR hF hL st
  | callDel => exact invL_callDel hc hR hF hL st
  | callLookup _ _ => exact invL_callLookup hc hR hF hL st
  | callDup _ => exact invL_callDup hc hR hF hL st
  | callNext => exact invL_callNext hc hR hF hL st
  | callFirst => exact invL_callFirst hc hR hF hL st
  | ldSize => exact invL_ldSize hc hR hF hL st
  | ldHeadA => exact invL_ldHeadA hc hR hF hL st
  | ldNextA => exact invL_ldNextA hc hR hF hL st
  | casIns => exact invL_casIns hc hR hF hL st
  | casGc => exact invL_casGc hc hR hF hL st
  | ldWalk => exact invL_ldWalk hc hR hF hL st
  | ldAssertW => exact invL_ldAssertW hc hR hF hL st
  | ldHeadL => exact invL_ldHeadL hc hR hF hL st
  | ldFirst => exact invL_ldFirst hc hR hF hL st
  | casRepl => exact invL_casRepl hc hR hF hL st
  | ldAssertR => exact invL_ldAssertR hc hR hF hL st
  | ldHeadG => exact invL_ldHeadG hc hR hF hL st
  | ldNextG => exact invL_ldNextG hc hR hF hL st
  | ldDel => exact invL_ldDel hc hR hF hL st
  | orRem => exact invL_orRem hc hR hF hL st
  | ldAssertD => exact invL_ldAssertD hc hR hF hL st
  | ldDel2 => exact invL_ldDel2 hc hR hF hL st
  | xchgOwn => exact invL_xchgOwn hc hR hF hL st
  | orOwn => exact invL_orOwn hc hR hF hL st
  | orBkt => exact invL_orBkt hc hR hF hL st
  | reclaim _ => exact invL_reclaim hc hR hF hL st
  | rzLock => exact invL_rzLock hc hR hF hL st
  | rzUnlock => exact invL_rzUnlock hc hR hF hL st
  | partBegin => exact invL_partBegin hc hR hF hL st
  | partEnd => exact invL_partEnd hc hR hF hL st
  | stSizeGrow => exact invL_stSizeGrow hc hR hF hL st
  | stSizeShrink => exact invL_stSizeShrink hc hR hF hL st
  | gpStart => exact invL_gpStart hc hR hF hL st
  | gpEnd => exact invL_gpEnd hc hR hF hL st
  | tblFree => exact invL_tblFree hc hR hF hL st
  | tblAlloc _ => exact invL_tblAlloc hc hR hF hL st
  | spawn _ _ => exact invL_spawn hc hR hF hL st
  | join _ => exact invL_join hc hR hF hL st

theorem invRFL_reach {c s} (hc : c.ownerByOr = false) (r : Reach c s) : InvR c s ∧ InvF c s ∧ InvL s := by
  induction r with
  | init => exact ⟨invR_init c, invF_init c, invL_init⟩
  | step _ st ih => exact ⟨invR_step ih.1 st, invF_step hc ih.1 ih.2.1 st, invL_step hc ih.1 ih.2.1 ih.2.2 st⟩

end UrcuVerif.Lfht.Conc
