import UrcuVerif.Lfht.Conc.LinLookup
/-!
# Concurrent rculfhash — linearizability of `lookup` "not found": the usage disciplines, and every stored node of the
key stays ahead of the walk (proof-only file)
-/
namespace UrcuVerif.Lfht.Conc
open UrcuVerif
set_option linter.unusedSimpArgs false
set_option linter.unusedVariables false

theorem mem_order {l : List Nat} {a b : Nat} (ha : a ∈ l) (hb : b ∈ l) (hab : a ≠ b) :
    (∃ l1 l2, l = l1 ++ a :: l2 ∧ b ∈ l2) ∨ (∃ l1 l2, l = l1 ++ b :: l2 ∧ a ∈ l2) := by
  induction l with
  | nil => simp at ha
  | cons x l ih =>
    rcases List.mem_cons.mp ha with rfl | ha'
    · rcases List.mem_cons.mp hb with e | hb'
      · exact absurd e.symm hab
      · exact .inl ⟨[], l, rfl, hb'⟩
    · rcases List.mem_cons.mp hb with rfl | hb'
      · exact .inr ⟨[], l, rfl, ha'⟩
      · rcases ih ha' hb' with ⟨l1, l2, e, h⟩ | ⟨l1, l2, e, h⟩
        · exact .inl ⟨x :: l1, l2, by rw [e]; rfl, h⟩
        · exact .inr ⟨x :: l1, l2, by rw [e]; rfl, h⟩

/-- two linked nodes: one is reachable from the other -/
theorem rch_total {c s a b} (hc : c.ownerByOr = false) (r : Reach c s) (ha : a ∈ s.L) (hb : b ∈ s.L) :
    Rch (nxp s) a b ∨ Rch (nxp s) b a := by
  have ⟨_, _, hL⟩ := invRFL_reach hc r
  by_cases hab : a = b
  · subst hab; exact .inl (.refl _)
  rcases mem_order ha hb hab with ⟨l1, l2, e, h⟩ | ⟨l1, l2, e, h⟩
  · exact .inl (chn_rch (e ▸ hL.g.2.2.1) (List.mem_cons_of_mem _ h))
  · exact .inr (chn_rch (e ▸ hL.g.2.2.1) (List.mem_cons_of_mem _ h))

/-- usage discipline "plain adds only" for the pair (hash `h`, key `k`) -/
def PlainUse (k h : Nat) : Label → Prop
  | .callAdd m _ h' k' => k' = k → bitReverse64 h' = bitReverse64 h → m = .plain
  | _ => True

/-- every pending `add*` of a node with that hash and key is a plain add -/
def PlainK (k h : Nat) (s : State) : Prop :=
  ∀ u, (s.th u).op = .add → s.key (s.th u).node = k → s.rev (s.th u).node = bitReverse64 h → (s.th u).mode = .plain

theorem plainK_init {k h} : PlainK k h init := by intro u ho; simp [init] at ho

set_option maxHeartbeats 4000000 in
theorem plainK_self {c k h s s' t l o} (hc : c.ownerByOr = false) (r : Reach c s) (hP : PlainK k h s)
    (st : step c s t l = some (s', o)) (ha : PlainUse k h l) :
    (s'.th t).op = .add → s'.key (s'.th t).node = k → s'.rev (s'.th t).node = bitReverse64 h → (s'.th t).mode = .plain := by
  have old := hP t
  have hN := invN_reach hc r t; simp only [TN] at hN
  have sn := stable_step hc r st (s.th t).node
  have n2 := hN.2.1
  have n1 := hN.1
  clear hN
  have st0 := st
  cases l with
  | spawn v len =>
    st_open st; st_open2
    all_goals
      have e1 : s'.th t = x' := by rw [e_th']; simp [upd]
      rw [e1]; simp only [xop, xmode, xnode, e_key, e_rev]; grind
  | join v =>
    st_open st; st_open2
    all_goals
      have e1 : s'.th t = x' := by rw [e_th']; simp [upd]
      rw [e1]; simp only [xop, xmode, xnode, e_key, e_rev]; grind
  | _ =>
    st_open st
    all_goals
      have e1 : s'.th t = x' := by rw [e_th']; simp [upd]
      rw [e1]; simp only [PlainUse] at ha; simp only [xop, xmode, xnode]
      simp only [e_key, e_rev, upd] at sn ⊢
      simp only [ZPc, HPc, Worker, AddPc, GcPc] at n1
      grind

theorem plainK_step {c k h s s' t l o} (hc : c.ownerByOr = false) (r : Reach c s) (hP : PlainK k h s)
    (st : step c s t l = some (s', o)) (ha : PlainUse k h l) : PlainK k h s' := by
  intro u
  by_cases hu : u = t
  · subst hu; exact plainK_self hc r hP st ha
  · obtain ⟨a1, a2, a3, _⟩ := other_thread_args st (Ne.symm hu)
    rw [a1, a2, a3]
    intro ho hk hr
    have hN := invN_reach hc r u; simp only [TN] at hN
    have sn := stable_step hc r st (s.th u).node (hN.2.1 (.inl ho)).2.2.2
    rw [sn.2.1] at hk; rw [sn.1] at hr
    exact hP u ho hk hr

/-- where a `lookup` stands: the bucket it is about to read, or the node it is about to read -/
def lpos (x : Thr) : Nat := if x.pc = .lHead then x.bkt else x.cur

/-- every stored node with the hash and key of the `lookup` is still ahead of it -/
def LkPos (h k : Nat) (s : State) (x : Thr) : Prop :=
  (x.pc = .lHead ∨ x.pc = .wNext ∨ x.pc = .wAssert) → ∀ y, (absL s).Match h k y → Rch (nxp s) (lpos x) y

theorem lpos_valid {c s t} (hc : c.ownerByOr = false) (r : Reach c s)
    (hp : (s.th t).pc = .lHead ∨ (s.th t).pc = .wNext ∨ (s.th t).pc = .wAssert) : valid s (lpos (s.th t)) := by
  have ⟨_, hF, _⟩ := invRFL_reach hc r
  have ft := hF.t t; simp only [TF] at ft
  simp only [lpos]
  rcases hp with h | h | h
  · rw [if_pos h]; exact (hb_facts hc r (ft.2.2.2.2.2.2.2.2.2.2.2.2.2.2.1 h)).2.2.2.2
  · rw [if_neg (by rw [h]; simp)]; exact ft.2.2.2.2.2.2.2.2.2.2.2.2.1 (.inl h)
  · rw [if_neg (by rw [h]; simp)]; exact ft.2.2.2.2.2.2.2.2.2.2.2.2.1 (.inr h)

set_option maxHeartbeats 1000000 in
/-- a step of any thread keeps every stored node of the key ahead of the `lookup` — unless no such node was stored
just before the step -/
theorem lk0_heap {c k h s s' u l o t} (hc : c.ownerByOr = false) (r : Reach c s) (st : step c s u l = some (s', o))
    (hD : InvK k h s ∨ PlainK k h s) (hpos : LkPos h k s (s.th t)) :
    LkPos h k s' (s.th t) ∨ ∀ y, ¬ (absL s).Match h k y := by
  have ⟨hR, hF, hL⟩ := invRFL_reach hc r
  have stable := stable_step hc r st
  have gf := graph_facts hc r
  by_cases hp : (s.th t).pc = .lHead ∨ (s.th t).pc = .wNext ∨ (s.th t).pc = .wAssert
  rotate_left
  · exact .inl (fun h' => absurd h' hp)
  have vpos := lpos_valid hc r hp
  have hpos := hpos hp
  have old : ∀ y, vis s y → (absL s').Match h k y → Rch (nxp s') (lpos (s.th t)) y := by
    intro y hv hm
    have sy := stable y (by rw [(hL.g.2.1 y).mp hv.1]; simp)
    have : (absL s).Match h k y := ⟨hv, by simp only [absL]; rw [← sy.1]; exact hm.2.1, by
      simp only [absL]; rw [← sy.2.1]; exact hm.2.2⟩
    exact rch_step hc r st (hpos y this) vpos.2 hv.2.2
  by_cases hnone : ∀ y, ¬ (absL s).Match h k y
  · exact .inr hnone
  left
  intro _ y hm
  rcases ins_step hc r st with ⟨_, hh⟩ | ⟨rfl, gi, hpc, hcas, hh⟩ | ⟨rfl, gi, hpc, hcas, hok⟩
  · exact old y (hh y hm.1) hm
  · rcases hh y hm.1 with rfl | hv
    rotate_left
    · exact old y hv hm
    obtain ⟨⟨i1, i2, i3, i4, i5, i6⟩, eL, elife, _, hpl, _⟩ := gi
    have sn := stable (s.th u).node (by rw [i4]; simp)
    have hb4 : s.isB (s.th u).node = false := by rw [← sn.2.2.1]; exact hm.1.2.1
    have hk4 : s.key (s.th u).node = k := by rw [← sn.2.1]; exact hm.2.2
    have hr4 : s.rev (s.th u).node = bitReverse64 h := by rw [← sn.1]; exact hm.2.1
    have fu := hF.t u; simp only [TF] at fu
    have f10 := fu.2.2.2.2.2.2.2.2.2.1 (by simp [HasPos, hpc])
    have hpr : (s.nxt (s.th u).prev).rem = false := by rw [hcas]; exact f10.2.1
    by_cases hr : Rch (nxp s) (lpos (s.th t)) (s.th u).prev
    · have h1 := rch_step hc r st hr vpos.2 hpr
      exact rch_trans h1 (.head (by rw [i1]; exact .refl _))
    · exfalso
      apply hnone
      intro z hz
      have hmb : (s.th u).mode ≠ .bkt := by
        intro hm'
        have hw : Worker (s.th u) := .inl ⟨by simp [AddPc, hpc], hm'⟩
        have rt := hR.t u; simp only [TR] at rt
        have wi := rt.2.2.2.2.2.2.2.2.2.2.2.2.2.1 hw (by rw [hpc]; simp)
        obtain ⟨w1, w2, w3, w4, w5, w6, w7, _⟩ := worker_facts hR u (.inl hw)
        have rg := hR.g; simp only [GR] at rg
        have := (rg.2.2.1 (s.th u).j (w7 _ (by omega))).1
        rw [← wi.2, hb4] at this; cases this
      rcases hD with hK | hP
      · have hpt : Pend (s.th u) := ⟨hmb, by simp [hpc]⟩
        have hmp := (hK.t u).1 hpt hk4
        have hmode : (s.th u).mode = .uniq ∨ (s.th u).mode = .repl := by
          cases hmm : (s.th u).mode <;> simp_all
        exact ins_none_vis hc r hK hpc hcas hmode hk4 st z hz.1 hz.2.2
      · have hN := invN_reach hc r u; simp only [TN] at hN
        have hop : (s.th u).op = .add := hN.2.2.2.2.2.2.2.1 (.inr (.inl ⟨by simp [AddPc, hpc], hmb⟩))
        have hplain := hP u hop hk4 hr4
        have h15 := hN.2.2.2.2.2.2.2.2.2.2.2.2.2.2 hpc hplain
        have hpL : (s.th u).prev ∈ s.L := (hL.g.2.1 _).mpr hpl
        have hzr := hpos z hz
        by_cases ez : z = (s.th u).prev
        · exact hr (ez ▸ hzr)
        · rcases rch_total hc r hz.1.1 hpL with h1 | h1
          · exact hr (rch_trans hzr h1)
          · have h2 := rch_next h1 (Ne.symm ez)
            have hb := rch_bound hc r h2 hz.1.1 (fun h0 => (gf.2.1 _ (by simp [valid, hpl]) h0).1)
            simp only [nxp, hcas] at hb
            rcases h15 with e0 | e0
            · exact hb.1 e0
            · have : s.rev z = bitReverse64 h := hz.2.1
              omega
  · obtain ⟨_, _, _, _, hkey, hrev, vo, nvn, vn', nvo', hvis, _⟩ := replace_atomic_step hc r st hcas hok
    obtain ⟨⟨i1, i2, i3, i4, i5, i6⟩, eL, elife, _, hpl, _⟩ := gi
    rcases (hvis y).mp hm.1 with rfl | ⟨_, hv⟩
    rotate_left
    · exact old y hv hm
    have sn := stable (s.th u).node (by rw [i4]; simp)
    have hmo : (absL s).Match h k (s.th u).old :=
      ⟨vo, by simp only [absL]; rw [← hrev, ← sn.1]; exact hm.2.1, by simp only [absL]; rw [← hkey, ← sn.2.1]; exact hm.2.2⟩
    have h1 := rch_step hc r st (hpos _ hmo) vpos.2 vo.2.2
    exact rch_trans h1 (.head (by rw [i1]; exact .refl _))

end UrcuVerif.Lfht.Conc
