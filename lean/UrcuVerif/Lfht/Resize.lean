import UrcuVerif.Machine.Upd
import UrcuVerif.Gen.Constants
/-!
# C09 — hash-table resize: arithmetic and sequencing core (`src/rculfhash.c`)

Executable model (core Lean only; imported by the compiled driver `drv_lfhtresize`).

Part A – pure functions, one per C helper, 64-bit `unsigned long` arithmetic made explicit
(`wrap`, `shl`):
`cds_lfht_fls_ulong`, `cds_lfht_get_count_order_ulong`, `resize_target_update_count` (the
repaired one and the one before commit "fix: round cds_lfht_resize() target up to a power of
two"), the level loops of `init_table` / `fini_table` with their early exits, the
`do { … } while (size != target)` loop of `_do_cds_lfht_resize` (with fuel),
`_uatomic_xchg_monotonic_increase`, `cds_lfht_resize_lazy_grow`, the cmpxchg loop of
`cds_lfht_resize_lazy_count`, `ht_count_add` / `ht_count_del`, `check_resize`, and the range
splitting of `partition_resize_helper`.

Part B – a transition system with one step per shared access of the resize machinery:
any number of application threads issuing lazy grow / lazy count (cmpxchg loop, one step per
cmpxchg) / `cds_lfht_resize` / `cds_lfht_destroy`, the `__cds_lfht_resize_lazy_launch` steps,
the FIFO work queue with its single worker, and the resizer (whoever holds `resize_mutex`)
walking through `_do_cds_lfht_resize` / `init_table` / `fini_table`.  Ghost state: life cycle of
every bucket-table level, grace-period counter, event log, and a `bad` flag raised when an
ordering rule (allocate → populate → publish; unpublish → GP → remove → GP → free; nothing after
the table is freed) is broken.
-/
namespace UrcuVerif.Lfht.Resize
open UrcuVerif.Gen

/-! ## Part A — pure helpers -/

/-- C `unsigned long` arithmetic wraps modulo 2^64. -/
def wrap (x : Nat) : Nat := x % 2 ^ 64

/-- `x << k` on `unsigned long` (all call sites have `k < 64`). -/
def shl (x k : Nat) : Nat := wrap (x <<< k)

/-- `cds_lfht_fls_ulong`: position of the most significant set bit, 0 for 0. -/
def fls (x : Nat) : Nat := if x = 0 then 0 else x.log2 + 1

/-- `cds_lfht_get_count_order_ulong`: least `o` with `x ≤ 2^o`; `-1` for 0. -/
def getCountOrder (x : Nat) : Int := if x = 0 then -1 else Int.ofNat (fls (x - 1))

/-- `cds_lfht_get_count_order_ulong` at the call sites where the argument is ≥ 1. -/
def order (x : Nat) : Nat := fls (x - 1)

/-- `cds_lfht_get_count_order_u32` (argument ≥ 1 at its only call site). -/
def orderU32 (x : Nat) : Nat := fls ((x % 2 ^ 32) - 1)

/-- The C test `!(x & (x - 1))` (true also for 0, as in C where `0 - 1 = ULONG_MAX`). -/
def andTest (x : Nat) : Bool := x &&& (x - 1) == 0

/-- non-zero power of two, decidable form -/
def isPow2 (x : Nat) : Bool := x != 0 && andTest x

/-- `max(count, MIN_TABLE_SIZE)` then `min(count, max_nr_buckets)` -/
def clampCount (mx req : Nat) : Nat := min (max req MIN_TABLE_SIZE) mx

/-- `resize_target_update_count` (current, repaired code): clamp, then round up to a power of two. -/
def resizeTargetUpdateCount (mx req : Nat) : Nat := shl 1 (order (clampCount mx req))

/-- `resize_target_update_count` before the repair: clamp only. -/
def resizeTargetUpdateCountUnfixed (mx req : Nat) : Nat := clampCount mx req

/-- `init_table(first, last)`: `n` iterations left, level `i`; `tgt` is the value every read of
`resize_target` returns (no concurrent change).  Returns the last published size. -/
def initTable (tgt : Nat) : Nat → Nat → Nat → Nat
  | 0, _, size => size
  | n+1, i, size => if tgt < shl 1 i then size else initTable tgt n (i+1) (shl 1 i)

/-- `fini_table(first, last)`: `n` iterations left, level `i` (counting down). -/
def finiTable (tgt : Nat) : Nat → Nat → Nat → Nat
  | 0, _, size => size
  | n+1, i, size => if tgt > shl 1 (i-1) then size else finiTable tgt n (i-1) (shl 1 (i-1))

/-- `_do_cds_lfht_grow(old, new)` = `init_table(order old + 1, order new)` -/
def doGrow (tgt old new : Nat) : Nat :=
  initTable tgt (order new + 1 - (order old + 1)) (order old + 1) old

/-- `_do_cds_lfht_shrink(old, new)` = `fini_table(order (max new MIN) + 1, order old)` -/
def doShrink (tgt old new : Nat) : Nat :=
  finiTable tgt (order old + 1 - (order (max new MIN_TABLE_SIZE) + 1)) (order old) old

/-- one iteration of the `do … while` body of `_do_cds_lfht_resize` -/
def resizeIter (tgt size : Nat) : Nat :=
  if size < tgt then doGrow tgt size tgt else if size > tgt then doShrink tgt size tgt else size

/-- `do { … } while (ht->size != resize_target)`; `none` = fuel exhausted. -/
def doResizeLoop (tgt : Nat) : Nat → Nat → Option Nat
  | 0, _ => none
  | f+1, size =>
    let s' := resizeIter tgt size
    if s' = tgt then some s' else doResizeLoop tgt f s'

/-- `cds_lfht_resize(ht, req)` on a table of `size` buckets, maximum `mx` (current code). -/
def doResize (fuel mx size req : Nat) : Option Nat :=
  doResizeLoop (resizeTargetUpdateCount mx req) fuel size

/-- the same with `resize_target_update_count` as it was before the repair -/
def doResizeUnfixed (fuel mx size req : Nat) : Option Nat :=
  doResizeLoop (resizeTargetUpdateCountUnfixed mx req) fuel size

/-- `_uatomic_xchg_monotonic_increase(ptr, v)` as one atomic effect:
(new value of `*ptr`, returned old value). -/
def xchgMonotonicIncrease (cur v : Nat) : Nat × Nat := if cur ≥ v then (cur, cur) else (v, cur)

/-- `cds_lfht_resize_lazy_grow(ht, size, growth)`: (new `resize_target`, launch attempted). -/
def lazyGrow (mx tgt size growth : Nat) : Nat × Bool :=
  let ts := min (shl size growth) mx
  let r := xchgMonotonicIncrease tgt ts
  (r.1, decide (r.2 < ts))

/-- outcome of one `uatomic_cmpxchg(&ht->resize_target, size, count)` of the lazy-shrink loop -/
inductive CasOut
  | stored               -- `s == size`: target replaced by `count`, go launch
  | growing              -- `s > size`: return
  | otherShrink          -- `s <= count`: return
  | retry (s : Nat)      -- `size = s`, loop
  deriving Repr, DecidableEq

/-- one cmpxchg of the lazy-shrink loop against the current target `tgt` -/
def shrinkCas (tgt size count : Nat) : Nat × CasOut :=
  if tgt = size then (count, .stored)
  else if tgt > size then (tgt, .growing)
  else if tgt ≤ count then (tgt, .otherShrink)
  else (tgt, .retry tgt)

/-- The cmpxchg loop of `cds_lfht_resize_lazy_count` under arbitrary interference: `obs k` is the
value of `resize_target` the `k`-th cmpxchg finds.  Returns the iteration at which the loop
left, the `size` it compared with, and how it left. -/
def shrinkLoop (obs : Nat → Nat) (count : Nat) : Nat → Nat → Nat → Option (Nat × Nat × CasOut)
  | 0, _, _ => none
  | f+1, k, size =>
    match (shrinkCas (obs k) size count).2 with
    | .retry s => shrinkLoop obs count f (k+1) s
    | o => some (k, size, o)

/-- `cds_lfht_resize_lazy_count(ht, size, count)` run without interference:
(new `resize_target`, launch attempted). -/
def lazyCount (auto : Bool) (mx tgt size count : Nat) : Nat × Bool :=
  if !auto then (tgt, false) else
  let count := clampCount mx count
  if count = size then (tgt, false)
  else if count > size then
    let r := xchgMonotonicIncrease tgt count
    (r.1, decide (r.2 < count))
  else
    match shrinkCas tgt size count with
    | (t, .stored) => (t, true)
    | (t, .retry s) =>
      match shrinkCas t s count with      -- uninterrupted: the second cmpxchg succeeds
      | (t', .stored) => (t', true)
      | (t', _) => (t', false)
    | (t, _) => (t, false)

/-- `ht_count_add` after its split-counter increment: `sc` = new split counter, `cnt` = global
count before.  Returns (new global count, `count` argument passed to
`cds_lfht_resize_lazy_count` if it is called). -/
def htCountAdd (sc cnt size : Nat) : Nat × Option Nat :=
  if sc &&& (shl 1 COUNT_COMMIT_ORDER - 1) ≠ 0 then (cnt, none) else
  let c := wrap (cnt + shl 1 COUNT_COMMIT_ORDER)
  if !andTest c then (c, none)
  else if c >>> CHAIN_LEN_RESIZE_THRESHOLD < size then (c, none)
  else (c, some (c >>> (CHAIN_LEN_TARGET - 1)))

/-- `ht_count_del`; `mask` = `split_count_mask`. -/
def htCountDel (mask sc cnt size : Nat) : Nat × Option Nat :=
  if sc &&& (shl 1 COUNT_COMMIT_ORDER - 1) ≠ 0 then (cnt, none) else
  let c := wrap (cnt + (2 ^ 64 - shl 1 COUNT_COMMIT_ORDER))
  if !andTest c then (c, none)
  else if c >>> CHAIN_LEN_RESIZE_THRESHOLD ≥ size then (c, none)
  else if c < wrap (shl 1 COUNT_COMMIT_ORDER * (mask + 1)) then (c, none)
  else (c, some (c >>> (CHAIN_LEN_TARGET - 1)))

/-- `check_resize(ht, size, chain_len)`: the `(size, growth)` handed to
`cds_lfht_resize_lazy_grow`, if it is called.  `sco` = `split_count_order`, `cnt` = `ht->count`. -/
def checkResize (auto acct : Bool) (sco cnt size chainLen : Nat) : Option (Nat × Nat) :=
  if !auto then none
  else if cnt ≥ shl 1 (COUNT_COMMIT_ORDER + sco) then none
  else if chainLen < CHAIN_LEN_RESIZE_THRESHOLD then none
  else
    let growth := orderU32 (chainLen - (CHAIN_LEN_TARGET - 1))
    if acct && decide (shl size growth ≥ shl 1 (COUNT_COMMIT_ORDER + sco)) then
      if COUNT_COMMIT_ORDER + sco ≤ order size then none
      else some (size, COUNT_COMMIT_ORDER + sco - order size)
    else some (size, growth)

/-- Range splitting of `partition_resize_helper(ht, i, len, fct)`.
`mask` = `nr_cpus_mask` (negative: initialisation failed), `callocFails` = the `work` array
could not be allocated, `failAt = some k` = the `k`-th `pthread_create` (0-based) returns `EAGAIN`.
Returns the `(start, len)` ranges given to helper threads and the range run by the caller. -/
def partitionPlan (mask : Int) (len : Nat) (callocFails : Bool) (failAt : Option Nat) :
    List (Nat × Nat) × Option (Nat × Nat) :=
  if mask < 0 ∨ len < 2 * MIN_PARTITION_PER_THREAD then ([], some (0, len)) else
  let nrThreads := if mask > 0 then min (mask.toNat + 1) (len >>> MIN_PARTITION_PER_THREAD_ORDER) else 1
  let plen := len >>> order nrThreads
  if callocFails then ([], some (0, len)) else
  let created := match failAt with
    | some k => min k nrThreads
    | none => nrThreads
  let helpers := (List.range created).map fun t => (t * plen, plen)
  -- after the creation loop: `start`/`len` are changed only by the EAGAIN branch
  let start := if created < nrThreads then created * plen else 0
  let len' := len - start
  if start = 0 ∧ created > 0 then (helpers, none) else (helpers, some (start, len'))

/-- number of ranges of a plan that contain index `j` -/
def coverCount (p : List (Nat × Nat) × Option (Nat × Nat)) (j : Nat) : Nat :=
  ((p.1 ++ p.2.toList).map fun r => if r.1 ≤ j ∧ j < r.1 + r.2 then 1 else 0).sum

/-! ## Part B — transition system -/

inductive Work | resize | destroy
  deriving Repr, DecidableEq

/-- ghost event log entries (what the harness observes through its recording mm plug-in and
flavor wrapper) -/
inductive Ev
  | alloc (o : Nat) | populate (o : Nat) | size (s : Nat) | sync | remove (o : Nat) | free (o : Nat) | freeHt
  deriving Repr, DecidableEq

/-- life cycle of bucket-table level `o`; `g` = grace-period counter at the transition -/
inductive Lvl
  | absent | allocated | linked | unpub (g : Nat) | removed (g : Nat)
  deriving Repr, DecidableEq

/-- program counter of the thread holding `resize_mutex` inside `_do_cds_lfht_resize` -/
inductive RPc
  | idle                              -- mutex free
  | top                               -- `if (in_progress_destroy) break;`
  | read                              -- `resize_initiated = 1; old = size; new = resize_target`
  | growChk (i last : Nat)            -- `for (i <= last)`: `if (resize_target < (1UL << i)) break;`
  | growAlloc (i last : Nat)          -- `cds_lfht_alloc_bucket_table(ht, i)`
  | growPop (i last : Nat)            -- `init_table_populate(ht, i, len)`
  | growPub (i last : Nat)            -- `store(&ht->size, 1UL << i)`
  | growDes (i last : Nat)            -- `if (in_progress_destroy) break;`
  | shrChk (i first fr : Nat)         -- `for (i >= first)`: `if (resize_target > (1UL << (i-1))) break;`
  | shrPub (i first fr : Nat)         -- `store(&ht->size, 1UL << (i-1))`
  | shrSync (i first fr : Nat)        -- `synchronize_rcu()`
  | shrFree (i first fr : Nat)        -- `if (fr) free_bucket_table(fr)`
  | shrRemove (i first fr : Nat)      -- `remove_table(ht, i, len); fr = i`
  | shrDes (i first fr : Nat)         -- `if (in_progress_destroy) break;`
  | tailSync (fr : Nat)               -- `if (fr) synchronize_rcu()`
  | tailFree (fr : Nat)               -- `free_bucket_table(fr)`
  | clr                               -- `resize_initiated = 0; mb`
  | cond                              -- `while (size != resize_target)`
  deriving Repr, DecidableEq

/-- program counter of an application thread -/
inductive APc
  | idle
  | cas (size count : Nat)     -- inside the lazy-shrink cmpxchg loop
  | l0                         -- `__cds_lfht_resize_lazy_launch`: read `resize_initiated`
  | l1                         -- read `in_progress_destroy`
  | l2                         -- `urcu_workqueue_queue_work(do_resize_cb)`
  | l3                         -- `resize_initiated = 1`
  | rs1                        -- `cds_lfht_resize`: `resize_initiated = 1`
  | rs2                        -- `mutex_lock(&ht->resize_mutex)`
  | d1                         -- `cds_lfht_destroy`: queue the destroy work
  deriving Repr, DecidableEq

inductive WPc | idle | wantLock | inResize | destroying
  deriving Repr, DecidableEq

inductive Holder | none | app | worker
  deriving Repr, DecidableEq

/-- configuration: `mo` = order of `max_nr_buckets`, `n` = number of application threads,
`auto` = `CDS_LFHT_AUTO_RESIZE` -/
structure Cfg where
  mo : Nat
  n : Nat
  auto : Bool

def Cfg.mx (c : Cfg) : Nat := 2 ^ c.mo

structure State where
  size : Nat
  target : Nat
  initiated : Bool
  destroy : Bool
  rpc : RPc
  holder : Holder
  apc : Nat → APc
  queue : List Work
  wk : WPc
  lvl : Nat → Lvl
  gp : Nat
  dead : Bool
  bad : Bool
  log : List Ev          -- newest first

/-- table created with `init_size = 2^k` -/
def init (k : Nat) : State :=
  { size := 2 ^ k, target := 2 ^ k, initiated := false, destroy := false, rpc := .idle, holder := .none,
    apc := fun _ => .idle, queue := [], wk := .idle,
    lvl := fun j => if j ≤ k then .linked else .absent,
    gp := 0, dead := false, bad := false, log := [] }

inductive Op
  | lazyGrow (t sz growth : Nat)     -- `cds_lfht_resize_lazy_grow(ht, sz, growth)` up to its xchg
  | lazyCount (t sz count : Nat)     -- `cds_lfht_resize_lazy_count(ht, sz, count)` up to its first atomic
  | cas (t : Nat)                    -- one cmpxchg of the lazy-shrink loop
  | launch (t : Nat)                 -- one step of `__cds_lfht_resize_lazy_launch`
  | resizeCall (t req : Nat)         -- `cds_lfht_resize`: `resize_target_update_count`
  | resizeInit (t : Nat)             -- `resize_initiated = 1`
  | resizeLock (t : Nat)             -- `mutex_lock`
  | destroy (t : Nat)                -- `cds_lfht_destroy`: `in_progress_destroy = 1` (or direct delete)
  | destroyQueue (t : Nat)           -- queue `do_auto_resize_destroy_cb`
  | workerTake                       -- worker dequeues the oldest work
  | workerLock                       -- `do_resize_cb`: `mutex_lock`
  | workerDestroy                    -- `do_auto_resize_destroy_cb`
  | rz                               -- one step of the resizer
  deriving Repr, DecidableEq

/-- free rule: level `fr` may be freed only when it was removed before the latest grace period -/
def freeOk (s : State) (fr : Nat) : Bool :=
  match s.lvl fr with
  | .removed g => decide (g < s.gp)
  | _ => false

def removeOk (s : State) (i : Nat) : Bool :=
  match s.lvl i with
  | .unpub g => decide (g < s.gp)
  | _ => false

/-- One step of the thread that holds `resize_mutex`; `none` when the mutex is free. -/
def rzStep (s : State) : Option State :=
  match s.rpc with
  | .idle => none
  | .top => if s.destroy then some { s with rpc := .idle, holder := .none,
                                             wk := if s.holder = .worker then .idle else s.wk }
            else some { s with rpc := .read }
  | .read =>
    let old := s.size
    let new := s.target
    let s := { s with initiated := true }
    if old < new then some { s with rpc := .growChk (order old + 1) (order new) }
    else if old > new then some { s with rpc := .shrChk (order old) (order (max new MIN_TABLE_SIZE) + 1) 0 }
    else some { s with rpc := .clr }
  | .growChk i last =>
    if i > last then some { s with rpc := .clr }
    else if s.target < shl 1 i then some { s with rpc := .clr }
    else some { s with rpc := .growAlloc i last }
  | .growAlloc i last =>
    some { s with rpc := .growPop i last, lvl := upd s.lvl i .allocated, log := .alloc i :: s.log,
                  bad := s.bad || (s.lvl i != .absent) }
  | .growPop i last =>
    some { s with rpc := .growPub i last, lvl := upd s.lvl i .linked, log := .populate i :: s.log,
                  bad := s.bad || (s.lvl i != .allocated) }
  | .growPub i last =>
    some { s with rpc := .growDes i last, size := shl 1 i, log := .size (shl 1 i) :: s.log,
                  bad := s.bad || (s.lvl i != .linked) }
  | .growDes i last =>
    if s.destroy then some { s with rpc := .clr } else some { s with rpc := .growChk (i+1) last }
  | .shrChk i first fr =>
    if i < first then some { s with rpc := .tailSync fr }
    else if s.target > shl 1 (i-1) then some { s with rpc := .tailSync fr }
    else some { s with rpc := .shrPub i first fr }
  | .shrPub i first fr =>
    some { s with rpc := .shrSync i first fr, size := shl 1 (i-1), lvl := upd s.lvl i (.unpub s.gp),
                  log := .size (shl 1 (i-1)) :: s.log, bad := s.bad || (s.lvl i != .linked) }
  | .shrSync i first fr =>
    some { s with rpc := .shrFree i first fr, gp := s.gp + 1, log := .sync :: s.log }
  | .shrFree i first fr =>
    if fr = 0 then some { s with rpc := .shrRemove i first fr }
    else some { s with rpc := .shrRemove i first fr, lvl := upd s.lvl fr .absent, log := .free fr :: s.log,
                       bad := s.bad || !freeOk s fr }
  | .shrRemove i first _ =>
    some { s with rpc := .shrDes i first i, lvl := upd s.lvl i (.removed s.gp), log := .remove i :: s.log,
                  bad := s.bad || !removeOk s i }
  | .shrDes i first fr =>
    if s.destroy then some { s with rpc := .tailSync fr } else some { s with rpc := .shrChk (i-1) first fr }
  | .tailSync fr =>
    if fr = 0 then some { s with rpc := .clr }
    else some { s with rpc := .tailFree fr, gp := s.gp + 1, log := .sync :: s.log }
  | .tailFree fr =>
    some { s with rpc := .clr, lvl := upd s.lvl fr .absent, log := .free fr :: s.log,
                  bad := s.bad || !freeOk s fr }
  | .clr => some { s with rpc := .cond, initiated := false }
  | .cond =>
    if s.size ≠ s.target then some { s with rpc := .top }
    else some { s with rpc := .idle, holder := .none, wk := if s.holder = .worker then .idle else s.wk }

/-- `cds_lfht_delete_bucket`: frees levels `order size … 0`, then the table itself. -/
def deleteBuckets (s : State) : State :=
  let k := order s.size
  let lv := (List.range (k + 1)).reverse      -- k, k-1, …, 0
  { s with lvl := fun j => if j ≤ k then .absent else s.lvl j,
           log := .freeHt :: (lv.map Ev.free).reverse ++ s.log,
           dead := true,
           bad := s.bad || s.dead || lv.any (fun j => s.lvl j != .linked) }

/-- all application threads `< n` are outside the library -/
def allIdle (c : Cfg) (s : State) : Bool := (List.range c.n).all fun i => s.apc i == .idle

def step (c : Cfg) (s : State) : Op → Option State
  | .lazyGrow t sz growth =>
    -- callers: `check_resize` with a previously read `size` and `growth ≤ 32`
    if t < c.n ∧ c.auto ∧ s.apc t = .idle ∧ ¬ s.destroy ∧ isPow2 sz ∧ sz ≤ c.mx ∧ growth ≤ 32 then
      let r := lazyGrow c.mx s.target sz growth
      some { s with target := r.1, apc := upd s.apc t (if r.2 then .l0 else .idle) }
    else none
  | .lazyCount t sz count =>
    -- callers: `ht_count_add/del` with a previously read `size` and a count that passed `!(count & (count-1))`
    if t < c.n ∧ c.auto ∧ s.apc t = .idle ∧ ¬ s.destroy ∧ isPow2 sz ∧ sz ≤ c.mx ∧ andTest count then
      let count := clampCount c.mx count
      if count = sz then some s
      else if count > sz then
        let r := xchgMonotonicIncrease s.target count
        some { s with target := r.1, apc := upd s.apc t (if r.2 < count then .l0 else .idle) }
      else some { s with apc := upd s.apc t (.cas sz count) }
    else none
  | .cas t =>
    match s.apc t with
    | .cas sz count =>
      let r := shrinkCas s.target sz count
      some { s with target := r.1,
                    apc := upd s.apc t (match r.2 with
                      | .stored => .l0
                      | .retry s' => .cas s' count
                      | _ => .idle) }
    | _ => none
  | .launch t =>
    match s.apc t with
    | .l0 => some { s with apc := upd s.apc t (if s.initiated then .idle else .l1) }
    | .l1 => some { s with apc := upd s.apc t (if s.destroy then .idle else .l2) }
    | .l2 => some { s with apc := upd s.apc t .l3, queue := s.queue ++ [.resize] }
    | .l3 => some { s with apc := upd s.apc t .idle, initiated := true }
    | _ => none
  | .resizeCall t req =>
    if t < c.n ∧ s.apc t = .idle ∧ ¬ s.destroy ∧ req < 2 ^ 64 then
      some { s with target := resizeTargetUpdateCount c.mx req, apc := upd s.apc t .rs1 }
    else none
  | .resizeInit t =>
    if s.apc t = .rs1 then some { s with initiated := true, apc := upd s.apc t .rs2 } else none
  | .resizeLock t =>
    if s.apc t = .rs2 ∧ s.rpc = .idle then
      some { s with rpc := .top, holder := .app, apc := upd s.apc t .idle }
    else none
  | .destroy t =>
    -- API contract: no concurrent reader/writer (every other thread is outside the library, no
    -- `cds_lfht_resize` in flight); the table is empty (checked by `cds_lfht_is_empty`)
    if t < c.n ∧ allIdle c s ∧ s.holder ≠ .app ∧ ¬ s.destroy ∧ ¬ s.dead then
      if c.auto then some { s with destroy := true, apc := upd s.apc t .d1 }
      else if s.rpc = .idle then some (deleteBuckets { s with destroy := true }) else none
    else none
  | .destroyQueue t =>
    if s.apc t = .d1 then some { s with apc := upd s.apc t .idle, queue := s.queue ++ [.destroy] } else none
  | .workerTake =>
    if s.wk = .idle then
      match s.queue with
      | [] => none
      | .resize :: q => some { s with queue := q, wk := .wantLock, bad := s.bad || s.dead }
      | .destroy :: q => some { s with queue := q, wk := .destroying }
    else none
  | .workerLock =>
    if s.wk = .wantLock ∧ s.rpc = .idle then some { s with rpc := .top, holder := .worker, wk := .inResize }
    else none
  | .workerDestroy =>
    if s.wk = .destroying then
      some { (deleteBuckets s) with wk := .idle, bad := (deleteBuckets s).bad || (s.rpc != .idle) || !s.queue.isEmpty }
    else none
  | .rz => (rzStep s).map fun s' => { s' with bad := s'.bad || s.dead }   -- touching a freed table

/-- the resizer running alone for `n` steps (stops when it releases the mutex) -/
def soloRun : Nat → State → State
  | 0, s => s
  | n+1, s => match rzStep s with
    | none => s
    | some s' => soloRun n s'

/-- run a list of operations; `none` if one is not enabled -/
def runOps (c : Cfg) : State → List Op → Option State
  | s, [] => some s
  | s, op :: ops => match step c s op with
    | none => none
    | some s' => runOps c s' ops

end UrcuVerif.Lfht.Resize
