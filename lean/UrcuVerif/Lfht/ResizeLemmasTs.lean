import UrcuVerif.Lfht.ResizeLemmas
/-!
# C09 — invariants of the resize transition system (`Lfht/Resize.lean`, Part B)

* `InvA` — bounds: `size`, `resize_target` and every value a pending lazy-shrink cmpxchg will store are
  powers of two in `[1, max]`; index facts attached to the resizer's program counter.
* `InvD` — destroy / work-queue discipline (FIFO shape of the queue, where the destroy request is,
  who holds `resize_mutex`).
* `InvL` — life cycle of every bucket-table level, `bad = false`.
-/
namespace UrcuVerif.Lfht.Resize
open UrcuVerif.Gen UrcuVerif

inductive Reach (c : Cfg) (k : Nat) : State → Prop
  | init : Reach c k (init k)
  | step {s s' op} : Reach c k s → step c s op = some s' → Reach c k s'

/-- index facts attached to the resizer's program counter -/
def RpcOk (mo : Nat) (size : Nat) : RPc → Prop
  | .growChk i last => 1 ≤ i ∧ size = 2 ^ (i - 1) ∧ i ≤ last + 1 ∧ last ≤ mo
  | .growAlloc i last => 1 ≤ i ∧ size = 2 ^ (i - 1) ∧ i ≤ last ∧ last ≤ mo
  | .growPop i last => 1 ≤ i ∧ size = 2 ^ (i - 1) ∧ i ≤ last ∧ last ≤ mo
  | .growPub i last => 1 ≤ i ∧ size = 2 ^ (i - 1) ∧ i ≤ last ∧ last ≤ mo
  | .growDes i last => 1 ≤ i ∧ size = 2 ^ i ∧ i ≤ last ∧ last ≤ mo
  | .shrChk i first _ => size = 2 ^ i ∧ 1 ≤ first ∧ first ≤ i + 1 ∧ i ≤ mo
  | .shrPub i first _ => size = 2 ^ i ∧ 1 ≤ first ∧ first ≤ i ∧ i ≤ mo
  | .shrSync i first _ => size = 2 ^ (i - 1) ∧ 1 ≤ first ∧ first ≤ i ∧ i ≤ mo
  | .shrFree i first _ => size = 2 ^ (i - 1) ∧ 1 ≤ first ∧ first ≤ i ∧ i ≤ mo
  | .shrRemove i first _ => size = 2 ^ (i - 1) ∧ 1 ≤ first ∧ first ≤ i ∧ i ≤ mo
  | .shrDes i first _ => size = 2 ^ (i - 1) ∧ 1 ≤ first ∧ first ≤ i ∧ i ≤ mo
  | _ => True

structure InvA (c : Cfg) (s : State) : Prop where
  size_p : P2 c.mo s.size
  tgt_p : P2 c.mo s.target
  cas_p : ∀ t sz cnt, s.apc t = .cas sz cnt → P2 c.mo cnt
  rpc_ok : RpcOk c.mo s.size s.rpc

theorem invA_init (c : Cfg) (k : Nat) (hk : k ≤ c.mo) : InvA c (init k) :=
  ⟨⟨k, hk, rfl⟩, ⟨k, hk, rfl⟩, by intro t sz cnt h; simp [init] at h, by simp [init, RpcOk]⟩

theorem max_two_pow_min (b : Nat) : max (2 ^ b) MIN_TABLE_SIZE = 2 ^ b := by
  rw [min_table_size_eq]; have := Nat.two_pow_pos b; omega

theorem invA_rz {c : Cfg} (hc : c.mo ≤ 63) {s s' : State} (h : InvA c s) (st : rzStep s = some s') : InvA c s' := by
  obtain ⟨⟨a, ha, hsz⟩, ⟨b, hb, htg⟩, h3, h4⟩ := h
  cases hr : s.rpc <;> simp only [rzStep, hr, reduceCtorEq] at st <;> simp only [hr, RpcOk] at h4
  all_goals (repeat' split at st)
  all_goals simp only [Option.some.injEq] at st
  all_goals subst st
  all_goals refine ⟨?_, ⟨b, hb, htg⟩, h3, ?_⟩
  all_goals (try exact ⟨a, ha, hsz⟩)
  all_goals (try (simp only [RpcOk]; done))
  all_goals (try simp only [RpcOk, Nat.add_sub_cancel])
  all_goals (try simp only [hsz, htg, order_two_pow, max_two_pow_min, two_pow_lt_two_pow, gt_iff_lt] at *)
  all_goals (try (first
    | omega
    | (refine ⟨_, ?_, shl_one ?_⟩ <;> omega)
    | (rw [shl_one (by omega)]; omega)
    | (refine ⟨?_, ?_, ?_, ?_⟩ <;> first | omega | rfl | (congr 1; omega))))


theorem rpcOk_deleteBuckets (mo : Nat) (s : State) : RpcOk mo (deleteBuckets s).size (deleteBuckets s).rpc = RpcOk mo s.size s.rpc := rfl

theorem cas_upd {apc : Nat → APc} {t t' : Nat} {v : APc} {sz cnt : Nat} (hv : ∀ a b, v ≠ .cas a b)
    (h : upd apc t v t' = .cas sz cnt) : apc t' = .cas sz cnt := by
  simp only [upd] at h
  split at h
  · exact absurd h (hv _ _)
  · exact h

theorem invA_of_eq {c : Cfg} {s s' : State} (h : InvA c s) (e1 : s'.size = s.size) (e2 : s'.target = s.target)
    (e3 : s'.rpc = s.rpc ∨ s'.rpc = .top ∨ s'.rpc = .idle)
    (e4 : ∀ t sz cnt, s'.apc t = .cas sz cnt → s.apc t = .cas sz cnt) : InvA c s' := by
  refine ⟨e1 ▸ h.1, e2 ▸ h.2, fun t sz cnt hh => h.3 t sz cnt (e4 t sz cnt hh), ?_⟩
  rcases e3 with e | e | e
  · rw [e, e1]; exact h.4
  · rw [e]; trivial
  · rw [e]; trivial

theorem invA_step {c : Cfg} (hc : c.mo ≤ 63) {s s' : State} {op : Op} (h : InvA c s) (st : step c s op = some s') :
    InvA c s' := by
  cases op with
  | rz =>
    simp only [step, Option.map_eq_some_iff] at st
    obtain ⟨s1, h1, rfl⟩ := st
    have := invA_rz hc h h1
    exact ⟨this.1, this.2, this.3, this.4⟩
  | lazyGrow t sz growth =>
    obtain ⟨h1, h2, h3, h4⟩ := h
    simp only [step] at st
    split at st
    · rename_i hg
      simp only [Option.some.injEq] at st; subst st
      obtain ⟨b, hb⟩ := (isPow2_iff sz).mp hg.2.2.2.2.1
      refine ⟨h1, ?_, ?_, h4⟩
      · subst hb; exact lazy_grow_target_in_bounds b growth h2
      · intro t' sz' cnt' hh
        simp only [upd] at hh
        split at hh
        · split at hh <;> cases hh
        · exact h3 _ _ _ hh
    · cases st
  | lazyCount t sz count =>
    obtain ⟨h1, h2, h3, h4⟩ := h
    simp only [step] at st
    split at st
    · rename_i hg
      have hcc := clampCount_pow2 c.mo hg.2.2.2.2.2.2
      split at st
      · simp only [Option.some.injEq] at st; subst st
        exact ⟨h1, h2, h3, h4⟩
      · split at st
        · simp only [Option.some.injEq] at st; subst st
          refine ⟨h1, xchg_in_bounds h2 (Or.inr hcc), ?_, h4⟩
          intro t' sz' cnt' hh
          refine h3 t' sz' cnt' (cas_upd ?_ hh)
          intro a b; split <;> simp
        · simp only [Option.some.injEq] at st; subst st
          refine ⟨h1, h2, ?_, h4⟩
          intro t' sz' cnt' hh
          simp only [upd] at hh
          split at hh
          · simp only [APc.cas.injEq] at hh; rw [← hh.2]; exact hcc
          · exact h3 _ _ _ hh
    · cases st
  | cas t =>
    obtain ⟨h1, h2, h3, h4⟩ := h
    simp only [step] at st
    split at st
    · rename_i sz count hpc
      simp only [Option.some.injEq] at st; subst st
      have hcnt := h3 _ _ _ hpc
      refine ⟨h1, shrinkCas_in_bounds h2 hcnt, ?_, h4⟩
      intro t' sz' cnt' hh
      simp only [upd] at hh
      split at hh
      · split at hh
        · cases hh
        · simp only [APc.cas.injEq] at hh; rw [← hh.2]; exact hcnt
        · cases hh
      · exact h3 _ _ _ hh
    · cases st
  | launch t =>
    simp only [step] at st
    split at st
    all_goals (try (cases st; done))
    all_goals simp only [Option.some.injEq] at st
    all_goals subst st
    all_goals refine invA_of_eq h rfl rfl (Or.inl rfl) (fun t' sz' cnt' hh => cas_upd ?_ hh)
    all_goals (intro a b; (try split) <;> simp)
  | resizeCall t req =>
    obtain ⟨h1, h2, h3, h4⟩ := h
    simp only [step] at st
    split at st
    · simp only [Option.some.injEq] at st; subst st
      obtain ⟨k, hk, he, -, -⟩ := resize_target_pow2_in_bounds hc req
      exact ⟨h1, ⟨k, hk, he⟩, fun t' sz' cnt' hh => h3 _ _ _ (cas_upd (by intro a b; simp) hh), h4⟩
    · cases st
  | resizeInit t =>
    simp only [step] at st
    split at st
    · simp only [Option.some.injEq] at st; subst st
      exact invA_of_eq h rfl rfl (Or.inl rfl) (fun t' sz' cnt' hh => cas_upd (by intro a b; simp) hh)
    · cases st
  | resizeLock t =>
    simp only [step] at st
    split at st
    · simp only [Option.some.injEq] at st; subst st
      exact invA_of_eq h rfl rfl (Or.inr (Or.inl rfl)) (fun t' sz' cnt' hh => cas_upd (by intro a b; simp) hh)
    · cases st
  | destroy t =>
    simp only [step] at st
    repeat' split at st
    all_goals (try (cases st; done))
    all_goals simp only [Option.some.injEq] at st
    all_goals subst st
    · exact invA_of_eq h rfl rfl (Or.inl rfl) (fun t' sz' cnt' hh => cas_upd (by intro a b; simp) hh)
    · exact invA_of_eq h rfl rfl (Or.inl rfl) (fun t' sz' cnt' hh => hh)
  | destroyQueue t =>
    simp only [step] at st
    split at st
    · simp only [Option.some.injEq] at st; subst st
      exact invA_of_eq h rfl rfl (Or.inl rfl) (fun t' sz' cnt' hh => cas_upd (by intro a b; simp) hh)
    · cases st
  | workerTake =>
    simp only [step] at st
    repeat' split at st
    all_goals (try (cases st; done))
    all_goals simp only [Option.some.injEq] at st
    all_goals subst st
    all_goals exact invA_of_eq h rfl rfl (Or.inl rfl) (fun t' sz' cnt' hh => hh)
  | workerLock =>
    simp only [step] at st
    split at st
    · simp only [Option.some.injEq] at st; subst st
      exact invA_of_eq h rfl rfl (Or.inr (Or.inl rfl)) (fun t' sz' cnt' hh => hh)
    · cases st
  | workerDestroy =>
    simp only [step] at st
    split at st
    · simp only [Option.some.injEq] at st; subst st
      exact invA_of_eq h rfl rfl (Or.inl rfl) (fun t' sz' cnt' hh => hh)
    · cases st

/-! ## destroy / work queue -/

/-- shape of the work queue: 0 = resize works only, 1 = resize works followed by exactly one
destroy work (the last element), 2 = anything else -/
def qShape : List Work → Nat
  | [] => 0
  | .resize :: q => qShape q
  | .destroy :: q => if q = [] then 1 else 2

theorem qShape_snoc_resize (q : List Work) (h : qShape q = 0) : qShape (q ++ [.resize]) = 0 := by
  induction q with
  | nil => rfl
  | cons w q ih =>
    cases w with
    | resize => exact ih h
    | destroy => simp only [qShape] at h; split at h <;> cases h

theorem qShape_snoc_destroy (q : List Work) (h : qShape q = 0) : qShape (q ++ [.destroy]) = 1 := by
  induction q with
  | nil => rfl
  | cons w q ih =>
    cases w with
    | resize => exact ih h
    | destroy => simp only [qShape] at h; split at h <;> cases h

theorem qShape_destroy_cons_ne (q : List Work) : qShape (.destroy :: q) ≠ 0 := by
  simp only [qShape]; split <;> omega

theorem qShape_resize_cons (q : List Work) : qShape (.resize :: q) = qShape q := rfl
theorem qShape_destroy_cons (q : List Work) (h : qShape (.destroy :: q) ≤ 1) : q = [] := by
  simp only [qShape] at h; split at h <;> first | assumption | omega
theorem qShape_nil : qShape [] = 0 := rfl

structure InvD (c : Cfg) (s : State) : Prop where
  apc_out : ∀ t, c.n ≤ t → s.apc t = .idle
  hold_idle : s.rpc = .idle → s.holder = .none ∧ s.wk ≠ .inResize
  hold_busy : s.rpc ≠ .idle → (s.holder = .app ∧ s.wk ≠ .inResize) ∨ (s.holder = .worker ∧ s.wk = .inResize)
  noauto : c.auto = false → s.queue = [] ∧ s.wk = .idle
  noauto_apc : c.auto = false → ∀ t, s.apc t = .idle ∨ s.apc t = .rs1 ∨ s.apc t = .rs2
  qs : qShape s.queue ≤ 1
  ph0 : s.destroy = false → s.dead = false ∧ s.wk ≠ .destroying ∧ qShape s.queue = 0 ∧ ∀ t, s.apc t ≠ .d1
  d_holder : s.destroy = true → s.holder ≠ .app
  d_apc : s.destroy = true → ∀ t, s.apc t = .idle ∨ s.apc t = .d1
  d_uniq : ∀ t t', s.apc t = .d1 → s.apc t' = .d1 → t = t'
  p1 : ∀ t, s.apc t = .d1 → qShape s.queue = 0 ∧ s.wk ≠ .destroying ∧ s.dead = false
  p2 : s.destroy = true → (∀ t, s.apc t ≠ .d1) → s.dead = false → s.wk ≠ .destroying → qShape s.queue = 1
  p3 : s.wk = .destroying → (∀ t, s.apc t ≠ .d1) ∧ s.queue = [] ∧ s.rpc = .idle ∧ s.dead = false
  p4 : s.dead = true → s.destroy = true ∧ (∀ t, s.apc t ≠ .d1) ∧ s.queue = [] ∧ s.wk = .idle ∧ s.rpc = .idle

theorem invD_init (c : Cfg) (k : Nat) : InvD c (init k) := by
  constructor <;> simp [init, qShape]

theorem allIdle_spec {c : Cfg} {s : State} (h : allIdle c s = true) (i : Nat) (hi : i < c.n) : s.apc i = .idle := by
  simp only [allIdle, List.all_eq_true, List.mem_range] at h
  simpa using h i hi

theorem invD_rz {c : Cfg} {s s' : State} (h : InvD c s) (st : rzStep s = some s') : InvD c s' := by
  obtain ⟨h1, h2, h3, h4, h5, h6, h7, h8, h9, h10, h11, h12, h13, h14⟩ := h
  cases hr : s.rpc <;> simp only [rzStep, hr, reduceCtorEq] at st
  all_goals (repeat' split at st)
  all_goals simp only [Option.some.injEq] at st
  all_goals subst st
  all_goals simp only [hr, reduceCtorEq, ne_eq, not_false_eq_true, forall_const, false_implies] at h2 h3 h13 h14
  all_goals constructor
  all_goals simp only [reduceCtorEq, ne_eq, not_false_eq_true, not_true_eq_false]
  all_goals grind

theorem invD_step {c : Cfg} {s s' : State} {op : Op} (h : InvD c s) (st : step c s op = some s') : InvD c s' := by
  cases op with
  | rz =>
    simp only [step, Option.map_eq_some_iff] at st
    obtain ⟨s1, h1, rfl⟩ := st
    have := invD_rz h h1
    exact ⟨this.1, this.2, this.3, this.4, this.5, this.6, this.7, this.8, this.9, this.10, this.11, this.12, this.13, this.14⟩
  | lazyGrow t sz growth =>
    obtain ⟨h1, h2, h3, h4, h5, h6, h7, h8, h9, h10, h11, h12, h13, h14⟩ := h
    simp only [step] at st
    split at st
    · simp only [Option.some.injEq] at st; subst st
      constructor <;> simp only [upd] <;> grind
    · cases st
  | lazyCount t sz count =>
    obtain ⟨h1, h2, h3, h4, h5, h6, h7, h8, h9, h10, h11, h12, h13, h14⟩ := h
    simp only [step] at st
    split at st
    · split at st
      · simp only [Option.some.injEq] at st; subst st
        exact ⟨h1, h2, h3, h4, h5, h6, h7, h8, h9, h10, h11, h12, h13, h14⟩
      · split at st
        all_goals simp only [Option.some.injEq] at st
        all_goals subst st
        all_goals constructor
        all_goals simp only [upd]
        all_goals grind
    · cases st
  | cas t =>
    obtain ⟨h1, h2, h3, h4, h5, h6, h7, h8, h9, h10, h11, h12, h13, h14⟩ := h
    simp only [step] at st
    split at st
    · simp only [Option.some.injEq] at st; subst st
      constructor <;> simp only [upd] <;> grind
    · cases st
  | launch t =>
    obtain ⟨h1, h2, h3, h4, h5, h6, h7, h8, h9, h10, h11, h12, h13, h14⟩ := h
    simp only [step] at st
    split at st
    all_goals (try (cases st; done))
    all_goals simp only [Option.some.injEq] at st
    all_goals subst st
    all_goals constructor
    all_goals simp only [upd]
    all_goals grind [qShape_snoc_resize]
  | resizeCall t req =>
    obtain ⟨h1, h2, h3, h4, h5, h6, h7, h8, h9, h10, h11, h12, h13, h14⟩ := h
    simp only [step] at st
    split at st
    · simp only [Option.some.injEq] at st; subst st
      constructor <;> simp only [upd] <;> grind
    · cases st
  | resizeInit t =>
    obtain ⟨h1, h2, h3, h4, h5, h6, h7, h8, h9, h10, h11, h12, h13, h14⟩ := h
    simp only [step] at st
    split at st
    · simp only [Option.some.injEq] at st; subst st
      constructor <;> simp only [upd] <;> grind
    · cases st
  | resizeLock t =>
    obtain ⟨h1, h2, h3, h4, h5, h6, h7, h8, h9, h10, h11, h12, h13, h14⟩ := h
    simp only [step] at st
    split at st
    · simp only [Option.some.injEq] at st; subst st
      constructor <;> simp only [upd] <;> grind
    · cases st
  | destroyQueue t =>
    obtain ⟨h1, h2, h3, h4, h5, h6, h7, h8, h9, h10, h11, h12, h13, h14⟩ := h
    simp only [step] at st
    split at st
    · simp only [Option.some.injEq] at st; subst st
      constructor <;> simp only [upd] <;> grind [qShape_snoc_destroy]
    · cases st
  | workerLock =>
    obtain ⟨h1, h2, h3, h4, h5, h6, h7, h8, h9, h10, h11, h12, h13, h14⟩ := h
    simp only [step] at st
    split at st
    · simp only [Option.some.injEq] at st; subst st
      constructor <;> grind
    · cases st
  | workerTake =>
    obtain ⟨h1, h2, h3, h4, h5, h6, h7, h8, h9, h10, h11, h12, h13, h14⟩ := h
    simp only [step] at st
    repeat' split at st
    all_goals (try (cases st; done))
    all_goals simp only [Option.some.injEq] at st
    all_goals subst st
    all_goals constructor
    all_goals grind [qShape_resize_cons, qShape_destroy_cons, qShape_nil, qShape_destroy_cons_ne]
  | workerDestroy =>
    obtain ⟨h1, h2, h3, h4, h5, h6, h7, h8, h9, h10, h11, h12, h13, h14⟩ := h
    simp only [step] at st
    split at st
    · simp only [Option.some.injEq] at st; subst st
      constructor <;> simp only [deleteBuckets] <;> grind [qShape_nil]
    · cases st
  | destroy t =>
    obtain ⟨h1, h2, h3, h4, h5, h6, h7, h8, h9, h10, h11, h12, h13, h14⟩ := h
    simp only [step] at st
    split at st
    · rename_i hg
      have hall : ∀ i, s.apc i = .idle := by
        intro i
        by_cases hi : i < c.n
        · exact allIdle_spec hg.2.1 i hi
        · exact h1 i (by omega)
      split at st
      · simp only [Option.some.injEq] at st; subst st
        constructor <;> first
          | (intro _ hh; exact absurd (upd_same s.apc t APc.d1) (hh t))
          | (simp only [upd]; grind)
      · split at st
        · simp only [Option.some.injEq] at st; subst st
          constructor <;> simp only [deleteBuckets] <;> grind [qShape_nil]
        · cases st
    · cases st

/-! ## bucket-table levels -/

def base (k j : Nat) : Lvl := if j ≤ k then .linked else .absent

def unpubLt (l : Lvl) (b : Nat) : Bool := match l with | .unpub g => decide (g < b) | _ => false
def removedLt (l : Lvl) (b : Nat) : Bool := match l with | .removed g => decide (g < b) | _ => false

theorem freeOk_eq (s : State) (fr : Nat) : freeOk s fr = removedLt (s.lvl fr) s.gp := by
  unfold freeOk removedLt; split <;> simp_all
theorem removeOk_eq (s : State) (i : Nat) : removeOk s i = unpubLt (s.lvl i) s.gp := by
  unfold removeOk unpubLt; split <;> simp_all

theorem unpubLt_mono {l : Lvl} {b : Nat} (h : unpubLt l b = true) : unpubLt l (b+1) = true := by
  unfold unpubLt at *; split at h <;> simp_all; omega
theorem removedLt_mono {l : Lvl} {b : Nat} (h : removedLt l b = true) : removedLt l (b+1) = true := by
  unfold removedLt at *; split at h <;> simp_all; omega
theorem unpubLt_self (g : Nat) : unpubLt (.unpub g) (g+1) = true := by simp [unpubLt]
theorem removedLt_self (g : Nat) : removedLt (.removed g) (g+1) = true := by simp [removedLt]
theorem unpubLt_ne {l : Lvl} {b : Nat} (h : unpubLt l b = true) : l ≠ .linked ∧ l ≠ .absent := by
  unfold unpubLt at h; split at h <;> simp_all
theorem removedLt_ne {l : Lvl} {b : Nat} (h : removedLt l b = true) : l ≠ .linked ∧ l ≠ .absent := by
  unfold removedLt at h; split at h <;> simp_all

/-- the level awaiting its deferred free (`free_by_rcu_order`) -/
def FrOk (lvl : Nat → Lvl) (bound i fr : Nat) : Prop :=
  (fr = 0 ∧ ∀ j, i < j → lvl j = .absent) ∨
  (fr = i + 1 ∧ removedLt (lvl fr) bound = true ∧ ∀ j, i + 1 < j → lvl j = .absent)

/-- life cycle of every level as a function of the resizer's program counter -/
def LvlOk (s : State) : Prop :=
  match s.rpc with
  | .growChk i _ => ∀ j, s.lvl j = base (i-1) j
  | .growAlloc i _ => ∀ j, s.lvl j = base (i-1) j
  | .growPop i _ => s.lvl i = .allocated ∧ ∀ j, j ≠ i → s.lvl j = base (i-1) j
  | .growPub i _ => ∀ j, s.lvl j = base i j
  | .growDes i _ => ∀ j, s.lvl j = base i j
  | .shrChk i _ fr => (∀ j, j ≤ i → s.lvl j = .linked) ∧ FrOk s.lvl (s.gp+1) i fr
  | .shrPub i _ fr => (∀ j, j ≤ i → s.lvl j = .linked) ∧ FrOk s.lvl (s.gp+1) i fr
  | .shrSync i _ fr => (∀ j, j < i → s.lvl j = .linked) ∧ unpubLt (s.lvl i) (s.gp+1) = true ∧ FrOk s.lvl (s.gp+1) i fr
  | .shrFree i _ fr => (∀ j, j < i → s.lvl j = .linked) ∧ unpubLt (s.lvl i) s.gp = true ∧ FrOk s.lvl s.gp i fr
  | .shrRemove i _ _ => (∀ j, j < i → s.lvl j = .linked) ∧ unpubLt (s.lvl i) s.gp = true ∧ ∀ j, i < j → s.lvl j = .absent
  | .shrDes i _ fr => fr = i ∧ (∀ j, j < i → s.lvl j = .linked) ∧ removedLt (s.lvl i) (s.gp+1) = true ∧ ∀ j, i < j → s.lvl j = .absent
  | .tailSync fr => (∀ j, j ≤ order s.size → s.lvl j = .linked) ∧ FrOk s.lvl (s.gp+1) (order s.size) fr
  | .tailFree fr => (∀ j, j ≤ order s.size → s.lvl j = .linked) ∧ fr = order s.size + 1 ∧ removedLt (s.lvl fr) s.gp = true ∧
                      ∀ j, order s.size + 1 < j → s.lvl j = .absent
  | _ => ∀ j, s.lvl j = base (order s.size) j

structure InvL (s : State) : Prop where
  nbad : s.bad = false
  lv : s.dead = false → LvlOk s

theorem order_of_p2 {m x : Nat} (h : P2 m x) : x = 2 ^ order x := by
  obtain ⟨k, _, rfl⟩ := h; rw [order_two_pow]

theorem two_pow_eq_iff {a b : Nat} : 2 ^ a = 2 ^ b ↔ a = b :=
  ⟨fun h => by
    have h1 := two_pow_le_two_pow.mp (Nat.le_of_eq h)
    have h2 := two_pow_le_two_pow.mp (Nat.le_of_eq h.symm)
    omega, fun h => h ▸ rfl⟩

theorem order_shl_one {i : Nat} (h : i ≤ 63) : order (shl 1 i) = i := by
  rw [shl_one (by omega), order_two_pow]

theorem invL_rz {c : Cfg} (_hc : c.mo ≤ 63) {s s' : State} (hA : InvA c s) (hD : InvD c s) (h : InvL s)
    (st : rzStep s = some s') : InvL s' ∧ s.dead = false := by
  have hdead : s.dead = false := by
    cases hd : s.dead with
    | false => rfl
    | true =>
      have := (hD.p4 hd).2.2.2.2
      simp [rzStep, this] at st
  obtain ⟨hb, hl⟩ := h
  have hl := hl hdead
  obtain ⟨⟨a, ha, hsz⟩, ⟨b, hb', htg⟩, -, h4⟩ := hA
  have hos : order s.size = a := by rw [hsz, order_two_pow]
  refine ⟨?_, hdead⟩
  cases hr : s.rpc <;> simp only [rzStep, hr, reduceCtorEq] at st <;> simp only [hr, RpcOk] at h4 <;>
    simp only [LvlOk, hr] at hl
  all_goals (repeat' split at st)
  all_goals simp only [Option.some.injEq] at st
  all_goals subst st
  all_goals (try simp only [hsz, two_pow_eq_iff] at h4)
  all_goals constructor
  all_goals (try intro)
  all_goals (try simp only [LvlOk])
  all_goals simp only [upd, FrOk, base, freeOk_eq, removeOk_eq, bne_eq_false_iff_eq, Bool.not_eq_false', hb, Bool.false_or] at *
  all_goals grind [unpubLt_mono, removedLt_mono, unpubLt_self, removedLt_self, unpubLt_ne, removedLt_ne, order_shl_one]


theorem stable_any_false {s : State} (h : ∀ j, s.lvl j = base (order s.size) j) :
    ((List.range (order s.size + 1)).reverse.any fun j => s.lvl j != .linked) = false := by
  rw [List.any_eq_false]
  intro j hj
  simp only [List.mem_reverse, List.mem_range] at hj
  rw [h j]; simp [base]; omega

theorem lvlOk_congr {s s' : State} (e1 : s'.rpc = s.rpc) (e2 : s'.lvl = s.lvl) (e3 : s'.gp = s.gp) (e4 : s'.size = s.size)
    (h : LvlOk s) : LvlOk s' := by
  unfold LvlOk at *
  rw [e1, e2, e3, e4]; exact h

theorem lvlOk_lock {s s' : State} (e0 : s.rpc = .idle) (e1 : s'.rpc = .top) (e2 : s'.lvl = s.lvl) (e4 : s'.size = s.size)
    (h : LvlOk s) : LvlOk s' := by
  unfold LvlOk at *
  rw [e0] at h
  rw [e1, e2, e4]; exact h

theorem invL_step {c : Cfg} (hc : c.mo ≤ 63) {s s' : State} {op : Op} (hA : InvA c s) (hD : InvD c s) (h : InvL s)
    (st : step c s op = some s') : InvL s' := by
  cases op with
  | rz =>
    simp only [step, Option.map_eq_some_iff] at st
    obtain ⟨s1, h1, rfl⟩ := st
    obtain ⟨⟨g1, g2⟩, g3⟩ := invL_rz hc hA hD h h1
    exact ⟨by simp [g1, g3], g2⟩
  | lazyGrow t sz growth =>
    simp only [step] at st
    split at st
    · simp only [Option.some.injEq] at st; subst st
      exact ⟨h.1, fun hd => lvlOk_congr rfl rfl rfl rfl (h.2 hd)⟩
    · cases st
  | lazyCount t sz count =>
    simp only [step] at st
    split at st
    · split at st
      · simp only [Option.some.injEq] at st; subst st; exact h
      · split at st
        all_goals simp only [Option.some.injEq] at st
        all_goals subst st
        all_goals exact ⟨h.1, fun hd => lvlOk_congr rfl rfl rfl rfl (h.2 hd)⟩
    · cases st
  | cas t =>
    simp only [step] at st
    split at st
    · simp only [Option.some.injEq] at st; subst st
      exact ⟨h.1, fun hd => lvlOk_congr rfl rfl rfl rfl (h.2 hd)⟩
    · cases st
  | launch t =>
    simp only [step] at st
    split at st
    all_goals (try (cases st; done))
    all_goals simp only [Option.some.injEq] at st
    all_goals subst st
    all_goals exact ⟨h.1, fun hd => lvlOk_congr rfl rfl rfl rfl (h.2 hd)⟩
  | resizeCall t req =>
    simp only [step] at st
    split at st
    · simp only [Option.some.injEq] at st; subst st
      exact ⟨h.1, fun hd => lvlOk_congr rfl rfl rfl rfl (h.2 hd)⟩
    · cases st
  | resizeInit t =>
    simp only [step] at st
    split at st
    · simp only [Option.some.injEq] at st; subst st
      exact ⟨h.1, fun hd => lvlOk_congr rfl rfl rfl rfl (h.2 hd)⟩
    · cases st
  | resizeLock t =>
    simp only [step] at st
    split at st
    · rename_i hg
      simp only [Option.some.injEq] at st; subst st
      exact ⟨h.1, fun hd => lvlOk_lock hg.2 rfl rfl rfl (h.2 hd)⟩
    · cases st
  | destroyQueue t =>
    simp only [step] at st
    split at st
    · simp only [Option.some.injEq] at st; subst st
      exact ⟨h.1, fun hd => lvlOk_congr rfl rfl rfl rfl (h.2 hd)⟩
    · cases st
  | workerLock =>
    simp only [step] at st
    split at st
    · rename_i hg
      simp only [Option.some.injEq] at st; subst st
      exact ⟨h.1, fun hd => lvlOk_lock hg.2 rfl rfl rfl (h.2 hd)⟩
    · cases st
  | workerTake =>
    simp only [step] at st
    split at st
    · split at st
      · cases st
      · rename_i q hq
        simp only [Option.some.injEq] at st; subst st
        have hdead : s.dead = false := by
          cases hd : s.dead with
          | false => rfl
          | true => have := (hD.p4 hd).2.2.1; rw [this] at hq; cases hq
        exact ⟨by simp [h.1, hdead], fun hd => lvlOk_congr rfl rfl rfl rfl (h.2 hd)⟩
      · simp only [Option.some.injEq] at st; subst st
        exact ⟨h.1, fun hd => lvlOk_congr rfl rfl rfl rfl (h.2 hd)⟩
    · cases st
  | workerDestroy =>
    simp only [step] at st
    split at st
    · rename_i hw
      simp only [Option.some.injEq] at st; subst st
      obtain ⟨-, hq, hrp, hdd⟩ := hD.p3 hw
      have hl := h.2 hdd
      simp only [LvlOk, hrp] at hl
      refine ⟨?_, ?_⟩
      · simp [deleteBuckets, h.1, hdd, stable_any_false hl, hrp, hq]
      · intro hd; simp [deleteBuckets] at hd
    · cases st
  | destroy t =>
    simp only [step] at st
    split at st
    · rename_i hg
      split at st
      · simp only [Option.some.injEq] at st; subst st
        exact ⟨h.1, fun hd => lvlOk_congr rfl rfl rfl rfl (h.2 hd)⟩
      · split at st
        · rename_i hrp
          simp only [Option.some.injEq] at st; subst st
          have hdd : s.dead = false := by simpa using hg.2.2.2.2
          have hl := h.2 hdd
          simp only [LvlOk, hrp] at hl
          refine ⟨?_, ?_⟩
          · have := stable_any_false hl
            simp [deleteBuckets, h.1, hdd, this]
          · intro hd; simp [deleteBuckets] at hd
        · cases st
    · cases st

/-! ## all three invariants hold in every reachable state -/

structure Inv (c : Cfg) (s : State) : Prop where
  a : InvA c s
  d : InvD c s
  l : InvL s

theorem invL_init (k : Nat) : InvL (init k) := by
  refine ⟨rfl, fun _ => ?_⟩
  simp only [LvlOk, init, order_two_pow]
  intro j; rfl

theorem inv_reach {c : Cfg} (hc : c.mo ≤ 63) {k : Nat} (hk : k ≤ c.mo) {s : State} (h : Reach c k s) : Inv c s := by
  induction h with
  | init => exact ⟨invA_init c k hk, invD_init c k, invL_init k⟩
  | step _ st ih => exact ⟨invA_step hc ih.a st, invD_step ih.d st, invL_step hc ih.a ih.d ih.l st⟩

/-! ## termination of the resizer -/

/-- value of the measure at `clr` -/
def clrV (s : State) : Nat := if s.size = s.target then 2 else 528
/-- what remains after the current pass: 2 if the pass will end with `size = target` -/
def tailV (exact : Bool) : Nat := if exact then 2 else 528

/-- termination measure of the resizer running alone with `in_progress_destroy = 0` -/
def mu (s : State) : Nat :=
  match s.rpc with
  | .idle => 0
  | .cond => if s.size = s.target then 1 else 527
  | .clr => clrV s
  | .top => 526
  | .read => 525
  | .growChk i last => 8 * (last + 1 - i) + 5 + tailV (decide (2 ^ last = s.target))
  | .growAlloc i last => 8 * (last + 1 - i) + 4 + tailV (decide (2 ^ last = s.target))
  | .growPop i last => 8 * (last + 1 - i) + 3 + tailV (decide (2 ^ last = s.target))
  | .growPub i last => 8 * (last + 1 - i) + 2 + tailV (decide (2 ^ last = s.target))
  | .growDes i last => 8 * (last + 1 - i) + 1 + tailV (decide (2 ^ last = s.target))
  | .shrChk i first _ => 8 * (i + 1 - first) + 9 + tailV (decide (2 ^ (first - 1) = s.target))
  | .shrPub i first _ => 8 * (i + 1 - first) + 8 + tailV (decide (2 ^ (first - 1) = s.target))
  | .shrSync i first _ => 8 * (i + 1 - first) + 7 + tailV (decide (2 ^ (first - 1) = s.target))
  | .shrFree i first _ => 8 * (i + 1 - first) + 6 + tailV (decide (2 ^ (first - 1) = s.target))
  | .shrRemove i first _ => 8 * (i + 1 - first) + 5 + tailV (decide (2 ^ (first - 1) = s.target))
  | .shrDes i first _ => 8 * (i + 1 - first) + 4 + tailV (decide (2 ^ (first - 1) = s.target))
  | .tailSync _ => 2 + clrV s
  | .tailFree _ => 1 + clrV s

theorem mu_decreases {c : Cfg} (hc : c.mo ≤ 63) {s s' : State} (hA : InvA c s) (hd : s.destroy = false)
    (st : rzStep s = some s') : mu s' < mu s := by
  obtain ⟨⟨a, ha, hsz⟩, ⟨b, hb, htg⟩, -, h4⟩ := hA
  cases hr : s.rpc <;> simp only [rzStep, hr, reduceCtorEq, hd, Bool.false_eq_true, if_false] at st <;>
    simp only [hr, RpcOk] at h4
  all_goals (repeat' split at st)
  all_goals simp only [Option.some.injEq] at st
  all_goals subst st
  all_goals simp only [mu, hr, clrV, tailV]
  all_goals (try simp (disch := omega) only [shl_one] at *)
  all_goals (try simp only [hsz, htg, two_pow_eq_iff, two_pow_lt_two_pow, decide_eq_true_eq, order_two_pow, max_two_pow_min, gt_iff_lt, Nat.add_sub_cancel, ne_eq] at *)
  all_goals (repeat' split)
  all_goals (try omega)


theorem mu_le (s : State) {c : Cfg} (hc : c.mo ≤ 63) (hA : InvA c s) : mu s ≤ 1100 := by
  have h4 := hA.rpc_ok
  cases hr : s.rpc <;> simp only [hr, RpcOk] at h4 <;> simp only [mu, hr, clrV, tailV] <;> (repeat' split) <;> omega

theorem rzStep_isSome {s : State} (h : s.rpc ≠ .idle) : ∃ s', rzStep s = some s' := by
  cases hr : s.rpc <;> simp only [rzStep, hr] <;> (repeat' split) <;> first | exact ⟨_, rfl⟩ | exact absurd hr h

theorem rzStep_keeps {s s' : State} (st : rzStep s = some s') : s'.target = s.target ∧ s'.destroy = s.destroy := by
  cases hr : s.rpc <;> simp only [rzStep, hr, reduceCtorEq] at st
  all_goals (repeat' split at st)
  all_goals simp only [Option.some.injEq] at st
  all_goals subst st
  all_goals exact ⟨rfl, rfl⟩

theorem rzStep_exit {s s' : State} (st : rzStep s = some s') (hd : s.destroy = false) (hi : s'.rpc = .idle) :
    s'.size = s'.target := by
  cases hr : s.rpc <;> simp only [rzStep, hr, reduceCtorEq, hd, Bool.false_eq_true, if_false] at st
  all_goals (repeat' split at st)
  all_goals simp only [Option.some.injEq] at st
  all_goals subst st
  all_goals simp only [reduceCtorEq] at hi
  all_goals simp_all

/-- the resizer running alone (no further change of `resize_target`, no destroy) releases the mutex
after at most `mu s` steps, with `size = resize_target` -/
theorem solo_terminates {c : Cfg} (hc : c.mo ≤ 63) : ∀ (m : Nat) (s : State), mu s ≤ m → InvA c s → s.destroy = false →
    ∃ n, n ≤ mu s ∧ (soloRun n s).rpc = .idle ∧ (soloRun n s).target = s.target ∧
      (s.rpc ≠ .idle → (soloRun n s).size = s.target) := by
  intro m
  induction m with
  | zero =>
    intro s hm hA hd
    have hidle : s.rpc = .idle := by
      apply Classical.byContradiction; intro hne
      obtain ⟨s1, h1⟩ := rzStep_isSome hne
      have := mu_decreases hc hA hd h1
      omega
    exact ⟨0, Nat.zero_le _, hidle, rfl, fun h => absurd hidle h⟩
  | succ m ih =>
    intro s hm hA hd
    by_cases hidle : s.rpc = .idle
    · exact ⟨0, Nat.zero_le _, hidle, rfl, fun h => absurd hidle h⟩
    · obtain ⟨s1, h1⟩ := rzStep_isSome hidle
      have hlt := mu_decreases hc hA hd h1
      have hk := rzStep_keeps h1
      obtain ⟨n, hn, r1, r2, r3⟩ := ih s1 (by omega) (invA_rz hc hA h1) (by rw [hk.2]; exact hd)
      refine ⟨n + 1, by omega, ?_, ?_, ?_⟩
      · simp only [soloRun, h1]; exact r1
      · simp only [soloRun, h1]; rw [r2, hk.1]
      · intro _
        simp only [soloRun, h1]
        by_cases hi1 : s1.rpc = .idle
        · have hex := rzStep_exit h1 hd hi1
          have : soloRun n s1 = s1 := by
            cases n with
            | zero => rfl
            | succ n => simp [soloRun, rzStep, hi1]
          rw [this, hex, hk.1]
        · rw [r3 hi1, hk.1]
/-- rank of the resizer's program counter once `in_progress_destroy` is set: every step lowers it -/
def muD (s : State) : Nat :=
  match s.rpc with
  | .idle => 0 | .top => 1 | .cond => 2 | .clr => 3 | .tailFree _ => 4 | .tailSync _ => 5
  | .growDes _ _ => 6 | .growPub _ _ => 7 | .growPop _ _ => 8 | .growAlloc _ _ => 9 | .growChk _ _ => 10
  | .shrDes _ _ _ => 11 | .shrRemove _ _ _ => 12 | .shrFree _ _ _ => 13 | .shrSync _ _ _ => 14
  | .shrPub _ _ _ => 15 | .shrChk _ _ _ => 16 | .read => 17

theorem muD_decreases {s s' : State} (hd : s.destroy = true) (st : rzStep s = some s') : muD s' < muD s := by
  cases hr : s.rpc <;> simp only [rzStep, hr, reduceCtorEq, hd, if_true] at st
  all_goals (repeat' split at st)
  all_goals simp only [Option.some.injEq] at st
  all_goals subst st
  all_goals simp only [muD, hr]
  all_goals omega

theorem muD_le (s : State) : muD s ≤ 17 := by
  unfold muD; split <;> omega

theorem solo_terminates_destroy : ∀ (m : Nat) (s : State), muD s ≤ m → s.destroy = true →
    ∃ n, n ≤ muD s ∧ (soloRun n s).rpc = .idle := by
  intro m
  induction m with
  | zero =>
    intro s hm hd
    have hidle : s.rpc = .idle := by
      apply Classical.byContradiction; intro hne
      obtain ⟨s1, h1⟩ := rzStep_isSome hne
      have := muD_decreases hd h1
      omega
    exact ⟨0, Nat.zero_le _, hidle⟩
  | succ m ih =>
    intro s hm hd
    by_cases hidle : s.rpc = .idle
    · exact ⟨0, Nat.zero_le _, hidle⟩
    · obtain ⟨s1, h1⟩ := rzStep_isSome hidle
      have hlt := muD_decreases hd h1
      obtain ⟨n, hn, r1⟩ := ih s1 (by omega) (by rw [(rzStep_keeps h1).2]; exact hd)
      exact ⟨n + 1, by omega, by simp only [soloRun, h1]; exact r1⟩
end UrcuVerif.Lfht.Resize
