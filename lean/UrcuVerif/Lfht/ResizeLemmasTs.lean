import UrcuVerif.Lfht.ResizeLemmas
/-!
# C09 — invariants of the resize transition system (`Lfht/Resize.lean`, Part B)

* `InvA` — bounds: `size`, `resize_target` and every value a pending lazy-shrink cmpxchg will store are
  powers of two in `[1, max]`; index facts attached to the resizer's program counter.
* `InvD` — destroy / work-queue discipline (FIFO shape of the queue, where the destroy request is,
  who holds `resize_mutex`).
* `InvL` — life cycle of every bucket-table level, `bad = false`.
-/
namespace UrcuVerif.Lfht.Resize
open UrcuVerif.Gen UrcuVerif

inductive Reach (c : Cfg) (k : Nat) : State → Prop
  | init : Reach c k (init k)
  | step {s s' op} : Reach c k s → step c s op = some s' → Reach c k s'

/-- index facts attached to the resizer's program counter -/
def RpcOk (mo : Nat) (size : Nat) : RPc → Prop
  | .growChk i last => 1 ≤ i ∧ size = 2 ^ (i - 1) ∧ i ≤ last + 1 ∧ last ≤ mo
  | .growAlloc i last => 1 ≤ i ∧ size = 2 ^ (i - 1) ∧ i ≤ last ∧ last ≤ mo
  | .growPop i last => 1 ≤ i ∧ size = 2 ^ (i - 1) ∧ i ≤ last ∧ last ≤ mo
  | .growPub i last => 1 ≤ i ∧ size = 2 ^ (i - 1) ∧ i ≤ last ∧ last ≤ mo
  | .growDes i last => 1 ≤ i ∧ size = 2 ^ i ∧ i ≤ last ∧ last ≤ mo
  | .shrChk i first _ => size = 2 ^ i ∧ 1 ≤ first ∧ first ≤ i + 1 ∧ i ≤ mo
  | .shrPub i first _ => size = 2 ^ i ∧ 1 ≤ first ∧ first ≤ i ∧ i ≤ mo
  | .shrSync i first _ => size = 2 ^ (i - 1) ∧ 1 ≤ first ∧ first ≤ i ∧ i ≤ mo
  | .shrFree i first _ => size = 2 ^ (i - 1) ∧ 1 ≤ first ∧ first ≤ i ∧ i ≤ mo
  | .shrRemove i first _ => size = 2 ^ (i - 1) ∧ 1 ≤ first ∧ first ≤ i ∧ i ≤ mo
  | .shrDes i first _ => size = 2 ^ (i - 1) ∧ 1 ≤ first ∧ first ≤ i ∧ i ≤ mo
  | _ => True

structure InvA (c : Cfg) (s : State) : Prop where
  size_p : P2 c.mo s.size
  tgt_p : P2 c.mo s.target
  cas_p : ∀ t sz cnt, s.apc t = .cas sz cnt → P2 c.mo cnt
  rpc_ok : RpcOk c.mo s.size s.rpc

theorem invA_init (c : Cfg) (k : Nat) (hk : k ≤ c.mo) : InvA c (init k) :=
  ⟨⟨k, hk, rfl⟩, ⟨k, hk, rfl⟩, by intro t sz cnt h; simp [init] at h, by simp [init, RpcOk]⟩

theorem max_two_pow_min (b : Nat) : max (2 ^ b) MIN_TABLE_SIZE = 2 ^ b := by
  rw [min_table_size_eq]; have := Nat.two_pow_pos b; omega

theorem invA_rz {c : Cfg} (hc : c.mo ≤ 63) {s s' : State} (h : InvA c s) (st : rzStep s = some s') : InvA c s' := by
  obtain ⟨⟨a, ha, hsz⟩, ⟨b, hb, htg⟩, h3, h4⟩ := h
  cases hr : s.rpc <;> simp only [rzStep, hr, reduceCtorEq] at st <;> simp only [hr, RpcOk] at h4
  all_goals (repeat' split at st)
  all_goals simp only [Option.some.injEq] at st
  all_goals subst st
  all_goals refine ⟨?_, ⟨b, hb, htg⟩, h3, ?_⟩
  all_goals (try exact ⟨a, ha, hsz⟩)
  all_goals (try (simp only [RpcOk]; done))
  all_goals (try simp only [RpcOk, Nat.add_sub_cancel])
  all_goals (try simp only [hsz, htg, order_two_pow, max_two_pow_min, two_pow_lt_two_pow, gt_iff_lt] at *)
  all_goals (try (first
    | omega
    | (refine ⟨_, ?_, shl_one ?_⟩ <;> omega)
    | (rw [shl_one (by omega)]; omega)
    | (refine ⟨?_, ?_, ?_, ?_⟩ <;> first | omega | rfl | (congr 1; omega))))


theorem rpcOk_deleteBuckets (mo : Nat) (s : State) : RpcOk mo (deleteBuckets s).size (deleteBuckets s).rpc = RpcOk mo s.size s.rpc := rfl

theorem cas_upd {apc : Nat → APc} {t t' : Nat} {v : APc} {sz cnt : Nat} (hv : ∀ a b, v ≠ .cas a b)
    (h : upd apc t v t' = .cas sz cnt) : apc t' = .cas sz cnt := by
  simp only [upd] at h
  split at h
  · exact absurd h (hv _ _)
  · exact h

theorem invA_of_eq {c : Cfg} {s s' : State} (h : InvA c s) (e1 : s'.size = s.size) (e2 : s'.target = s.target)
    (e3 : s'.rpc = s.rpc ∨ s'.rpc = .top ∨ s'.rpc = .idle)
    (e4 : ∀ t sz cnt, s'.apc t = .cas sz cnt → s.apc t = .cas sz cnt) : InvA c s' := by
  refine ⟨e1 ▸ h.1, e2 ▸ h.2, fun t sz cnt hh => h.3 t sz cnt (e4 t sz cnt hh), ?_⟩
  rcases e3 with e | e | e
  · rw [e, e1]; exact h.4
  · rw [e]; trivial
  · rw [e]; trivial

theorem invA_step {c : Cfg} (hc : c.mo ≤ 63) {s s' : State} {op : Op} (h : InvA c s) (st : step c s op = some s') :
    InvA c s' := by
  cases op with
  | rz =>
    simp only [step, Option.map_eq_some_iff] at st
    obtain ⟨s1, h1, rfl⟩ := st
    have := invA_rz hc h h1
    exact ⟨this.1, this.2, this.3, this.4⟩
  | lazyGrow t sz growth =>
    obtain ⟨h1, h2, h3, h4⟩ := h
    simp only [step] at st
    split at st
    · rename_i hg
      simp only [Option.some.injEq] at st; subst st
      obtain ⟨b, hb⟩ := (isPow2_iff sz).mp hg.2.2.2.2.1
      refine ⟨h1, ?_, ?_, h4⟩
      · subst hb; exact lazy_grow_target_in_bounds b growth h2
      · intro t' sz' cnt' hh
        simp only [upd] at hh
        split at hh
        · split at hh <;> cases hh
        · exact h3 _ _ _ hh
    · cases st
  | lazyCount t sz count =>
    obtain ⟨h1, h2, h3, h4⟩ := h
    simp only [step] at st
    split at st
    · rename_i hg
      have hcc := clampCount_pow2 c.mo hg.2.2.2.2.2.2
      split at st
      · simp only [Option.some.injEq] at st; subst st
        exact ⟨h1, h2, h3, h4⟩
      · split at st
        · simp only [Option.some.injEq] at st; subst st
          refine ⟨h1, xchg_in_bounds h2 (Or.inr hcc), ?_, h4⟩
          intro t' sz' cnt' hh
          refine h3 t' sz' cnt' (cas_upd ?_ hh)
          intro a b; split <;> simp
        · simp only [Option.some.injEq] at st; subst st
          refine ⟨h1, h2, ?_, h4⟩
          intro t' sz' cnt' hh
          simp only [upd] at hh
          split at hh
          · simp only [APc.cas.injEq] at hh; rw [← hh.2]; exact hcc
          · exact h3 _ _ _ hh
    · cases st
  | cas t =>
    obtain ⟨h1, h2, h3, h4⟩ := h
    simp only [step] at st
    split at st
    · rename_i sz count hpc
      simp only [Option.some.injEq] at st; subst st
      have hcnt := h3 _ _ _ hpc
      refine ⟨h1, shrinkCas_in_bounds h2 hcnt, ?_, h4⟩
      intro t' sz' cnt' hh
      simp only [upd] at hh
      split at hh
      · split at hh
        · cases hh
        · simp only [APc.cas.injEq] at hh; rw [← hh.2]; exact hcnt
        · cases hh
      · exact h3 _ _ _ hh
    · cases st
  | launch t =>
    simp only [step] at st
    split at st
    all_goals (try (cases st; done))
    all_goals simp only [Option.some.injEq] at st
    all_goals subst st
    all_goals refine invA_of_eq h rfl rfl (Or.inl rfl) (fun t' sz' cnt' hh => cas_upd ?_ hh)
    all_goals (intro a b; (try split) <;> simp)
  | resizeCall t req =>
    obtain ⟨h1, h2, h3, h4⟩ := h
    simp only [step] at st
    split at st
    · simp only [Option.some.injEq] at st; subst st
      obtain ⟨k, hk, he, -, -⟩ := resize_target_pow2_in_bounds hc req
      exact ⟨h1, ⟨k, hk, he⟩, fun t' sz' cnt' hh => h3 _ _ _ (cas_upd (by intro a b; simp) hh), h4⟩
    · cases st
  | resizeInit t =>
    simp only [step] at st
    split at st
    · simp only [Option.some.injEq] at st; subst st
      exact invA_of_eq h rfl rfl (Or.inl rfl) (fun t' sz' cnt' hh => cas_upd (by intro a b; simp) hh)
    · cases st
  | resizeLock t =>
    simp only [step] at st
    split at st
    · simp only [Option.some.injEq] at st; subst st
      exact invA_of_eq h rfl rfl (Or.inr (Or.inl rfl)) (fun t' sz' cnt' hh => cas_upd (by intro a b; simp) hh)
    · cases st
  | destroy t =>
    simp only [step] at st
    repeat' split at st
    all_goals (try (cases st; done))
    all_goals simp only [Option.some.injEq] at st
    all_goals subst st
    · exact invA_of_eq h rfl rfl (Or.inl rfl) (fun t' sz' cnt' hh => cas_upd (by intro a b; simp) hh)
    · exact invA_of_eq h rfl rfl (Or.inl rfl) (fun t' sz' cnt' hh => hh)
  | destroyQueue t =>
    simp only [step] at st
    split at st
    · simp only [Option.some.injEq] at st; subst st
      exact invA_of_eq h rfl rfl (Or.inl rfl) (fun t' sz' cnt' hh => cas_upd (by intro a b; simp) hh)
    · cases st
  | workerTake =>
    simp only [step] at st
    repeat' split at st
    all_goals (try (cases st; done))
    all_goals simp only [Option.some.injEq] at st
    all_goals subst st
    all_goals exact invA_of_eq h rfl rfl (Or.inl rfl) (fun t' sz' cnt' hh => hh)
  | workerLock =>
    simp only [step] at st
    split at st
    · simp only [Option.some.injEq] at st; subst st
      exact invA_of_eq h rfl rfl (Or.inr (Or.inl rfl)) (fun t' sz' cnt' hh => hh)
    · cases st
  | workerDestroy =>
    simp only [step] at st
    split at st
    · simp only [Option.some.injEq] at st; subst st
      exact invA_of_eq h rfl rfl (Or.inl rfl) (fun t' sz' cnt' hh => hh)
    · cases st

/-! ## destroy / work queue -/

/-- shape of the work queue: 0 = resize works only, 1 = resize works followed by exactly one
destroy work (the last element), 2 = anything else -/
def qShape : List Work → Nat
  | [] => 0
  | .resize :: q => qShape q
  | .destroy :: q => if q = [] then 1 else 2

theorem qShape_snoc_resize (q : List Work) (h : qShape q = 0) : qShape (q ++ [.resize]) = 0 := by
  induction q with
  | nil => rfl
  | cons w q ih =>
    cases w with
    | resize => exact ih h
    | destroy => simp only [qShape] at h; split at h <;> cases h

theorem qShape_snoc_destroy (q : List Work) (h : qShape q = 0) : qShape (q ++ [.destroy]) = 1 := by
  induction q with
  | nil => rfl
  | cons w q ih =>
    cases w with
    | resize => exact ih h
    | destroy => simp only [qShape] at h; split at h <;> cases h

theorem qShape_destroy_cons_ne (q : List Work) : qShape (.destroy :: q) ≠ 0 := by
  simp only [qShape]; split <;> omega

theorem qShape_resize_cons (q : List Work) : qShape (.resize :: q) = qShape q := rfl
theorem qShape_destroy_cons (q : List Work) (h : qShape (.destroy :: q) ≤ 1) : q = [] := by
  simp only [qShape] at h; split at h <;> first | assumption | omega
theorem qShape_nil : qShape [] = 0 := rfl

structure InvD (c : Cfg) (s : State) : Prop where
  apc_out : ∀ t, c.n ≤ t → s.apc t = .idle
  hold_idle : s.rpc = .idle → s.holder = .none ∧ s.wk ≠ .inResize
  hold_busy : s.rpc ≠ .idle → (s.holder = .app ∧ s.wk ≠ .inResize) ∨ (s.holder = .worker ∧ s.wk = .inResize)
  noauto : c.auto = false → s.queue = [] ∧ s.wk = .idle
  noauto_apc : c.auto = false → ∀ t, s.apc t = .idle ∨ s.apc t = .rs1 ∨ s.apc t = .rs2
  qs : qShape s.queue ≤ 1
  ph0 : s.destroy = false → s.dead = false ∧ s.wk ≠ .destroying ∧ qShape s.queue = 0 ∧ ∀ t, s.apc t ≠ .d1
  d_holder : s.destroy = true → s.holder ≠ .app
  d_apc : s.destroy = true → ∀ t, s.apc t = .idle ∨ s.apc t = .d1
  d_uniq : ∀ t t', s.apc t = .d1 → s.apc t' = .d1 → t = t'
  p1 : ∀ t, s.apc t = .d1 → qShape s.queue = 0 ∧ s.wk ≠ .destroying ∧ s.dead = false
  p2 : s.destroy = true → (∀ t, s.apc t ≠ .d1) → s.dead = false → s.wk ≠ .destroying → qShape s.queue = 1
  p3 : s.wk = .destroying → (∀ t, s.apc t ≠ .d1) ∧ s.queue = [] ∧ s.rpc = .idle ∧ s.dead = false
  p4 : s.dead = true → s.destroy = true ∧ (∀ t, s.apc t ≠ .d1) ∧ s.queue = [] ∧ s.wk = .idle ∧ s.rpc = .idle

theorem invD_init (c : Cfg) (k : Nat) : InvD c (init k) := by
  constructor <;> simp [init, qShape]

theorem allIdle_spec {c : Cfg} {s : State} (h : allIdle c s = true) (i : Nat) (hi : i < c.n) : s.apc i = .idle := by
  simp only [allIdle, List.all_eq_true, List.mem_range] at h
  simpa using h i hi

theorem invD_rz {c : Cfg} {s s' : State} (h : InvD c s) (st : rzStep s = some s') : InvD c s' := by
  obtain ⟨h1, h2, h3, h4, h5, h6, h7, h8, h9, h10, h11, h12, h13, h14⟩ := h
  cases hr : s.rpc <;> simp only [rzStep, hr, reduceCtorEq] at st
  all_goals (repeat' split at st)
  all_goals simp only [Option.some.injEq] at st
  all_goals subst st
  all_goals simp only [hr, reduceCtorEq, ne_eq, not_false_eq_true, forall_const, false_implies] at h2 h3 h13 h14
  all_goals constructor
  all_goals simp only [reduceCtorEq, ne_eq, not_false_eq_true, not_true_eq_false]
  all_goals grind

theorem invD_step {c : Cfg} {s s' : State} {op : Op} (h : InvD c s) (st : step c s op = some s') : InvD c s' := by
  cases op with
  | rz =>
    simp only [step, Option.map_eq_some_iff] at st
    obtain ⟨s1, h1, rfl⟩ := st
    have := invD_rz h h1
    exact ⟨this.1, this.2, this.3, this.4, this.5, this.6, this.7, this.8, this.9, this.10, this.11, this.12, this.13, this.14⟩
  | lazyGrow t sz growth =>
    obtain ⟨h1, h2, h3, h4, h5, h6, h7, h8, h9, h10, h11, h12, h13, h14⟩ := h
    simp only [step] at st
    split at st
    · simp only [Option.some.injEq] at st; subst st
      constructor <;> simp only [upd] <;> grind
    · cases st
  | lazyCount t sz count =>
    obtain ⟨h1, h2, h3, h4, h5, h6, h7, h8, h9, h10, h11, h12, h13, h14⟩ := h
    simp only [step] at st
    split at st
    · split at st
      · simp only [Option.some.injEq] at st; subst st
        exact ⟨h1, h2, h3, h4, h5, h6, h7, h8, h9, h10, h11, h12, h13, h14⟩
      · split at st
        all_goals simp only [Option.some.injEq] at st
        all_goals subst st
        all_goals constructor
        all_goals simp only [upd]
        all_goals grind
    · cases st
  | cas t =>
    obtain ⟨h1, h2, h3, h4, h5, h6, h7, h8, h9, h10, h11, h12, h13, h14⟩ := h
    simp only [step] at st
    split at st
    · simp only [Option.some.injEq] at st; subst st
      constructor <;> simp only [upd] <;> grind
    · cases st
  | launch t =>
    obtain ⟨h1, h2, h3, h4, h5, h6, h7, h8, h9, h10, h11, h12, h13, h14⟩ := h
    simp only [step] at st
    split at st
    all_goals (try (cases st; done))
    all_goals simp only [Option.some.injEq] at st
    all_goals subst st
    all_goals constructor
    all_goals simp only [upd]
    all_goals grind [qShape_snoc_resize]
  | resizeCall t req =>
    obtain ⟨h1, h2, h3, h4, h5, h6, h7, h8, h9, h10, h11, h12, h13, h14⟩ := h
    simp only [step] at st
    split at st
    · simp only [Option.some.injEq] at st; subst st
      constructor <;> simp only [upd] <;> grind
    · cases st
  | resizeInit t =>
    obtain ⟨h1, h2, h3, h4, h5, h6, h7, h8, h9, h10, h11, h12, h13, h14⟩ := h
    simp only [step] at st
    split at st
    · simp only [Option.some.injEq] at st; subst st
      constructor <;> simp only [upd] <;> grind
    · cases st
  | resizeLock t =>
    obtain ⟨h1, h2, h3, h4, h5, h6, h7, h8, h9, h10, h11, h12, h13, h14⟩ := h
    simp only [step] at st
    split at st
    · simp only [Option.some.injEq] at st; subst st
      constructor <;> simp only [upd] <;> grind
    · cases st
  | destroyQueue t =>
    obtain ⟨h1, h2, h3, h4, h5, h6, h7, h8, h9, h10, h11, h12, h13, h14⟩ := h
    simp only [step] at st
    split at st
    · simp only [Option.some.injEq] at st; subst st
      constructor <;> simp only [upd] <;> grind [qShape_snoc_destroy]
    · cases st
  | workerLock =>
    obtain ⟨h1, h2, h3, h4, h5, h6, h7, h8, h9, h10, h11, h12, h13, h14⟩ := h
    simp only [step] at st
    split at st
    · simp only [Option.some.injEq] at st; subst st
      constructor <;> grind
    · cases st
  | workerTake =>
    obtain ⟨h1, h2, h3, h4, h5, h6, h7, h8, h9, h10, h11, h12, h13, h14⟩ := h
    simp only [step] at st
    repeat' split at st
    all_goals (try (cases st; done))
    all_goals simp only [Option.some.injEq] at st
    all_goals subst st
    all_goals constructor
    all_goals grind [qShape_resize_cons, qShape_destroy_cons, qShape_nil, qShape_destroy_cons_ne]
  | workerDestroy =>
    obtain ⟨h1, h2, h3, h4, h5, h6, h7, h8, h9, h10, h11, h12, h13, h14⟩ := h
    simp only [step] at st
    split at st
    · simp only [Option.some.injEq] at st; subst st
      constructor <;> simp only [deleteBuckets] <;> grind [qShape_nil]
    · cases st
  | destroy t =>
    obtain ⟨h1, h2, h3, h4, h5, h6, h7, h8, h9, h10, h11, h12, h13, h14⟩ := h
    simp only [step] at st
    split at st
    · rename_i hg
      have hall : ∀ i, s.apc i = .idle := by
        intro i
        by_cases hi : i < c.n
        · exact allIdle_spec hg.2.1 i hi
        · exact h1 i (by omega)
      split at st
      · simp only [Option.some.injEq] at st; subst st
        constructor <;> first
          | (intro _ hh; exact absurd (upd_same s.apc t APc.d1) (hh t))
          | (simp only [upd]; grind)
      · split at st
        · simp only [Option.some.injEq] at st; subst st
          constructor <;> simp only [deleteBuckets] <;> grind [qShape_nil]
        · cases st
    · cases st

/-! ## bucket-table levels -/

def base (k j : Nat) : Lvl := if j ≤ k then .linked else .absent

def unpubLt (l : Lvl) (b : Nat) : Bool := match l with | .unpub g => decide (g < b) | _ => false
def removedLt (l : Lvl) (b : Nat) : Bool := match l with | .removed g => decide (g < b) | _ => false

theorem freeOk_eq (s : State) (fr : Nat) : freeOk s fr = removedLt (s.lvl fr) s.gp := by
  unfold freeOk removedLt; split <;> simp_all
theorem removeOk_eq (s : State) (i : Nat) : removeOk s i = unpubLt (s.lvl i) s.gp := by
  unfold removeOk unpubLt; split <;> simp_all

theorem unpubLt_mono {l : Lvl} {b : Nat} (h : unpubLt l b = true) : unpubLt l (b+1) = true := by
  unfold unpubLt at *; split at h <;> simp_all; omega
theorem removedLt_mono {l : Lvl} {b : Nat} (h : removedLt l b = true) : removedLt l (b+1) = true := by
  unfold removedLt at *; split at h <;> simp_all; omega
theorem unpubLt_self (g : Nat) : unpubLt (.unpub g) (g+1) = true := by simp [unpubLt]
theorem removedLt_self (g : Nat) : removedLt (.removed g) (g+1) = true := by simp [removedLt]
theorem unpubLt_ne {l : Lvl} {b : Nat} (h : unpubLt l b = true) : l ≠ .linked ∧ l ≠ .absent := by
  unfold unpubLt at h; split at h <;> simp_all
theorem removedLt_ne {l : Lvl} {b : Nat} (h : removedLt l b = true) : l ≠ .linked ∧ l ≠ .absent := by
  unfold removedLt at h; split at h <;> simp_all

/-- the level awaiting its deferred free (`free_by_rcu_order`) -/
def FrOk (lvl : Nat → Lvl) (bound i fr : Nat) : Prop :=
  (fr = 0 ∧ ∀ j, i < j → lvl j = .absent) ∨
  (fr = i + 1 ∧ removedLt (lvl fr) bound = true ∧ ∀ j, i + 1 < j → lvl j = .absent)

/-- life cycle of every level as a function of the resizer's program counter -/
def LvlOk (s : State) : Prop :=
  match s.rpc with
  | .growChk i _ => ∀ j, s.lvl j = base (i-1) j
  | .growAlloc i _ => ∀ j, s.lvl j = base (i-1) j
  | .growPop i _ => s.lvl i = .allocated ∧ ∀ j, j ≠ i → s.lvl j = base (i-1) j
  | .growPub i _ => ∀ j, s.lvl j = base i j
  | .growDes i _ => ∀ j, s.lvl j = base i j
  | .shrChk i _ fr => (∀ j, j ≤ i → s.lvl j = .linked) ∧ FrOk s.lvl (s.gp+1) i fr
  | .shrPub i _ fr => (∀ j, j ≤ i → s.lvl j = .linked) ∧ FrOk s.lvl (s.gp+1) i fr
  | .shrSync i _ fr => (∀ j, j < i → s.lvl j = .linked) ∧ unpubLt (s.lvl i) (s.gp+1) = true ∧ FrOk s.lvl (s.gp+1) i fr
  | .shrFree i _ fr => (∀ j, j < i → s.lvl j = .linked) ∧ unpubLt (s.lvl i) s.gp = true ∧ FrOk s.lvl s.gp i fr
  | .shrRemove i _ _ => (∀ j, j < i → s.lvl j = .linked) ∧ unpubLt (s.lvl i) s.gp = true ∧ ∀ j, i < j → s.lvl j = .absent
  | .shrDes i _ fr => fr = i ∧ (∀ j, j < i → s.lvl j = .linked) ∧ removedLt (s.lvl i) (s.gp+1) = true ∧ ∀ j, i < j → s.lvl j = .absent
  | .tailSync fr => (∀ j, j ≤ order s.size → s.lvl j = .linked) ∧ FrOk s.lvl (s.gp+1) (order s.size) fr
  | .tailFree fr => (∀ j, j ≤ order s.size → s.lvl j = .linked) ∧ fr = order s.size + 1 ∧ removedLt (s.lvl fr) s.gp = true ∧
                      ∀ j, order s.size + 1 < j → s.lvl j = .absent
  | _ => ∀ j, s.lvl j = base (order s.size) j

structure InvL (s : State) : Prop where
  nbad : s.bad = false
  lv : s.dead = false → LvlOk s

end UrcuVerif.Lfht.Resize
