import UrcuVerif.Lfht.Resize
/-!
# C09 — lemmas about the pure helpers of `Lfht/Resize.lean`
(count order, target rounding, level loops, lazy grow / lazy count, counters, partition splitting)
-/
namespace UrcuVerif.Lfht.Resize
open UrcuVerif.Gen

theorem two_pow_lt_word {k : Nat} (h : k < 64) : 2 ^ k < 2 ^ 64 := Nat.pow_lt_pow_right (by omega) h

theorem shl_one {k : Nat} (h : k < 64) : shl 1 k = 2 ^ k := by
  unfold shl wrap
  rw [Nat.one_shiftLeft]
  exact Nat.mod_eq_of_lt (two_pow_lt_word h)

theorem fls_zero : fls 0 = 0 := by simp [fls]

theorem fls_bounds {x : Nat} (h : x ≠ 0) : 2 ^ (fls x - 1) ≤ x ∧ x < 2 ^ fls x := by
  simp only [fls, h, if_false, Nat.add_sub_cancel]
  exact ⟨Nat.log2_self_le h, Nat.lt_log2_self⟩

theorem fls_lt_iff {x k : Nat} : fls x ≤ k ↔ x < 2 ^ k := by
  by_cases h : x = 0
  · subst h; simp [fls, Nat.two_pow_pos]
  · simp only [fls, h, if_false]
    rw [← Nat.log2_lt h]; omega

theorem fls_eq {x k : Nat} (h1 : 2 ^ k ≤ x) (h2 : x < 2 ^ (k+1)) : fls x = k + 1 := by
  have hx : x ≠ 0 := by
    have := Nat.two_pow_pos k; omega
  have a : fls x ≤ k + 1 := fls_lt_iff.mpr h2
  have b : ¬ fls x ≤ k := by rw [fls_lt_iff]; omega
  omega

theorem order_two_pow (k : Nat) : order (2 ^ k) = k := by
  unfold order
  cases k with
  | zero => simp [fls]
  | succ k =>
    apply fls_eq
    · have := Nat.two_pow_pos k; rw [Nat.pow_succ]; omega
    · have := Nat.two_pow_pos (k+1); omega

theorem order_le_iff {x o : Nat} (hx : 1 ≤ x) : order x ≤ o ↔ x ≤ 2 ^ o := by
  unfold order; rw [fls_lt_iff]; omega

theorem le_two_pow_order {x : Nat} (hx : 1 ≤ x) : x ≤ 2 ^ order x := (order_le_iff hx).mp (Nat.le_refl _)

theorem two_pow_order_pred_lt {x : Nat} (hx : 2 ≤ x) : 2 ^ (order x - 1) < x := by
  have h : ¬ order x ≤ order x - 1 := by
    have : order x ≠ 0 := by
      intro h0
      have := (order_le_iff (o := 0) (by omega : 1 ≤ x)).mp (by omega)
      simp at this; omega
    omega
  rw [order_le_iff (by omega)] at h
  omega
theorem testBit_top {y k : Nat} (h1 : 2 ^ k ≤ y) (h2 : y < 2 ^ (k+1)) : y.testBit k = true := by
  obtain ⟨i, hi, hb⟩ := Nat.exists_ge_and_testBit_of_ge_two_pow h1
  have : i < k + 1 := by
    apply Classical.byContradiction; intro hc
    have : y < 2 ^ i := Nat.lt_of_lt_of_le h2 (Nat.pow_le_pow_right (by omega) (by omega))
    rw [Nat.testBit_lt_two_pow this] at hb; cases hb
  have : i = k := by omega
  subst this; exact hb

/-- the C test `!(x & (x-1))` holds exactly for 0 and the powers of two -/
theorem andTest_iff (x : Nat) : andTest x = true ↔ x = 0 ∨ ∃ k, x = 2 ^ k := by
  unfold andTest
  constructor
  · intro h
    have h : x &&& (x - 1) = 0 := by simpa using h
    by_cases hx : x = 0
    · exact Or.inl hx
    · right
      refine ⟨x.log2, ?_⟩
      have lo := Nat.log2_self_le hx
      have hi := @Nat.lt_log2_self x
      apply Classical.byContradiction; intro hne
      have b1 := testBit_top lo hi
      have b2 : (x - 1).testBit x.log2 = true := testBit_top (by omega) (by omega)
      have := Nat.testBit_and x (x - 1) x.log2
      rw [h, b1, b2] at this
      simp at this
  · rintro (rfl | ⟨k, rfl⟩)
    · simp
    · simp [Nat.and_two_pow_sub_one_eq_mod]

theorem isPow2_iff (x : Nat) : isPow2 x = true ↔ ∃ k, x = 2 ^ k := by
  unfold isPow2
  simp only [Bool.and_eq_true, bne_iff_ne, ne_eq, andTest_iff]
  constructor
  · rintro ⟨h0, h | h⟩
    · exact absurd h h0
    · exact h
  · rintro ⟨k, rfl⟩
    exact ⟨by have := Nat.two_pow_pos k; omega, Or.inr ⟨k, rfl⟩⟩

/-! side conditions on the generated constants (re-checked on every run) -/
theorem min_table_size_eq : MIN_TABLE_SIZE = 1 := by decide
theorem chain_len_target_eq : CHAIN_LEN_TARGET - 1 = 0 := by decide
theorem min_partition_eq : MIN_PARTITION_PER_THREAD = 2 ^ MIN_PARTITION_PER_THREAD_ORDER := by decide
theorem count_commit_order_lt : COUNT_COMMIT_ORDER < 64 := by decide

theorem shl_one_andTest (i : Nat) : andTest (shl 1 i) = true := by
  rw [andTest_iff]
  by_cases h : i < 64
  · exact Or.inr ⟨i, shl_one h⟩
  · left
    unfold shl wrap
    rw [Nat.one_shiftLeft]
    exact Nat.mod_eq_zero_of_dvd (Nat.pow_dvd_pow 2 (by omega))

theorem clampCount_bounds {mx req : Nat} (hmx : 1 ≤ mx) : 1 ≤ clampCount mx req ∧ clampCount mx req ≤ mx := by
  unfold clampCount; rw [min_table_size_eq]; omega

/-- every value `resize_target_update_count` stores is a power of two in `[1, max]`, namely the
least power of two ≥ the clamped request -/
theorem resize_target_pow2_in_bounds {m : Nat} (hm : m ≤ 63) (req : Nat) :
    ∃ k, k ≤ m ∧ resizeTargetUpdateCount (2 ^ m) req = 2 ^ k ∧ clampCount (2 ^ m) req ≤ 2 ^ k ∧
      ∀ j, clampCount (2 ^ m) req ≤ 2 ^ j → k ≤ j := by
  have hb := clampCount_bounds (mx := 2 ^ m) (req := req) (Nat.two_pow_pos m)
  refine ⟨order (clampCount (2 ^ m) req), ?_, ?_, ?_, ?_⟩
  · exact (order_le_iff hb.1).mpr hb.2
  · unfold resizeTargetUpdateCount
    exact shl_one (by have := (order_le_iff hb.1).mpr hb.2; omega)
  · exact le_two_pow_order hb.1
  · intro j hj; exact (order_le_iff hb.1).mpr hj

theorem two_pow_lt_two_pow {a b : Nat} : 2 ^ a < 2 ^ b ↔ a < b := Nat.pow_lt_pow_iff_right (by omega)
theorem two_pow_le_two_pow {a b : Nat} : 2 ^ a ≤ 2 ^ b ↔ a ≤ b := Nat.pow_le_pow_iff_right (by omega)

theorem initTable_exact (j : Nat) (hj : j < 64) : ∀ n i size, i + n = j + 1 → (n = 0 → size = 2 ^ j) →
    initTable (2 ^ j) n i size = 2 ^ j := by
  intro n
  induction n with
  | zero => intro i size _ h; simpa [initTable] using h rfl
  | succ n ih =>
    intro i size hi _
    have hi64 : i < 64 := by omega
    simp only [initTable, shl_one hi64, two_pow_lt_two_pow]
    rw [if_neg (by omega)]
    apply ih
    · omega
    · intro hn; have : i = j := by omega
      rw [this]

theorem finiTable_exact (j : Nat) : ∀ n i size, i < 65 → i = j + n → (n = 0 → size = 2 ^ j) →
    finiTable (2 ^ j) n i size = 2 ^ j := by
  intro n
  induction n with
  | zero => intro i size _ _ h; simpa [finiTable] using h rfl
  | succ n ih =>
    intro i size h64 hi _
    have hi64 : i - 1 < 64 := by omega
    simp only [finiTable, shl_one hi64, gt_iff_lt, two_pow_lt_two_pow]
    rw [if_neg (by omega)]
    apply ih
    · omega
    · omega
    · intro hn; have : i - 1 = j := by omega
      rw [this]

/-- one pass of the loop body brings a power-of-two size to a power-of-two target, whatever the
distance and direction -/
theorem resize_reaches_pow2_target {j k : Nat} (hj : j ≤ 63) (hk : k ≤ 63) : resizeIter (2 ^ j) (2 ^ k) = 2 ^ j := by
  unfold resizeIter
  simp only [two_pow_lt_two_pow, gt_iff_lt]
  by_cases h1 : k < j
  · rw [if_pos h1]
    unfold doGrow
    rw [order_two_pow, order_two_pow]
    exact initTable_exact j (by omega) _ _ _ (by omega) (by omega)
  · rw [if_neg h1]
    by_cases h2 : j < k
    · rw [if_pos h2]
      unfold doShrink
      have : max (2 ^ j) MIN_TABLE_SIZE = 2 ^ j := by
        rw [min_table_size_eq]; have := Nat.two_pow_pos j; omega
      rw [this, order_two_pow, order_two_pow]
      exact finiTable_exact j _ _ _ (by omega) (by omega) (by omega)
    · rw [if_neg h2]; have : j = k := by omega
      rw [this]

theorem initTable_andTest (tgt : Nat) : ∀ n i size, andTest size = true → andTest (initTable tgt n i size) = true := by
  intro n
  induction n with
  | zero => intro i size h; simpa [initTable] using h
  | succ n ih =>
    intro i size h
    simp only [initTable]
    split
    · exact h
    · exact ih _ _ (shl_one_andTest i)

theorem finiTable_andTest (tgt : Nat) : ∀ n i size, andTest size = true → andTest (finiTable tgt n i size) = true := by
  intro n
  induction n with
  | zero => intro i size h; simpa [finiTable] using h
  | succ n ih =>
    intro i size h
    simp only [finiTable]
    split
    · exact h
    · exact ih _ _ (shl_one_andTest (i-1))

theorem resizeIter_andTest (tgt size : Nat) (h : andTest size = true) : andTest (resizeIter tgt size) = true := by
  unfold resizeIter doGrow doShrink
  split
  · exact initTable_andTest _ _ _ _ h
  · split
    · exact finiTable_andTest _ _ _ _ h
    · exact h

/-- a target that is not 0 or a power of two is never reached: the loop of `_do_cds_lfht_resize`
does not terminate, whatever the (power-of-two) size it starts from -/
theorem doResizeLoop_diverges {tgt : Nat} (ht : andTest tgt = false) :
    ∀ fuel size, andTest size = true → doResizeLoop tgt fuel size = none := by
  intro fuel
  induction fuel with
  | zero => intro size _; rfl
  | succ f ih =>
    intro size hs
    have h' := resizeIter_andTest tgt size hs
    simp only [doResizeLoop]
    rw [if_neg]
    · exact ih _ h'
    · intro heq; rw [heq, ht] at h'; cases h'

/-! ## partition splitting -/
theorem cover_helpers (p : Nat) (hp : 0 < p) (j : Nat) : ∀ cr,
    (((List.range cr).map fun t => (t * p, p)).map fun r => if r.1 ≤ j ∧ j < r.1 + r.2 then 1 else 0).sum
      = if j < cr * p then 1 else 0 := by
  intro cr
  induction cr with
  | zero => simp
  | succ n ih =>
    rw [List.range_succ, List.map_append, List.map_append, List.sum_append, ih]
    simp only [List.map_cons, List.map_nil, List.sum_cons, List.sum_nil, Nat.add_zero]
    have : (n + 1) * p = n * p + p := by rw [Nat.add_mul]; omega
    rw [this]
    by_cases h1 : j < n * p
    · rw [if_pos h1, if_neg (by omega), if_pos (by omega)]
    · rw [if_neg h1]
      by_cases h2 : j < n * p + p
      · rw [if_pos ⟨by omega, h2⟩, if_pos h2]
      · rw [if_neg (by omega), if_neg h2]

theorem shiftRight_two_pow {a b : Nat} (h : b ≤ a) : 2 ^ a >>> b = 2 ^ (a - b) := by
  rw [Nat.shiftRight_eq_div_pow, Nat.pow_div h (by omega)]

theorem cover_tail (len nr plen created j : Nat) (h1 : nr * plen = len) (hp : 0 < plen) (hc : created ≤ nr)
    (hnr : 0 < nr) :
    coverCount (if (if created < nr then created * plen else 0) = 0 ∧ created > 0
        then ((List.range created).map fun t => (t * plen, plen), none)
        else ((List.range created).map fun t => (t * plen, plen),
              some ((if created < nr then created * plen else 0), len - (if created < nr then created * plen else 0)))) j
      = if j < len then 1 else 0 := by
  have hcl : created * plen ≤ len := by rw [← h1]; exact Nat.mul_le_mul_right _ hc
  by_cases hlt : created < nr
  · simp only [if_pos hlt]
    by_cases h0 : created = 0
    · subst h0
      simp [coverCount]
    · have hpos : 0 < created * plen := Nat.mul_pos (by omega) hp
      rw [if_neg (by omega)]
      simp only [coverCount, Option.toList, List.map_append, List.sum_append, cover_helpers plen hp j created,
        List.map_cons, List.map_nil, List.sum_cons, List.sum_nil]
      by_cases hj : j < created * plen
      · rw [if_pos hj, if_neg (by omega), if_pos (by omega)]; rfl
      · rw [if_neg hj]
        by_cases hj2 : j < len
        · rw [if_pos ⟨by omega, by omega⟩, if_pos hj2]; rfl
        · rw [if_neg (by omega), if_neg hj2]; rfl
  · have : created = nr := by omega
    subst this
    simp only [if_neg hlt]
    rw [if_pos ⟨trivial, hnr⟩]
    simp only [coverCount, Option.toList, List.append_nil, cover_helpers plen hp j created, h1]

/-- **partition_covers**: the ranges handed to helper threads plus the range the caller runs
itself contain every index of `[0,len)` exactly once and nothing else — for every power-of-two
`len`, every `nr_cpus_mask` the library can compute (negative, or `2^c - 1`), with or without
failure of the work-array allocation, and whichever `pthread_create` fails first. -/
theorem partition_covers (a c : Nat) (mask : Int) (hmask : mask < 0 ∨ mask = Int.ofNat (2 ^ c - 1))
    (cf : Bool) (failAt : Option Nat) (j : Nat) :
    coverCount (partitionPlan mask (2 ^ a) cf failAt) j = if j < 2 ^ a then 1 else 0 := by
  unfold partitionPlan
  by_cases hfb : mask < 0 ∨ 2 ^ a < 2 * MIN_PARTITION_PER_THREAD
  · rw [if_pos hfb]; simp [coverCount]
  · rw [if_neg hfb]
    have hm : mask = Int.ofNat (2 ^ c - 1) := by
      rcases hmask with h | h
      · exact absurd (Or.inl h) hfb
      · exact h
    have ha : MIN_PARTITION_PER_THREAD_ORDER + 1 ≤ a := by
      have h2 : ¬ 2 ^ a < 2 * MIN_PARTITION_PER_THREAD := fun h => hfb (Or.inr h)
      rw [min_partition_eq, ← Nat.pow_succ', two_pow_lt_two_pow] at h2
      omega
    -- number of threads is a power of two 2^b with b ≤ a - 12
    have hnr : ∃ b, b + MIN_PARTITION_PER_THREAD_ORDER ≤ a ∧
        (if mask > 0 then min (mask.toNat + 1) (2 ^ a >>> MIN_PARTITION_PER_THREAD_ORDER) else 1) = 2 ^ b := by
      rw [shiftRight_two_pow (by omega)]
      subst hm
      have hp := Nat.two_pow_pos c
      by_cases hc0 : Int.ofNat (2 ^ c - 1) > 0
      · rw [if_pos hc0]
        have : (Int.ofNat (2 ^ c - 1)).toNat + 1 = 2 ^ c := by simp; omega
        rw [this]
        by_cases hle : c ≤ a - MIN_PARTITION_PER_THREAD_ORDER
        · exact ⟨c, by omega, Nat.min_eq_left (two_pow_le_two_pow.mpr hle)⟩
        · exact ⟨a - MIN_PARTITION_PER_THREAD_ORDER, by omega, Nat.min_eq_right (two_pow_le_two_pow.mpr (by omega))⟩
      · rw [if_neg hc0]; exact ⟨0, by omega, rfl⟩
    obtain ⟨b, hb, hnr⟩ := hnr
    simp only [hnr, order_two_pow, shiftRight_two_pow (show b ≤ a by omega)]
    cases cf with
    | true => simp [coverCount]
    | false =>
      simp only [Bool.false_eq_true, if_false]
      have h1 : 2 ^ b * 2 ^ (a - b) = 2 ^ a := by rw [← Nat.pow_add]; congr 1; omega
      cases failAt with
      | none => exact cover_tail (2 ^ a) (2 ^ b) (2 ^ (a - b)) (2 ^ b) j h1 (Nat.two_pow_pos _) (Nat.le_refl _) (Nat.two_pow_pos _)
      | some k => exact cover_tail (2 ^ a) (2 ^ b) (2 ^ (a - b)) (min k (2 ^ b)) j h1 (Nat.two_pow_pos _) (Nat.min_le_right _ _) (Nat.two_pow_pos _)

/-! ## lazy resize requests -/
/-- power of two within the table bounds -/
def P2 (m x : Nat) : Prop := ∃ k, k ≤ m ∧ x = 2 ^ k

theorem shl_two_pow (b g : Nat) : shl (2 ^ b) g = 2 ^ (b + g) ∨ shl (2 ^ b) g = 0 := by
  unfold shl wrap
  rw [Nat.shiftLeft_eq, ← Nat.pow_add]
  by_cases h : b + g < 64
  · left; exact Nat.mod_eq_of_lt (two_pow_lt_word h)
  · right; exact Nat.mod_eq_zero_of_dvd (Nat.pow_dvd_pow 2 (by omega))

theorem min_two_pow (a m : Nat) : P2 m (min (2 ^ a) (2 ^ m)) := by
  by_cases h : a ≤ m
  · exact ⟨a, h, Nat.min_eq_left (two_pow_le_two_pow.mpr h)⟩
  · exact ⟨m, Nat.le_refl _, Nat.min_eq_right (two_pow_le_two_pow.mpr (by omega))⟩

/-- the value `cds_lfht_resize_lazy_grow` hands to the monotonic-increase xchg is 0 (shift
overflow: then nothing is stored) or a power of two within bounds -/
theorem lazy_grow_arg (m b g : Nat) : min (shl (2 ^ b) g) (2 ^ m) = 0 ∨ P2 m (min (shl (2 ^ b) g) (2 ^ m)) := by
  rcases shl_two_pow b g with h | h <;> rw [h]
  · right; exact min_two_pow _ _
  · left; simp

theorem xchg_in_bounds {m cur v : Nat} (hc : P2 m cur) (hv : v = 0 ∨ P2 m v) : P2 m (xchgMonotonicIncrease cur v).1 := by
  unfold xchgMonotonicIncrease
  split
  · exact hc
  · rcases hv with h | h
    · omega
    · exact h

/-- **lazy_grow_target_in_bounds**: whatever (power-of-two) size the caller read and whatever
growth it computed, the target after `cds_lfht_resize_lazy_grow` is a power of two in `[1,max]`. -/
theorem lazy_grow_target_in_bounds {m tgt : Nat} (b g : Nat) (ht : P2 m tgt) :
    P2 m (lazyGrow (2 ^ m) tgt (2 ^ b) g).1 := by
  unfold lazyGrow
  exact xchg_in_bounds ht (lazy_grow_arg m b g)

theorem clampCount_pow2 (m : Nat) {count : Nat} (h : andTest count = true) : P2 m (clampCount (2 ^ m) count) := by
  unfold clampCount
  rw [min_table_size_eq]
  rcases (andTest_iff count).mp h with rfl | ⟨k, rfl⟩
  · have : max 0 1 = 2 ^ 0 := by decide
    rw [this]; exact min_two_pow 0 m
  · have : max (2 ^ k) 1 = 2 ^ k := by have := Nat.two_pow_pos k; omega
    rw [this]; exact min_two_pow k m

theorem shrinkCas_in_bounds {m tgt size count : Nat} (ht : P2 m tgt) (hc : P2 m count) :
    P2 m (shrinkCas tgt size count).1 := by
  unfold shrinkCas
  repeat' split
  all_goals first | exact hc | exact ht

/-- **lazy_count_target_in_bounds** -/
theorem lazy_count_target_in_bounds {m tgt : Nat} (auto : Bool) (size count : Nat) (ht : P2 m tgt)
    (hc : andTest count = true) : P2 m (lazyCount auto (2 ^ m) tgt size count).1 := by
  have hcc := clampCount_pow2 m hc
  unfold lazyCount
  dsimp only
  split
  · exact ht
  · split
    · exact ht
    · split
      · exact xchg_in_bounds ht (Or.inr hcc)
      · have h1 := shrinkCas_in_bounds (size := size) ht hcc
        split
        · rename_i heq; rw [heq] at h1; exact h1
        · rename_i s heq
          rw [heq] at h1
          have h2 := shrinkCas_in_bounds (size := s) h1 hcc
          split
          · rename_i heq2; rw [heq2] at h2; exact h2
          · rename_i heq2; rw [heq2] at h2; exact h2
        · rename_i heq; rw [heq] at h1; exact h1

/-- **count_args_pow2**: what `ht_count_add` / `ht_count_del` pass to `cds_lfht_resize_lazy_count`
has passed the `!(count & (count-1))` test, i.e. is 0 or a power of two. -/
theorem count_args_pow2_add {sc cnt size c x : Nat} (h : htCountAdd sc cnt size = (c, some x)) : andTest x = true := by
  unfold htCountAdd at h
  rw [chain_len_target_eq] at h
  dsimp only at h
  split at h
  · simp at h
  · split at h
    · simp at h
    · split at h
      · simp at h
      · simp only [Prod.mk.injEq, Option.some.injEq] at h
        obtain ⟨rfl, rfl⟩ := h
        rename_i h2 _
        simpa using h2

theorem count_args_pow2_del {mask sc cnt size c x : Nat} (h : htCountDel mask sc cnt size = (c, some x)) : andTest x = true := by
  unfold htCountDel at h
  rw [chain_len_target_eq] at h
  dsimp only at h
  split at h
  · simp at h
  · split at h
    · simp at h
    · split at h
      · simp at h
      · split at h
        · simp at h
        · simp only [Prod.mk.injEq, Option.some.injEq] at h
          obtain ⟨rfl, rfl⟩ := h
          rename_i h2 _ _
          simpa using h2

/-! the cmpxchg loop of the lazy shrink -/
theorem shrinkLoop_spec (obs : Nat → Nat) (count : Nat) : ∀ fuel k size k' size' o,
    shrinkLoop obs count fuel k size = some (k', size', o) →
      size' ≤ size ∧ (count < size → count < size') ∧ (shrinkCas (obs k') size' count).2 = o ∧ (∀ s, o ≠ .retry s) := by
  intro fuel
  induction fuel with
  | zero => intro k size k' size' o h; simp [shrinkLoop] at h
  | succ f ih =>
    intro k size k' size' o h
    simp only [shrinkLoop] at h
    split at h
    · rename_i s hs
      have hr : count < s ∧ s < size := by
        unfold shrinkCas at hs
        repeat' split at hs
        all_goals simp only [reduceCtorEq, CasOut.retry.injEq] at hs
        subst hs; omega
      have := ih _ _ _ _ _ h
      exact ⟨by omega, fun _ => this.2.1 hr.1, this.2.2⟩
    · rename_i hne
      simp only [Option.some.injEq, Prod.mk.injEq] at h
      obtain ⟨rfl, rfl, rfl⟩ := h
      exact ⟨Nat.le_refl _, id, rfl, fun s hs => hne s hs⟩

theorem shrinkLoop_terminates (obs : Nat → Nat) (count : Nat) : ∀ f k size, size ≤ count + f →
    ∃ r, shrinkLoop obs count (f + 1) k size = some r := by
  intro f
  induction f with
  | zero =>
    intro k size h
    simp only [shrinkLoop]
    split
    · rename_i s hs
      unfold shrinkCas at hs
      repeat' split at hs
      all_goals simp only [reduceCtorEq, CasOut.retry.injEq] at hs
      omega
    · exact ⟨_, rfl⟩
  | succ f ih =>
    intro k size h
    rw [shrinkLoop]
    split
    · rename_i s hs
      have hr : s < size := by
        unfold shrinkCas at hs
        repeat' split at hs
        all_goals simp only [reduceCtorEq, CasOut.retry.injEq] at hs
        subst hs; omega
      exact ih _ _ (by omega)
    · exact ⟨_, rfl⟩
/-- the growth `check_resize` derives from a 32-bit chain length is at most 32, so `size << growth`
never shifts by 64 or more -/
theorem orderU32_le (x : Nat) : orderU32 x ≤ 32 := by
  unfold orderU32
  rw [fls_lt_iff]
  have := Nat.mod_lt x (Nat.two_pow_pos 32)
  omega
end UrcuVerif.Lfht.Resize
