import UrcuVerif.Lfht.Seq.Model
/-!
# API operations of the sequential `rculfhash` model, `step`, parameter normalisation of
`_cds_lfht_new_with_alloc`, bucket creation and (sequential) resize.   Core Lean only.
-/
namespace UrcuVerif.Lfht.Seq
open UrcuVerif.Lfht

/-- user node as `cds_lfht_add*` prepares it: `node->reverse_hash = bit_reverse_ulong(hash)` -/
def mkUser (id hash key : Nat) : Entry := ⟨bitReverse64 hash, false, false, id, key⟩
/-- bucket node `j` as `init_table_populate_partition` / `cds_lfht_create_bucket` prepare it -/
def mkBucket (j : Nat) : Entry := ⟨bitReverse64 j, true, false, j, 0⟩
/-- bucket 0: `node->reverse_hash = 0` -/
def bucket0 : Entry := ⟨0, true, false, 0, 0⟩

def linked (t : Table) (id : Nat) : Bool := t.list.any (isUser id)
/-- an add/replace call wrote `reverse_hash` (and the user the key) of a node it did not link -/
def touchDead (dead : List Entry) (id rev key : Nat) : List Entry :=
  dead.map fun e => if e.id == id then { e with rev := rev, key := key } else e
def dropDead (dead : List Entry) (id : Nat) : List Entry := dead.filter fun e => e.id != id
def flagUser (l : List Entry) (id : Nat) : List Entry :=
  l.map fun e => if isUser id e then { e with removed := true } else e

/-- `cds_lfht_add` -/
def add (t : Table) (id hash key : Nat) : Option Table :=
  if linked t id then none else
  match lookupBucket t hash with
  | none => none
  | some (pre, d, suf) =>
    some { t with list := pre ++ d :: addWalk (mkUser id hash key) suf, dead := dropDead t.dead id }

/-- `cds_lfht_add_unique`: returns the id of the node returned by the C function -/
def addUnique (t : Table) (id hash key : Nat) : Option (Table × Nat) :=
  if linked t id then none else
  match lookupBucket t hash with
  | none => none
  | some (pre, d, suf) =>
    let n := mkUser id hash key
    match addUniqueWalk n suf with
    | (suf', none) => some ({ t with list := pre ++ d :: suf', dead := dropDead t.dead id }, id)
    | (suf', some dup) =>
      some ({ t with list := pre ++ d :: suf', dead := touchDead t.dead id n.rev key }, dup.id)

/-- the successful `cmpxchg` of `_cds_lfht_replace`: `new->next = old->next;
old->next = new | REMOVED | REMOVAL_OWNER` -/
def linkAfterFlag : List Entry → Nat → Entry → List Entry
  | [], _, _ => []
  | e :: rest, oid, n =>
    if isUser oid e then { e with removed := true } :: n :: rest else e :: linkAfterFlag rest oid n

/-- `_cds_lfht_replace` after its NULL / already-removed checks -/
def replaceIn (size : Nat) (l : List Entry) (old n : Entry) : Option (List Entry) :=
  match splitAtBucket (linkAfterFlag l old.id n) (bitReverse64 old.rev &&& (size - 1)) with
  | none => none
  | some (pre, d, suf) => some (pre ++ d :: gcWalk n.rev suf)

/-- `cds_lfht_add_replace`: `none` = NULL (plain insertion), `some id` = replaced node -/
def addReplace (t : Table) (id hash key : Nat) : Option (Table × Option Nat) :=
  if linked t id then none else
  match lookupBucket t hash with
  | none => none
  | some (pre, d, suf) =>
    let n := mkUser id hash key
    match addUniqueWalk n suf with
    | (suf', none) => some ({ t with list := pre ++ d :: suf', dead := dropDead t.dead id }, none)
    | (suf', some dup) =>
      if dup.removed then none else      -- (would retry; impossible: the scan skips flagged nodes)
      match replaceIn t.size (pre ++ d :: suf') dup n with
      | none => none
      | some l' =>
        some ({ t with list := l', dead := { dup with removed := true } :: dropDead t.dead id }, some dup.id)

/-- `cds_lfht_replace(ht, old_iter, hash, match, key, new_node)`; `old` = `old_iter->node` -/
def replace (t : Table) (old : Option Nat) (id hash key : Nat) : Option (Table × Int) :=
  if linked t id then none else
  let n := mkUser id hash key
  let t0 := { t with dead := touchDead t.dead id n.rev key }
  match old with
  | none => some (t0, -ENOENT)
  | some oid =>
    if oid == id then none else
    match findUser t.list oid with
    | some o =>
      if o.rev != n.rev then some (t0, -EINVAL)
      else if o.key != key then some (t0, -EINVAL)
      else if o.removed then some (t0, -ENOENT)
      else match replaceIn t.size t.list o n with
        | none => none
        | some l' => some ({ t with list := l', dead := { o with removed := true } :: dropDead t.dead id }, 0)
    | none =>
      match t.dead.find? (fun e => e.id == oid) with
      | none => none
      | some o =>
        if o.rev != n.rev then some (t0, -EINVAL)
        else if o.key != key then some (t0, -EINVAL)
        else some (t0, -ENOENT)

/-- `cds_lfht_del` -/
def del (t : Table) (id : Option Nat) : Option (Table × Int) :=
  match id with
  | none => some (t, -ENOENT)
  | some id =>
    match findUser t.list id with
    | some e =>
      if e.removed then some (t, -ENOENT) else
      match splitAtBucket (flagUser t.list id) (bitReverse64 e.rev &&& (t.size - 1)) with
      | none => none
      | some (pre, d, suf) =>
        some ({ t with list := pre ++ d :: gcWalk e.rev suf, dead := { e with removed := true } :: t.dead }, 0)
    | none => if t.dead.any (fun e => e.id == id) then some (t, -ENOENT) else none

/-- `cds_lfht_is_node_deleted` -/
def isDeleted (t : Table) (id : Nat) : Bool :=
  match findUser t.list id with
  | some e => e.removed
  | none => t.dead.any (fun e => e.id == id)

/-- `cds_lfht_count_nodes` (`*count`) -/
def countNodes (t : Table) : Option Nat :=
  match splitAtBucket t.list 0 with
  | none => none
  | some (_, d, suf) => some (countWalk (d :: suf))

/-- `cds_lfht_destroy`: 0 or `-EPERM` (both the direct and the AUTO_RESIZE path test emptiness
with the same loop) -/
def destroy (t : Table) : Option Int :=
  match splitAtBucket t.list 0 with
  | none => none
  | some (_, d, suf) => some (if allBuckets (d :: suf) then 0 else -EPERM)

/-! ## Resize (sequential): grow adds the bucket nodes of each new level through `_cds_lfht_add`
with `bucket_flag = 1`, shrink flags and garbage-collects them level by level. -/

/-- `resize_target_update_count` (current code: clamp, then round up to a power of two) -/
def normTarget (maxB n : Nat) : Nat :=
  2 ^ countOrderNat (min (max n Gen.MIN_TABLE_SIZE) maxB)

/-- `_cds_lfht_add(ht, j, NULL, NULL, size, bucket_at(j), NULL, 1)` -/
def insertDummy (size : Nat) (l : List Entry) (j : Nat) : Option (List Entry) :=
  match splitAtBucket l (j &&& (size - 1)) with
  | none => none
  | some (pre, d, suf) => some (pre ++ d :: addWalk (mkBucket j) suf)

/-- `init_table_populate_partition(ht, i, 0, len)` with `size = len = 2^(i-1)` -/
def populate (size : Nat) (l : List Entry) : Option (List Entry) :=
  (List.range' size size).foldlM (insertDummy size) l

/-- `init_table(ht, first, last)`: `k` levels starting from the current `size` -/
def growLevels : Nat → Nat → List Entry → Option (List Entry)
  | 0, _, l => some l
  | k+1, size, l => (populate size l).bind (growLevels k (2 * size))

/-- one iteration of `remove_table_partition`: flag `bucket_at(j)`, gc from its parent -/
def removeDummy (size : Nat) (l : List Entry) (j : Nat) : Option (List Entry) :=
  match l.find? (fun e => e.bucket && e.id == j) with
  | none => none
  | some fb =>
    let l1 := l.map fun e => if e.bucket && e.id == j then { e with removed := true } else e
    match splitAtBucket l1 (j - size) with
    | none => none
    | some (pre, d, suf) => some (pre ++ d :: gcWalk fb.rev suf)

def unpopulate (size : Nat) (l : List Entry) : Option (List Entry) :=
  (List.range' size size).foldlM (removeDummy size) l

/-- `fini_table(ht, first, last)`: `k` levels downwards from the current `size` -/
def shrinkLevels : Nat → Nat → List Entry → Option (List Entry)
  | 0, _, l => some l
  | k+1, size, l => (unpopulate (size / 2) l).bind (shrinkLevels k (size / 2))

/-- `cds_lfht_resize(ht, n)` run to completion by one thread -/
def resize (t : Table) (n : Nat) : Option Table :=
  let target := normTarget t.maxB n
  let oldO := countOrderNat t.size
  let newO := countOrderNat target
  if t.size < target then
    (growLevels (newO - oldO) t.size t.list).map fun l => { t with size := target, list := l }
  else if target < t.size then
    (shrinkLevels (oldO - newO) t.size t.list).map fun l => { t with size := target, list := l }
  else some t

/-! ## `_cds_lfht_new_with_alloc`: parameter normalisation and `cds_lfht_create_bucket` -/

inductive Mm | order | chunk | mmap
deriving DecidableEq, Repr, Inhabited

structure Cfg where
  size : Nat          -- ht->size = ht->resize_target after creation
  minAlloc : Nat      -- ht->min_nr_alloc_buckets (after the allocator's adjustment)
  minAllocOrder : Nat -- ht->min_alloc_buckets_order
  maxB : Nat          -- ht->max_nr_buckets
  mm : Mm
  flags : Nat
deriving DecidableEq, Repr, Inhabited

/-- `get_mm_type` (64-bit build) -/
def defaultMm (maxB : Nat) : Mm := if maxB != 0 && maxB ≤ 2^32 then .mmap else .order

/-- `if (!mm) mm = get_mm_type(max_nr_buckets);` -/
def resolveMm (mm : Option Mm) (maxB : Nat) : Mm :=
  match mm with
  | some m => m
  | none => defaultMm maxB

/-- `if (mm == &cds_lfht_mm_order && !max_nr_buckets) max_nr_buckets = 1UL << (MAX_TABLE_ORDER - 1);` -/
def preMax (mm : Mm) (maxB : Nat) : Nat :=
  if mm == .order && maxB == 0 then 2 ^ (Gen.MAX_TABLE_ORDER - 1) else maxB

/-- the allocator's `alloc_cds_lfht`: adjustment of `min_nr_alloc_buckets`
(`pageBuckets = getpagesize() / sizeof(struct cds_lfht_node)`) -/
def allocMin (pageBuckets : Nat) (mm : Mm) (minA maxB : Nat) : Nat :=
  match mm with
  | .order => minA
  | .chunk => max minA (maxB / Gen.MAX_CHUNK_TABLE)
  | .mmap => if maxB ≤ pageBuckets then maxB else max minA pageBuckets

/-- Accept/reject and normalise exactly as `_cds_lfht_new_with_alloc` + the allocator's
`alloc_cds_lfht`.  `none` = the C function returns NULL. -/
def newNorm (pageBuckets init minA maxB flags : Nat) (mm : Option Mm) : Option Cfg :=
  if !isPow2C minA then none
  else if !isPow2C init then none
  else
    let mm := resolveMm mm maxB
    let maxB := preMax mm maxB
    if !isPow2C maxB then none
    else
      let minA := max minA Gen.MIN_TABLE_SIZE
      let init := max init Gen.MIN_TABLE_SIZE
      let maxB := max maxB minA
      let init := min init maxB
      let minA := allocMin pageBuckets mm minA maxB
      some { size := 2 ^ countOrderNat init, minAlloc := minA, minAllocOrder := countOrderNat minA,
             maxB := maxB, mm := mm, flags := flags }

/-- `prev = bucket_at(i); node->next = prev->next; prev->next = flag_bucket(node)` -/
def linkAfterBucket (n : Entry) : List Entry → Nat → Option (List Entry)
  | [], _ => none
  | e :: rest, i =>
    if e.bucket && e.id == i then some (e :: n :: rest)
    else (linkAfterBucket n rest i).map (e :: ·)

/-- inner loop of `cds_lfht_create_bucket` for one order, `len = 2^(order-1)` -/
def createLevel (len : Nat) (l : List Entry) : Option (List Entry) :=
  (List.range len).foldlM (fun l i => linkAfterBucket (mkBucket (len + i)) l i) l

def createLevels : Nat → Nat → List Entry → Option (List Entry)
  | 0, _, l => some l
  | k+1, len, l => (createLevel len l).bind (createLevels k (2 * len))

/-- `cds_lfht_create_bucket(ht, size)` -/
def createBuckets (size : Nat) : Option (List Entry) :=
  createLevels (countOrderNat size) 1 [bucket0]

def Table.ofCfg (c : Cfg) : Option Table :=
  (createBuckets c.size).map fun l => { size := c.size, maxB := c.maxB, list := l, dead := [] }

/-! ## `step` -/

inductive Op
  | add (id hash key : Nat)
  | addUnique (id hash key : Nat)
  | addReplace (id hash key : Nat)
  | replace (old : Option Nat) (id hash key : Nat)
  | del (id : Option Nat)
  | lookup (hash key : Nat)      -- lookup, then next_duplicate until NULL
  | traverse                     -- first, then next until NULL
  | countNodes
  | isDeleted (id : Nat)
  | resize (n : Nat)
  | destroy
deriving DecidableEq, Repr

inductive Out
  | unit
  | node (id : Option Nat)
  | ret (r : Int)
  | ids (l : List Nat)
  | count (n : Nat)
  | flag (b : Bool)
deriving DecidableEq, Repr

def step (t : Table) : Op → Option (Table × Out)
  | .add id h k => (add t id h k).map fun t' => (t', .unit)
  | .addUnique id h k => (addUnique t id h k).map fun r => (r.1, .node (some r.2))
  | .addReplace id h k => (addReplace t id h k).map fun r => (r.1, .node r.2)
  | .replace old id h k => (replace t old id h k).map fun r => (r.1, .ret r.2)
  | .del id => (del t id).map fun r => (r.1, .ret r.2)
  | .lookup h k => (lookup t h k).map fun it => (t, .ids (dupChain k it))
  | .traverse => (first t).map fun it => (t, .ids (travChain it))
  | .countNodes => (countNodes t).map fun n => (t, .count n)
  | .isDeleted id => some (t, .flag (isDeleted t id))
  | .resize n => (resize t n).map fun t' => (t', .unit)
  | .destroy => (destroy t).map fun r => (t, .ret r)

end UrcuVerif.Lfht.Seq
