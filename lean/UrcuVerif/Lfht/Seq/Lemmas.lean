import UrcuVerif.Lfht.Seq.Ops
namespace UrcuVerif.Lfht.Seq
open UrcuVerif.Lfht

/-- split order: increasing reverse hash; among equal reverse hashes a bucket node comes first
(and there is at most one) -/
def lt' (a b : Entry) : Prop := a.rev < b.rev ∨ (a.rev = b.rev ∧ b.bucket = false)

def Sorted (l : List Entry) : Prop := l.Pairwise lt'

/-- no node on the chain is flagged REMOVED (the state between two sequential operations) -/
def NR (l : List Entry) : Prop := ∀ e ∈ l, e.removed = false

theorem lt'_rev_le {a b : Entry} (h : lt' a b) : a.rev ≤ b.rev := by
  unfold lt' at h; omega

theorem Sorted.tail {e : Entry} {l : List Entry} (h : Sorted (e :: l)) : Sorted l :=
  (List.pairwise_cons.1 h).2

theorem Sorted.head_le {e : Entry} {l : List Entry} (h : Sorted (e :: l)) : ∀ x ∈ l, e.rev ≤ x.rev :=
  fun x hx => lt'_rev_le ((List.pairwise_cons.1 h).1 x hx)

theorem NR.tail {e : Entry} {l : List Entry} (h : NR (e :: l)) : NR l :=
  fun x hx => h x (List.mem_cons_of_mem _ hx)

theorem NR.head {e : Entry} {l : List Entry} (h : NR (e :: l)) : e.removed = false :=
  h e (List.mem_cons_self ..)

/-! ### `splitAtBucket` -/

theorem splitAtBucket_some {l : List Entry} {i : Nat} {pre d suf}
    (h : splitAtBucket l i = some (pre, d, suf)) :
    l = pre ++ d :: suf ∧ d.bucket = true ∧ d.id = i := by
  induction l generalizing pre with
  | nil => simp [splitAtBucket] at h
  | cons e rest ih =>
    simp only [splitAtBucket] at h
    split at h
    · rename_i hc
      simp only [Option.some.injEq, Prod.mk.injEq] at h
      obtain ⟨rfl, rfl, rfl⟩ := h
      simp at hc; simp [hc]
    · split at h
      · simp at h
      · rename_i pre' d' suf' heq
        simp only [Option.some.injEq, Prod.mk.injEq] at h
        obtain ⟨rfl, rfl, rfl⟩ := h
        have := ih heq
        simp [this.1, this.2]

theorem splitAtBucket_isSome {l : List Entry} {i : Nat}
    (h : ∃ e ∈ l, e.bucket = true ∧ e.id = i) : ∃ pre d suf, splitAtBucket l i = some (pre, d, suf) := by
  induction l with
  | nil => simp at h
  | cons e rest ih =>
    simp only [splitAtBucket]
    split
    · exact ⟨_, _, _, rfl⟩
    · rename_i hc
      obtain ⟨x, hx, hb, hi⟩ := h
      rcases List.mem_cons.1 hx with rfl | hx
      · simp [hb, hi] at hc
      · obtain ⟨pre, d, suf, hs⟩ := ih ⟨x, hx, hb, hi⟩
        simp [hs]

/-! ### `_cds_lfht_add` walks are sorted insertions -/

theorem addWalk_user (n : Entry) (hn : n.bucket = false) (l : List Entry) (hs : Sorted l) (hr : NR l) :
    ∃ A B, l = A ++ B ∧ addWalk n l = A ++ n :: B ∧ (∀ a ∈ A, a.rev ≤ n.rev) ∧ (∀ b ∈ B, n.rev < b.rev) := by
  induction l with
  | nil => exact ⟨[], [], rfl, rfl, by simp, by simp⟩
  | cons e rest ih =>
    simp only [addWalk, hn, Bool.false_and, Bool.false_eq_true, if_false, hr.head]
    by_cases hgt : e.rev > n.rev
    · simp only [hgt, if_true]
      refine ⟨[], e :: rest, rfl, rfl, by simp, ?_⟩
      intro b hb
      rcases List.mem_cons.1 hb with rfl | hb
      · exact hgt
      · exact Nat.lt_of_lt_of_le hgt (hs.head_le b hb)
    · simp only [hgt, if_false]
      obtain ⟨A, B, h1, h2, h3, h4⟩ := ih hs.tail hr.tail
      refine ⟨e :: A, B, by simp [h1], by simp [h2], ?_, h4⟩
      intro a ha
      rcases List.mem_cons.1 ha with rfl | ha
      · omega
      · exact h3 a ha

theorem addWalk_bucket (n : Entry) (hn : n.bucket = true) (l : List Entry) (hs : Sorted l) (hr : NR l) :
    ∃ A B, l = A ++ B ∧ addWalk n l = A ++ n :: B ∧ (∀ a ∈ A, a.rev < n.rev) ∧ (∀ b ∈ B, n.rev ≤ b.rev) := by
  induction l with
  | nil => exact ⟨[], [], rfl, rfl, by simp, by simp⟩
  | cons e rest ih =>
    simp only [addWalk, hn, Bool.true_and, hr.head, Bool.false_eq_true, if_false, beq_iff_eq]
    by_cases hgt : e.rev > n.rev
    · simp only [hgt, if_true]
      refine ⟨[], e :: rest, rfl, rfl, by simp, ?_⟩
      intro b hb
      rcases List.mem_cons.1 hb with rfl | hb
      · omega
      · have := hs.head_le b hb; omega
    · simp only [hgt, if_false]
      by_cases heq : e.rev = n.rev
      · simp only [heq, if_true]
        refine ⟨[], e :: rest, rfl, rfl, by simp, ?_⟩
        intro b hb
        rcases List.mem_cons.1 hb with rfl | hb
        · omega
        · have := hs.head_le b hb; omega
      · simp only [heq, if_false]
        obtain ⟨A, B, h1, h2, h3, h4⟩ := ih hs.tail hr.tail
        refine ⟨e :: A, B, by simp [h1], by simp [h2], ?_, h4⟩
        intro a ha
        rcases List.mem_cons.1 ha with rfl | ha
        · omega
        · exact h3 a ha

/-- user node with reverse hash `r` matching key `k` (what `lookup`/`next_duplicate` return) -/
def isNodeR (r k : Nat) (e : Entry) : Bool := !e.bucket && e.rev == r && e.key == k

theorem filter_isNodeR_nil_of_gt {r k : Nat} {l : List Entry} (h : ∀ x ∈ l, r < x.rev) :
    l.filter (isNodeR r k) = [] := by
  apply List.filter_eq_nil_iff.2
  intro x hx
  have := h x hx
  simp [isNodeR]; intro _ h2; omega

theorem nextDupWalk_head (r k : Nat) (l : List Entry) (hs : Sorted l) (hr : NR l) (hge : ∀ x ∈ l, r ≤ x.rev) :
    (nextDupWalk r k l).map (·.1) = (l.filter (isNodeR r k)).head? := by
  induction l with
  | nil => rfl
  | cons e rest ih =>
    simp only [nextDupWalk, hr.head, Bool.not_false, Bool.true_and]
    by_cases hgt : e.rev > r
    · simp only [hgt, if_true]
      rw [filter_isNodeR_nil_of_gt]; rfl
      intro x hx
      rcases List.mem_cons.1 hx with rfl | hx
      · exact hgt
      · exact Nat.lt_of_lt_of_le hgt (hs.head_le x hx)
    · have heq : e.rev = r := by have := hge e (List.mem_cons_self ..); omega
      simp only [hgt, if_false]
      by_cases hm : (!e.bucket && e.key == k) = true
      · have : isNodeR r k e = true := by simp [isNodeR, heq] at hm ⊢; exact hm
        simp [hm, List.filter_cons, this]
      · have : isNodeR r k e = false := by
          simp [isNodeR, heq] at hm ⊢; exact hm
        simp only [hm, if_false, List.filter_cons, this]
        exact ih hs.tail hr.tail (fun x hx => hge x (List.mem_cons_of_mem _ hx))

theorem addUniqueWalk_spec (n : Entry) (hn : n.bucket = false) (l : List Entry) (hs : Sorted l) (hr : NR l) :
    match (l.filter (isNodeR n.rev n.key)).head? with
    | none => ∃ A B, l = A ++ B ∧ addUniqueWalk n l = (A ++ n :: B, none) ∧
        (∀ a ∈ A, a.rev ≤ n.rev) ∧ (∀ b ∈ B, lt' n b)
    | some d => addUniqueWalk n l = (l, some d) := by
  induction l with
  | nil => exact ⟨[], [], rfl, rfl, by simp, by simp⟩
  | cons e rest ih =>
    simp only [addUniqueWalk, hr.head, Bool.false_eq_true, if_false]
    by_cases hgt : e.rev > n.rev
    · simp only [hgt, if_true]
      have hall : ∀ x ∈ e :: rest, n.rev < x.rev := by
        intro x hx
        rcases List.mem_cons.1 hx with rfl | hx
        · exact hgt
        · exact Nat.lt_of_lt_of_le hgt (hs.head_le x hx)
      rw [filter_isNodeR_nil_of_gt hall]
      exact ⟨[], e :: rest, rfl, rfl, by simp, fun b hb => Or.inl (hall b hb)⟩
    · simp only [hgt, if_false]
      cases hrun : (!e.bucket && e.rev == n.rev)
      case true =>
        simp only [if_true]
        have heq : e.rev = n.rev := by simp at hrun; exact hrun.2
        have heb : e.bucket = false := by simp at hrun; exact hrun.1
        have hge : ∀ x ∈ e :: rest, n.rev ≤ x.rev := by
          intro x hx
          rcases List.mem_cons.1 hx with rfl | hx
          · omega
          · have := hs.head_le x hx; omega
        have hd := nextDupWalk_head n.rev n.key (e :: rest) hs hr hge
        cases hw : nextDupWalk n.rev n.key (e :: rest) with
        | none =>
          rw [hw] at hd; simp only [Option.map_none] at hd
          rw [← hd]
          refine ⟨[], e :: rest, rfl, rfl, by simp, ?_⟩
          intro b hb
          rcases List.mem_cons.1 hb with rfl | hb
          · exact Or.inr ⟨heq.symm, heb⟩
          · rcases (List.pairwise_cons.1 hs).1 b hb with h | ⟨h1, h2⟩
            · exact Or.inl (by omega)
            · exact Or.inr ⟨by omega, h2⟩
        | some p =>
          obtain ⟨d, r'⟩ := p
          rw [hw] at hd; simp only [Option.map_some] at hd
          rw [← hd]
      case false =>
        simp only [Bool.false_eq_true, if_false]
        have hne : isNodeR n.rev n.key e = false := by
          simp [isNodeR] at hrun ⊢; intro h1 h2; exact absurd h2 (hrun h1)
        simp only [List.filter_cons, hne, Bool.false_eq_true, if_false]
        have := ih hs.tail hr.tail
        cases hh : (rest.filter (isNodeR n.rev n.key)).head? with
        | none =>
          rw [hh] at this
          obtain ⟨A, B, h1, h2, h3, h4⟩ := this
          refine ⟨e :: A, B, by simp [h1], by simp [h2], ?_, h4⟩
          intro a ha
          rcases List.mem_cons.1 ha with rfl | ha
          · omega
          · exact h3 a ha
        | some d =>
          rw [hh] at this
          simp [this]

theorem sorted_insert {A B : List Entry} {n : Entry} (hs : Sorted (A ++ B))
    (ha : ∀ a ∈ A, lt' a n) (hb : ∀ b ∈ B, lt' n b) : Sorted (A ++ n :: B) := by
  unfold Sorted at *
  rw [List.pairwise_append] at hs ⊢
  refine ⟨hs.1, List.pairwise_cons.2 ⟨hb, hs.2.1⟩, ?_⟩
  intro a haA x hx
  rcases List.mem_cons.1 hx with rfl | hx
  · exact ha a haA
  · exact hs.2.2 a haA x hx

theorem sorted_append_left {A B : List Entry} (hs : Sorted (A ++ B)) : Sorted A :=
  (List.pairwise_append.1 hs).1
theorem sorted_append_right {A B : List Entry} (hs : Sorted (A ++ B)) : Sorted B :=
  (List.pairwise_append.1 hs).2.1

/-- everything in front of a bucket node has a strictly smaller reverse hash -/
theorem sorted_pre_lt {pre suf : List Entry} {d : Entry} (hs : Sorted (pre ++ d :: suf))
    (hd : d.bucket = true) : ∀ x ∈ pre, x.rev < d.rev := by
  intro x hx
  have := (List.pairwise_append.1 hs).2.2 x hx d (List.mem_cons_self ..)
  rcases this with h | ⟨_, h2⟩
  · exact h
  · rw [hd] at h2; cases h2

theorem sorted_suf_ge {pre suf : List Entry} {d : Entry} (hs : Sorted (pre ++ d :: suf)) :
    ∀ x ∈ suf, d.rev ≤ x.rev :=
  (sorted_append_right hs).head_le

/-! ### lookup / next_duplicate chains are the filtered sub-list -/

theorem dupChainWalk_eq (r k : Nat) (l : List Entry) (hs : Sorted l) (hr : NR l) (hge : ∀ x ∈ l, r ≤ x.rev) :
    dupChainWalk r k l = (l.filter (isNodeR r k)).map (·.id) := by
  induction l with
  | nil => rfl
  | cons e rest ih =>
    simp only [dupChainWalk, hr.head, Bool.not_false, Bool.true_and]
    by_cases hgt : e.rev > r
    · simp only [hgt, if_true]
      rw [filter_isNodeR_nil_of_gt]; rfl
      intro x hx
      rcases List.mem_cons.1 hx with rfl | hx
      · exact hgt
      · exact Nat.lt_of_lt_of_le hgt (hs.head_le x hx)
    · have heq : e.rev = r := by have := hge e (List.mem_cons_self ..); omega
      have ih' := ih hs.tail hr.tail (fun x hx => hge x (List.mem_cons_of_mem _ hx))
      simp only [hgt, if_false]
      cases hm : (!e.bucket && e.key == k)
      case true =>
        have : isNodeR r k e = true := by simp [isNodeR, heq] at hm ⊢; exact hm
        simp [List.filter_cons, this, ih']
      case false =>
        have : isNodeR r k e = false := by simp [isNodeR, heq] at hm ⊢; exact hm
        simp [List.filter_cons, this, ih']

/-- `lookup` followed by `next_duplicate` until NULL, as one list of ids -/
def lookupChain (r k : Nat) (l : List Entry) : List Nat :=
  dupChain k (Iter.ofWalk (lookupWalk r k l))

theorem lookupChain_eq (r k : Nat) (l : List Entry) (hs : Sorted l) (hr : NR l) :
    lookupChain r k l = (l.filter (isNodeR r k)).map (·.id) := by
  induction l with
  | nil => rfl
  | cons e rest ih =>
    unfold lookupChain
    simp only [lookupWalk, hr.head, Bool.not_false, Bool.true_and]
    by_cases hgt : e.rev > r
    · simp only [hgt, if_true]
      rw [filter_isNodeR_nil_of_gt]; rfl
      intro x hx
      rcases List.mem_cons.1 hx with rfl | hx
      · exact hgt
      · exact Nat.lt_of_lt_of_le hgt (hs.head_le x hx)
    · simp only [hgt, if_false]
      cases hm : (!e.bucket && e.rev == r && e.key == k)
      case true =>
        have hn : isNodeR r k e = true := hm
        have heq : e.rev = r := by simp at hm; exact hm.1.2
        simp only [if_true, Iter.ofWalk, dupChain, List.filter_cons, hn, List.map_cons]
        rw [heq, dupChainWalk_eq r k rest hs.tail hr.tail]
        intro x hx; have := hs.head_le x hx; omega
      case false =>
        have hn : isNodeR r k e = false := hm
        simp only [Bool.false_eq_true, if_false, List.filter_cons, hn]
        exact ih hs.tail hr.tail

/-! ### garbage collection removes exactly the flagged nodes -/

theorem gcWalk_eq (r : Nat) (l : List Entry) (hs : Sorted l) (h : ∀ x ∈ l, x.removed = true → x.rev ≤ r) :
    gcWalk r l = l.filter (fun x => !x.removed) := by
  induction l with
  | nil => rfl
  | cons e rest ih =>
    simp only [gcWalk]
    by_cases hgt : e.rev > r
    · simp only [hgt, if_true]
      symm; apply List.filter_eq_self.2
      intro x hx
      cases hx' : x.removed
      · rfl
      · have := h x hx hx'
        rcases List.mem_cons.1 hx with rfl | hx
        · omega
        · have := hs.head_le x hx; omega
    · have ih' := ih hs.tail (fun x hx => h x (List.mem_cons_of_mem _ hx))
      simp only [hgt, if_false]
      cases he : e.removed <;> simp [List.filter_cons, he, ih']

end UrcuVerif.Lfht.Seq
