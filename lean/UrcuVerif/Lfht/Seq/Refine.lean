import UrcuVerif.Lfht.Seq.ResizeInv
/-! # The simulation: every enabled model step is a step of the reference multimap -/
namespace UrcuVerif.Lfht.Seq
open UrcuVerif.Lfht

theorem not_stored {t : Table} {id : Nat} (hid : id ∉ userIds t.list) : ¬ (abs t).stored id :=
  fun hs => hid (stored_iff.1 hs)

theorem rev_ne_of_hash_ne {r hash : Nat} (hr : r < 2^64) (hne : (r != bitReverse64 hash) = true) :
    bitReverse64 r ≠ hash := by
  intro he
  simp only [bne_iff_ne, ne_eq] at hne
  apply hne
  rw [← he, bitrev64_involutive _ hr]

theorem rev_eq_of_not_ne {r hash : Nat} (hne : ¬ (r != bitReverse64 hash) = true) : r = bitReverse64 hash := by
  simpa using hne

theorem step_replace_refines {t t' : Table} {old : Option Nat} {id hash key : Nat} {out : Out} (h : WF t)
    (hh : hash < 2^64) (hs : step t (.replace old id hash key) = some (t', out)) :
    Spec.Step (abs t) (.replace old id hash key) out (abs t') ∧ WF t' := by
  by_cases hid : id ∈ userIds t.list
  · simp [step, replace, linked_of_mem hid] at hs
  have hns := not_stored hid
  obtain ⟨wt, at_⟩ := touch_refines h hh hid (key := key)
  have hrev : (mkUser id hash key).rev = bitReverse64 hash := rfl
  simp only [step, replace, not_linked hid, Bool.false_eq_true, if_false, hrev] at hs
  cases old with
  | none =>
    simp only [Option.map_some, Option.some.injEq, Prod.mk.injEq] at hs
    obtain ⟨rfl, rfl⟩ := hs
    exact ⟨at_ ▸ Spec.Step.replaceNull hns, wt⟩
  | some oid =>
    simp only at hs
    by_cases hoi : oid = id
    · simp [hoi] at hs
    have hoi' : (oid == id) = false := by simp [hoi]
    simp only [hoi', Bool.false_eq_true, if_false] at hs
    cases hf : findUser t.list oid with
    | some o =>
      have hol : o ∈ t.list := List.mem_of_find?_eq_some hf
      have hinfo := absInfo_stored hf
      simp only [hf] at hs
      by_cases c1 : (o.rev != bitReverse64 hash) = true
      · simp only [c1, if_true, Option.map_some, Option.some.injEq, Prod.mk.injEq] at hs
        obtain ⟨rfl, rfl⟩ := hs
        exact ⟨at_ ▸ Spec.Step.replaceInval hns hoi hinfo (Or.inl (rev_ne_of_hash_ne (h.linv.revlt o hol) c1)), wt⟩
      · simp only [c1, if_false] at hs
        have hr := rev_eq_of_not_ne c1
        by_cases c2 : (o.key != key) = true
        · simp only [c2, if_true, Option.map_some, Option.some.injEq, Prod.mk.injEq] at hs
          obtain ⟨rfl, rfl⟩ := hs
          exact ⟨at_ ▸ Spec.Step.replaceInval hns hoi hinfo (Or.inr (by simpa using c2)), wt⟩
        · have hk : o.key = key := by simpa using c2
          simp only [c2, if_false, h.linv.nr o hol, Bool.false_eq_true] at hs
          obtain ⟨l', hl', hw, ha⟩ := replaceIn_refines h hf hh hid hr hk
          simp only [hl', Option.map_some, Option.some.injEq, Prod.mk.injEq] at hs
          obtain ⟨rfl, rfl⟩ := hs
          have hinfo' : (abs t).info oid = some (true, hash, key) := by
            rw [hinfo, hr, bitrev64_involutive _ hh, hk]
          exact ⟨ha ▸ Spec.Step.replaceOk hns hoi hinfo', hw⟩
    | none =>
      simp only [hf] at hs
      cases hd : t.dead.find? (fun e => e.id == oid) with
      | none => simp [hd] at hs
      | some o =>
        have hod : o ∈ t.dead := List.mem_of_find?_eq_some hd
        have hinfo : (abs t).info oid = some (false, bitReverse64 o.rev, o.key) := by
          simp [abs, absInfo, hf, hd]
        simp only [hd] at hs
        by_cases c1 : (o.rev != bitReverse64 hash) = true
        · simp only [c1, if_true, Option.map_some, Option.some.injEq, Prod.mk.injEq] at hs
          obtain ⟨rfl, rfl⟩ := hs
          exact ⟨at_ ▸ Spec.Step.replaceInval hns hoi hinfo (Or.inl (rev_ne_of_hash_ne (h.dead_user o hod).2.2 c1)), wt⟩
        · simp only [c1, if_false] at hs
          have hr := rev_eq_of_not_ne c1
          by_cases c2 : (o.key != key) = true
          · simp only [c2, if_true, Option.map_some, Option.some.injEq, Prod.mk.injEq] at hs
            obtain ⟨rfl, rfl⟩ := hs
            exact ⟨at_ ▸ Spec.Step.replaceInval hns hoi hinfo (Or.inr (by simpa using c2)), wt⟩
          · have hk : o.key = key := by simpa using c2
            simp only [c2, if_false, Option.map_some, Option.some.injEq, Prod.mk.injEq] at hs
            obtain ⟨rfl, rfl⟩ := hs
            have hinfo' : (abs t).info oid = some (false, hash, key) := by
              rw [hinfo, hr, bitrev64_involutive _ hh, hk]
            exact ⟨at_ ▸ Spec.Step.replaceGone hns hoi hinfo', wt⟩

/-- **The simulation step.**  From a well-formed state, whatever the model (= the C code, by the
trace tie) returns for an operation is a transition of the reference multimap between the
abstractions of the two states, and the new state is well-formed again. -/
theorem step_refines {t t' : Table} {op : Op} {out : Out} (h : WF t) (hop : OpOk op)
    (hs : step t op = some (t', out)) : Spec.Step (abs t) op out (abs t') ∧ WF t' := by
  cases op with
  | add id hash key =>
    by_cases hid : id ∈ userIds t.list
    · simp [step, add, linked_of_mem hid] at hs
    obtain ⟨t1, e1, w, a⟩ := step_add h hop hid (key := key)
    rw [e1] at hs
    simp only [Option.some.injEq, Prod.mk.injEq] at hs
    obtain ⟨rfl, rfl⟩ := hs
    exact ⟨a ▸ Spec.Step.add (not_stored hid), w⟩
  | addUnique id hash key =>
    by_cases hid : id ∈ userIds t.list
    · simp [step, addUnique, linked_of_mem hid] at hs
    have := step_addUnique h hop hid (key := key)
    cases hc : (abs t).chain hash key with
    | nil =>
      rw [hc] at this
      obtain ⟨t1, e1, w, a⟩ := this
      rw [e1] at hs
      simp only [Option.some.injEq, Prod.mk.injEq] at hs
      obtain ⟨rfl, rfl⟩ := hs
      exact ⟨a ▸ Spec.Step.addUniqueNew (not_stored hid) hc, w⟩
    | cons d rest =>
      rw [hc] at this
      obtain ⟨t1, e1, w, a⟩ := this
      rw [e1] at hs
      simp only [Option.some.injEq, Prod.mk.injEq] at hs
      obtain ⟨rfl, rfl⟩ := hs
      exact ⟨a ▸ Spec.Step.addUniqueDup (not_stored hid) hc, w⟩
  | addReplace id hash key =>
    by_cases hid : id ∈ userIds t.list
    · simp [step, addReplace, linked_of_mem hid] at hs
    have := step_addReplace h hop hid (key := key)
    cases hc : (abs t).chain hash key with
    | nil =>
      rw [hc] at this
      obtain ⟨t1, e1, w, a⟩ := this
      rw [e1] at hs
      simp only [Option.some.injEq, Prod.mk.injEq] at hs
      obtain ⟨rfl, rfl⟩ := hs
      exact ⟨a ▸ Spec.Step.addReplaceNew (not_stored hid) hc, w⟩
    | cons d rest =>
      rw [hc] at this
      obtain ⟨t1, e1, w, a⟩ := this
      rw [e1] at hs
      simp only [Option.some.injEq, Prod.mk.injEq] at hs
      obtain ⟨rfl, rfl⟩ := hs
      exact ⟨a ▸ Spec.Step.addReplaceRepl (not_stored hid) hc, w⟩
  | replace old id hash key => exact step_replace_refines h hop hs
  | del oid =>
    cases oid with
    | none =>
      simp only [step, del, Option.map_some, Option.some.injEq, Prod.mk.injEq] at hs
      obtain ⟨rfl, rfl⟩ := hs
      exact ⟨Spec.Step.delNull, h⟩
    | some id =>
      cases hf : findUser t.list id with
      | some e =>
        obtain ⟨t1, e1, w, a⟩ := step_del h hf
        rw [e1] at hs
        simp only [Option.some.injEq, Prod.mk.injEq] at hs
        obtain ⟨rfl, rfl⟩ := hs
        exact ⟨a ▸ Spec.Step.delOk (absInfo_stored hf), w⟩
      | none =>
        cases hd : t.dead.find? (fun e => e.id == id) with
        | none =>
          have : t.dead.any (fun e => e.id == id) = false := by
            rw [List.find?_eq_none] at hd
            simp only [List.any_eq_false]; exact hd
          simp [step, del, hf, this] at hs
        | some e =>
          obtain ⟨e1, hinfo⟩ := step_del_gone h hf hd
          rw [e1] at hs
          simp only [Option.some.injEq, Prod.mk.injEq] at hs
          obtain ⟨rfl, rfl⟩ := hs
          exact ⟨Spec.Step.delGone hinfo, h⟩
  | lookup hash key =>
    rw [step_lookup h hop] at hs
    simp only [Option.some.injEq, Prod.mk.injEq] at hs
    obtain ⟨rfl, rfl⟩ := hs
    exact ⟨Spec.Step.lookup, h⟩
  | traverse =>
    rw [step_traverse h] at hs
    simp only [Option.some.injEq, Prod.mk.injEq] at hs
    obtain ⟨rfl, rfl⟩ := hs
    exact ⟨Spec.Step.traverse h.linv.nodup (fun id => stored_iff.symm), h⟩
  | countNodes =>
    rw [step_countNodes h] at hs
    simp only [Option.some.injEq, Prod.mk.injEq] at hs
    obtain ⟨rfl, rfl⟩ := hs
    exact ⟨Spec.Step.countNodes h.linv.nodup (fun id => stored_iff.symm), h⟩
  | isDeleted id =>
    rw [step_isDeleted h] at hs
    simp only [Option.some.injEq, Prod.mk.injEq] at hs
    obtain ⟨rfl, rfl⟩ := hs
    exact ⟨Spec.Step.isDeleted, h⟩
  | resize n =>
    obtain ⟨t1, e1, w, -, hu, hd, -⟩ := resize_spec h n
    simp only [step, e1, Option.map_some, Option.some.injEq, Prod.mk.injEq] at hs
    obtain ⟨rfl, rfl⟩ := hs
    rw [abs_eq_of_users hu hd]
    exact ⟨Spec.Step.resize, w⟩
  | destroy =>
    rw [step_destroy h] at hs
    simp only [Option.some.injEq, Prod.mk.injEq] at hs
    obtain ⟨rfl, rfl⟩ := hs
    by_cases he : userIds t.list = []
    · simp only [he, if_true]
      refine ⟨Spec.Step.destroyOk (fun id hst => ?_), h⟩
      have := stored_iff.1 hst; rw [he] at this; cases this
    · simp only [he, if_false]
      cases hl : userIds t.list with
      | nil => exact absurd hl he
      | cons x xs =>
        exact ⟨Spec.Step.destroyBusy (stored_iff.2 (hl ▸ List.mem_cons_self ..)), h⟩

end UrcuVerif.Lfht.Seq
