import UrcuVerif.Lfht.Seq.RefineRead
/-! # Refinement: `add`, `add_unique` (and the insertion half of `add_replace`) -/
namespace UrcuVerif.Lfht.Seq
open UrcuVerif.Lfht

theorem mem_userIds_insert {A C : List Entry} {n : Entry} {i : Nat} (hb : n.bucket = false) :
    i ∈ userIds (A ++ n :: C) ↔ i = n.id ∨ i ∈ userIds (A ++ C) := by
  rw [(userIds_insert_perm A C n).mem_iff]
  simp [userIds, List.filter_cons, hb]

theorem findUser_insert {A C : List Entry} {n : Entry} (hb : n.bucket = false)
    (hid : n.id ∉ userIds (A ++ C)) (i : Nat) :
    findUser (A ++ n :: C) i = if i = n.id then some n else findUser (A ++ C) i := by
  unfold findUser
  induction A with
  | nil =>
    simp only [List.nil_append, List.find?_cons]
    by_cases hi : i = n.id
    · simp [hi, isUser, hb]
    · have : isUser i n = false := by simp [isUser, hb]; exact fun h => hi h.symm
      simp [hi, this]
  | cons a A ih =>
    have hid' : n.id ∉ userIds (A ++ C) := by
      intro hm; apply hid
      obtain ⟨e, he, hu⟩ := mem_userIds.1 hm
      exact mem_userIds.2 ⟨e, List.mem_cons_of_mem _ he, hu⟩
    simp only [List.cons_append, List.find?_cons]
    cases hu : isUser i a
    · exact ih hid'
    · have hne : i ≠ n.id := by
        rintro rfl
        exact hid (mem_userIds.2 ⟨a, by simp, hu⟩)
      simp [hne]

theorem find_dropDead {dead : List Entry} {id i : Nat} (h : i ≠ id) :
    (dropDead dead id).find? (fun e => e.id == i) = dead.find? (fun e => e.id == i) := by
  unfold dropDead
  induction dead with
  | nil => rfl
  | cons e rest ih =>
    simp only [List.filter_cons, List.find?_cons]
    by_cases he : e.id = id
    · have h1 : (e.id != id) = false := by simp [he]
      have h2 : (e.id == i) = false := by simp [he]; exact fun h' => h h'.symm
      simp [h1, h2, ih]
    · have h1 : (e.id != id) = true := by simp [he]
      simp only [h1, if_true, List.find?_cons, ih]

theorem absChain_insert_other {A C : List Entry} {id hash key h' k' : Nat} (hh : hash < 2^64)
    (hne : ¬ (h' = hash ∧ k' = key)) :
    absChain (A ++ mkUser id hash key :: C) h' k' = absChain (A ++ C) h' k' := by
  unfold absChain
  split
  · rename_i hlt
    have : isNodeR (bitReverse64 h') k' (mkUser id hash key) = false := by
      simp only [isNodeR, mkUser, Bool.not_false, Bool.true_and, Bool.and_eq_false_iff, beq_eq_false_iff_ne]
      by_cases hk : key = k'
      · left; intro hr; exact hne ⟨(bitrev64_injective hh hlt hr).symm, hk.symm⟩
      · right; exact hk
    simp [List.filter_append, List.filter_cons, this]
  · rfl

theorem absChain_lt {l : List Entry} {h k : Nat} (hh : h < 2^64) :
    absChain l h k = (l.filter (isNodeR (bitReverse64 h) k)).map (·.id) := by
  simp [absChain, hh]

/-- Linking a fresh user node at a sorted position refines the multimap insertion, provided
the position is behind the stored nodes of the same `(hash, key)`. -/
theorem insert_user_refines {t : Table} (h : WF t) {A C : List Entry} {id hash key : Nat}
    (hl : t.list = A ++ C) (hh : hash < 2^64) (hid : id ∉ userIds t.list)
    (ha : ∀ a ∈ A, lt' a (mkUser id hash key)) (hc : ∀ c ∈ C, lt' (mkUser id hash key) c)
    {v : List Nat} (hch : absChain (A ++ mkUser id hash key :: C) hash key = v) :
    let t' : Table := { t with list := A ++ mkUser id hash key :: C, dead := dropDead t.dead id }
    WF t' ∧ abs t' = ⟨setChain (abs t).chain hash key v, setInfo (abs t).info id (some (true, hash, key))⟩ := by
  intro t'
  have hb : (mkUser id hash key).bucket = false := rfl
  have hid' : (mkUser id hash key).id ∉ userIds (A ++ C) := hl ▸ hid
  have hlinv : LInv (· < t.size) (A ++ mkUser id hash key :: C) :=
    LInv.insert_user (hl ▸ h.linv) hb rfl (bitrev64_lt _) hid' ha hc
  refine ⟨⟨h.size_pow, hlinv, ?_, ?_, ?_, h.max_pow⟩, ?_⟩
  · intro e he; exact h.dead_user e (List.mem_filter.1 he).1
  · exact (List.filter_sublist.map _).nodup h.dead_nodup
  · intro e he
    have hm := List.mem_filter.1 he
    show e.id ∉ userIds (A ++ mkUser id hash key :: C)
    rw [mem_userIds_insert hb]
    rintro (h1 | h1)
    · simp [mkUser] at h1; simp [h1] at hm
    · exact h.dead_disj e hm.1 (hl ▸ h1)
  · show (⟨absChain (A ++ mkUser id hash key :: C), absInfo t'⟩ : MM) = _
    simp only [abs, MM.mk.injEq]
    constructor
    · funext h' k'
      simp only [setChain]
      split
      · rename_i heq; rw [heq.1, heq.2, hch]
      · rename_i hne; rw [absChain_insert_other hh hne, hl]
    · funext i
      simp only [setInfo, absInfo, t']
      rw [findUser_insert hb hid']
      by_cases hi : i = id
      · simp [hi, mkUser, bitrev64_involutive _ hh]
      · have : ¬ i = (mkUser id hash key).id := hi
        simp only [this, hi, if_false, find_dropDead hi, hl]

theorem isNodeR_mkUser (id hash key : Nat) : isNodeR (bitReverse64 hash) key (mkUser id hash key) = true := by
  simp [isNodeR, mkUser]

theorem absChain_insert_tail {A C : List Entry} {id hash key : Nat} (hh : hash < 2^64)
    (hC : ∀ c ∈ C, bitReverse64 hash < c.rev) :
    absChain (A ++ mkUser id hash key :: C) hash key = absChain (A ++ C) hash key ++ [id] := by
  rw [absChain_lt hh, absChain_lt hh]
  simp only [List.filter_append, List.filter_cons, isNodeR_mkUser, if_true, filter_isNodeR_nil_of_gt hC,
    List.map_append, List.map_cons, List.append_nil, List.map_nil]
  simp [mkUser]

theorem absChain_insert_empty {A C : List Entry} {id hash key : Nat} (hh : hash < 2^64)
    (he : absChain (A ++ C) hash key = []) :
    absChain (A ++ mkUser id hash key :: C) hash key = absChain (A ++ C) hash key ++ [id] := by
  rw [he]
  rw [absChain_lt hh] at he ⊢
  simp only [List.map_eq_nil_iff, List.filter_append, List.append_eq_nil_iff] at he
  simp only [List.filter_append, List.filter_cons, isNodeR_mkUser, if_true, he.1, he.2,
    List.map_append, List.map_cons, List.append_nil, List.map_nil, List.nil_append]
  simp [mkUser]

theorem not_linked {t : Table} {id : Nat} (hid : id ∉ userIds t.list) : linked t id = false := by
  unfold linked
  rw [List.any_eq_false]
  intro x hx hu
  exact hid (mem_userIds.2 ⟨x, hx, hu⟩)

theorem linked_of_mem {t : Table} {id : Nat} (hid : id ∈ userIds t.list) : linked t id = true := by
  unfold linked
  rw [List.any_eq_true]
  exact mem_userIds.1 hid

theorem step_add {t : Table} (h : WF t) {id hash key : Nat} (hh : hash < 2^64)
    (hid : id ∉ userIds t.list) :
    ∃ t', step t (.add id hash key) = some (t', .unit) ∧ WF t' ∧ abs t' = (abs t).insert id hash key := by
  obtain ⟨pre, d, suf, h1, h2, h3, h4, h5, h6⟩ := h.lookup_bucket hash
  have hs : Sorted suf := (sorted_append_right (A := pre) (h2 ▸ h.linv.sorted)).tail
  have hr : NR suf := fun x hx => h.linv.nr x (by rw [h2]; simp [hx])
  obtain ⟨A, B, e1, e2, e3, e4⟩ := addWalk_user (mkUser id hash key) rfl suf hs hr
  have hl : t.list = (pre ++ d :: A) ++ B := by rw [h2, e1]; simp
  have hrev : (mkUser id hash key).rev = bitReverse64 hash := rfl
  have ha : ∀ a ∈ pre ++ d :: A, lt' a (mkUser id hash key) := by
    intro a ha
    have : a.rev ≤ bitReverse64 hash := by
      rcases List.mem_append.1 ha with ha | ha
      · have := h5 a ha; omega
      · rcases List.mem_cons.1 ha with rfl | ha
        · exact h4
        · exact e3 a ha
    rcases Nat.lt_or_eq_of_le this with hlt | heq
    · exact Or.inl hlt
    · exact Or.inr ⟨heq, rfl⟩
  have hc : ∀ c ∈ B, lt' (mkUser id hash key) c := fun c hc => Or.inl (e4 c hc)
  have := insert_user_refines h hl hh hid ha hc (absChain_insert_tail hh e4)
  rw [← hl] at this
  refine ⟨_, ?_, this⟩
  simp only [step, add, not_linked hid, h1, e2, Bool.false_eq_true, if_false, Option.map_some]
  simp

theorem touchDead_ids (dead : List Entry) (id r k : Nat) : (touchDead dead id r k).map (·.id) = dead.map (·.id) := by
  unfold touchDead
  induction dead with
  | nil => rfl
  | cons e rest ih =>
    simp only [List.map_cons, ih]
    by_cases he : (e.id == id) = true <;> simp [he]

theorem find_touchDead (dead : List Entry) (id r k i : Nat) :
    (touchDead dead id r k).find? (fun e => e.id == i) =
      (dead.find? (fun e => e.id == i)).map (fun e => if e.id == id then { e with rev := r, key := k } else e) := by
  unfold touchDead
  induction dead with
  | nil => rfl
  | cons e rest ih =>
    simp only [List.map_cons, List.find?_cons]
    have hid : (if (e.id == id) = true then { e with rev := r, key := k } else e).id = e.id := by
      by_cases he : (e.id == id) = true <;> simp [he]
    rw [hid]
    cases (e.id == i)
    · exact ih
    · rfl

/-- a failed add/replace only rewrites hash and key of its (unlinked) node -/
theorem touch_refines {t : Table} (h : WF t) {id hash key : Nat} (hh : hash < 2^64)
    (hid : id ∉ userIds t.list) :
    let t' : Table := { t with dead := touchDead t.dead id (bitReverse64 hash) key }
    WF t' ∧ abs t' = ⟨(abs t).chain, touch (abs t).info id hash key⟩ := by
  intro t'
  refine ⟨⟨h.size_pow, h.linv, ?_, ?_, ?_, h.max_pow⟩, ?_⟩
  · intro e he
    simp only [t', touchDead, List.mem_map] at he
    obtain ⟨e0, he0, rfl⟩ := he
    have := h.dead_user e0 he0
    by_cases hc : (e0.id == id) = true
    · simp only [hc, if_true]; exact ⟨this.1, this.2.1, bitrev64_lt _⟩
    · simp only [hc]; exact this
  · show ((touchDead t.dead id _ key).map (·.id)).Nodup
    rw [touchDead_ids]; exact h.dead_nodup
  · intro e he
    have : e.id ∈ (touchDead t.dead id (bitReverse64 hash) key).map (·.id) := List.mem_map_of_mem he
    rw [touchDead_ids] at this
    obtain ⟨e0, he0, hid0⟩ := List.mem_map.1 this
    rw [← hid0]; exact h.dead_disj e0 he0
  · simp only [abs, MM.mk.injEq]
    refine ⟨rfl, ?_⟩
    funext i
    simp only [touch, absInfo, t', find_touchDead]
    cases hf : findUser t.list i with
    | some e =>
      have hne : i ≠ id := by
        rintro rfl
        exact hid (findUser_isSome.1 (by simp [hf]))
      simp [hne]
    | none =>
      by_cases hi : i = id
      · subst hi
        have hf' : findUser t.list i = none := hf
        simp only [if_true, hf']
        cases hd : t.dead.find? (fun e => e.id == i) with
        | none => rfl
        | some e0 =>
          have : (e0.id == i) = true := List.find?_some (p := fun (e : Entry) => e.id == i) hd
          have this' : e0.id = i := by simpa using this
          simp [this', bitrev64_involutive _ hh]
      · simp only [hi, if_false]
        cases hd : t.dead.find? (fun e => e.id == i) with
        | none => rfl
        | some e0 =>
          have h1 : (e0.id == i) = true := List.find?_some (p := fun (e : Entry) => e.id == i) hd
          have h2 : ¬ e0.id = id := by
            simp at h1; rw [h1]; exact hi
          simp [h2]

theorem step_addUnique {t : Table} (h : WF t) {id hash key : Nat} (hh : hash < 2^64)
    (hid : id ∉ userIds t.list) :
    match (abs t).chain hash key with
    | [] => ∃ t', step t (.addUnique id hash key) = some (t', .node (some id)) ∧ WF t' ∧
        abs t' = (abs t).insert id hash key
    | dup :: _ => ∃ t', step t (.addUnique id hash key) = some (t', .node (some dup)) ∧ WF t' ∧
        abs t' = ⟨(abs t).chain, touch (abs t).info id hash key⟩ := by
  obtain ⟨pre, d, suf, h1, h2, h3, h4, h5, h6⟩ := h.lookup_bucket hash
  have hs : Sorted suf := (sorted_append_right (A := pre) (h2 ▸ h.linv.sorted)).tail
  have hr : NR suf := fun x hx => h.linv.nr x (by rw [h2]; simp [hx])
  have hch : (abs t).chain hash key = (suf.filter (isNodeR (bitReverse64 hash) key)).map (·.id) := by
    simp only [abs]; rw [h2]; exact absChain_split hh h3 h5 h4
  have hrev : (mkUser id hash key).rev = bitReverse64 hash := rfl
  have hkey : (mkUser id hash key).key = key := rfl
  have hsp := addUniqueWalk_spec (mkUser id hash key) rfl suf hs hr
  rw [hrev, hkey] at hsp
  rw [hch]
  cases hf : suf.filter (isNodeR (bitReverse64 hash) key) with
  | nil =>
    rw [hf] at hsp
    simp only [List.head?_nil] at hsp
    obtain ⟨A, B, e1, e2, e3, e4⟩ := hsp
    have hl : t.list = (pre ++ d :: A) ++ B := by rw [h2, e1]; simp
    have ha : ∀ a ∈ pre ++ d :: A, lt' a (mkUser id hash key) := by
      intro a ha
      have : a.rev ≤ bitReverse64 hash := by
        rcases List.mem_append.1 ha with ha | ha
        · have := h5 a ha; omega
        · rcases List.mem_cons.1 ha with rfl | ha
          · exact h4
          · exact e3 a ha
      rcases Nat.lt_or_eq_of_le this with hlt | heq
      · exact Or.inl hlt
      · exact Or.inr ⟨heq, rfl⟩
    have hemp : absChain ((pre ++ d :: A) ++ B) hash key = [] := by
      have := hch; simp only [abs] at this; rw [← hl, this, hf]; rfl
    have := insert_user_refines h hl hh hid ha e4 (absChain_insert_empty hh hemp)
    rw [← hl] at this
    refine ⟨_, ?_, this⟩
    simp only [step, addUnique, not_linked hid, h1, e2, Bool.false_eq_true, if_false, Option.map_some]
    simp
  | cons dup rest =>
    rw [hf] at hsp
    simp only [List.head?_cons] at hsp
    have := touch_refines h hh hid (key := key)
    refine ⟨_, ?_, this⟩
    simp only [step, addUnique, not_linked hid, h1, hsp, Bool.false_eq_true, if_false, Option.map_some,
      List.map_cons, ← h2]
    rfl

end UrcuVerif.Lfht.Seq
