import UrcuVerif.Lfht.Bits
import UrcuVerif.Gen.Constants
/-!
# Sequential model of `src/rculfhash.c`   (core Lean only; executable – the driver replays on it)

The table is the linked list that starts at `bucket_at(ht, 0)`, as a Lean list in link order.
An `Entry` is one `struct cds_lfht_node`: `reverse_hash`, the flag bits of its own `next` word
(`BUCKET_FLAG`, `REMOVED_FLAG`), plus the identity the harness gives it (index into its node
array; for bucket nodes the bucket index) and the user key that the `match` callback compares.

Every operation is written as the C loop goes: find the bucket node of `hash & (size-1)`
(`lookup_bucket`), walk the chain *behind* it comparing `reverse_hash`, flags and `match`.
In a sequential run a `cmpxchg` never fails, so "unlink, then retry from the bucket"
(`gc_node:` in `_cds_lfht_add`, the outer loop of `_cds_lfht_gc_bucket`) re-walks the same
prefix and is modelled as "unlink and continue".

Not modelled here (owned by C09 / not observable sequentially): the resize loop and its
termination, allocator index arithmetic (`bucket_at` per mm), split counters / `check_resize`
(they only decide *when* a lazy resize happens; results do not depend on the bucket count –
that is theorem `results_size_independent` / `seq_refines_multimap`).
-/
namespace UrcuVerif.Lfht.Seq
open UrcuVerif.Lfht

structure Entry where
  rev : Nat          -- node->reverse_hash
  bucket : Bool      -- BUCKET_FLAG in node->next
  removed : Bool     -- REMOVED_FLAG in node->next
  id : Nat           -- harness node index / bucket index
  key : Nat          -- user key (bucket nodes: 0)
deriving DecidableEq, Repr, Inhabited

structure Table where
  size : Nat                 -- ht->size
  maxB : Nat                 -- ht->max_nr_buckets
  list : List Entry          -- chain from bucket_at(ht,0), link order
  dead : List Entry          -- unlinked user nodes whose `next` still carries REMOVED_FLAG
deriving Repr, Inhabited

def ENOENT : Int := 2
def EINVAL : Int := 22
def EPERM : Int := 1

/-! ## Locating nodes -/

/-- `bucket_at(ht, idx)`: split the chain at the bucket node with index `idx`:
`(before, bucket, behind)` -/
def splitAtBucket : List Entry → Nat → Option (List Entry × Entry × List Entry)
  | [], _ => none
  | e :: rest, idx =>
    if e.bucket && e.id == idx then some ([], e, rest)
    else match splitAtBucket rest idx with
      | none => none
      | some (pre, d, suf) => some (e :: pre, d, suf)

/-- `lookup_bucket(ht, size, hash)` = `bucket_at(ht, hash & (size - 1))` -/
def lookupBucket (t : Table) (hash : Nat) : Option (List Entry × Entry × List Entry) :=
  splitAtBucket t.list (hash &&& (t.size - 1))

def isUser (id : Nat) (e : Entry) : Bool := !e.bucket && e.id == id

def findUser (l : List Entry) (id : Nat) : Option Entry := l.find? (isUser id)

/-! ## Chain walks (the inner `for (;;)` loops) -/

/-- `_cds_lfht_add`, `unique_ret == NULL`: user node (`bucket_flag = 0`) or bucket node
(`bucket_flag = 1`, `n.bucket`).  Returns the new chain behind the bucket. -/
def addWalk (n : Entry) : List Entry → List Entry
  | [] => [n]                                                    -- is_end(iter): insert
  | e :: rest =>
    if e.rev > n.rev then n :: e :: rest                         -- goto insert
    else if n.bucket && e.rev == n.rev then n :: e :: rest       -- bucket first among equals
    else if e.removed then addWalk n rest                        -- gc_node, retry
    else e :: addWalk n rest

/-- `cds_lfht_next_duplicate` loop, started at `clear_flag(iter->next)`; `rev` is
`iter->node->reverse_hash`.  Returns the node found and the chain behind it. -/
def nextDupWalk (rev key : Nat) : List Entry → Option (Entry × List Entry)
  | [] => none
  | e :: rest =>
    if e.rev > rev then none
    else if !e.removed && !e.bucket && e.key == key then some (e, rest)
    else nextDupWalk rev key rest

/-- `cds_lfht_lookup` loop -/
def lookupWalk (rev key : Nat) : List Entry → Option (Entry × List Entry)
  | [] => none
  | e :: rest =>
    if e.rev > rev then none
    else if !e.removed && !e.bucket && e.rev == rev && e.key == key then some (e, rest)
    else lookupWalk rev key rest

/-- `_cds_lfht_add` with `unique_ret != NULL`: new chain and the duplicate found (then nothing
was inserted).  The duplicate scan starts at the first user node of the equal-`reverse_hash`
run and the insertion point is *in front of* that node. -/
def addUniqueWalk (n : Entry) : List Entry → List Entry × Option Entry
  | [] => ([n], none)
  | e :: rest =>
    if e.rev > n.rev then (n :: e :: rest, none)
    else if e.removed then addUniqueWalk n rest
    else if !e.bucket && e.rev == n.rev then
      match nextDupWalk n.rev n.key (e :: rest) with
      | none => (n :: e :: rest, none)
      | some (d, _) => (e :: rest, some d)
    else
      let r := addUniqueWalk n rest
      (e :: r.1, r.2)

/-- `_cds_lfht_gc_bucket(bucket, node)` with `rev = node->reverse_hash`: unlink every flagged
node behind the bucket up to the first node with a larger reverse hash -/
def gcWalk (rev : Nat) : List Entry → List Entry
  | [] => []
  | e :: rest =>
    if e.rev > rev then e :: rest
    else if e.removed then gcWalk rev rest
    else e :: gcWalk rev rest

/-- `cds_lfht_next` loop -/
def nextWalk : List Entry → Option (Entry × List Entry)
  | [] => none
  | e :: rest => if !e.removed && !e.bucket then some (e, rest) else nextWalk rest

/-- the `do … while (!is_end(node))` loop of `cds_lfht_count_nodes` (`*count`) -/
def countWalk : List Entry → Nat
  | [] => 0
  | e :: rest => (if !e.removed && !e.bucket then 1 else 0) + countWalk rest

/-- the emptiness loop of `cds_lfht_delete_bucket` / `cds_lfht_is_empty`: every node on the
chain (starting with bucket 0 itself) must carry `BUCKET_FLAG` -/
def allBuckets : List Entry → Bool
  | [] => true
  | e :: rest => if !e.bucket then false else allBuckets rest

/-! ## Iterators (`struct cds_lfht_iter`: `node`, `next`) -/

structure Iter where
  node : Option Entry
  next : List Entry       -- the chain starting at `clear_flag(iter->next)`
deriving Repr, Inhabited

def Iter.ofWalk : Option (Entry × List Entry) → Iter
  | none => ⟨none, []⟩
  | some (e, rest) => ⟨some e, rest⟩

/-- `cds_lfht_lookup(ht, hash, match, key, &iter)` -/
def lookup (t : Table) (hash key : Nat) : Option Iter :=
  match lookupBucket t hash with
  | none => none
  | some (_, _, suf) => some (Iter.ofWalk (lookupWalk (bitReverse64 hash) key suf))

/-- `cds_lfht_next_duplicate(ht, match, key, &iter)` (requires `iter->node != NULL`) -/
def nextDuplicate (key : Nat) (it : Iter) : Iter :=
  match it.node with
  | none => it
  | some e => Iter.ofWalk (nextDupWalk e.rev key it.next)

/-- `cds_lfht_first` -/
def first (t : Table) : Option Iter :=
  match splitAtBucket t.list 0 with
  | none => none
  | some (_, _, suf) => some (Iter.ofWalk (nextWalk suf))

/-- `cds_lfht_next` -/
def next (it : Iter) : Iter := Iter.ofWalk (nextWalk it.next)

/-- ids returned by `lookup`/`next_duplicate`/…/NULL, given the first iterator: iterate
`nextDuplicate` until `node == NULL`.  (Structural on the chain; `dupChain_unfold` shows it is
the iteration.) -/
def dupChainWalk (rev key : Nat) : List Entry → List Nat
  | [] => []
  | e :: rest =>
    if e.rev > rev then []
    else if !e.removed && !e.bucket && e.key == key then e.id :: dupChainWalk rev key rest
    else dupChainWalk rev key rest

def dupChain (key : Nat) (it : Iter) : List Nat :=
  match it.node with
  | none => []
  | some e => e.id :: dupChainWalk e.rev key it.next

/-- ids returned by `first`/`next`/…/NULL: iterate `next` until NULL -/
def travWalk : List Entry → List Nat
  | [] => []
  | e :: rest => if !e.removed && !e.bucket then e.id :: travWalk rest else travWalk rest

def travChain (it : Iter) : List Nat :=
  match it.node with
  | none => []
  | some e => e.id :: travWalk it.next

end UrcuVerif.Lfht.Seq
