import UrcuVerif.Lfht.Seq.Create
/-! # `_cds_lfht_new_with_alloc`: which arguments are accepted, and what they are normalised to -/
namespace UrcuVerif.Lfht.Seq
open UrcuVerif.Lfht

def IsPow2 (x : Nat) : Prop := ∃ k, x = 2^k

/-- the allocator actually used: explicit, or `get_mm_type(max_nr_buckets)` -/
def resolveMm (mm : Option Mm) (maxB : Nat) : Mm :=
  match mm with
  | some m => m
  | none => defaultMm maxB

/-- the acceptance rule: `min_nr_alloc_buckets` and `init_size` powers of two, `max_nr_buckets` a
power of two or 0 – and 0 ("unlimited") only with the order allocator (explicit or by default) -/
def NewAccepts (init minA maxB : Nat) (mm : Option Mm) : Prop :=
  IsPow2 minA ∧ IsPow2 init ∧ (IsPow2 maxB ∨ (maxB = 0 ∧ resolveMm mm maxB = .order))

/-- `max_nr_buckets` after normalisation -/
def effMax (minA maxB : Nat) : Nat := if maxB = 0 then 2^63 else max maxB minA

/-- `min_nr_alloc_buckets` after the allocator's adjustment -/
def effMinAlloc (page minA eMax : Nat) : Mm → Nat
  | .order => minA
  | .chunk => max minA (eMax / 1024)
  | .mmap => if eMax ≤ page then eMax else max minA page

theorem max_table_order_eq : Gen.MAX_TABLE_ORDER - 1 = 63 := by decide
theorem max_chunk_table_eq : Gen.MAX_CHUNK_TABLE = 1024 := by decide

theorem isPow2C_false_iff (x : Nat) : (!isPow2C x) = true ↔ ¬ IsPow2 x := by
  rw [Bool.not_eq_true', ← Bool.not_eq_true, isPow2C_iff]; rfl

theorem pow2_pos {x : Nat} (h : IsPow2 x) : 1 ≤ x := by
  obtain ⟨k, rfl⟩ := h; exact Nat.pow_pos (by decide)

theorem pow2_max {a b : Nat} (ha : IsPow2 a) (hb : IsPow2 b) : IsPow2 (max a b) := by
  by_cases h : a ≤ b
  · rw [Nat.max_eq_right h]; exact hb
  · rw [Nat.max_eq_left (by omega)]; exact ha

theorem pow2_min {a b : Nat} (ha : IsPow2 a) (hb : IsPow2 b) : IsPow2 (min a b) := by
  by_cases h : a ≤ b
  · rw [Nat.min_eq_left h]; exact ha
  · rw [Nat.min_eq_right (by omega)]; exact hb

theorem pow2_lt64 {x : Nat} (h : IsPow2 x) (hx : x < 2^64) : ∃ k, k < 64 ∧ x = 2^k := by
  obtain ⟨k, rfl⟩ := h
  exact ⟨k, (Nat.pow_lt_pow_iff_right (by decide)).1 hx, rfl⟩

theorem resolve_eq (mm : Option Mm) (maxB : Nat) :
    (match mm with | some m => m | none => defaultMm maxB) = resolveMm mm maxB := by
  cases mm <;> rfl

/-- **accept/reject exactly as the code** -/
theorem newNorm_isSome_iff (page init minA maxB flags : Nat) (mm : Option Mm) :
    (newNorm page init minA maxB flags mm).isSome ↔ NewAccepts init minA maxB mm := by
  unfold newNorm NewAccepts
  rw [resolve_eq]
  by_cases h1 : IsPow2 minA
  · by_cases h2 : IsPow2 init
    · have c1 : (!isPow2C minA) = false := by simpa [isPow2C_iff] using h1
      have c2 : (!isPow2C init) = false := by simpa [isPow2C_iff] using h2
      simp only [c1, c2, Bool.false_eq_true, if_false, h1, h2, true_and]
      by_cases h0 : (resolveMm mm maxB == Mm.order && maxB == 0) = true
      · simp only [h0, if_true, max_table_order_eq]
        have c3 : (!isPow2C (2^63)) = false := by simpa [isPow2C_iff] using ⟨63, rfl⟩
        simp only [c3, Bool.false_eq_true, if_false, Option.isSome_some, true_iff]
        simp only [Bool.and_eq_true, beq_iff_eq] at h0
        exact Or.inr ⟨h0.2, h0.1⟩
      · simp only [h0, if_false]
        by_cases h3 : IsPow2 maxB
        · have c3 : (!isPow2C maxB) = false := by simpa [isPow2C_iff] using h3
          simp [c3, h3]
        · have c3 : (!isPow2C maxB) = true := (isPow2C_false_iff _).2 h3
          simp only [c3, if_true, Option.isSome_none, Bool.false_eq_true, false_iff]
          rintro (h | ⟨h, h'⟩)
          · exact h3 h
          · apply h0; simp [h, h']
    · have c2 : (!isPow2C init) = true := (isPow2C_false_iff _).2 h2
      have c1 : (!isPow2C minA) = false := by simpa [isPow2C_iff] using h1
      simp [c1, c2, h2]
  · have c1 : (!isPow2C minA) = true := (isPow2C_false_iff _).2 h1
    simp [c1, h1]

end UrcuVerif.Lfht.Seq
