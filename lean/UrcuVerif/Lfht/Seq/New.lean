import UrcuVerif.Lfht.Seq.Create
/-! # `_cds_lfht_new_with_alloc`: which arguments are accepted, and what they are normalised to -/
namespace UrcuVerif.Lfht.Seq
open UrcuVerif.Lfht

def IsPow2 (x : Nat) : Prop := ∃ k, x = 2^k

/-- the acceptance rule: `min_nr_alloc_buckets` and `init_size` powers of two, `max_nr_buckets` a
power of two or 0 – and 0 ("unlimited") only with the order allocator (explicit or by default) -/
def NewAccepts (init minA maxB : Nat) (mm : Option Mm) : Prop :=
  IsPow2 minA ∧ IsPow2 init ∧ (IsPow2 maxB ∨ (maxB = 0 ∧ resolveMm mm maxB = .order))

/-- `max_nr_buckets` after normalisation -/
def effMax (minA maxB : Nat) : Nat := if maxB = 0 then 2^63 else max maxB minA

/-- `min_nr_alloc_buckets` after the allocator's adjustment -/
def effMinAlloc (page minA eMax : Nat) : Mm → Nat
  | .order => minA
  | .chunk => max minA (eMax / 1024)
  | .mmap => if eMax ≤ page then eMax else max minA page

theorem max_table_order_eq : Gen.MAX_TABLE_ORDER - 1 = 63 := by decide
theorem max_chunk_table_eq : Gen.MAX_CHUNK_TABLE = 1024 := by decide

theorem isPow2C_false_iff (x : Nat) : (!isPow2C x) = true ↔ ¬ IsPow2 x := by
  rw [Bool.not_eq_true', ← Bool.not_eq_true, isPow2C_iff]; rfl

theorem pow2_pos {x : Nat} (h : IsPow2 x) : 1 ≤ x := by
  obtain ⟨k, rfl⟩ := h; exact Nat.pow_pos (by decide)

theorem pow2_max {a b : Nat} (ha : IsPow2 a) (hb : IsPow2 b) : IsPow2 (max a b) := by
  by_cases h : a ≤ b
  · rw [Nat.max_eq_right h]; exact hb
  · rw [Nat.max_eq_left (by omega)]; exact ha

theorem pow2_min {a b : Nat} (ha : IsPow2 a) (hb : IsPow2 b) : IsPow2 (min a b) := by
  by_cases h : a ≤ b
  · rw [Nat.min_eq_left h]; exact ha
  · rw [Nat.min_eq_right (by omega)]; exact hb

theorem pow2_lt64 {x : Nat} (h : IsPow2 x) (hx : x < 2^64) : ∃ k, k < 64 ∧ x = 2^k := by
  obtain ⟨k, rfl⟩ := h
  exact ⟨k, (Nat.pow_lt_pow_iff_right (by decide)).1 hx, rfl⟩

theorem pow2c_t {x : Nat} (h : IsPow2 x) : isPow2C x = true := (isPow2C_iff x).2 h
theorem pow2c_f {x : Nat} (h : ¬ IsPow2 x) : isPow2C x = false := by
  cases hc : isPow2C x
  · rfl
  · exact absurd ((isPow2C_iff x).1 hc) h

theorem newNorm_eq (page init minA maxB flags : Nat) (mm : Option Mm) :
    newNorm page init minA maxB flags mm =
      if isPow2C minA = false ∨ isPow2C init = false ∨ isPow2C (preMax (resolveMm mm maxB) maxB) = false then none
      else
        let eM := max (preMax (resolveMm mm maxB) maxB) (max minA 1)
        let mA := allocMin page (resolveMm mm maxB) (max minA 1) eM
        some { size := 2 ^ countOrderNat (min (max init 1) eM), minAlloc := mA,
               minAllocOrder := countOrderNat mA, maxB := eM, mm := resolveMm mm maxB, flags := flags } := by
  simp only [newNorm, min_table_size_eq]
  cases isPow2C minA <;> cases isPow2C init <;> cases isPow2C (preMax (resolveMm mm maxB) maxB) <;> simp

theorem preMax_eq (mm : Mm) (maxB : Nat) : preMax mm maxB = if mm = .order ∧ maxB = 0 then 2^63 else maxB := by
  simp [preMax, max_table_order_eq]

/-- **accept/reject exactly as the code** -/
theorem newNorm_isSome_iff (page init minA maxB flags : Nat) (mm : Option Mm) :
    (newNorm page init minA maxB flags mm).isSome ↔ NewAccepts init minA maxB mm := by
  rw [newNorm_eq]
  unfold NewAccepts
  by_cases h1 : IsPow2 minA
  · by_cases h2 : IsPow2 init
    · by_cases h3 : IsPow2 (preMax (resolveMm mm maxB) maxB)
      · simp only [pow2c_t h1, pow2c_t h2, pow2c_t h3, Bool.true_eq_false, or_self, if_false,
          Option.isSome_some, true_iff]
        refine ⟨h1, h2, ?_⟩
        rw [preMax_eq] at h3
        split at h3
        · rename_i hc; exact Or.inr ⟨hc.2, hc.1⟩
        · exact Or.inl h3
      · simp only [pow2c_f h3, or_true, if_true, Option.isSome_none, Bool.false_eq_true, false_iff]
        rintro ⟨-, -, h | ⟨h, h'⟩⟩
        · apply h3; rw [preMax_eq]
          split
          · exact ⟨63, rfl⟩
          · exact h
        · apply h3; rw [preMax_eq, if_pos ⟨h', h⟩]; exact ⟨63, rfl⟩
    · simp [pow2c_f h2, h2]
  · simp [pow2c_f h1, h1]

theorem pow2_div_1024 {x y : Nat} (hx : IsPow2 x) (hy : IsPow2 y) : IsPow2 (max y (x / 1024)) := by
  obtain ⟨m, rfl⟩ := hx
  by_cases hm : m < 10
  · have : 2^m / 1024 = 0 := by
      apply Nat.div_eq_of_lt
      calc 2^m < 2^10 := Nat.pow_lt_pow_right (by decide) hm
        _ = 1024 := by decide
    rw [this, Nat.max_eq_left (Nat.zero_le _)]; exact hy
  · have : 2^m / 1024 = 2^(m-10) := by
      have e : (1024 : Nat) = 2^10 := by decide
      rw [e, Nat.pow_div (by omega) (by decide)]
    rw [this]; exact pow2_max hy ⟨_, rfl⟩

theorem pow2_le_63 {x : Nat} (h : IsPow2 x) (hx : x < 2^64) : x ≤ 2^63 := by
  obtain ⟨k, hk, rfl⟩ := pow2_lt64 h hx
  exact Nat.pow_le_pow_right (by decide) (by omega)

/-- **what accepted arguments are normalised to** (for `unsigned long` arguments and a
power-of-two page size).  In particular `1 ≤ size ≤ max`, all three are powers of two, also
for `max < init` (size clamped down) and `min > max` (max raised). -/
theorem newNorm_some {page init minA maxB flags : Nat} {mm : Option Mm} {c : Cfg} (hpage : IsPow2 page)
    (hm : minA < 2^64) (hx : maxB < 2^64)
    (h : newNorm page init minA maxB flags mm = some c) :
    c.mm = resolveMm mm maxB ∧ c.flags = flags ∧ c.maxB = effMax minA maxB ∧ c.size = min init c.maxB ∧
    c.minAlloc = effMinAlloc page minA c.maxB c.mm ∧
    (∃ k, k < 64 ∧ c.size = 2^k) ∧ (∃ m, m < 64 ∧ c.maxB = 2^m) ∧ 1 ≤ c.size ∧ c.size ≤ c.maxB ∧
    c.minAlloc = 2^c.minAllocOrder ∧ minA ≤ c.minAlloc ∧ c.minAlloc ≤ c.maxB := by
  rw [newNorm_eq] at h
  split at h
  · cases h
  rename_i hc
  have hc' := hc
  simp only [not_or, Bool.not_eq_false] at hc'
  obtain ⟨p1, p2, p3⟩ := hc'
  have q1 : IsPow2 minA := (isPow2C_iff _).1 p1
  have q2 : IsPow2 init := (isPow2C_iff _).1 p2
  have q3 : IsPow2 (preMax (resolveMm mm maxB) maxB) := (isPow2C_iff _).1 p3
  have m1 : max minA 1 = minA := Nat.max_eq_left (pow2_pos q1)
  have i1 : max init 1 = init := Nat.max_eq_left (pow2_pos q2)
  simp only [m1, i1, Option.some.injEq] at h
  have heM : max (preMax (resolveMm mm maxB) maxB) minA = effMax minA maxB := by
    rw [preMax_eq] at q3 ⊢
    unfold effMax
    by_cases h0 : maxB = 0
    · subst h0
      by_cases ho : resolveMm mm 0 = .order
      · rw [if_pos ⟨ho, rfl⟩, if_pos rfl]
        exact Nat.max_eq_left (pow2_le_63 q1 hm)
      · exfalso
        rw [if_neg (fun hh => ho hh.1)] at q3
        have := pow2_pos q3; omega
    · simp [h0]
  have qM : IsPow2 (effMax minA maxB) := by rw [← heM]; exact pow2_max q3 q1
  have hM64 : effMax minA maxB < 2^64 := by
    unfold effMax; split
    · decide
    · exact Nat.max_lt.2 ⟨hx, hm⟩
  have qS : IsPow2 (min init (effMax minA maxB)) := pow2_min q2 qM
  have hsize : 2 ^ countOrderNat (min init (effMax minA maxB)) = min init (effMax minA maxB) := by
    obtain ⟨k, hk⟩ := qS; rw [hk, countOrderNat_pow2]
  have hminle : minA ≤ effMax minA maxB := by rw [← heM]; exact Nat.le_max_right _ _
  have qA : IsPow2 (allocMin page (resolveMm mm maxB) minA (effMax minA maxB)) ∧
      minA ≤ allocMin page (resolveMm mm maxB) minA (effMax minA maxB) ∧
      allocMin page (resolveMm mm maxB) minA (effMax minA maxB) ≤ effMax minA maxB ∧
      allocMin page (resolveMm mm maxB) minA (effMax minA maxB) =
        effMinAlloc page minA (effMax minA maxB) (resolveMm mm maxB) := by
    cases resolveMm mm maxB with
    | order => exact ⟨q1, Nat.le_refl _, hminle, rfl⟩
    | chunk =>
      simp only [allocMin, effMinAlloc, max_chunk_table_eq]
      refine ⟨pow2_div_1024 qM q1, Nat.le_max_left _ _, Nat.max_le.2 ⟨hminle, Nat.div_le_self _ _⟩, trivial⟩
    | mmap =>
      simp only [allocMin, effMinAlloc]
      split
      · exact ⟨qM, hminle, Nat.le_refl _, trivial⟩
      · exact ⟨pow2_max q1 hpage, Nat.le_max_left _ _, Nat.max_le.2 ⟨hminle, by omega⟩, trivial⟩
  rw [heM] at h
  subst h
  obtain ⟨k, hk, hkk⟩ := pow2_lt64 qS (Nat.lt_of_le_of_lt (Nat.min_le_right _ _) hM64)
  obtain ⟨m, hmm, hmk⟩ := pow2_lt64 qM hM64
  obtain ⟨a, ha⟩ := qA.1
  refine ⟨rfl, rfl, rfl, hsize, qA.2.2.2, ⟨k, hk, hsize.trans hkk⟩, ⟨m, hmm, hmk⟩, ?_, ?_, ?_, qA.2.1, qA.2.2.1⟩
  · show 1 ≤ 2 ^ countOrderNat _; exact Nat.pow_pos (by decide)
  · show 2 ^ countOrderNat _ ≤ _; rw [hsize]; exact Nat.min_le_right _ _
  · show allocMin _ _ _ _ = 2 ^ countOrderNat (allocMin _ _ _ _)
    rw [ha, countOrderNat_pow2]

/-- the table built by an accepted `cds_lfht_new` is well-formed and empty -/
theorem ofCfg_wf {page init minA maxB flags : Nat} {mm : Option Mm} {c : Cfg} (hpage : IsPow2 page)
    (hm : minA < 2^64) (hx : maxB < 2^64) (h : newNorm page init minA maxB flags mm = some c) :
    ∃ t, Table.ofCfg c = some t ∧ WF t ∧ userIds t.list = [] ∧ t.dead = [] ∧ t.size = c.size ∧ t.maxB = c.maxB := by
  obtain ⟨-, -, -, -, -, ⟨k, hk, hs⟩, hmax, -, hle, -⟩ := newNorm_some hpage hm hx h
  obtain ⟨l, a1, a2, a3⟩ := createBuckets_spec (k := k) (by omega)
  refine ⟨{ size := c.size, maxB := c.maxB, list := l, dead := [] }, ?_, ?_, ?_, rfl, rfl, rfl⟩
  · simp [Table.ofCfg, hs, a1]
  · refine ⟨⟨k, hk, hs⟩, ?_, by simp, by simp, by simp, ?_⟩
    · show LInv (· < c.size) l; rw [hs]; exact a2
    · obtain ⟨m, h1, h2⟩ := hmax; exact ⟨m, h1, h2, hle⟩
  · show userIds l = []
    unfold userIds; unfold users at a3; rw [a3]; rfl

end UrcuVerif.Lfht.Seq
