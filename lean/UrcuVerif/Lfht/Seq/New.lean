import UrcuVerif.Lfht.Seq.Create
/-! # `_cds_lfht_new_with_alloc`: which arguments are accepted, and what they are normalised to -/
namespace UrcuVerif.Lfht.Seq
open UrcuVerif.Lfht

def IsPow2 (x : Nat) : Prop := ∃ k, x = 2^k

/-- the allocator actually used: explicit, or `get_mm_type(max_nr_buckets)` -/
def resolveMm (mm : Option Mm) (maxB : Nat) : Mm :=
  match mm with
  | some m => m
  | none => defaultMm maxB

/-- the acceptance rule: `min_nr_alloc_buckets` and `init_size` powers of two, `max_nr_buckets` a
power of two or 0 – and 0 ("unlimited") only with the order allocator (explicit or by default) -/
def NewAccepts (init minA maxB : Nat) (mm : Option Mm) : Prop :=
  IsPow2 minA ∧ IsPow2 init ∧ (IsPow2 maxB ∨ (maxB = 0 ∧ resolveMm mm maxB = .order))

/-- `max_nr_buckets` after normalisation -/
def effMax (minA maxB : Nat) : Nat := if maxB = 0 then 2^63 else max maxB minA

/-- `min_nr_alloc_buckets` after the allocator's adjustment -/
def effMinAlloc (page minA eMax : Nat) : Mm → Nat
  | .order => minA
  | .chunk => max minA (eMax / 1024)
  | .mmap => if eMax ≤ page then eMax else max minA page

theorem max_table_order_eq : Gen.MAX_TABLE_ORDER - 1 = 63 := by decide
theorem max_chunk_table_eq : Gen.MAX_CHUNK_TABLE = 1024 := by decide

theorem isPow2C_false_iff (x : Nat) : (!isPow2C x) = true ↔ ¬ IsPow2 x := by
  rw [Bool.not_eq_true', ← Bool.not_eq_true, isPow2C_iff]; rfl

theorem pow2_pos {x : Nat} (h : IsPow2 x) : 1 ≤ x := by
  obtain ⟨k, rfl⟩ := h; exact Nat.pow_pos (by decide)

theorem pow2_max {a b : Nat} (ha : IsPow2 a) (hb : IsPow2 b) : IsPow2 (max a b) := by
  by_cases h : a ≤ b
  · rw [Nat.max_eq_right h]; exact hb
  · rw [Nat.max_eq_left (by omega)]; exact ha

theorem pow2_min {a b : Nat} (ha : IsPow2 a) (hb : IsPow2 b) : IsPow2 (min a b) := by
  by_cases h : a ≤ b
  · rw [Nat.min_eq_left h]; exact ha
  · rw [Nat.min_eq_right (by omega)]; exact hb

theorem pow2_lt64 {x : Nat} (h : IsPow2 x) (hx : x < 2^64) : ∃ k, k < 64 ∧ x = 2^k := by
  obtain ⟨k, rfl⟩ := h
  exact ⟨k, (Nat.pow_lt_pow_iff_right (by decide)).1 hx, rfl⟩

theorem resolve_eq (mm : Option Mm) (maxB : Nat) :
    (match mm with | some m => m | none => defaultMm maxB) = resolveMm mm maxB := by
  cases mm <;> rfl

theorem pow2c_t {x : Nat} (h : IsPow2 x) : isPow2C x = true := (isPow2C_iff x).2 h
theorem pow2c_f {x : Nat} (h : ¬ IsPow2 x) : isPow2C x = false := by
  cases hc : isPow2C x
  · rfl
  · exact absurd ((isPow2C_iff x).1 hc) h

/-- `max_nr_buckets` as tested for being a power of two (0 ↦ 2^63 for the order allocator) -/
def preMax (mm : Option Mm) (maxB : Nat) : Nat :=
  if resolveMm mm maxB = .order ∧ maxB = 0 then 2^63 else maxB

theorem newNorm_eq (page init minA maxB flags : Nat) (mm : Option Mm) :
    newNorm page init minA maxB flags mm =
      if isPow2C minA = false ∨ isPow2C init = false ∨ isPow2C (preMax mm maxB) = false then none
      else
        let eM := max (preMax mm maxB) (max minA 1)
        let mA := match resolveMm mm maxB with
          | .order => max minA 1
          | .chunk => max (max minA 1) (eM / 1024)
          | .mmap => if eM ≤ page then eM else max (max minA 1) page
        some { size := 2 ^ countOrderNat (min (max init 1) eM), minAlloc := mA,
               minAllocOrder := countOrderNat mA, maxB := eM, mm := resolveMm mm maxB, flags := flags } := by
  have hpm : (if (resolveMm mm maxB == Mm.order && maxB == 0) = true then 2 ^ (Gen.MAX_TABLE_ORDER - 1) else maxB)
      = preMax mm maxB := by
    simp [preMax, max_table_order_eq]
  simp only [newNorm, resolve_eq, hpm, min_table_size_eq, max_chunk_table_eq]
  cases isPow2C minA <;> cases isPow2C init <;> cases isPow2C (preMax mm maxB) <;> simp

/-- **accept/reject exactly as the code** -/
theorem newNorm_isSome_iff (page init minA maxB flags : Nat) (mm : Option Mm) :
    (newNorm page init minA maxB flags mm).isSome ↔ NewAccepts init minA maxB mm := by
  rw [newNorm_eq]
  unfold NewAccepts
  by_cases h1 : IsPow2 minA
  · by_cases h2 : IsPow2 init
    · by_cases h3 : IsPow2 (preMax mm maxB)
      · simp only [pow2c_t h1, pow2c_t h2, pow2c_t h3, Bool.true_eq_false, or_self, if_false,
          Option.isSome_some, true_iff]
        refine ⟨h1, h2, ?_⟩
        unfold preMax at h3
        split at h3
        · rename_i hc; exact Or.inr ⟨hc.2, hc.1⟩
        · exact Or.inl h3
      · simp only [pow2c_f h3, or_true, if_true, Option.isSome_none, Bool.false_eq_true, false_iff]
        rintro ⟨-, -, h | ⟨h, h'⟩⟩
        · apply h3; unfold preMax
          split
          · exact ⟨63, rfl⟩
          · exact h
        · apply h3; unfold preMax; rw [if_pos ⟨h', h⟩]; exact ⟨63, rfl⟩
    · simp [pow2c_f h2, h2]
  · simp [pow2c_f h1, h1]

end UrcuVerif.Lfht.Seq
