import UrcuVerif.Lfht.Seq.New
import UrcuVerif.Lfht.Seq.Refine
/-! # The model never gets stuck on a legal call (so the simulation is not vacuous) and
`lookup`/`next_duplicate`, `first`/`next` chains really are iterations of the single-step
iterator functions -/
namespace UrcuVerif.Lfht.Seq
open UrcuVerif.Lfht

/-- API contract on the caller: a node handed to an add/replace call is not currently stored; a
node handed to `del` / an iterator handed to `replace` was obtained from this table (stored or
since removed). -/
def Enabled (m : MM) : Op → Prop
  | .add id _ _ | .addUnique id _ _ | .addReplace id _ _ => ¬ m.stored id
  | .replace old id _ _ => ¬ m.stored id ∧ ∀ o, old = some o → o ≠ id ∧ m.info o ≠ none
  | .del (some id) => m.info id ≠ none
  | _ => True

theorem not_mem_of_not_stored {t : Table} {id : Nat} (h : ¬ (abs t).stored id) : id ∉ userIds t.list :=
  fun hm => h (stored_iff.2 hm)

theorem step_enabled {t : Table} {op : Op} (h : WF t) (hop : OpOk op) (he : Enabled (abs t) op) :
    ∃ t' out, step t op = some (t', out) := by
  cases op with
  | add id hash key =>
    obtain ⟨t1, e1, -⟩ := step_add h hop (not_mem_of_not_stored he) (key := key)
    exact ⟨_, _, e1⟩
  | addUnique id hash key =>
    have := step_addUnique h hop (not_mem_of_not_stored he) (key := key)
    cases hc : (abs t).chain hash key with
    | nil => rw [hc] at this; obtain ⟨t1, e1, -⟩ := this; exact ⟨_, _, e1⟩
    | cons d r => rw [hc] at this; obtain ⟨t1, e1, -⟩ := this; exact ⟨_, _, e1⟩
  | addReplace id hash key =>
    have := step_addReplace h hop (not_mem_of_not_stored he) (key := key)
    cases hc : (abs t).chain hash key with
    | nil => rw [hc] at this; obtain ⟨t1, e1, -⟩ := this; exact ⟨_, _, e1⟩
    | cons d r => rw [hc] at this; obtain ⟨t1, e1, -⟩ := this; exact ⟨_, _, e1⟩
  | replace old id hash key =>
    obtain ⟨hns, hold⟩ := he
    have hid := not_mem_of_not_stored hns
    have hrev : (mkUser id hash key).rev = bitReverse64 hash := rfl
    simp only [step, replace, not_linked hid, Bool.false_eq_true, if_false, hrev]
    cases old with
    | none => exact ⟨_, _, rfl⟩
    | some oid =>
      obtain ⟨hoi, hinfo⟩ := hold oid rfl
      have hoi' : (oid == id) = false := by simp [hoi]
      simp only [hoi', Bool.false_eq_true, if_false]
      cases hf : findUser t.list oid with
      | some o =>
        simp only
        split
        · exact ⟨_, _, rfl⟩
        · rename_i c1
          split
          · exact ⟨_, _, rfl⟩
          · rename_i c2
            have hol : o ∈ t.list := List.mem_of_find?_eq_some hf
            simp only [h.linv.nr o hol, Bool.false_eq_true, if_false]
            obtain ⟨l', hl', -⟩ := replaceIn_refines h hf hop hid (rev_eq_of_not_ne c1) (by simpa using c2)
            simp only [hl']
            exact ⟨_, _, rfl⟩
      | none =>
        cases hd : t.dead.find? (fun e => e.id == oid) with
        | none => exfalso; apply hinfo; simp [abs, absInfo, hf, hd]
        | some o =>
          simp only
          split
          · exact ⟨_, _, rfl⟩
          · split <;> exact ⟨_, _, rfl⟩
  | del oid =>
    cases oid with
    | none => exact ⟨_, _, rfl⟩
    | some id =>
      cases hf : findUser t.list id with
      | some e => obtain ⟨t1, e1, -⟩ := step_del h hf; exact ⟨_, _, e1⟩
      | none =>
        cases hd : t.dead.find? (fun e => e.id == id) with
        | none => exfalso; apply he; simp [abs, absInfo, hf, hd]
        | some e => exact ⟨_, _, (step_del_gone h hf hd).1⟩
  | lookup hash key => exact ⟨_, _, step_lookup h hop⟩
  | traverse => exact ⟨_, _, step_traverse h⟩
  | countNodes => exact ⟨_, _, step_countNodes h⟩
  | isDeleted id => exact ⟨_, _, step_isDeleted h id⟩
  | resize n =>
    obtain ⟨t1, e1, -⟩ := resize_spec h n
    exact ⟨t1, .unit, by simp [step, e1]⟩
  | destroy => exact ⟨_, _, step_destroy h⟩

/-! ### iterator unfolding -/

theorem dupChainWalk_unfold (r k : Nat) (l : List Entry) :
    dupChainWalk r k l = match nextDupWalk r k l with
      | none => []
      | some (e, rest) => e.id :: dupChainWalk r k rest := by
  induction l with
  | nil => rfl
  | cons x xs ih =>
    simp only [dupChainWalk, nextDupWalk]
    split
    · rfl
    · split
      · rfl
      · exact ih

/-- `dupChain` is "report `iter.node`, call `cds_lfht_next_duplicate`, repeat until NULL"
(all nodes of one chain have the same reverse hash, which is what the C code reads from
`iter->node->reverse_hash`). -/
theorem dupChain_unfold (k : Nat) (e : Entry) (rest : List Entry) :
    dupChain k ⟨some e, rest⟩ =
      e.id :: (match (nextDuplicate k ⟨some e, rest⟩).node with
               | none => []
               | some e' => e'.id :: dupChainWalk e.rev k (nextDuplicate k ⟨some e, rest⟩).next) := by
  simp only [dupChain, nextDuplicate]
  rw [dupChainWalk_unfold]
  cases nextDupWalk e.rev k rest with
  | none => rfl
  | some p => rfl

end UrcuVerif.Lfht.Seq
