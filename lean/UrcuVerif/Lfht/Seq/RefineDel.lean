import UrcuVerif.Lfht.Seq.RefineAdd
/-! # Refinement: `del`, `replace`, `add_replace` -/
namespace UrcuVerif.Lfht.Seq
open UrcuVerif.Lfht

theorem splitAtBucket_pre {l : List Entry} {i : Nat} {pre d suf}
    (h : splitAtBucket l i = some (pre, d, suf)) : ∀ x ∈ pre, (x.bucket && x.id == i) = false := by
  induction l generalizing pre with
  | nil => simp [splitAtBucket] at h
  | cons e rest ih =>
    simp only [splitAtBucket] at h
    split at h
    · simp only [Option.some.injEq, Prod.mk.injEq] at h
      obtain ⟨rfl, -, -⟩ := h; simp
    · rename_i hc
      split at h
      · simp at h
      · rename_i pre' d' suf' heq
        simp only [Option.some.injEq, Prod.mk.injEq] at h
        obtain ⟨rfl, rfl, rfl⟩ := h
        intro x hx
        rcases List.mem_cons.1 hx with rfl | hx
        · simpa using hc
        · exact ih heq x hx

theorem splitAtBucket_append {pre suf : List Entry} {d : Entry} {i : Nat}
    (hpre : ∀ x ∈ pre, (x.bucket && x.id == i) = false) (hd : d.bucket = true) (hi : d.id = i) :
    splitAtBucket (pre ++ d :: suf) i = some (pre, d, suf) := by
  induction pre with
  | nil => simp [splitAtBucket, hd, hi]
  | cons x xs ih =>
    have hx := hpre x (List.mem_cons_self ..)
    simp only [List.cons_append, splitAtBucket, hx, Bool.false_eq_true, if_false,
      ih (fun y hy => hpre y (List.mem_cons_of_mem _ hy))]

theorem userIds_append (A C : List Entry) : userIds (A ++ C) = userIds A ++ userIds C := by
  simp [userIds, List.filter_append]

theorem userIds_cons_user {e : Entry} (C : List Entry) (he : e.bucket = false) :
    userIds (e :: C) = e.id :: userIds C := by
  simp [userIds, List.filter_cons, he]

theorem not_isUser_of_not_mem {l : List Entry} {id : Nat} (h : id ∉ userIds l) :
    ∀ x ∈ l, isUser id x = false := by
  intro x hx
  cases hu : isUser id x
  · rfl
  · exact absurd (mem_userIds.2 ⟨x, hx, hu⟩) h

/-- a user id occurs at one position only -/
theorem nodup_split {P C : List Entry} {e : Entry} {id : Nat} (hn : (userIds (P ++ e :: C)).Nodup)
    (hu : isUser id e = true) : id ∉ userIds P ∧ id ∉ userIds C := by
  simp only [isUser, Bool.and_eq_true, Bool.not_eq_true', beq_iff_eq] at hu
  rw [userIds_append, userIds_cons_user C hu.1, hu.2] at hn
  have h1 := List.nodup_append.1 hn
  have h2 := List.nodup_cons.1 h1.2.1
  exact ⟨fun hm => h1.2.2 id hm id (List.mem_cons_self ..) rfl, h2.1⟩

/-- position of a stored node: behind the bucket node of its hash -/
theorem WF.locate {t : Table} (h : WF t) {id : Nat} {e : Entry} (hf : findUser t.list id = some e) :
    ∃ pre d A C, t.list = pre ++ d :: (A ++ e :: C) ∧ d.bucket = true ∧
      (∀ x ∈ pre, (x.bucket && x.id == (bitReverse64 e.rev &&& (t.size - 1))) = false) ∧
      d.id = (bitReverse64 e.rev &&& (t.size - 1)) ∧
      isUser id e = true ∧ (∀ x ∈ pre ++ d :: A, isUser id x = false) ∧ (∀ x ∈ C, isUser id x = false) := by
  have hel : e ∈ t.list := List.mem_of_find?_eq_some hf
  have hu : isUser id e = true := List.find?_some (p := isUser id) hf
  have hrl := h.linv.revlt e hel
  obtain ⟨pre, d, suf, h1, h2, h3, h4, h5, h6⟩ := h.lookup_bucket (bitReverse64 e.rev)
  rw [bitrev64_involutive _ hrl] at h4
  obtain ⟨-, -, hdi⟩ := splitAtBucket_some h1
  have hes : e ∈ suf := by
    rw [h2] at hel
    rcases List.mem_append.1 hel with hp | hp
    · have := h5 e hp; omega
    · rcases List.mem_cons.1 hp with rfl | hp
      · simp [isUser, h3] at hu
      · exact hp
  obtain ⟨A, C, rfl⟩ := List.append_of_mem hes
  refine ⟨pre, d, A, C, h2, h3, splitAtBucket_pre h1, hdi, hu, ?_, ?_⟩
  · have hn := h.linv.nodup
    rw [h2, ← List.cons_append, ← List.append_assoc] at hn
    exact not_isUser_of_not_mem (nodup_split hn hu).1
  · have hn := h.linv.nodup
    rw [h2, ← List.cons_append, ← List.append_assoc] at hn
    exact not_isUser_of_not_mem (nodup_split hn hu).2

theorem filter_remove {P C : List Entry} {e : Entry} {id : Nat} (hu : isUser id e = true)
    (hP : ∀ x ∈ P, isUser id x = false) (hC : ∀ x ∈ C, isUser id x = false) :
    (P ++ e :: C).filter (fun x => !isUser id x) = P ++ C := by
  rw [List.filter_append, List.filter_cons]
  simp only [hu, Bool.not_true, Bool.false_eq_true, if_false]
  rw [List.filter_eq_self.2 (fun x hx => by simp [hP x hx]), List.filter_eq_self.2 (fun x hx => by simp [hC x hx])]

theorem findUser_remove {P C : List Entry} {e : Entry} {id : Nat} (hu : isUser id e = true)
    (hP : ∀ x ∈ P, isUser id x = false) (hC : ∀ x ∈ C, isUser id x = false) (i : Nat) :
    findUser (P ++ C) i = if i = id then none else findUser (P ++ e :: C) i := by
  unfold findUser
  by_cases hi : i = id
  · subst hi
    simp only [if_true, List.find?_eq_none]
    intro x hx
    rcases List.mem_append.1 hx with hx | hx
    · simp [hP x hx]
    · simp [hC x hx]
  · have : isUser i e = false := by
      simp only [isUser, Bool.and_eq_true, Bool.not_eq_true', beq_iff_eq] at hu
      simp [isUser, hu.1, hu.2]; exact fun h => hi h.symm
    simp [hi, List.find?_append, List.find?_cons, this]

theorem ids_filter_subset {l : List Entry} {r k id : Nat} (h : id ∈ (l.filter (isNodeR r k)).map (·.id)) :
    id ∈ userIds l := by
  obtain ⟨x, hx, rfl⟩ := List.mem_map.1 h
  have := List.mem_filter.1 hx
  refine mem_userIds.2 ⟨x, this.1, ?_⟩
  have h2 := this.2
  simp only [isNodeR, Bool.and_eq_true, Bool.not_eq_true'] at h2
  simp [isUser, h2.1.1]

/-- unlinking a stored node refines the multimap removal -/
theorem remove_user_refines {t : Table} (h : WF t) {P C : List Entry} {e : Entry} {id : Nat}
    (hl : t.list = P ++ e :: C) (hu : isUser id e = true) :
    let t' : Table := { t with list := P ++ C, dead := { e with removed := true } :: t.dead }
    WF t' ∧ abs t' = ⟨setChain (abs t).chain (bitReverse64 e.rev) e.key
                        (((abs t).chain (bitReverse64 e.rev) e.key).erase id),
                      setInfo (abs t).info id (some (false, bitReverse64 e.rev, e.key))⟩ := by
  intro t'
  have hn := h.linv.nodup
  rw [hl] at hn
  have hPC := nodup_split hn hu
  have hP := not_isUser_of_not_mem hPC.1
  have hC := not_isUser_of_not_mem hPC.2
  have hel : e ∈ t.list := by rw [hl]; simp
  have hrl := h.linv.revlt e hel
  have hu' := hu
  simp only [isUser, Bool.and_eq_true, Bool.not_eq_true', beq_iff_eq] at hu'
  have hidl : id ∈ userIds t.list := mem_userIds.2 ⟨e, hel, hu⟩
  have hlinv : LInv (· < t.size) (P ++ C) := by
    rw [← filter_remove hu hP hC, ← hl]
    refine h.linv.filter _ ?_ (fun _ hi => hi)
    intro x hx hb
    simp only [isUser, hb, Bool.not_true, Bool.false_and, Bool.not_false, iff_true]
    exact (h.linv.bkt x hx hb).1
  have hsub : ∀ i, i ∈ userIds (P ++ C) → i ∈ userIds t.list := by
    intro i hi
    rw [hl, userIds_append, userIds_cons_user C hu'.1]
    rw [userIds_append] at hi
    rcases List.mem_append.1 hi with hi | hi
    · exact List.mem_append_left _ hi
    · exact List.mem_append_right _ (List.mem_cons_of_mem _ hi)
  refine ⟨⟨h.size_pow, hlinv, ?_, ?_, ?_, h.max_pow⟩, ?_⟩
  · intro x hx
    rcases List.mem_cons.1 hx with rfl | hx
    · exact ⟨hu'.1, rfl, hrl⟩
    · exact h.dead_user x hx
  · show (({ e with removed := true } :: t.dead).map (·.id)).Nodup
    simp only [List.map_cons]
    refine List.nodup_cons.2 ⟨?_, h.dead_nodup⟩
    intro hm
    obtain ⟨x, hx, hxe⟩ := List.mem_map.1 hm
    have := h.dead_disj x hx
    rw [hxe, hu'.2] at this
    exact this hidl
  · intro x hx
    rcases List.mem_cons.1 hx with rfl | hx
    · show e.id ∉ userIds (P ++ C)
      rw [hu'.2, userIds_append]
      intro hm
      rcases List.mem_append.1 hm with hm | hm
      · exact hPC.1 hm
      · exact hPC.2 hm
    · exact fun hm => h.dead_disj x hx (hsub _ hm)
  · show (⟨absChain (P ++ C), absInfo t'⟩ : MM) = _
    simp only [abs, MM.mk.injEq]
    constructor
    · funext h' k'
      simp only [setChain, absChain, hl]
      by_cases hlt : h' < 2^64
      · simp only [hlt, if_true]
        by_cases heq : h' = bitReverse64 e.rev ∧ k' = e.key
        · obtain ⟨rfl, rfl⟩ := heq
          have hR : isNodeR (bitReverse64 (bitReverse64 e.rev)) e.key e = true := by
            simp [isNodeR, hu'.1, bitrev64_involutive _ hrl]
          have hnm : id ∉ (P.filter (isNodeR (bitReverse64 (bitReverse64 e.rev)) e.key)).map (·.id) :=
            fun hm => hPC.1 (ids_filter_subset hm)
          simp only [true_and, if_true, bitrev64_lt, List.filter_append, List.filter_cons, hR,
            List.map_append, List.map_cons, hu'.2, and_self]
          rw [List.erase_append_right _ hnm, List.erase_cons_head]
        · have hR : isNodeR (bitReverse64 h') k' e = false := by
            cases hR : isNodeR (bitReverse64 h') k' e
            · rfl
            · exfalso; apply heq
              simp only [isNodeR, Bool.and_eq_true, Bool.not_eq_true', beq_iff_eq] at hR
              refine ⟨?_, hR.2.symm⟩
              rw [hR.1.2, bitrev64_involutive _ hlt]
          simp [heq, List.filter_append, List.filter_cons, hR]
      · have : ¬ (h' = bitReverse64 e.rev ∧ k' = e.key) := by
          rintro ⟨rfl, -⟩; exact hlt (bitrev64_lt _)
        simp [hlt, this]
    · funext i
      simp only [setInfo, absInfo, t', hl]
      rw [findUser_remove hu hP hC]
      by_cases hi : i = id
      · simp [hi, List.find?_cons, hu'.2]
      · have : (e.id == i) = false := by simp [hu'.2]; exact fun h => hi h.symm
        simp [hi, List.find?_cons, this]

theorem flagUser_eq_self {l : List Entry} {id : Nat} (h : ∀ x ∈ l, isUser id x = false) : flagUser l id = l := by
  unfold flagUser
  induction l with
  | nil => rfl
  | cons x xs ih =>
    simp only [List.map_cons, h x (List.mem_cons_self ..), Bool.false_eq_true, if_false]
    rw [ih (fun y hy => h y (List.mem_cons_of_mem _ hy))]

theorem flagUser_decomp {P C : List Entry} {e : Entry} {id : Nat} (hu : isUser id e = true)
    (hP : ∀ x ∈ P, isUser id x = false) (hC : ∀ x ∈ C, isUser id x = false) :
    flagUser (P ++ e :: C) id = P ++ { e with removed := true } :: C := by
  have h1 := flagUser_eq_self hP
  have h2 := flagUser_eq_self hC
  unfold flagUser at *
  simp only [List.map_append, List.map_cons, h1, h2, hu, if_true]

/-- Sortedness only looks at `rev`/`bucket`: the entry at a position can be exchanged for one with
the same `rev` and `bucket` -/
theorem sorted_exchange {A C : List Entry} {e e' : Entry} (hs : Sorted (A ++ e :: C))
    (hr : e'.rev = e.rev) (hb : e'.bucket = e.bucket) : Sorted (A ++ e' :: C) := by
  have hp := List.pairwise_append.1 hs
  have hc := List.pairwise_cons.1 hp.2.1
  refine sorted_insert ?_ ?_ ?_
  · exact List.pairwise_append.2 ⟨hp.1, hc.2, fun a ha c hc' => hp.2.2 a ha c (List.mem_cons_of_mem _ hc')⟩
  · intro a ha
    have := hp.2.2 a ha e (List.mem_cons_self ..)
    unfold lt' at this ⊢; rw [hr, hb]; exact this
  · intro c hc'
    have := hc.1 c hc'
    unfold lt' at this ⊢; rw [hr]; exact this

/-- gc behind the bucket removes exactly the one flagged node -/
theorem gcWalk_one {A C : List Entry} {e : Entry} (hs : Sorted (A ++ e :: C)) (hr : NR (A ++ e :: C)) :
    gcWalk e.rev (A ++ { e with removed := true } :: C) = A ++ C := by
  have hs' : Sorted (A ++ { e with removed := true } :: C) := sorted_exchange hs rfl rfl
  rw [gcWalk_eq _ _ hs']
  · rw [List.filter_append, List.filter_cons]
    simp only [Bool.not_true, Bool.false_eq_true, if_false]
    rw [List.filter_eq_self.2, List.filter_eq_self.2]
    · intro x hx; simp [hr x (by simp [hx])]
    · intro x hx; simp [hr x (by simp [hx])]
  · intro x hx hrm
    rcases List.mem_append.1 hx with hx | hx
    · rw [hr x (by simp [hx])] at hrm; cases hrm
    · rcases List.mem_cons.1 hx with rfl | hx
      · exact Nat.le_refl _
      · rw [hr x (by simp [hx])] at hrm; cases hrm

theorem absInfo_stored {t : Table} {id : Nat} {e : Entry} (hf : findUser t.list id = some e) :
    (abs t).info id = some (true, bitReverse64 e.rev, e.key) := by
  simp [abs, absInfo, hf]

theorem step_del {t : Table} (h : WF t) {id : Nat} {e : Entry} (hf : findUser t.list id = some e) :
    ∃ t', step t (.del (some id)) = some (t', .ret 0) ∧ WF t' ∧
      abs t' = ⟨setChain (abs t).chain (bitReverse64 e.rev) e.key
                  (((abs t).chain (bitReverse64 e.rev) e.key).erase id),
                setInfo (abs t).info id (some (false, bitReverse64 e.rev, e.key))⟩ := by
  obtain ⟨pre, d, A, C, h1, h2, h3, h4, h5, h6, h7⟩ := h.locate hf
  have hl : t.list = (pre ++ d :: A) ++ e :: C := by rw [h1]; simp
  have hre : e.removed = false := h.linv.nr e (List.mem_of_find?_eq_some hf)
  have hfl : flagUser t.list id = pre ++ d :: (A ++ { e with removed := true } :: C) := by
    rw [hl, flagUser_decomp h5 h6 h7]; simp
  have hsAC : Sorted (A ++ e :: C) := (sorted_append_right (A := pre) (h1 ▸ h.linv.sorted)).tail
  have hrAC : NR (A ++ e :: C) := fun x hx => h.linv.nr x (by rw [h1]; simp [hx])
  have := remove_user_refines h hl h5
  refine ⟨_, ?_, this⟩
  simp only [step, del, hf, hre, Bool.false_eq_true, if_false, hfl, splitAtBucket_append h3 h2 h4,
    gcWalk_one hsAC hrAC, Option.map_some]
  simp

theorem step_del_gone {t : Table} (h : WF t) {id : Nat} {e : Entry} (hf : findUser t.list id = none)
    (hd : t.dead.find? (fun e => e.id == id) = some e) :
    step t (.del (some id)) = some (t, .ret (-ENOENT)) ∧
      (abs t).info id = some (false, bitReverse64 e.rev, e.key) := by
  have : t.dead.any (fun e => e.id == id) = true := by
    simp only [List.any_eq_true]
    exact ⟨e, List.mem_of_find?_eq_some hd, List.find?_some (p := fun (e : Entry) => e.id == id) hd⟩
  simp [step, del, hf, this, abs, absInfo, hd]

end UrcuVerif.Lfht.Seq
