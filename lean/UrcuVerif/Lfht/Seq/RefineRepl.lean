import UrcuVerif.Lfht.Seq.RefineDel
/-! # Refinement: `replace` and `add_replace` -/
namespace UrcuVerif.Lfht.Seq
open UrcuVerif.Lfht

theorem linkAfterFlag_decomp {P C : List Entry} {o n : Entry} {oid : Nat} (hu : isUser oid o = true)
    (hP : ∀ x ∈ P, isUser oid x = false) :
    linkAfterFlag (P ++ o :: C) oid n = P ++ { o with removed := true } :: n :: C := by
  induction P with
  | nil => simp [linkAfterFlag, hu]
  | cons x xs ih =>
    simp only [List.cons_append, linkAfterFlag, hP x (List.mem_cons_self ..), Bool.false_eq_true, if_false]
    rw [ih (fun y hy => hP y (List.mem_cons_of_mem _ hy))]

/-- gc after the replace `cmpxchg`: the flagged old node goes, the new one stays at its place -/
theorem gcWalk_repl {A C : List Entry} {o n : Entry} (hs : Sorted (A ++ o :: C)) (hr : NR (A ++ o :: C))
    (hrev : n.rev = o.rev) (hob : o.bucket = false) (hnb : n.bucket = false) (hnr : n.removed = false) :
    gcWalk n.rev (A ++ { o with removed := true } :: n :: C) = A ++ n :: C := by
  have hs1 : Sorted (A ++ { o with removed := true } :: C) := sorted_exchange hs rfl rfl
  have hp := List.pairwise_append.1 hs
  have hc := List.pairwise_cons.1 hp.2.1
  have hs2 : Sorted ((A ++ [{ o with removed := true }]) ++ n :: C) := by
    refine sorted_insert (by simpa using hs1) ?_ ?_
    · intro a ha
      rcases List.mem_append.1 ha with ha | ha
      · have := hp.2.2 a ha o (List.mem_cons_self ..)
        unfold lt' at this ⊢; rw [hrev, hnb]
        rcases this with hh | ⟨hh, _⟩
        · exact Or.inl hh
        · exact Or.inr ⟨hh, rfl⟩
      · simp at ha; subst ha
        exact Or.inr ⟨hrev.symm, hnb⟩
    · intro c hc'
      have := hc.1 c hc'
      unfold lt' at this ⊢; rw [hrev]; exact this
  have e1 : A ++ { o with removed := true } :: n :: C = (A ++ [{ o with removed := true }]) ++ n :: C := by simp
  rw [e1, gcWalk_eq _ _ hs2]
  · simp only [List.filter_append, List.filter_cons, List.filter_nil, Bool.not_true, Bool.false_eq_true,
      if_false, hnr, Bool.not_false, if_true, List.append_nil]
    rw [List.filter_eq_self.2, List.filter_eq_self.2]
    · intro x hx; simp [hr x (by simp [hx])]
    · intro x hx; simp [hr x (by simp [hx])]
  · intro x hx hrm
    rcases List.mem_append.1 hx with hx | hx
    · rcases List.mem_append.1 hx with hx | hx
      · rw [hr x (by simp [hx])] at hrm; cases hrm
      · simp at hx; subst hx; exact Nat.le_of_eq hrev.symm
    · rcases List.mem_cons.1 hx with rfl | hx
      · exact Nat.le_refl _
      · rw [hr x (by simp [hx])] at hrm; cases hrm

theorem map_subst_self {L : List Nat} {o id : Nat} (h : o ∉ L) :
    L.map (fun x => if x = o then id else x) = L := by
  induction L with
  | nil => rfl
  | cons a as ih =>
    have h1 : a ≠ o := fun hh => h (hh ▸ List.mem_cons_self ..)
    have h2 : o ∉ as := fun hh => h (List.mem_cons_of_mem _ hh)
    simp [h1, ih h2]

theorem setChain_setChain (c : Nat → Nat → List Nat) (h k : Nat) (v w : List Nat) :
    setChain (setChain c h k v) h k w = setChain c h k w := by
  funext h' k'; simp only [setChain]; split <;> rfl

theorem absChain_subst {P C : List Entry} {o : Entry} {oid id hash key : Nat} (hh : hash < 2^64)
    (hRo : isNodeR (bitReverse64 hash) key o = true) (ho : o.id = oid)
    (hnP : oid ∉ userIds P) (hnC : oid ∉ userIds C) :
    absChain (P ++ mkUser id hash key :: C) hash key =
      (absChain (P ++ o :: C) hash key).map (fun x => if x = oid then id else x) := by
  have h1 : oid ∉ (P.filter (isNodeR (bitReverse64 hash) key)).map (·.id) :=
    fun hm => hnP (ids_filter_subset hm)
  have h2 : oid ∉ (C.filter (isNodeR (bitReverse64 hash) key)).map (·.id) :=
    fun hm => hnC (ids_filter_subset hm)
  rw [absChain_lt hh, absChain_lt hh]
  simp only [List.filter_append, List.filter_cons, isNodeR_mkUser, hRo, if_true, List.map_append,
    List.map_cons, map_subst_self h1, map_subst_self h2, ho]
  simp [mkUser]

/-- `_cds_lfht_replace` on a stored node with equal hash and key: the model computes the
in-place substitution and that refines the multimap's replace -/
theorem replaceIn_refines {t : Table} (h : WF t) {oid id hash key : Nat} {o : Entry}
    (hf : findUser t.list oid = some o) (hh : hash < 2^64) (hid : id ∉ userIds t.list)
    (hrev : o.rev = bitReverse64 hash) (hkey : o.key = key) :
    ∃ l', replaceIn t.size t.list o (mkUser id hash key) = some l' ∧
      let t' : Table := { t with list := l', dead := { o with removed := true } :: dropDead t.dead id }
      WF t' ∧ abs t' = ⟨setChain (abs t).chain hash key
                          (((abs t).chain hash key).map fun x => if x = oid then id else x),
                        setInfo (setInfo (abs t).info oid (some (false, hash, key))) id (some (true, hash, key))⟩ := by
  obtain ⟨pre, d, A, C, h1, h2, h3, h4, h5, h6, h7⟩ := h.locate hf
  have hl : t.list = (pre ++ d :: A) ++ o :: C := by rw [h1]; simp
  have ho : o.bucket = false ∧ o.id = oid := by
    simpa only [isUser, Bool.and_eq_true, Bool.not_eq_true', beq_iff_eq] using h5
  have hsAC : Sorted (A ++ o :: C) := (sorted_append_right (A := pre) (h1 ▸ h.linv.sorted)).tail
  have hrAC : NR (A ++ o :: C) := fun x hx => h.linv.nr x (by rw [h1]; simp [hx])
  have hlk : linkAfterFlag t.list o.id (mkUser id hash key) =
      pre ++ d :: (A ++ { o with removed := true } :: mkUser id hash key :: C) := by
    rw [hl, ho.2, linkAfterFlag_decomp h5 h6]; simp [ho.2]
  have hgc := gcWalk_repl (n := mkUser id hash key) hsAC hrAC hrev.symm ho.1 rfl rfl
  refine ⟨pre ++ d :: (A ++ mkUser id hash key :: C), ?_, ?_⟩
  · simp only [replaceIn, hlk, splitAtBucket_append h3 h2 h4, hgc]
  · intro t'
    -- remove the old node, then link the new one at the same position
    have hinv : bitReverse64 o.rev = hash := by rw [hrev, bitrev64_involutive _ hh]
    obtain ⟨w1, a1⟩ := remove_user_refines h hl h5
    generalize ht1 : ({ t with list := (pre ++ d :: A) ++ C, dead := { o with removed := true } :: t.dead } : Table) = t1 at w1 a1
    rw [hinv, hkey] at a1
    have hl1 : t1.list = (pre ++ d :: A) ++ C := by rw [← ht1]
    have hn := h.linv.nodup
    rw [hl] at hn
    have hPC := nodup_split hn h5
    have hid1 : id ∉ userIds ((pre ++ d :: A) ++ C) := by
      intro hm; apply hid
      rw [hl, userIds_append, userIds_cons_user C ho.1]
      rw [userIds_append] at hm
      rcases List.mem_append.1 hm with hm | hm
      · exact List.mem_append_left _ hm
      · exact List.mem_append_right _ (List.mem_cons_of_mem _ hm)
    have hp := List.pairwise_append.1 (hl ▸ h.linv.sorted)
    have hc := List.pairwise_cons.1 hp.2.1
    have ha : ∀ a ∈ pre ++ d :: A, lt' a (mkUser id hash key) := by
      intro a ha
      have := hp.2.2 a ha o (List.mem_cons_self ..)
      unfold lt' at this ⊢
      show a.rev < bitReverse64 hash ∨ a.rev = bitReverse64 hash ∧ false = false
      rw [← hrev]
      rcases this with hh' | ⟨hh', _⟩
      · exact Or.inl hh'
      · exact Or.inr ⟨hh', rfl⟩
    have hcc : ∀ c ∈ C, lt' (mkUser id hash key) c := by
      intro c hc'
      have := hc.1 c hc'
      unfold lt' at this ⊢
      show bitReverse64 hash < c.rev ∨ bitReverse64 hash = c.rev ∧ c.bucket = false
      rw [← hrev]; exact this
    have hch : absChain ((pre ++ d :: A) ++ mkUser id hash key :: C) hash key =
        ((abs t).chain hash key).map (fun x => if x = oid then id else x) := by
      have hRo : isNodeR (bitReverse64 hash) key o = true := by simp [isNodeR, ho.1, hrev, hkey]
      simp only [abs]; rw [hl]
      exact absChain_subst hh hRo ho.2 hPC.1 hPC.2
    obtain ⟨w2, a2⟩ := insert_user_refines w1 (A := pre ++ d :: A) (C := C) hl1 hh (hl1 ▸ hid1) ha hcc hch
    have hdd : dropDead ({ o with removed := true } :: t.dead) id = { o with removed := true } :: dropDead t.dead id := by
      have : (o.id != id) = true := by
        rw [ho.2]; simp
        rintro rfl
        exact hid (mem_userIds.2 ⟨o, List.mem_of_find?_eq_some hf, h5⟩)
      simp [dropDead, List.filter_cons, this]
    subst ht1
    simp only [hdd] at w2 a2
    have e2 : pre ++ d :: (A ++ mkUser id hash key :: C) = (pre ++ d :: A) ++ mkUser id hash key :: C := by simp
    have et : t' = { t with list := (pre ++ d :: A) ++ mkUser id hash key :: C,
                            dead := { o with removed := true } :: dropDead t.dead id } := by
      simp only [t', e2]
    rw [et]
    exact ⟨w2, by rw [a2, a1, setChain_setChain]⟩

theorem findUser_of_mem {B : Nat → Prop} {l : List Entry} (h : LInv B l) {e : Entry} (he : e ∈ l)
    (hb : e.bucket = false) : findUser l e.id = some e := by
  obtain ⟨P, C, rfl⟩ := List.append_of_mem he
  have hu : isUser e.id e = true := by simp [isUser, hb]
  have hP := not_isUser_of_not_mem (nodup_split h.nodup hu).1
  unfold findUser
  rw [List.find?_append]
  have : P.find? (isUser e.id) = none := List.find?_eq_none.2 (fun x hx => by simp [hP x hx])
  simp [this, List.find?_cons, hu]

theorem filter_sublist_filter {l : List Entry} {p q : Entry → Bool} (himp : ∀ x, p x = true → q x = true) :
    (l.filter p).Sublist (l.filter q) := by
  induction l with
  | nil => exact List.Sublist.slnil
  | cons x xs ih =>
    simp only [List.filter_cons]
    cases hp : p x
    · cases hq : q x
      · simpa using ih
      · simpa using List.Sublist.cons x ih
    · have hq := himp x hp
      simpa [hq] using List.Sublist.cons₂ x ih

theorem absChain_nodup {t : Table} (h : WF t) (hash key : Nat) : ((abs t).chain hash key).Nodup := by
  simp only [abs, absChain]
  split
  · have : (t.list.filter (isNodeR (bitReverse64 hash) key)).Sublist (t.list.filter (fun e => !e.bucket)) := by
      apply filter_sublist_filter
      intro x hx; simp only [isNodeR, Bool.and_eq_true] at hx; exact hx.1.1
    exact (this.map _).nodup h.linv.nodup
  · exact List.nodup_nil

theorem step_addReplace {t : Table} (h : WF t) {id hash key : Nat} (hh : hash < 2^64)
    (hid : id ∉ userIds t.list) :
    match (abs t).chain hash key with
    | [] => ∃ t', step t (.addReplace id hash key) = some (t', .node none) ∧ WF t' ∧
        abs t' = (abs t).insert id hash key
    | dup :: rest => ∃ t', step t (.addReplace id hash key) = some (t', .node (some dup)) ∧ WF t' ∧
        abs t' = ⟨setChain (abs t).chain hash key (id :: rest),
                  setInfo (setInfo (abs t).info dup (some (false, hash, key))) id (some (true, hash, key))⟩ := by
  obtain ⟨pre, d, suf, h1, h2, h3, h4, h5, h6⟩ := h.lookup_bucket hash
  have hs : Sorted suf := (sorted_append_right (A := pre) (h2 ▸ h.linv.sorted)).tail
  have hr : NR suf := fun x hx => h.linv.nr x (by rw [h2]; simp [hx])
  have hch : (abs t).chain hash key = (suf.filter (isNodeR (bitReverse64 hash) key)).map (·.id) := by
    simp only [abs]; rw [h2]; exact absChain_split hh h3 h5 h4
  have hnd := absChain_nodup h hash key
  have hrev : (mkUser id hash key).rev = bitReverse64 hash := rfl
  have hkey : (mkUser id hash key).key = key := rfl
  have hsp := addUniqueWalk_spec (mkUser id hash key) rfl suf hs hr
  rw [hrev, hkey] at hsp
  rw [hch] at hnd ⊢
  cases hf : suf.filter (isNodeR (bitReverse64 hash) key) with
  | nil =>
    rw [hf] at hsp
    simp only [List.head?_nil] at hsp
    obtain ⟨A, B, e1, e2, e3, e4⟩ := hsp
    have hl : t.list = (pre ++ d :: A) ++ B := by rw [h2, e1]; simp
    have ha : ∀ a ∈ pre ++ d :: A, lt' a (mkUser id hash key) := by
      intro a ha
      have : a.rev ≤ bitReverse64 hash := by
        rcases List.mem_append.1 ha with ha | ha
        · have := h5 a ha; omega
        · rcases List.mem_cons.1 ha with rfl | ha
          · exact h4
          · exact e3 a ha
      rcases Nat.lt_or_eq_of_le this with hlt | heq
      · exact Or.inl hlt
      · exact Or.inr ⟨heq, rfl⟩
    have hemp : absChain ((pre ++ d :: A) ++ B) hash key = [] := by
      have := hch; simp only [abs] at this; rw [← hl, this, hf]; rfl
    have := insert_user_refines h hl hh hid ha e4 (absChain_insert_empty hh hemp)
    rw [← hl] at this
    refine ⟨_, ?_, this⟩
    simp only [step, addReplace, not_linked hid, h1, e2, Bool.false_eq_true, if_false, Option.map_some]
    simp
  | cons dup rest =>
    rw [hf] at hsp hnd
    simp only [List.head?_cons] at hsp
    have hdm : dup ∈ suf.filter (isNodeR (bitReverse64 hash) key) := by rw [hf]; simp
    have hdm' := List.mem_filter.1 hdm
    have hdR := hdm'.2
    simp only [isNodeR, Bool.and_eq_true, Bool.not_eq_true', beq_iff_eq] at hdR
    have hdl : dup ∈ t.list := by rw [h2]; simp [hdm'.1]
    have hfu := findUser_of_mem h.linv hdl hdR.1.1
    obtain ⟨l', hl', hw, ha⟩ := replaceIn_refines h hfu hh hid hdR.1.2 hdR.2
    refine ⟨_, ?_, hw, ?_⟩
    · simp only [step, addReplace, not_linked hid, h1, hsp, Bool.false_eq_true, if_false,
        h.linv.nr dup hdl, ← h2, hl', Option.map_some, List.map_cons]
    · rw [ha]
      simp only [hch, hf, List.map_cons, if_true]
      simp only [List.map_cons] at hnd
      rw [map_subst_self (List.nodup_cons.1 hnd).1]

end UrcuVerif.Lfht.Seq
