import UrcuVerif.Lfht.Seq.RefineRepl
/-! # Sequential resize: growing links the bucket nodes of the new levels, shrinking unlinks
them; the user nodes (and their order) are untouched -/
namespace UrcuVerif.Lfht.Seq
open UrcuVerif.Lfht

def users (l : List Entry) : List Entry := l.filter (fun e => !e.bucket)

theorem users_insert_bucket {A C : List Entry} {n : Entry} (hb : n.bucket = true) :
    users (A ++ n :: C) = users (A ++ C) := by
  simp [users, List.filter_append, List.filter_cons, hb]

theorem parent_index {i j : Nat} (h1 : 2^i ≤ j) (h2 : j < 2 * 2^i) : j &&& (2^i - 1) = j - 2^i := by
  rw [mask_eq_mod]
  have : j = (j - 2^i) + 2^i := by omega
  conv => lhs; rw [this]
  rw [Nat.add_mod_right, Nat.mod_eq_of_lt (by omega)]

theorem insertDummy_spec {B : Nat → Prop} {l : List Entry} (h : LInv B l) {i j : Nat} (hi : i < 64)
    (h1 : 2^i ≤ j) (h2 : j < 2 * 2^i) (hp : B (j - 2^i)) (hj : ¬ B j) :
    ∃ l', insertDummy (2^i) l j = some l' ∧ LInv (fun x => B x ∨ x = j) l' ∧ users l' = users l := by
  have hj64 : j < 2^64 := by
    have : 2 * 2^i ≤ 2^64 := by
      rw [← Nat.pow_succ']; exact Nat.pow_le_pow_right (by decide) (by omega)
    omega
  obtain ⟨pre, d, suf, s1, s2, s3, s4, s5, s6, s7⟩ := h.split hp
  have hs : Sorted suf := (sorted_append_right (A := pre) (s2 ▸ h.sorted)).tail
  have hr : NR suf := fun x hx => h.nr x (by rw [s2]; simp [hx])
  obtain ⟨A, C, e1, e2, e3, e4⟩ := addWalk_bucket (mkBucket j) rfl suf hs hr
  have hl : l = (pre ++ d :: A) ++ C := by rw [s2, e1]; simp
  have hrevn : (mkBucket j).rev = bitReverse64 j := rfl
  have hpl : bitReverse64 (j - 2^i) < bitReverse64 j :=
    bitrev_parent_lt i j hi h1 (by rw [Nat.pow_succ]; omega)
  have ha : ∀ a ∈ pre ++ d :: A, lt' a (mkBucket j) := by
    intro a ha
    refine Or.inl ?_
    rw [hrevn]
    rcases List.mem_append.1 ha with ha | ha
    · have := s6 a ha; omega
    · rcases List.mem_cons.1 ha with rfl | ha
      · omega
      · exact e3 a ha
  have hc : ∀ c ∈ C, lt' (mkBucket j) c := by
    intro c hc
    have hle := e4 c hc
    rcases Nat.lt_or_eq_of_le hle with hlt | heq
    · exact Or.inl hlt
    · refine Or.inr ⟨heq, ?_⟩
      cases hcb : c.bucket
      · rfl
      · exfalso
        have hcl : c ∈ l := by rw [hl]; simp [hc]
        obtain ⟨b1, b2, b3⟩ := h.bkt c hcl hcb
        rw [hrevn, b2] at heq
        have := bitrev64_injective hj64 b3 heq
        exact hj (this ▸ b1)
  refine ⟨(pre ++ d :: A) ++ mkBucket j :: C, ?_, ?_, ?_⟩
  · simp only [insertDummy, parent_index h1 h2, s1, e2]; simp
  · exact LInv.insert_bucket (hl ▸ h) rfl rfl rfl hj64 ha hc
  · rw [users_insert_bucket rfl, hl]

theorem populate_aux {i : Nat} (hi : i < 64) (n : Nat) : ∀ (m : Nat) (l : List Entry), m + n = 2^i →
    LInv (· < 2^i + m) l →
    ∃ l', (List.range' (2^i + m) n).foldlM (insertDummy (2^i)) l = some l' ∧
      LInv (· < 2 * 2^i) l' ∧ users l' = users l := by
  induction n with
  | zero =>
    intro m l hm h
    refine ⟨l, rfl, h.congr (fun x => ?_), rfl⟩
    simp at hm; rw [hm]; omega
  | succ n ih =>
    intro m l hm h
    have hp : (fun x => x < 2^i + m) (2^i + m - 2^i) := by simp; omega
    obtain ⟨l1, a1, a2, a3⟩ := insertDummy_spec h hi (j := 2^i + m) (by omega) (by omega) hp (by simp)
    have a2' : LInv (· < 2^i + (m + 1)) l1 := a2.congr (fun x => by omega)
    obtain ⟨l2, b1, b2, b3⟩ := ih (m + 1) l1 (by omega) a2'
    refine ⟨l2, ?_, b2, b3.trans a3⟩
    rw [List.range'_succ, List.foldlM_cons, a1]
    simpa [Nat.add_assoc] using b1

theorem populate_spec {i : Nat} (hi : i < 64) {l : List Entry} (h : LInv (· < 2^i) l) :
    ∃ l', populate (2^i) l = some l' ∧ LInv (· < 2^(i+1)) l' ∧ users l' = users l := by
  obtain ⟨l', a1, a2, a3⟩ := populate_aux hi (2^i) 0 l (by omega) (h.congr (fun x => by simp))
  refine ⟨l', by simpa [populate] using a1, a2.congr (fun x => ?_), a3⟩
  rw [Nat.pow_succ]; omega

theorem growLevels_spec (k : Nat) : ∀ (i : Nat) (l : List Entry), i + k ≤ 64 → LInv (· < 2^i) l →
    ∃ l', growLevels k (2^i) l = some l' ∧ LInv (· < 2^(i+k)) l' ∧ users l' = users l := by
  induction k with
  | zero => intro i l _ h; exact ⟨l, rfl, h, rfl⟩
  | succ k ih =>
    intro i l hik h
    obtain ⟨l1, a1, a2, a3⟩ := populate_spec (i := i) (by omega) h
    obtain ⟨l2, b1, b2, b3⟩ := ih (i+1) l1 (by omega) a2
    refine ⟨l2, ?_, ?_, b3.trans a3⟩
    · simp only [growLevels, a1, Option.bind_some]
      rw [← Nat.pow_succ']; exact b1
    · have : i + 1 + k = i + (k + 1) := by omega
      rw [← this]; exact b2

/-- what `splitAtBucket_append` needs -/
def splitAtBucket_ready (pre : List Entry) (d : Entry) (i : Nat) : Prop :=
  (∀ x ∈ pre, (x.bucket && x.id == i) = false) ∧ d.bucket = true ∧ d.id = i

def isBucketId (j : Nat) (e : Entry) : Bool := e.bucket && e.id == j

/-- bucket node `j` sits behind bucket node `p` when `rev p < rev j`, and it is the only one -/
theorem LInv.locate_bucket {B : Nat → Prop} {l : List Entry} (h : LInv B l) {p j : Nat} (hp : B p) (hj : B j)
    (hlt : bitReverse64 p < bitReverse64 j) :
    ∃ pre dp A fb C, l = pre ++ dp :: (A ++ fb :: C) ∧ splitAtBucket_ready pre dp p ∧
      isBucketId j fb = true ∧ fb.rev = bitReverse64 j ∧
      (∀ x ∈ pre ++ dp :: A, isBucketId j x = false) ∧ (∀ x ∈ C, isBucketId j x = false) := by
  obtain ⟨pre, dp, suf, s1, s2, s3, s4, s5, s6, s7⟩ := h.split hp
  obtain ⟨fb, f1, f2, f3⟩ := h.has j hj
  have frev : fb.rev = bitReverse64 j := by rw [← f3]; exact (h.bkt fb f1 f2).2.1
  have hfs : fb ∈ suf := by
    rw [s2] at f1
    rcases List.mem_append.1 f1 with hm | hm
    · have := s6 fb hm; omega
    · rcases List.mem_cons.1 hm with rfl | hm
      · omega
      · exact hm
  obtain ⟨A, C, rfl⟩ := List.append_of_mem hfs
  have hsort : Sorted (pre ++ dp :: (A ++ fb :: C)) := s2 ▸ h.sorted
  have e1 : pre ++ dp :: (A ++ fb :: C) = (pre ++ dp :: A) ++ fb :: C := by simp
  rw [e1] at hsort
  have hpw := List.pairwise_append.1 hsort
  have hcw := List.pairwise_cons.1 hpw.2.1
  have hbk : ∀ x ∈ l, isBucketId j x = true → x.rev = bitReverse64 j := by
    intro x hx hb
    simp only [isBucketId, Bool.and_eq_true, beq_iff_eq] at hb
    rw [← hb.2]; exact (h.bkt x hx hb.1).2.1
  refine ⟨pre, dp, A, fb, C, s2, ⟨splitAtBucket_pre s1, s3, s4⟩, by simp [isBucketId, f2, f3], frev, ?_, ?_⟩
  · intro x hx
    cases hb : isBucketId j x
    · rfl
    · exfalso
      have hxl : x ∈ l := by rw [s2, e1]; exact List.mem_append_left _ hx
      have := hpw.2.2 x hx fb (List.mem_cons_self ..)
      rw [lt', hbk x hxl hb, frev, f2] at this
      rcases this with h1 | ⟨_, h2⟩
      · omega
      · cases h2
  · intro x hx
    cases hb : isBucketId j x
    · rfl
    · exfalso
      have hxl : x ∈ l := by rw [s2, e1]; simp [hx]
      have := hcw.1 x hx
      have hxb : x.bucket = true := by
        simp only [isBucketId, Bool.and_eq_true] at hb; exact hb.1
      rw [lt', hbk x hxl hb, frev, hxb] at this
      rcases this with h1 | ⟨_, h2⟩
      · omega
      · cases h2

section decomp
variable {q : Entry → Bool} {P C : List Entry} {e : Entry}

theorem map_id_of_false (hP : ∀ x ∈ P, q x = false) :
    P.map (fun x => if q x = true then { x with removed := true } else x) = P := by
  induction P with
  | nil => rfl
  | cons x xs ih =>
    simp only [List.map_cons, hP x (List.mem_cons_self ..), Bool.false_eq_true, if_false]
    rw [ih (fun y hy => hP y (List.mem_cons_of_mem _ hy))]

theorem flagBy_decomp (hP : ∀ x ∈ P, q x = false) (he : q e = true) (hC : ∀ x ∈ C, q x = false) :
    (P ++ e :: C).map (fun x => if q x = true then { x with removed := true } else x) =
      P ++ { e with removed := true } :: C := by
  simp only [List.map_append, List.map_cons, map_id_of_false hP, map_id_of_false hC, he, if_true]

theorem find_decomp (hP : ∀ x ∈ P, q x = false) (he : q e = true) : (P ++ e :: C).find? q = some e := by
  rw [List.find?_append]
  have : P.find? q = none := List.find?_eq_none.2 (fun x hx => by simp [hP x hx])
  simp [this, List.find?_cons, he]

theorem filter_decomp (hP : ∀ x ∈ P, q x = false) (he : q e = true) (hC : ∀ x ∈ C, q x = false) :
    (P ++ e :: C).filter (fun x => !q x) = P ++ C := by
  rw [List.filter_append, List.filter_cons]
  simp only [he, Bool.not_true, Bool.false_eq_true, if_false]
  rw [List.filter_eq_self.2 (fun x hx => by simp [hP x hx]), List.filter_eq_self.2 (fun x hx => by simp [hC x hx])]
end decomp

theorem users_remove_bucket {A C : List Entry} {n : Entry} (hb : n.bucket = true) :
    users (A ++ n :: C) = users (A ++ C) := users_insert_bucket hb

theorem removeDummy_spec {B : Nat → Prop} {l : List Entry} (h : LInv B l) {i j : Nat} (hi : i < 64)
    (h1 : 2^i ≤ j) (h2 : j < 2 * 2^i) (hp : B (j - 2^i)) (hj : B j) :
    ∃ l', removeDummy (2^i) l j = some l' ∧ LInv (fun x => B x ∧ x ≠ j) l' ∧ users l' = users l := by
  have hpl : bitReverse64 (j - 2^i) < bitReverse64 j :=
    bitrev_parent_lt i j hi h1 (by rw [Nat.pow_succ]; omega)
  obtain ⟨pre, dp, A, fb, C, e0, ⟨r1, r2, r3⟩, f1, f2, f3, f4⟩ := h.locate_bucket hp hj hpl
  have e1 : l = (pre ++ dp :: A) ++ fb :: C := by rw [e0]; simp
  have hsAC : Sorted (A ++ fb :: C) := (sorted_append_right (A := pre) (e0 ▸ h.sorted)).tail
  have hrAC : NR (A ++ fb :: C) := fun x hx => h.nr x (by rw [e0]; simp [hx])
  have hfb : fb.bucket = true := by simp only [isBucketId, Bool.and_eq_true] at f1; exact f1.1
  refine ⟨pre ++ dp :: (A ++ C), ?_, ?_, ?_⟩
  · have hfind : l.find? (fun e => e.bucket && e.id == j) = some fb := by
      rw [e1]; exact find_decomp (q := isBucketId j) f3 f1
    have hmap : l.map (fun e => if (e.bucket && e.id == j) = true then { e with removed := true } else e) =
        pre ++ dp :: (A ++ { fb with removed := true } :: C) := by
      rw [e1]; exact (flagBy_decomp (q := isBucketId j) f3 f1 f4).trans (by simp)
    simp only [removeDummy, hfind, hmap, splitAtBucket_append r1 r2 r3, gcWalk_one hsAC hrAC]
  · have : pre ++ dp :: (A ++ C) = l.filter (fun x => !isBucketId j x) := by
      rw [e1, filter_decomp f3 f1 f4]; simp
    rw [this]
    refine h.filter _ ?_ (fun _ hx => hx.1)
    intro x hx hb
    have hB := (h.bkt x hx hb).1
    simp only [isBucketId, hb, Bool.true_and, Bool.not_eq_true', beq_eq_false_iff_ne, ne_eq]
    exact ⟨fun hh => hh.2, fun hh => ⟨hB, hh⟩⟩
  · have : pre ++ dp :: (A ++ C) = (pre ++ dp :: A) ++ C := by simp
    rw [this, e1, users_remove_bucket hfb]

theorem unpopulate_aux {i : Nat} (hi : i < 64) (n : Nat) : ∀ (m : Nat) (l : List Entry), m + n = 2^i →
    LInv (fun x => x < 2^i ∨ (2^i + m ≤ x ∧ x < 2 * 2^i)) l →
    ∃ l', (List.range' (2^i + m) n).foldlM (removeDummy (2^i)) l = some l' ∧
      LInv (· < 2^i) l' ∧ users l' = users l := by
  induction n with
  | zero =>
    intro m l hm h
    refine ⟨l, rfl, h.congr (fun x => ?_), rfl⟩
    simp at hm; rw [hm]; omega
  | succ n ih =>
    intro m l hm h
    obtain ⟨l1, a1, a2, a3⟩ := removeDummy_spec h hi (j := 2^i + m) (by omega) (by omega)
      (Or.inl (by omega)) (Or.inr (by omega))
    have a2' : LInv (fun x => x < 2^i ∨ (2^i + (m + 1) ≤ x ∧ x < 2 * 2^i)) l1 := a2.congr (fun x => by omega)
    obtain ⟨l2, b1, b2, b3⟩ := ih (m + 1) l1 (by omega) a2'
    refine ⟨l2, ?_, b2, b3.trans a3⟩
    rw [List.range'_succ, List.foldlM_cons, a1]
    simpa [Nat.add_assoc] using b1

theorem unpopulate_spec {i : Nat} (hi : i < 64) {l : List Entry} (h : LInv (· < 2^(i+1)) l) :
    ∃ l', unpopulate (2^i) l = some l' ∧ LInv (· < 2^i) l' ∧ users l' = users l := by
  have h' : LInv (fun x => x < 2^i ∨ (2^i + 0 ≤ x ∧ x < 2 * 2^i)) l :=
    h.congr (fun x => by rw [Nat.pow_succ]; omega)
  obtain ⟨l', a1, a2, a3⟩ := unpopulate_aux hi (2^i) 0 l (by omega) h'
  exact ⟨l', by simpa [unpopulate] using a1, a2, a3⟩

theorem shrinkLevels_spec (k : Nat) : ∀ (i : Nat) (l : List Entry), i + k ≤ 64 → LInv (· < 2^(i+k)) l →
    ∃ l', shrinkLevels k (2^(i+k)) l = some l' ∧ LInv (· < 2^i) l' ∧ users l' = users l := by
  induction k with
  | zero => intro i l _ h; exact ⟨l, rfl, h, rfl⟩
  | succ k ih =>
    intro i l hik h
    have e : i + (k + 1) = (i + k) + 1 := by omega
    rw [e] at h ⊢
    obtain ⟨l1, a1, a2, a3⟩ := unpopulate_spec (i := i + k) (by omega) h
    obtain ⟨l2, b1, b2, b3⟩ := ih i l1 (by omega) a2
    have hhalf : 2^(i + k + 1) / 2 = 2^(i+k) := by rw [Nat.pow_succ]; omega
    refine ⟨l2, ?_, b2, b3.trans a3⟩
    simp only [shrinkLevels, hhalf, a1, Option.bind_some]
    exact b1

theorem min_table_size_eq : Gen.MIN_TABLE_SIZE = 1 := by decide

/-- `resize_target_update_count`: the stored target is a power of two within `[1, max]`, at least
the clamped request, and the smallest such power of two -/
theorem normTarget_spec {m : Nat} (n : Nat) :
    ∃ o, o ≤ m ∧ normTarget (2^m) n = 2^o ∧ min (max n 1) (2^m) ≤ 2^o ∧
      ∀ o', min (max n 1) (2^m) ≤ 2^o' → o ≤ o' := by
  have hpos : 0 < 2^m := Nat.pow_pos (by decide)
  have hc : min (max n 1) (2^m) ≠ 0 := by omega
  obtain ⟨-, h2, h3⟩ := (count_order_spec _).2 hc
  refine ⟨countOrderNat (min (max n 1) (2^m)), h3 m (Nat.min_le_right _ _), ?_, h2, h3⟩
  simp [normTarget, min_table_size_eq]

theorem resize_spec {t : Table} (h : WF t) (n : Nat) :
    ∃ t', resize t n = some t' ∧ WF t' ∧ t'.size = normTarget t.maxB n ∧
      users t'.list = users t.list ∧ t'.dead = t.dead ∧ t'.maxB = t.maxB := by
  obtain ⟨i, hi, hsz⟩ := h.size_pow
  obtain ⟨m, hm, hmx, hle⟩ := h.max_pow
  have him : i ≤ m := by
    rw [hsz, hmx] at hle
    exact (Nat.pow_le_pow_iff_right (by decide)).1 hle
  obtain ⟨o, hom, hnt, -, -⟩ := normTarget_spec (m := m) n
  have hl := h.linv
  rw [hsz] at hl
  have hdisj : ∀ l', users l' = users t.list → ∀ e ∈ t.dead, e.id ∉ userIds l' := by
    intro l' hu e he
    have := h.dead_disj e he
    unfold userIds at *; unfold users at hu; rw [hu]; exact this
  have hnt' : normTarget t.maxB n = 2^o := by rw [hmx, hnt]
  have hr : resize t n =
      if 2^i < 2^o then (growLevels (o - i) (2^i) t.list).map fun l => { t with size := 2^o, list := l }
      else if 2^o < 2^i then (shrinkLevels (i - o) (2^i) t.list).map fun l => { t with size := 2^o, list := l }
      else some t := by
    simp only [resize, hnt', hsz, countOrderNat_pow2]
  rw [hr, hnt']
  have hmax : ∃ m, m < 64 ∧ t.maxB = 2^m ∧ 2^o ≤ t.maxB :=
    ⟨m, hm, hmx, by rw [hmx]; exact Nat.pow_le_pow_right (by decide) hom⟩
  by_cases hlt : 2^i < 2^o
  · have hio : i < o := (Nat.pow_lt_pow_iff_right (by decide)).1 hlt
    obtain ⟨l', a1, a2, a3⟩ := growLevels_spec (o - i) i t.list (by omega) hl
    have e : i + (o - i) = o := by omega
    rw [e] at a2
    refine ⟨{ t with size := 2^o, list := l' }, by simp [hlt, a1], ?_, rfl, a3, rfl, rfl⟩
    exact ⟨⟨o, by omega, rfl⟩, a2, h.dead_user, h.dead_nodup, hdisj l' a3, hmax⟩
  · by_cases hgt : 2^o < 2^i
    · have hoi : o < i := (Nat.pow_lt_pow_iff_right (by decide)).1 hgt
      have e : o + (i - o) = i := by omega
      have hl' : LInv (· < 2^(o + (i - o))) t.list := by rw [e]; exact hl
      obtain ⟨l', a1, a2, a3⟩ := shrinkLevels_spec (i - o) o t.list (by omega) hl'
      rw [e] at a1
      refine ⟨{ t with size := 2^o, list := l' }, by simp [hlt, hgt, a1], ?_, rfl, a3, rfl, rfl⟩
      exact ⟨⟨o, by omega, rfl⟩, a2, h.dead_user, h.dead_nodup, hdisj l' a3, hmax⟩
    · have : 2^i = 2^o := by omega
      exact ⟨t, by simp [hlt, hgt], h, by rw [hsz, this], rfl, rfl, rfl⟩

/-! the abstraction only looks at the user nodes -/

theorem filter_isNodeR_users (l : List Entry) (r k : Nat) :
    l.filter (isNodeR r k) = (users l).filter (isNodeR r k) := by
  unfold users
  rw [List.filter_filter]
  apply List.filter_congr
  intro x _
  simp only [isNodeR]
  cases x.bucket <;> simp

theorem findUser_users (l : List Entry) (id : Nat) : findUser l id = findUser (users l) id := by
  unfold findUser users
  induction l with
  | nil => rfl
  | cons x xs ih =>
    simp only [List.filter_cons, List.find?_cons]
    cases hb : x.bucket
    · simp only [Bool.not_false, if_true, List.find?_cons, ih]
    · have : isUser id x = false := by simp [isUser, hb]
      simp only [this, Bool.not_true, Bool.false_eq_true, if_false, ih]

theorem abs_eq_of_users {t t' : Table} (hu : users t'.list = users t.list) (hd : t'.dead = t.dead) :
    abs t' = abs t := by
  simp only [abs, MM.mk.injEq]
  constructor
  · funext h k
    simp only [absChain]
    rw [filter_isNodeR_users, hu, ← filter_isNodeR_users]
  · funext i
    simp only [absInfo]
    rw [findUser_users, hu, ← findUser_users, hd]

end UrcuVerif.Lfht.Seq
