import UrcuVerif.Lfht.Seq.ResizeInv
/-! # `cds_lfht_create_bucket` builds a well-formed empty table for every power-of-two size -/
namespace UrcuVerif.Lfht.Seq
open UrcuVerif.Lfht

theorem linkAfterBucket_spec {pre suf : List Entry} {d n : Entry} {i : Nat}
    (hpre : ∀ x ∈ pre, (x.bucket && x.id == i) = false) (hd : d.bucket = true) (hi : d.id = i) :
    linkAfterBucket n (pre ++ d :: suf) i = some (pre ++ d :: n :: suf) := by
  induction pre with
  | nil => simp [linkAfterBucket, hd, hi]
  | cons x xs ih =>
    simp only [List.cons_append, linkAfterBucket, hpre x (List.mem_cons_self ..), Bool.false_eq_true, if_false,
      ih (fun y hy => hpre y (List.mem_cons_of_mem _ hy)), Option.map_some]

theorem all_buckets_of_users_nil {l : List Entry} (hu : users l = []) : ∀ x ∈ l, x.bucket = true := by
  intro x hx
  cases hb : x.bucket
  · have : x ∈ users l := List.mem_filter.2 ⟨hx, by simp [hb]⟩
    rw [hu] at this; cases this
  · rfl

theorem createStep_spec {k m : Nat} {l : List Entry} (hk : k < 64) (hm : m < 2^k)
    (h : LInv (· < 2^k + m) l) (hu : users l = []) :
    ∃ l', linkAfterBucket (mkBucket (2^k + m)) l m = some l' ∧ LInv (· < 2^k + (m + 1)) l' ∧ users l' = [] := by
  have hj64 : 2^k + m < 2^64 := by
    have : 2 * 2^k ≤ 2^64 := by
      rw [← Nat.pow_succ']; exact Nat.pow_le_pow_right (by decide) (by omega)
    omega
  obtain ⟨pre, d, suf, s1, s2, s3, s4, s5, s6, s7⟩ := h.split (i := m) (by omega)
  have hchild := bitrev_child k m hk hm
  have hD : 0 < 2^(63-k) := Nat.pow_pos (by decide)
  have hl : l = (pre ++ [d]) ++ suf := by rw [s2]; simp
  have hrevn : (mkBucket (2^k + m)).rev = bitReverse64 (2^k + m) := rfl
  have ha : ∀ a ∈ pre ++ [d], lt' a (mkBucket (2^k + m)) := by
    intro a ha
    refine Or.inl ?_
    rw [hrevn, hchild]
    rcases List.mem_append.1 ha with ha | ha
    · have := s6 a ha; omega
    · simp at ha; subst ha; omega
  have hsort : Sorted (pre ++ d :: suf) := s2 ▸ h.sorted
  have hdc := (List.pairwise_cons.1 (sorted_append_right hsort)).1
  have hc : ∀ c ∈ suf, lt' (mkBucket (2^k + m)) c := by
    intro c hc
    have hcl : c ∈ l := by rw [s2]; simp [hc]
    have hcb := all_buckets_of_users_nil hu c hcl
    obtain ⟨b1, b2, b3⟩ := h.bkt c hcl hcb
    have hlt : bitReverse64 m < bitReverse64 c.id := by
      rcases hdc c hc with h1 | ⟨_, h2⟩
      · rw [s5, b2] at h1; exact h1
      · rw [hcb] at h2; cases h2
    refine Or.inl ?_
    rw [hrevn, b2]
    have b1' : c.id < 2^k + m := b1
    apply bitrev_no_between k m c.id hk hm _ _ hlt
    · rw [Nat.pow_succ]; omega
    · omega
  have hins := LInv.insert_bucket (hl ▸ h) (n := mkBucket (2^k + m)) rfl rfl rfl hj64 ha hc
  refine ⟨(pre ++ [d]) ++ mkBucket (2^k + m) :: suf, ?_, ?_, ?_⟩
  · rw [s2, linkAfterBucket_spec (splitAtBucket_pre s1) s3 s4]; simp
  · exact hins.congr (fun x => by simp [mkBucket]; omega)
  · rw [users_insert_bucket rfl, ← hl, hu]

theorem createLevel_aux {k : Nat} (hk : k < 64) (n : Nat) : ∀ (m : Nat) (l : List Entry), m + n = 2^k →
    LInv (· < 2^k + m) l → users l = [] →
    ∃ l', (List.range' m n).foldlM (fun l i => linkAfterBucket (mkBucket (2^k + i)) l i) l = some l' ∧
      LInv (· < 2 * 2^k) l' ∧ users l' = [] := by
  induction n with
  | zero =>
    intro m l hm h hu
    refine ⟨l, rfl, h.congr (fun x => ?_), hu⟩
    simp at hm; rw [hm]; omega
  | succ n ih =>
    intro m l hm h hu
    obtain ⟨l1, a1, a2, a3⟩ := createStep_spec hk (by omega) h hu
    obtain ⟨l2, b1, b2, b3⟩ := ih (m + 1) l1 (by omega) a2 a3
    refine ⟨l2, ?_, b2, b3⟩
    rw [List.range'_succ, List.foldlM_cons, a1]
    exact b1

theorem createLevel_spec {k : Nat} (hk : k < 64) {l : List Entry} (h : LInv (· < 2^k) l) (hu : users l = []) :
    ∃ l', createLevel (2^k) l = some l' ∧ LInv (· < 2^(k+1)) l' ∧ users l' = [] := by
  obtain ⟨l', a1, a2, a3⟩ := createLevel_aux hk (2^k) 0 l (by omega) (h.congr (fun x => by simp)) hu
  refine ⟨l', ?_, a2.congr (fun x => by rw [Nat.pow_succ]; omega), a3⟩
  simpa [createLevel, List.range_eq_range'] using a1

theorem createLevels_spec (n : Nat) : ∀ (k : Nat) (l : List Entry), k + n ≤ 64 → LInv (· < 2^k) l → users l = [] →
    ∃ l', createLevels n (2^k) l = some l' ∧ LInv (· < 2^(k+n)) l' ∧ users l' = [] := by
  induction n with
  | zero => intro k l _ h hu; exact ⟨l, rfl, h, hu⟩
  | succ n ih =>
    intro k l hkn h hu
    obtain ⟨l1, a1, a2, a3⟩ := createLevel_spec (k := k) (by omega) h hu
    obtain ⟨l2, b1, b2, b3⟩ := ih (k+1) l1 (by omega) a2 a3
    refine ⟨l2, ?_, ?_, b3⟩
    · simp only [createLevels, a1, Option.bind_some]
      rw [← Nat.pow_succ']; exact b1
    · have : k + 1 + n = k + (n + 1) := by omega
      rw [← this]; exact b2

theorem linv_bucket0 : LInv (· < 2^0) [bucket0] := by
  refine ⟨List.pairwise_singleton _ _, ?_, ?_, ?_, ?_, ?_⟩
  · intro e he; simp at he; subst he; rfl
  · intro e he _; simp at he; subst he
    exact ⟨by simp [bucket0], by simp [bucket0, bitReverse64_zero], by simp [bucket0]⟩
  · intro i hi; simp at hi; subst hi; exact ⟨bucket0, by simp, rfl, rfl⟩
  · simp [bucket0]
  · intro e he; simp at he; subst he; simp [bucket0]

/-- `cds_lfht_create_bucket(ht, 2^k)` -/
theorem createBuckets_spec {k : Nat} (hk : k ≤ 64) :
    ∃ l, createBuckets (2^k) = some l ∧ LInv (· < 2^k) l ∧ users l = [] := by
  obtain ⟨l, a1, a2, a3⟩ := createLevels_spec k 0 [bucket0] (by omega) linv_bucket0 (by simp [users, bucket0])
  refine ⟨l, ?_, by simpa using a2, a3⟩
  simp only [createBuckets, countOrderNat_pow2]
  simpa using a1

end UrcuVerif.Lfht.Seq
