import UrcuVerif.Lfht.Seq.Spec
/-! # Refinement: read-only operations (lookup chain, traversal, count, destroy, is_deleted) -/
namespace UrcuVerif.Lfht.Seq
open UrcuVerif.Lfht

theorem bitReverse64_zero : bitReverse64 0 = 0 := by rw [bitReverse64_eq]; exact revBits_zero 64

theorem WF.size_pos {t : Table} (h : WF t) : 0 < t.size := by
  obtain ⟨k, _, hk⟩ := h.size_pow; rw [hk]; exact Nat.pow_pos (by decide)

/-- bucket 0 is the head of the chain -/
theorem WF.bucket0 {t : Table} (h : WF t) :
    ∃ d suf, splitAtBucket t.list 0 = some ([], d, suf) ∧ t.list = d :: suf ∧ d.bucket = true := by
  obtain ⟨pre, d, suf, h1, h2, h3, _, h5, h6, _⟩ := h.linv.split (i := 0) h.size_pos
  rw [bitReverse64_zero] at h5
  cases pre with
  | nil => exact ⟨d, suf, h1, h2, h3⟩
  | cons x xs => have := h6 x (List.mem_cons_self ..); omega

theorem WF.lookup_bucket {t : Table} (h : WF t) (hash : Nat) :
    ∃ pre d suf, lookupBucket t hash = some (pre, d, suf) ∧ t.list = pre ++ d :: suf ∧
      d.bucket = true ∧ d.rev ≤ bitReverse64 hash ∧ (∀ x ∈ pre, x.rev < d.rev) ∧ (∀ x ∈ suf, d.rev ≤ x.rev) := by
  obtain ⟨k, hk, hs⟩ := h.size_pow
  have hl := h.linv
  unfold lookupBucket
  rw [hs] at hl ⊢
  exact LInv.lookupBucket (by omega) hl hash

theorem absChain_split {pre suf : List Entry} {d : Entry} {h k : Nat} (hh : h < 2^64) (hd : d.bucket = true)
    (hpre : ∀ x ∈ pre, x.rev < d.rev) (hle : d.rev ≤ bitReverse64 h) :
    absChain (pre ++ d :: suf) h k = (suf.filter (isNodeR (bitReverse64 h) k)).map (·.id) := by
  unfold absChain
  simp only [hh, if_true, List.filter_append, List.filter_cons]
  have h1 : pre.filter (isNodeR (bitReverse64 h) k) = [] := by
    apply List.filter_eq_nil_iff.2
    intro x hx; have := hpre x hx
    simp [isNodeR]; intro _ h2; omega
  have h2 : isNodeR (bitReverse64 h) k d = false := by simp [isNodeR, hd]
  simp [h1, h2]

theorem step_lookup {t : Table} (h : WF t) {hash key : Nat} (hh : hash < 2^64) :
    step t (.lookup hash key) = some (t, .ids ((abs t).chain hash key)) := by
  obtain ⟨pre, d, suf, h1, h2, h3, h4, h5, _⟩ := h.lookup_bucket hash
  have hs : Sorted suf := (sorted_append_right (A := pre) (h2 ▸ h.linv.sorted)).tail
  have hr : NR suf := fun x hx => h.linv.nr x (by rw [h2]; simp [hx])
  simp only [step, lookup, h1, Option.map_some, abs]
  rw [h2, absChain_split hh h3 h5 h4, ← lookupChain_eq _ _ _ hs hr]
  rfl

/-! ### traversal -/

theorem travChain_nextWalk (l : List Entry) : travChain (Iter.ofWalk (nextWalk l)) = travWalk l := by
  induction l with
  | nil => rfl
  | cons e rest ih =>
    simp only [nextWalk, travWalk]
    split
    · rfl
    · exact ih

/-- unfolding: `travChain` really is "report the node, call `cds_lfht_next`, repeat" -/
theorem travChain_unfold (e : Entry) (rest : List Entry) :
    travChain ⟨some e, rest⟩ = e.id :: travChain (next ⟨some e, rest⟩) := by
  simp only [travChain, next]
  exact congrArg _ (travChain_nextWalk rest).symm

theorem travWalk_eq (l : List Entry) (hr : NR l) : travWalk l = userIds l := by
  induction l with
  | nil => rfl
  | cons e rest ih =>
    simp only [travWalk, userIds, hr.head, Bool.not_false, Bool.true_and, List.filter_cons]
    have := ih hr.tail
    unfold userIds at this
    cases e.bucket <;> simp [this]

theorem countWalk_eq (l : List Entry) (hr : NR l) : countWalk l = (userIds l).length := by
  induction l with
  | nil => rfl
  | cons e rest ih =>
    simp only [countWalk, userIds, hr.head, Bool.not_false, Bool.true_and, List.filter_cons]
    have := ih hr.tail
    unfold userIds at this
    cases e.bucket <;> simp [this] <;> omega

theorem allBuckets_eq (l : List Entry) : allBuckets l = true ↔ userIds l = [] := by
  induction l with
  | nil => simp [allBuckets, userIds]
  | cons e rest ih =>
    simp only [allBuckets, userIds, List.filter_cons]
    unfold userIds at ih
    cases e.bucket <;> simp [ih]

theorem findUser_isSome {l : List Entry} {id : Nat} : (findUser l id).isSome ↔ id ∈ userIds l := by
  rw [mem_userIds, findUser, List.find?_isSome]

theorem stored_iff {t : Table} {id : Nat} : (abs t).stored id ↔ id ∈ userIds t.list := by
  rw [← findUser_isSome]
  simp only [MM.stored, abs, absInfo]
  cases hf : findUser t.list id with
  | some e => simp
  | none => simp

theorem step_traverse {t : Table} (h : WF t) : step t .traverse = some (t, .ids (userIds t.list)) := by
  obtain ⟨d, suf, h1, h2, h3⟩ := h.bucket0
  have hr : NR suf := fun x hx => h.linv.nr x (by rw [h2]; simp [hx])
  simp only [step, first, h1, Option.map_some, travChain_nextWalk, travWalk_eq suf hr]
  rw [h2]; simp [userIds, List.filter_cons, h3]

theorem step_countNodes {t : Table} (h : WF t) :
    step t .countNodes = some (t, .count (userIds t.list).length) := by
  obtain ⟨d, suf, h1, h2, h3⟩ := h.bucket0
  simp only [step, countNodes, h1, Option.map_some]
  rw [countWalk_eq _ (h2 ▸ h.linv.nr), h2]

theorem step_destroy {t : Table} (h : WF t) :
    step t .destroy = some (t, .ret (if userIds t.list = [] then 0 else -EPERM)) := by
  obtain ⟨d, suf, h1, h2, h3⟩ := h.bucket0
  simp only [step, destroy, h1, Option.map_some]
  rw [← h2]
  by_cases he : userIds t.list = []
  · simp [he, (allBuckets_eq _).2 he]
  · have : allBuckets t.list = false := by
      cases hb : allBuckets t.list
      · rfl
      · exact absurd ((allBuckets_eq _).1 hb) he
    simp [he, this]

theorem step_isDeleted {t : Table} (h : WF t) (id : Nat) :
    step t (.isDeleted id) = some (t, .flag ((abs t).isDeleted id)) := by
  simp only [step, isDeleted, MM.isDeleted, abs, absInfo]
  cases hf : findUser t.list id with
  | some e =>
    have : e ∈ t.list := List.mem_of_find?_eq_some hf
    simp [h.linv.nr e this]
  | none =>
    cases hd : t.dead.find? (fun e => e.id == id) with
    | none =>
      have : t.dead.any (fun e => e.id == id) = false := by
        rw [List.find?_eq_none] at hd
        simp only [List.any_eq_false]; exact hd
      simp [this]
    | some e =>
      have : t.dead.any (fun e => e.id == id) = true := by
        simp only [List.any_eq_true]
        exact ⟨e, List.mem_of_find?_eq_some hd, List.find?_some (p := fun (e : Entry) => e.id == id) hd⟩
      simp [this]

end UrcuVerif.Lfht.Seq
