import UrcuVerif.Lfht.Seq.Inv
/-!
# Reference multimap (the specification) and the abstraction function

The abstract key of the multimap is the pair `(hash, key)`: `cds_lfht_lookup(ht, hash, match, key)`
only ever compares nodes whose `reverse_hash` equals `bit_reverse(hash)` and for which
`match(node, key)` holds, and `cds_lfht_replace` insists on both being equal.  Under the API
contract "equal keys ⇒ equal hashes" `(hash, key) ↦ key` is injective on the keys in use, so this
is the multimap on keys; without the contract it is what the code implements anyway, and the
refinement theorem needs no contract hypothesis.

Order exposed among duplicates (derived from `_cds_lfht_add`): plain `add` links the node
*behind* all nodes with the same reverse hash ⇒ `lookup` returns the **oldest** duplicate and
`next_duplicate` walks in insertion order; `add_unique`/`add_replace` only insert when there is no
duplicate; `replace`/`add_replace` put the new node at the position of the old one.
-/
namespace UrcuVerif.Lfht.Seq
open UrcuVerif.Lfht

structure MM where
  /-- `(hash, key)` ↦ ids of the stored nodes, in `lookup`/`next_duplicate` order -/
  chain : Nat → Nat → List Nat
  /-- node id ↦ `(stored?, hash, key)`; `none` = never added; `(false, …)` = removed (its
  `next` carries REMOVED_FLAG) with the hash/key last written into it -/
  info : Nat → Option (Bool × Nat × Nat)

def MM.stored (m : MM) (id : Nat) : Prop := ∃ h k, m.info id = some (true, h, k)

def setChain (c : Nat → Nat → List Nat) (h k : Nat) (v : List Nat) : Nat → Nat → List Nat :=
  fun h' k' => if h' = h ∧ k' = k then v else c h' k'
def setInfo (f : Nat → Option (Bool × Nat × Nat)) (id : Nat) (v : Option (Bool × Nat × Nat)) :
    Nat → Option (Bool × Nat × Nat) :=
  fun i => if i = id then v else f i
/-- an add/replace call that did not link its node still wrote `reverse_hash` (and the caller
the key) of that node -/
def touch (f : Nat → Option (Bool × Nat × Nat)) (id h k : Nat) : Nat → Option (Bool × Nat × Nat) :=
  fun i => if i = id then (f id).map (fun _ => (false, h, k)) else f i

def MM.insert (m : MM) (id h k : Nat) : MM :=
  ⟨setChain m.chain h k (m.chain h k ++ [id]), setInfo m.info id (some (true, h, k))⟩

def MM.isDeleted (m : MM) (id : Nat) : Bool :=
  match m.info id with
  | some (false, _, _) => true
  | _ => false

/-- The reference multimap's transition relation.  New nodes must not be stored already
(API contract); everything else is total.  Only the traversal order is left open (any
enumeration without repetition of the stored nodes). -/
inductive Spec.Step (m : MM) : Op → Out → MM → Prop
  | add {id h k} : ¬ m.stored id → Step m (.add id h k) .unit (m.insert id h k)
  | addUniqueNew {id h k} : ¬ m.stored id → m.chain h k = [] →
      Step m (.addUnique id h k) (.node (some id)) (m.insert id h k)
  | addUniqueDup {id h k d rest} : ¬ m.stored id → m.chain h k = d :: rest →
      Step m (.addUnique id h k) (.node (some d)) ⟨m.chain, touch m.info id h k⟩
  | addReplaceNew {id h k} : ¬ m.stored id → m.chain h k = [] →
      Step m (.addReplace id h k) (.node none) (m.insert id h k)
  | addReplaceRepl {id h k d rest} : ¬ m.stored id → m.chain h k = d :: rest →
      Step m (.addReplace id h k) (.node (some d))
        ⟨setChain m.chain h k (id :: rest),
         setInfo (setInfo m.info d (some (false, h, k))) id (some (true, h, k))⟩
  | replaceNull {id h k} : ¬ m.stored id →
      Step m (.replace none id h k) (.ret (-ENOENT)) ⟨m.chain, touch m.info id h k⟩
  | replaceInval {o id h k st ho ko} : ¬ m.stored id → o ≠ id → m.info o = some (st, ho, ko) →
      (ho ≠ h ∨ ko ≠ k) →
      Step m (.replace (some o) id h k) (.ret (-EINVAL)) ⟨m.chain, touch m.info id h k⟩
  | replaceGone {o id h k} : ¬ m.stored id → o ≠ id → m.info o = some (false, h, k) →
      Step m (.replace (some o) id h k) (.ret (-ENOENT)) ⟨m.chain, touch m.info id h k⟩
  | replaceOk {o id h k} : ¬ m.stored id → o ≠ id → m.info o = some (true, h, k) →
      Step m (.replace (some o) id h k) (.ret 0)
        ⟨setChain m.chain h k ((m.chain h k).map fun x => if x = o then id else x),
         setInfo (setInfo m.info o (some (false, h, k))) id (some (true, h, k))⟩
  | delNull : Step m (.del none) (.ret (-ENOENT)) m
  | delOk {id h k} : m.info id = some (true, h, k) →
      Step m (.del (some id)) (.ret 0)
        ⟨setChain m.chain h k ((m.chain h k).erase id), setInfo m.info id (some (false, h, k))⟩
  | delGone {id h k} : m.info id = some (false, h, k) → Step m (.del (some id)) (.ret (-ENOENT)) m
  | lookup {h k} : Step m (.lookup h k) (.ids (m.chain h k)) m
  | traverse {l : List Nat} : l.Nodup → (∀ id, id ∈ l ↔ m.stored id) → Step m .traverse (.ids l) m
  | countNodes {l : List Nat} : l.Nodup → (∀ id, id ∈ l ↔ m.stored id) →
      Step m .countNodes (.count l.length) m
  | isDeleted {id} : Step m (.isDeleted id) (.flag (m.isDeleted id)) m
  | resize {n} : Step m (.resize n) .unit m
  | destroyOk : (∀ id, ¬ m.stored id) → Step m .destroy (.ret 0) m
  | destroyBusy {id} : m.stored id → Step m .destroy (.ret (-EPERM)) m

/-! ## Abstraction function -/

def absChain (l : List Entry) (h k : Nat) : List Nat :=
  if h < 2^64 then (l.filter (isNodeR (bitReverse64 h) k)).map (·.id) else []

def absInfo (t : Table) (id : Nat) : Option (Bool × Nat × Nat) :=
  match findUser t.list id with
  | some e => some (true, bitReverse64 e.rev, e.key)
  | none => (t.dead.find? (fun e => e.id == id)).map fun e => (false, bitReverse64 e.rev, e.key)

def abs (t : Table) : MM := ⟨absChain t.list, absInfo t⟩

/-- well-formed table states (the states between two sequential API calls) -/
structure WF (t : Table) : Prop where
  size_pow : ∃ k, k < 64 ∧ t.size = 2^k
  linv : LInv (· < t.size) t.list
  dead_user : ∀ e ∈ t.dead, e.bucket = false ∧ e.removed = true ∧ e.rev < 2^64
  dead_nodup : (t.dead.map (·.id)).Nodup
  dead_disj : ∀ e ∈ t.dead, e.id ∉ userIds t.list
  max_pow : ∃ m, m < 64 ∧ t.maxB = 2^m ∧ t.size ≤ t.maxB

/-- argument ranges of the C API (`unsigned long`) -/
def OpOk : Op → Prop
  | .add _ h _ | .addUnique _ h _ | .addReplace _ h _ | .replace _ _ h _ | .lookup h _ => h < 2^64
  | .resize n => n < 2^64
  | _ => True

end UrcuVerif.Lfht.Seq
