import UrcuVerif.Lfht.Seq.Lemmas
/-!
# Well-formedness invariant of the sequential model and its preservation by list surgery
-/
namespace UrcuVerif.Lfht.Seq
open UrcuVerif.Lfht

/-- chain invariant; `B i` = "bucket node `i` is linked" (between operations `B = (· < size)`,
inside a resize the set of linked bucket nodes is in between two powers of two) -/
structure LInv (B : Nat → Prop) (l : List Entry) : Prop where
  sorted : Sorted l
  nr : NR l
  bkt : ∀ e ∈ l, e.bucket = true → B e.id ∧ e.rev = bitReverse64 e.id ∧ e.id < 2^64
  has : ∀ i, B i → ∃ e ∈ l, e.bucket = true ∧ e.id = i
  nodup : ((l.filter (fun e => !e.bucket)).map (·.id)).Nodup
  revlt : ∀ e ∈ l, e.rev < 2^64

theorem LInv.congr {B B' : Nat → Prop} {l : List Entry} (h : LInv B l) (hb : ∀ i, B i ↔ B' i) : LInv B' l :=
  ⟨h.sorted, h.nr, fun e he hbk => ⟨(hb _).1 (h.bkt e he hbk).1, (h.bkt e he hbk).2⟩,
   fun i hi => h.has i ((hb i).2 hi), h.nodup, h.revlt⟩

/-- `bucket_at(i)` for a linked bucket: the split exists and the bucket node separates strictly
smaller reverse hashes from the rest -/
theorem LInv.split {B : Nat → Prop} {l : List Entry} (h : LInv B l) {i : Nat} (hi : B i) :
    ∃ pre d suf, splitAtBucket l i = some (pre, d, suf) ∧ l = pre ++ d :: suf ∧ d.bucket = true ∧
      d.id = i ∧ d.rev = bitReverse64 i ∧ (∀ x ∈ pre, x.rev < d.rev) ∧ (∀ x ∈ suf, d.rev ≤ x.rev) := by
  obtain ⟨pre, d, suf, hs⟩ := splitAtBucket_isSome (h.has i hi)
  obtain ⟨h1, h2, h3⟩ := splitAtBucket_some hs
  subst h1
  have hd : d ∈ pre ++ d :: suf := by simp
  have hb := (h.bkt d hd h2).2.1
  rw [h3] at hb
  exact ⟨pre, d, suf, hs, rfl, h2, h3, hb, sorted_pre_lt h.sorted h2, sorted_suf_ge h.sorted⟩

/-- `lookup_bucket(ht, 2^k, hash)`: the bucket node's reverse hash is at most the hash's -/
theorem LInv.lookupBucket {k : Nat} {l : List Entry} (hk : k ≤ 64) (h : LInv (· < 2^k) l) (hash : Nat) :
    ∃ pre d suf, splitAtBucket l (hash &&& (2^k - 1)) = some (pre, d, suf) ∧ l = pre ++ d :: suf ∧
      d.bucket = true ∧ d.rev ≤ bitReverse64 hash ∧ (∀ x ∈ pre, x.rev < d.rev) ∧ (∀ x ∈ suf, d.rev ≤ x.rev) := by
  have hlt : hash &&& (2^k - 1) < 2^k := by
    rw [mask_eq_mod]; exact Nat.mod_lt _ (Nat.pow_pos (by decide))
  obtain ⟨pre, d, suf, h1, h2, h3, _, h5, h6, h7⟩ := h.split (i := hash &&& (2^k - 1)) hlt
  refine ⟨pre, d, suf, h1, h2, h3, ?_, h6, h7⟩
  rw [h5]; exact bitrev_bucket_le k hash hk

theorem mem_insert_iff {A C : List Entry} {n e : Entry} : e ∈ A ++ n :: C ↔ e = n ∨ e ∈ A ++ C := by
  simp only [List.mem_append, List.mem_cons]
  constructor
  · rintro (h | h | h)
    · exact Or.inr (Or.inl h)
    · exact Or.inl h
    · exact Or.inr (Or.inr h)
  · rintro (h | h | h)
    · exact Or.inr (Or.inl h)
    · exact Or.inl h
    · exact Or.inr (Or.inr h)

def userIds (l : List Entry) : List Nat := (l.filter (fun e => !e.bucket)).map (·.id)

theorem mem_userIds {l : List Entry} {i : Nat} : i ∈ userIds l ↔ ∃ e ∈ l, isUser i e = true := by
  simp only [userIds, List.mem_map, List.mem_filter, isUser, Bool.and_eq_true, Bool.not_eq_true',
    beq_iff_eq]
  constructor
  · rintro ⟨e, ⟨h1, h2⟩, h3⟩; exact ⟨e, h1, h2, h3⟩
  · rintro ⟨e, h1, h2, h3⟩; exact ⟨e, ⟨h1, h2⟩, h3⟩

theorem userIds_insert_perm (A C : List Entry) (n : Entry) :
    (userIds (A ++ n :: C)).Perm (userIds (n :: (A ++ C))) :=
  (List.perm_middle.filter _).map _

theorem LInv.insert_user {B : Nat → Prop} {A C : List Entry} {n : Entry} (h : LInv B (A ++ C))
    (hb : n.bucket = false) (hr : n.removed = false) (hlt : n.rev < 2^64)
    (hid : n.id ∉ userIds (A ++ C)) (ha : ∀ a ∈ A, lt' a n) (hc : ∀ c ∈ C, lt' n c) :
    LInv B (A ++ n :: C) := by
  have hmem : ∀ e, e ∈ A ++ n :: C → e = n ∨ e ∈ A ++ C := fun e => mem_insert_iff.1
  refine ⟨sorted_insert h.sorted ha hc, ?_, ?_, ?_, ?_, ?_⟩
  · intro e he; rcases hmem e he with rfl | he
    · exact hr
    · exact h.nr e he
  · intro e he hbk; rcases hmem e he with rfl | he
    · rw [hb] at hbk; cases hbk
    · exact h.bkt e he hbk
  · intro i hi; obtain ⟨e, he, h1, h2⟩ := h.has i hi
    exact ⟨e, mem_insert_iff.2 (Or.inr he), h1, h2⟩
  · have := (userIds_insert_perm A C n).nodup_iff
    unfold userIds at this hid
    rw [this]
    simp only [List.filter_cons, hb, Bool.not_false, if_true, List.map_cons]
    exact List.nodup_cons.2 ⟨hid, h.nodup⟩
  · intro e he; rcases hmem e he with rfl | he
    · exact hlt
    · exact h.revlt e he

theorem LInv.insert_bucket {B : Nat → Prop} {A C : List Entry} {n : Entry} (h : LInv B (A ++ C))
    (hb : n.bucket = true) (hr : n.removed = false) (hrev : n.rev = bitReverse64 n.id)
    (hlt : n.id < 2^64) (ha : ∀ a ∈ A, lt' a n) (hc : ∀ c ∈ C, lt' n c) :
    LInv (fun i => B i ∨ i = n.id) (A ++ n :: C) := by
  have hmem : ∀ e, e ∈ A ++ n :: C → e = n ∨ e ∈ A ++ C := fun e => mem_insert_iff.1
  refine ⟨sorted_insert h.sorted ha hc, ?_, ?_, ?_, ?_, ?_⟩
  · intro e he; rcases hmem e he with rfl | he
    · exact hr
    · exact h.nr e he
  · intro e he hbk; rcases hmem e he with rfl | he
    · exact ⟨Or.inr rfl, hrev, hlt⟩
    · exact ⟨Or.inl (h.bkt e he hbk).1, (h.bkt e he hbk).2⟩
  · intro i hi
    rcases hi with hi | rfl
    · obtain ⟨e, he, h1, h2⟩ := h.has i hi
      exact ⟨e, mem_insert_iff.2 (Or.inr he), h1, h2⟩
    · exact ⟨n, by simp, hb, rfl⟩
  · have := (userIds_insert_perm A C n).nodup_iff
    unfold userIds at this
    rw [this]
    simp only [List.filter_cons, hb, Bool.not_true, Bool.false_eq_true, if_false]
    exact h.nodup
  · intro e he; rcases hmem e he with rfl | he
    · rw [hrev]; exact bitrev64_lt _
    · exact h.revlt e he

/-- removing entries keeps the invariant for the bucket nodes that stay -/
theorem LInv.filter {B B' : Nat → Prop} {l : List Entry} (h : LInv B l) (p : Entry → Bool)
    (hB : ∀ e ∈ l, e.bucket = true → (B' e.id ↔ p e = true))
    (hB' : ∀ i, B' i → B i) : LInv B' (l.filter p) := by
  refine ⟨h.sorted.sublist List.filter_sublist, ?_, ?_, ?_, ?_, ?_⟩
  · intro e he; exact h.nr e (List.mem_filter.1 he).1
  · intro e he hbk
    have hm := List.mem_filter.1 he
    exact ⟨(hB e hm.1 hbk).2 hm.2, (h.bkt e hm.1 hbk).2⟩
  · intro i hi
    obtain ⟨e, he, h1, h2⟩ := h.has i (hB' i hi)
    refine ⟨e, List.mem_filter.2 ⟨he, ?_⟩, h1, h2⟩
    exact (hB e he h1).1 (h2 ▸ hi)
  · have : ((l.filter p).filter (fun e => !e.bucket)).Sublist (l.filter (fun e => !e.bucket)) :=
      (List.filter_sublist (l := l) (p := p)).filter _
    exact (this.map _).nodup h.nodup
  · intro e he; exact h.revlt e (List.mem_filter.1 he).1

end UrcuVerif.Lfht.Seq
