/-! Function update used for per-thread / per-location state (`Nat → α`). -/
namespace UrcuVerif

def upd {α} (f : Nat → α) (i : Nat) (v : α) : Nat → α := fun j => if j = i then v else f j

@[simp] theorem upd_same {α} (f : Nat → α) (i : Nat) (v : α) : upd f i v i = v := by simp [upd]
@[simp] theorem upd_other {α} (f : Nat → α) (i j : Nat) (v : α) (h : j ≠ i) : upd f i v j = f j := by
  simp [upd, h]

theorem getLast?_snoc {α} (l : List α) (x : α) : (l ++ [x]).getLast? = some x := by simp
theorem getLast?_single {α} (x : α) : [x].getLast? = some x := by simp
theorem snoc_ne_nil {α} (l : List α) (x : α) : l ++ [x] ≠ [] := by simp
theorem getLast?_cons_cons' {α} (a b : α) (l : List α) :
    (a :: b :: l).getLast? = (b :: l).getLast? := by simp [List.getLast?_cons_cons]

end UrcuVerif
