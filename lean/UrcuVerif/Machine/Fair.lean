/-!
# Fair runs of labelled transition systems and the leads-to rule (core Lean only)

The component models are executable labelled transition systems `step : σ → L → Option σ`.  Their liveness halves
were proved as *no-stuck + strictly decreasing measure*; this file supplies the temporal part that turns those into
"eventually", with scheduler fairness as an explicit hypothesis about the run instead of a trusted sentence.

* a **run** is an infinite sequence of states `ρ : Nat → σ` with labels `ℓ : Nat → Option L`; `ℓ i = some l` is a step
  of the model, `ℓ i = none` is an idle (stuttering) step: something outside the model runs, or nothing at all.
  Stuttering is what makes fairness a real hypothesis: `fun _ => s`, `fun _ => none` is a run from every state.
* `WeakFair A`: if some step of the label set `A` (typically "the steps of thread t", its store-buffer commits
  included) is enabled from some point on for ever, a step of `A` is eventually taken.
* `StrongFair A` (needed for lock acquisitions, whose enabledness other threads interrupt): if a step of `A` is enabled
  again and again, a step of `A` is eventually taken.
* `fair_measure_leadsto`: invariant + "`A` is enabled until the goal" + `A`-steps decrease a measure + other steps do
  not increase it  ⟹  the goal is reached on every run that is weakly fair for `A`.
* `fair_measure_leadsto_family`: the same with a family of agents `A k` (several wakers, "the waker is fair AND the
  sleeper is fair"), each with its own progress hypothesis `En k`-continuously ⟹ an `A k` step – weak fairness is the
  instance `En k = Enabled (A k)`, "every read-side section ends" is another one.
* leads-to calculus (`LeadsTo`, transitivity, case split, stability) to chain several such phases.
* a toy system showing that a fair run reaches the goal and that an unfair run (and the idle run) never does.
-/
namespace UrcuVerif.Fair

section
variable {σ L : Type}

/-- `ρ, ℓ` is an infinite run of `step` (with idle steps) -/
structure IsRun (step : σ → L → Option σ) (ρ : Nat → σ) (ℓ : Nat → Option L) : Prop where
  move : ∀ i l, ℓ i = some l → step (ρ i) l = some (ρ (i + 1))
  idle : ∀ i, ℓ i = none → ρ (i + 1) = ρ i

/-- some step of the label set `A` is enabled in `s` -/
def Enabled (step : σ → L → Option σ) (A : L → Prop) (s : σ) : Prop :=
  ∃ l, A l ∧ (step s l).isSome = true

/-- the step taken at position `i` belongs to `A` -/
def Took (ℓ : Nat → Option L) (A : L → Prop) (i : Nat) : Prop := ∃ l, ℓ i = some l ∧ A l

/-- generic progress hypothesis: whenever `En` holds from some point on for ever, a step of `A` is taken -/
def Progress (ρ : Nat → σ) (ℓ : Nat → Option L) (En : σ → Prop) (A : L → Prop) : Prop :=
  ∀ i, (∀ j, i ≤ j → En (ρ j)) → ∃ j, i ≤ j ∧ Took ℓ A j

/-- weak fairness for the label set `A` -/
def WeakFair (step : σ → L → Option σ) (ρ : Nat → σ) (ℓ : Nat → Option L) (A : L → Prop) : Prop :=
  Progress ρ ℓ (Enabled step A) A

/-- strong fairness for the label set `A` -/
def StrongFair (step : σ → L → Option σ) (ρ : Nat → σ) (ℓ : Nat → Option L) (A : L → Prop) : Prop :=
  ∀ i, (∀ j, i ≤ j → ∃ k, j ≤ k ∧ Enabled step A (ρ k)) → ∃ j, i ≤ j ∧ Took ℓ A j

theorem StrongFair.weak {step : σ → L → Option σ} {ρ ℓ} {A : L → Prop} (h : StrongFair step ρ ℓ A) :
    WeakFair step ρ ℓ A :=
  fun i he => h i (fun j hj => ⟨j, Nat.le_refl j, he j hj⟩)

/-- weak fairness for a smaller enabledness predicate follows -/
theorem WeakFair.progress {step : σ → L → Option σ} {ρ ℓ} {A : L → Prop} (h : WeakFair step ρ ℓ A)
    (En : σ → Prop) (hen : ∀ s, En s → Enabled step A s) : Progress ρ ℓ En A :=
  fun i he => h i (fun j hj => hen _ (he j hj))

/-- `P` leads to `Q` along the run -/
def LeadsTo (ρ : Nat → σ) (P Q : σ → Prop) : Prop := ∀ i, P (ρ i) → ∃ j, i ≤ j ∧ Q (ρ j)

theorem LeadsTo.refl (ρ : Nat → σ) (P : σ → Prop) : LeadsTo ρ P P := fun i h => ⟨i, Nat.le_refl i, h⟩

theorem LeadsTo.trans {ρ : Nat → σ} {P Q R : σ → Prop} (h1 : LeadsTo ρ P Q) (h2 : LeadsTo ρ Q R) : LeadsTo ρ P R := by
  intro i hp
  obtain ⟨j, hj, hq⟩ := h1 i hp
  obtain ⟨k, hk, hr⟩ := h2 j hq
  exact ⟨k, Nat.le_trans hj hk, hr⟩

theorem LeadsTo.mono {ρ : Nat → σ} {P P' Q Q' : σ → Prop} (h : LeadsTo ρ P Q) (hp : ∀ s, P' s → P s)
    (hq : ∀ s, Q s → Q' s) : LeadsTo ρ P' Q' := by
  intro i h'
  obtain ⟨j, hj, h2⟩ := h i (hp _ h')
  exact ⟨j, hj, hq _ h2⟩

theorem LeadsTo.or {ρ : Nat → σ} {P1 P2 Q : σ → Prop} (h1 : LeadsTo ρ P1 Q) (h2 : LeadsTo ρ P2 Q) :
    LeadsTo ρ (fun s => P1 s ∨ P2 s) Q := by
  intro i h
  rcases h with h | h
  · exact h1 i h
  · exact h2 i h

/-- an inductive invariant holds along the rest of the run -/
theorem inv_along {step : σ → L → Option σ} {ρ ℓ} (hrun : IsRun step ρ ℓ) (Inv : σ → Prop)
    (hstep : ∀ s l s', Inv s → step s l = some s' → Inv s') (i0 : Nat) (h0 : Inv (ρ i0)) :
    ∀ j, i0 ≤ j → Inv (ρ j) := by
  intro j hj
  induction j with
  | zero => have : i0 = 0 := by omega
            subst this; exact h0
  | succ n ih =>
    by_cases h : i0 = n + 1
    · subst h; exact h0
    · have hn := ih (by omega)
      cases hl : ℓ n with
      | none => rw [hrun.idle n hl]; exact hn
      | some l => exact hstep _ l _ hn (hrun.move n l hl)

/-- a predicate that steps preserve *under an invariant that holds along the run* stays true -/
theorem stable_along {step : σ → L → Option σ} {ρ ℓ} (hrun : IsRun step ρ ℓ) (Inv P : σ → Prop) (i0 : Nat)
    (hinv : ∀ j, i0 ≤ j → Inv (ρ j))
    (hstep : ∀ s l s', Inv s → P s → step s l = some s' → P s') (h0 : P (ρ i0)) :
    ∀ j, i0 ≤ j → P (ρ j) := by
  intro j hj
  induction j with
  | zero => have : i0 = 0 := by omega
            subst this; exact h0
  | succ n ih =>
    by_cases h : i0 = n + 1
    · subst h; exact h0
    · have hn := ih (by omega)
      cases hl : ℓ n with
      | none => rw [hrun.idle n hl]; exact hn
      | some l => exact hstep _ l _ (hinv n (by omega)) hn (hrun.move n l hl)

/-- **until**: `P` holds until `Q` – if every step from a `P ∧ ¬Q` state (under `Inv`) leads to `P ∨ Q` – so on a
run either `Q` is reached or `P` holds for ever. -/
theorem unless_along {step : σ → L → Option σ} {ρ ℓ} (hrun : IsRun step ρ ℓ) (Inv P Q : σ → Prop) (i0 : Nat)
    (hinv : ∀ j, i0 ≤ j → Inv (ρ j))
    (hstep : ∀ s l s', Inv s → P s → ¬ Q s → step s l = some s' → P s' ∨ Q s') (h0 : P (ρ i0))
    (hnq : ∀ j, i0 ≤ j → ¬ Q (ρ j)) : ∀ j, i0 ≤ j → P (ρ j) := by
  intro j hj
  induction j with
  | zero => have : i0 = 0 := by omega
            subst this; exact h0
  | succ n ih =>
    by_cases h : i0 = n + 1
    · subst h; exact h0
    · have hn := ih (by omega)
      cases hl : ℓ n with
      | none => rw [hrun.idle n hl]; exact hn
      | some l =>
        rcases hstep _ l _ (hinv n (by omega)) hn (hnq n (by omega)) (hrun.move n l hl) with h | h
        · exact h
        · exact absurd h (hnq (n + 1) hj)

/-- Core of the leads-to rule, with the progress argument abstracted: as long as the goal is not reached no step
increases the measure, and as long as the goal is never reached a strictly decreasing step keeps coming. -/
theorem measure_leadsto_core {step : σ → L → Option σ} {ρ ℓ} (hrun : IsRun step ρ ℓ)
    (Inv Goal : σ → Prop) (μ : σ → Nat) (i0 : Nat)
    (hinv : ∀ j, i0 ≤ j → Inv (ρ j))
    (hle : ∀ s l s', Inv s → ¬ Goal s → step s l = some s' → μ s' ≤ μ s ∨ Goal s')
    (hprog : ∀ i, i0 ≤ i → (∀ j, i ≤ j → ¬ Goal (ρ j)) → ∃ j, i ≤ j ∧ μ (ρ (j + 1)) < μ (ρ j)) :
    ∃ j, i0 ≤ j ∧ Goal (ρ j) := by
  apply Classical.byContradiction
  intro hno
  have hng : ∀ j, i0 ≤ j → ¬ Goal (ρ j) := fun j hj hg => hno ⟨j, hj, hg⟩
  -- the measure never increases
  have hstep1 : ∀ j, i0 ≤ j → μ (ρ (j + 1)) ≤ μ (ρ j) := by
    intro j hj
    cases hl : ℓ j with
    | none => rw [hrun.idle j hl]; exact Nat.le_refl _
    | some l =>
      rcases hle _ l _ (hinv j hj) (hng j hj) (hrun.move j l hl) with h | h
      · exact h
      · exact absurd h (hng (j + 1) (by omega))
  have hmono : ∀ i, i0 ≤ i → ∀ d, μ (ρ (i + d)) ≤ μ (ρ i) := by
    intro i hi d
    induction d with
    | zero => exact Nat.le_refl _
    | succ d ih => exact Nat.le_trans (hstep1 (i + d) (by omega)) ih
  have key : ∀ n i, i0 ≤ i → μ (ρ i) = n → False := by
    intro n
    induction n using Nat.strongRecOn with
    | _ n ih =>
      intro i hi hn
      obtain ⟨j, hj, hd⟩ := hprog i hi (fun j hj => hng j (Nat.le_trans hi hj))
      have h1 : μ (ρ j) ≤ μ (ρ i) := by
        have := hmono i hi (j - i)
        rwa [show i + (j - i) = j by omega] at this
      exact ih (μ (ρ (j + 1))) (by omega) (j + 1) (by omega) rfl
  exact key _ i0 (Nat.le_refl _) rfl

/-- **Leads-to rule for a family of agents.**  `A k` are the steps of agent `k`, `En k s` says that agent `k` wants
to (and can) move in `s`; the progress hypothesis `hprog` for agent `k` is weak fairness when `En k = Enabled (A k)`.
(1) outside the goal some agent wants to move; (2) a step of any agent strictly decreases `μ` (or reaches the goal);
(3) every other step does not increase `μ`; (4) an agent that wants to move still does after a step that is not its
own (unless that step decreased `μ`).  Then the goal is reached from every position `i0` after which the invariant
holds. -/
theorem fair_measure_leadsto_family {step : σ → L → Option σ} {ρ ℓ} (hrun : IsRun step ρ ℓ) {κ : Type}
    (A : κ → L → Prop) (En : κ → σ → Prop) (Inv Goal : σ → Prop) (μ : σ → Nat) (i0 : Nat)
    (hinv : ∀ j, i0 ≤ j → Inv (ρ j))
    (hprog : ∀ k, Progress ρ ℓ (En k) (A k))
    (h1 : ∀ s, Inv s → ¬ Goal s → ∃ k, En k s)
    (h2 : ∀ s l s' k, Inv s → ¬ Goal s → A k l → step s l = some s' → μ s' < μ s ∨ Goal s')
    (h3 : ∀ s l s', Inv s → ¬ Goal s → (∀ k, ¬ A k l) → step s l = some s' → μ s' ≤ μ s ∨ Goal s')
    (h4 : ∀ s l s' k, Inv s → ¬ Goal s → En k s → ¬ A k l → step s l = some s' → En k s' ∨ Goal s' ∨ μ s' < μ s) :
    ∃ j, i0 ≤ j ∧ Goal (ρ j) := by
  refine measure_leadsto_core hrun Inv Goal μ i0 hinv ?_ ?_
  · intro s l s' hi hg st
    by_cases hd : ∃ k, A k l
    · obtain ⟨k, hk⟩ := hd
      rcases h2 s l s' k hi hg hk st with h | h
      · exact Or.inl (Nat.le_of_lt h)
      · exact Or.inr h
    · exact h3 s l s' hi hg (fun k hk => hd ⟨k, hk⟩) st
  · intro i hi hng
    obtain ⟨k, hk⟩ := h1 _ (hinv i hi) (hng i (Nat.le_refl i))
    apply Classical.byContradiction
    intro hno
    have hnd : ∀ j, i ≤ j → ¬ μ (ρ (j + 1)) < μ (ρ j) := fun j hj h => hno ⟨j, hj, h⟩
    have hnot : ∀ j, i ≤ j → ¬ Took ℓ (A k) j := by
      rintro j hj ⟨l, hl, ha⟩
      rcases h2 _ l _ k (hinv j (by omega)) (hng j hj) ha (hrun.move j l hl) with h | h
      · exact hnd j hj h
      · exact hng (j + 1) (by omega) h
    have hen : ∀ d, En k (ρ (i + d)) := by
      intro d
      induction d with
      | zero => exact hk
      | succ d ih =>
        cases hl : ℓ (i + d) with
        | none => rw [show i + (d + 1) = i + d + 1 by omega, hrun.idle _ hl]; exact ih
        | some l =>
          have st := hrun.move _ l hl
          have hna : ¬ A k l := fun ha => hnot (i + d) (by omega) ⟨l, hl, ha⟩
          rcases h4 _ l _ k (hinv _ (by omega)) (hng _ (by omega)) ih hna st with h | h | h
          · exact h
          · exact absurd h (hng (i + d + 1) (by omega))
          · exact absurd h (hnd (i + d) (by omega))
    obtain ⟨j, hj, ht⟩ := hprog k i (fun j hj => by
      have := hen (j - i)
      rwa [show i + (j - i) = j by omega] at this)
    exact hnot j hj ht

/-- **`fair_measure_leadsto`** (one agent).  Given an invariant `Inv` that holds along the run from `i0` on, a goal
`Goal` and a measure `μ` with (1) outside the goal a step of `A` is enabled, (2) a step of `A` gives `μ s' < μ s` or
reaches the goal, (3) any other step gives `μ s' ≤ μ s` or reaches the goal: on every run that is weakly fair for `A`
the goal is reached at some `j ≥ i0`. -/
theorem fair_measure_leadsto {step : σ → L → Option σ} {ρ ℓ} (hrun : IsRun step ρ ℓ)
    (A : L → Prop) (Inv Goal : σ → Prop) (μ : σ → Nat) (i0 : Nat)
    (hinv : ∀ j, i0 ≤ j → Inv (ρ j))
    (hfair : WeakFair step ρ ℓ A)
    (h1 : ∀ s, Inv s → ¬ Goal s → Enabled step A s)
    (h2 : ∀ s l s', Inv s → ¬ Goal s → A l → step s l = some s' → μ s' < μ s ∨ Goal s')
    (h3 : ∀ s l s', Inv s → ¬ Goal s → ¬ A l → step s l = some s' → μ s' ≤ μ s ∨ Goal s') :
    ∃ j, i0 ≤ j ∧ Goal (ρ j) := by
  refine measure_leadsto_core hrun Inv Goal μ i0 hinv ?_ ?_
  · intro s l s' hi hg st
    by_cases hd : A l
    · rcases h2 s l s' hi hg hd st with h | h
      · exact Or.inl (Nat.le_of_lt h)
      · exact Or.inr h
    · exact h3 s l s' hi hg hd st
  · intro i hi hng
    obtain ⟨j, hj, l, hl, ha⟩ := hfair i (fun j hj => h1 _ (hinv j (Nat.le_trans hi hj)) (hng j hj))
    refine ⟨j, hj, ?_⟩
    rcases h2 _ l _ (hinv j (by omega)) (hng j hj) ha (hrun.move j l hl) with h | h
    · exact h
    · exact absurd h (hng (j + 1) (by omega))

/-- the rule as a leads-to statement (`Inv` holding along the whole run) -/
theorem fair_measure_leadsTo {step : σ → L → Option σ} {ρ ℓ} (hrun : IsRun step ρ ℓ)
    (A : L → Prop) (Inv P Goal : σ → Prop) (μ : σ → Nat)
    (hinv : ∀ j, Inv (ρ j))
    (hfair : WeakFair step ρ ℓ A)
    (hP : ∀ s l s', Inv s → P s → ¬ Goal s → step s l = some s' → P s' ∨ Goal s')
    (h1 : ∀ s, Inv s → P s → ¬ Goal s → Enabled step A s)
    (h2 : ∀ s l s', Inv s → P s → ¬ Goal s → A l → step s l = some s' → μ s' < μ s ∨ Goal s')
    (h3 : ∀ s l s', Inv s → P s → ¬ Goal s → ¬ A l → step s l = some s' → μ s' ≤ μ s ∨ Goal s') :
    LeadsTo ρ P Goal := by
  intro i hp
  apply Classical.byContradiction
  intro hno
  have hng : ∀ j, i ≤ j → ¬ Goal (ρ j) := fun j hj hg => hno ⟨j, hj, hg⟩
  have hPs := unless_along hrun Inv P Goal i (fun j _ => hinv j) hP hp hng
  exact hno (fair_measure_leadsto hrun A (fun s => Inv s ∧ P s) Goal μ i (fun j hj => ⟨hinv j, hPs j hj⟩) hfair
    (fun s h => h1 s h.1 h.2) (fun s l s' h => h2 s l s' h.1 h.2) (fun s l s' h => h3 s l s' h.1 h.2))

/-- the same from a position `i0` on (the invariant need only hold from there) -/
theorem fair_measure_leadsTo_from {step : σ → L → Option σ} {ρ ℓ} (hrun : IsRun step ρ ℓ)
    (A : L → Prop) (Inv P Goal : σ → Prop) (μ : σ → Nat) (i0 : Nat)
    (hinv : ∀ j, i0 ≤ j → Inv (ρ j))
    (hfair : WeakFair step ρ ℓ A)
    (hP : ∀ s l s', Inv s → P s → ¬ Goal s → step s l = some s' → P s' ∨ Goal s')
    (h1 : ∀ s, Inv s → P s → ¬ Goal s → Enabled step A s)
    (h2 : ∀ s l s', Inv s → P s → ¬ Goal s → A l → step s l = some s' → μ s' < μ s ∨ Goal s')
    (h3 : ∀ s l s', Inv s → P s → ¬ Goal s → ¬ A l → step s l = some s' → μ s' ≤ μ s ∨ Goal s') :
    ∀ i, i0 ≤ i → P (ρ i) → ∃ j, i ≤ j ∧ Goal (ρ j) := by
  intro i hi hp
  apply Classical.byContradiction
  intro hno
  have hng : ∀ j, i ≤ j → ¬ Goal (ρ j) := fun j hj hg => hno ⟨j, hj, hg⟩
  have hPs := unless_along hrun Inv P Goal i (fun j hj => hinv j (Nat.le_trans hi hj)) hP hp hng
  exact hno (fair_measure_leadsto hrun A (fun s => Inv s ∧ P s) Goal μ i
    (fun j hj => ⟨hinv j (Nat.le_trans hi hj), hPs j hj⟩) hfair
    (fun s h => h1 s h.1 h.2) (fun s l s' h => h2 s l s' h.1 h.2) (fun s l s' h => h3 s l s' h.1 h.2))

/-- the position of the first step of `A` at or after `i`, when there is one -/
theorem first_took {ℓ : Nat → Option L} {A : L → Prop} {i j : Nat} (hij : i ≤ j) (ht : Took ℓ A j) :
    ∃ j', i ≤ j' ∧ Took ℓ A j' ∧ ∀ m, i ≤ m → m < j' → ¬ Took ℓ A m := by
  induction j using Nat.strongRecOn with
  | _ j ih =>
    by_cases h : ∃ m, i ≤ m ∧ m < j ∧ Took ℓ A m
    · obtain ⟨m, hm1, hm2, hm3⟩ := h
      exact ih m hm2 hm1 hm3
    · exact ⟨j, hij, ht, fun m hm1 hm2 hm3 => h ⟨m, hm1, hm2, hm3⟩⟩

/-- between a position where `P` holds and a later one where it does not, some step falsifies it -/
theorem change_step {ρ : Nat → σ} (P : σ → Prop) {i j : Nat} (hij : i ≤ j) (hi : P (ρ i)) (hj : ¬ P (ρ j)) :
    ∃ m, i ≤ m ∧ m < j ∧ P (ρ m) ∧ ¬ P (ρ (m + 1)) := by
  induction j with
  | zero => have : i = 0 := by omega
            subst this; exact absurd hi hj
  | succ n ih =>
    by_cases hn : P (ρ n)
    · by_cases h : i = n + 1
      · subst h; exact absurd hi hj
      · exact ⟨n, by omega, by omega, hn, hj⟩
    · by_cases h : i = n + 1
      · subst h; exact absurd hi hj
      · obtain ⟨m, h1, h2, h3⟩ := ih (by omega) hn
        exact ⟨m, h1, by omega, h3⟩

/-! ### suffixes of runs -/

theorem IsRun.shift {step : σ → L → Option σ} {ρ ℓ} (h : IsRun step ρ ℓ) (n : Nat) :
    IsRun step (fun k => ρ (n + k)) (fun k => ℓ (n + k)) :=
  ⟨fun i l hl => h.move (n + i) l hl, fun i hl => h.idle (n + i) hl⟩

theorem Progress.shift {ρ : Nat → σ} {ℓ : Nat → Option L} {En : σ → Prop} {A : L → Prop} (h : Progress ρ ℓ En A) (n : Nat) :
    Progress (fun k => ρ (n + k)) (fun k => ℓ (n + k)) En A := by
  intro i he
  obtain ⟨j, hj, ht⟩ := h (n + i) (fun j hj => by
    have := he (j - n) (by omega)
    simp only [show n + (j - n) = j by omega] at this
    exact this)
  refine ⟨j - n, by omega, ?_⟩
  unfold Took at ht ⊢
  simp only [show n + (j - n) = j by omega]
  exact ht

theorem WeakFair.shift {step : σ → L → Option σ} {ρ ℓ} {A : L → Prop} (h : WeakFair step ρ ℓ A) (n : Nat) :
    WeakFair step (fun k => ρ (n + k)) (fun k => ℓ (n + k)) A := Progress.shift h n

/-- finitely many properties that each hold from some point on hold together from some point on -/
theorem eventually_all {α : Type} (ρ : Nat → σ) (P : α → σ → Prop) (xs : List α) (i : Nat)
    (h : ∀ x, x ∈ xs → ∃ j, i ≤ j ∧ ∀ j', j ≤ j' → P x (ρ j')) :
    ∃ j, i ≤ j ∧ ∀ j', j ≤ j' → ∀ x, x ∈ xs → P x (ρ j') := by
  induction xs with
  | nil => exact ⟨i, Nat.le_refl i, fun _ _ x hx => by simp at hx⟩
  | cons a r ih =>
    obtain ⟨j1, h1, p1⟩ := h a (by simp)
    obtain ⟨j2, h2, p2⟩ := ih (fun x hx => h x (by simp [hx]))
    refine ⟨max j1 j2, by omega, fun j' hj' x hx => ?_⟩
    simp only [List.mem_cons] at hx
    rcases hx with rfl | hx
    · exact p1 j' (by omega)
    · exact p2 j' (by omega) x hx

/-! ### runs made of a finite prefix followed by idling (for non-vacuity examples) -/

/-- state after `i` steps of the label list (idling once the list is exhausted or a step is not enabled) -/
def prefixState (step : σ → L → Option σ) : σ → List L → Nat → σ
  | s, [], _ => s
  | s, _ :: _, 0 => s
  | s, l :: ls, i + 1 => match step s l with
    | some s' => prefixState step s' ls i
    | none => s

/-- the state the whole list leads to, `none` if some step is not enabled -/
def prefixFinal (step : σ → L → Option σ) : σ → List L → Option σ
  | s, [] => some s
  | s, l :: ls => match step s l with
    | some s' => prefixFinal step s' ls
    | none => none

theorem prefixState_zero (step : σ → L → Option σ) (s : σ) (ls : List L) : prefixState step s ls 0 = s := by
  cases ls <;> rfl

theorem prefix_isRun (step : σ → L → Option σ) (s : σ) (ls : List L) (sf : σ) (h : prefixFinal step s ls = some sf) :
    IsRun step (prefixState step s ls) (fun i => ls[i]?) := by
  induction ls generalizing s with
  | nil => exact ⟨fun i l hl => by simp at hl, fun i _ => rfl⟩
  | cons a ls ih =>
    simp only [prefixFinal] at h
    cases hs : step s a with
    | none => rw [hs] at h; simp at h
    | some s1 =>
      rw [hs] at h
      have r := ih s1 h
      constructor
      · intro i l hl
        cases i with
        | zero =>
          simp only [List.getElem?_cons_zero, Option.some.injEq] at hl
          subst hl
          simp only [prefixState, hs, prefixState_zero]
        | succ i =>
          simp only [List.getElem?_cons_succ] at hl
          simp only [prefixState, hs]
          exact r.move i l hl
      · intro i hl
        cases i with
        | zero => simp at hl
        | succ i =>
          simp only [List.getElem?_cons_succ] at hl
          simp only [prefixState, hs]
          exact r.idle i hl

theorem prefixState_final (step : σ → L → Option σ) (s : σ) (ls : List L) (sf : σ) (h : prefixFinal step s ls = some sf) :
    ∀ i, ls.length ≤ i → prefixState step s ls i = sf := by
  induction ls generalizing s with
  | nil => intro i _; simp only [prefixFinal, Option.some.injEq] at h; subst h; rfl
  | cons a ls ih =>
    simp only [prefixFinal] at h
    cases hs : step s a with
    | none => rw [hs] at h; simp at h
    | some s1 =>
      rw [hs] at h
      intro i hi
      cases i with
      | zero => simp at hi
      | succ i =>
        simp only [prefixState, hs]
        exact ih s1 h i (by simpa using hi)

/-- a run that ends in a state where no step of `A` is enabled is weakly fair for `A` -/
theorem weakFair_of_final {step : σ → L → Option σ} {ρ : Nat → σ} {ℓ : Nat → Option L} (A : L → Prop) (N : Nat) (sf : σ)
    (hfin : ∀ i, N ≤ i → ρ i = sf) (hdis : ¬ Enabled step A sf) : WeakFair step ρ ℓ A := by
  intro i he
  have := he (i + N) (by omega)
  rw [hfin (i + N) (by omega)] at this
  exact absurd this hdis

end

/-! ### finite sums of per-thread measures -/

/-- `f 0 + … + f (n-1)` -/
def sumTo (n : Nat) (f : Nat → Nat) : Nat :=
  match n with
  | 0 => 0
  | n + 1 => sumTo n f + f n

theorem sumTo_le {n : Nat} {f g : Nat → Nat} (h : ∀ i, i < n → f i ≤ g i) : sumTo n f ≤ sumTo n g := by
  induction n with
  | zero => exact Nat.le_refl _
  | succ n ih =>
    have h1 := ih (fun i hi => h i (by omega))
    have h2 := h n (by omega)
    simp only [sumTo]; omega

theorem sumTo_congr {n : Nat} {f g : Nat → Nat} (h : ∀ i, i < n → f i = g i) : sumTo n f = sumTo n g := by
  apply Nat.le_antisymm
  · exact sumTo_le (fun i hi => Nat.le_of_eq (h i hi))
  · exact sumTo_le (fun i hi => Nat.le_of_eq (h i hi).symm)

/-- one summand strictly smaller, no summand larger -/
theorem sumTo_lt {n : Nat} {f g : Nat → Nat} (k : Nat) (hk : k < n) (hlt : f k < g k)
    (h : ∀ i, i < n → f i ≤ g i) : sumTo n f < sumTo n g := by
  induction n with
  | zero => omega
  | succ n ih =>
    simp only [sumTo]
    by_cases hkn : k = n
    · subst hkn
      have := sumTo_le (n := k) (fun i hi => h i (by omega))
      omega
    · have := ih (by omega) (fun i hi => h i (by omega))
      have := h n (by omega)
      omega

theorem sumTo_eq_zero {n : Nat} {f : Nat → Nat} (h : ∀ i, i < n → f i = 0) : sumTo n f = 0 := by
  induction n with
  | zero => rfl
  | succ n ih => simp only [sumTo, ih (fun i hi => h i (by omega)), h n (by omega)]

theorem sumTo_zero {n : Nat} {f : Nat → Nat} (h : sumTo n f = 0) : ∀ i, i < n → f i = 0 := by
  induction n with
  | zero => intro i hi; omega
  | succ n ih =>
    simp only [sumTo] at h
    intro i hi
    by_cases hin : i = n
    · subst hin; omega
    · exact ih (by omega) i (by omega)

/-! ### Non-vacuity: a toy system

A counter that a worker decrements (`dec`, enabled while it is positive) and a bystander that spins (`spin`, always
enabled, changes nothing).  Goal: the counter reaches 0. -/
namespace Toy

inductive Lab | dec | spin
  deriving DecidableEq

def step (s : Nat) : Lab → Option Nat
  | .dec => if 0 < s then some (s - 1) else none
  | .spin => some s

def isDec : Lab → Prop := fun l => l = .dec

/-- on EVERY run that is weakly fair for the worker the counter reaches 0 -/
theorem reaches_zero {ρ : Nat → Nat} {ℓ : Nat → Option Lab} (hrun : IsRun step ρ ℓ) (hfair : WeakFair step ρ ℓ isDec) :
    ∃ j, ρ j = 0 := by
  obtain ⟨j, -, hj⟩ := fair_measure_leadsto hrun isDec (fun _ => True) (fun s => s = 0) (fun s => s) 0
    (fun _ _ => trivial) hfair
    (by intro s _ hs; exact ⟨.dec, rfl, by simp [step]; omega⟩)
    (by intro s l s' _ hs hl st
        cases hl; simp only [step] at st; split at st
        · simp only [Option.some.injEq] at st; omega
        · simp at st)
    (by intro s l s' _ hs hl st
        cases l with
        | dec => exact absurd rfl hl
        | spin => simp only [step, Option.some.injEq] at st; omega)
  exact ⟨j, hj⟩

/-- a fair run from 3: the worker is scheduled three times, then everything idles -/
def ρfair : Nat → Nat := fun i => 3 - i
def ℓfair : Nat → Option Lab := fun i => if i < 3 then some .dec else none

theorem fair_isRun : IsRun step ρfair ℓfair := by
  constructor
  · intro i l hl
    simp only [ℓfair] at hl
    split at hl
    · simp only [Option.some.injEq] at hl; subst hl
      show (if 0 < 3 - i then some (3 - i - 1) else none) = some (3 - (i + 1))
      rw [if_pos (by omega)]; congr 1
    · simp at hl
  · intro i hl
    simp only [ℓfair] at hl
    split at hl
    · simp at hl
    · simp only [ρfair]; omega

theorem fair_weakFair : WeakFair step ρfair ℓfair isDec := by
  intro i he
  -- at position `max i 3` the counter is 0 and the worker is disabled: the premise is false
  obtain ⟨l, hl, hen⟩ := he (i + 3) (by omega)
  cases hl
  simp [step, ρfair] at hen

/-- the hypotheses of `reaches_zero` are satisfiable, and the goal is reached at position 3 (not before) -/
example : ∃ j, ρfair j = 0 := reaches_zero fair_isRun fair_weakFair
example : ρfair 3 = 0 ∧ ρfair 2 ≠ 0 := by decide

/-- the unfair run: only the bystander is ever scheduled -/
def ρspin : Nat → Nat := fun _ => 3
def ℓspin : Nat → Option Lab := fun _ => some .spin

theorem spin_isRun : IsRun step ρspin ℓspin := by
  constructor
  · intro i l hl
    simp only [ℓspin, Option.some.injEq] at hl; subst hl; rfl
  · intro i hl; simp [ℓspin] at hl

/-- it is a run, it never reaches the goal, and it is not weakly fair for the worker: fairness matters -/
theorem spin_never : ∀ j, ρspin j ≠ 0 := fun _ => by simp [ρspin]
theorem spin_not_fair : ¬ WeakFair step ρspin ℓspin isDec := by
  intro h
  obtain ⟨j, -, l, hl, ha⟩ := h 0 (fun j _ => ⟨.dec, rfl, by simp [step, ρspin]⟩)
  simp only [ℓspin, Option.some.injEq] at hl
  subst hl
  cases ha

/-- the same for the run that idles for ever -/
theorem idle_isRun : IsRun step ρspin (fun _ => none) := ⟨fun _ _ h => by simp at h, fun _ _ => rfl⟩
theorem idle_not_fair : ¬ WeakFair step ρspin (fun _ => none) isDec := by
  intro h
  obtain ⟨j, -, l, hl, -⟩ := h 0 (fun j _ => ⟨.dec, rfl, by simp [step, ρspin]⟩)
  simp at hl

end Toy

end UrcuVerif.Fair
