import UrcuVerif.RcuList.Inv
/-! Termination measure of a traversal and derived facts (helper lemmas for `Props/C18.lean`). -/
set_option linter.unusedVariables false
set_option linter.unusedSimpArgs false
namespace UrcuVerif.RcuList

/-- nodes (ever published) that lie after position `p` in the history order, plus one: an upper
bound on the number of `rcu_dereference` loads the traversal of reader `i` still has to make if no
further update reaches memory -/
def mu (s : State) (i : Nat) : Nat :=
  match s.pos i with
  | some p => (s.m.hist.filter (fun y => s.m.bef p y)).length + 1
  | none => 0

theorem filter_length_lt {α} (P Q : α → Bool) (l : List α) (q : α) (himp : ∀ y, y ∈ l → Q y = true → P y = true)
    (hq : q ∈ l) (hP : P q = true) (hQ : Q q = false) : (l.filter Q).length < (l.filter P).length := by
  induction l with
  | nil => simp at hq
  | cons x xs ih =>
    have hle : ∀ (ys : List α), (∀ y, y ∈ ys → Q y = true → P y = true) → (ys.filter Q).length ≤ (ys.filter P).length := by
      intro ys; induction ys with
      | nil => simp
      | cons z zs ih2 =>
        intro hz
        have h1 := ih2 (fun y hy => hz y (by simp [hy]))
        have h2 := hz z (by simp)
        simp only [List.filter_cons]
        cases hQz : Q z <;> cases hPz : P z <;> simp_all <;> omega
    simp only [List.mem_cons] at hq
    have hx := himp x (by simp)
    have hrest := hle xs (fun y hy => himp y (by simp [hy]))
    simp only [List.filter_cons]
    rcases hq with rfl | hq
    · simp [hP, hQ]; omega
    · have := ih (fun y hy => himp y (by simp [hy])) hq
      cases hQx : Q x <;> cases hPx : P x <;> simp_all <;> omega

theorem filter_length_congr {α} (P Q : α → Bool) (l : List α) (h : ∀ y, y ∈ l → P y = Q y) :
    (l.filter P).length = (l.filter Q).length := by
  rw [List.filter_congr h]

/-- the position of a traversing reader is a published node (or the head) -/
theorem Inv.pos_pub {c : Cfg} {s : State} (h : Inv c s) {i p : Nat} (hp : s.pos i = some p) : s.m.pub p := by
  by_cases hp0 : p = 0
  · subst hp0; exact Or.inl h.sm.head_live
  · have := h.r_pos i p hp hp0; simp only [Seq.pub]; grind

theorem mu_rNext (c : Cfg) {s s' : State} (h : Inv c s) (i : Nat) (st : step c s (.rNext i) = some s') :
    mu s' i < mu s i := by
  simp only [step] at st; split at st <;> (try split at st) <;> simp at st <;> subst st
  · next p hpos hq => simp [mu, hpos, upd]
  · next p hpos hq =>
    have hpp := h.pos_pub hpos
    have hfw := h.sm.fwd p hpp hq
    have hdom := h.sm.dom p _ hfw
    have hin := (h.sm.hist_iff (s.m.next p)).2 ⟨hdom.2.1, hdom.2.2⟩
    have := filter_length_lt (fun y => s.m.bef p y) (fun y => s.m.bef (s.m.next p) y) s.m.hist (s.m.next p)
      (fun y _ hy => h.sm.trans _ _ _ hfw hy) hin hfw (h.sm.irr _)
    simp [mu, hpos, upd]; omega

theorem mu_flush (c : Cfg) (hb : c.bug = .none) {s s' : State} (h : Inv c s) (i : Nat)
    (st : step c s .flush = some s') : mu s' i ≤ mu s i + 1 := by
  simp only [step] at st; split at st <;> (try split at st) <;> simp at st; subst st
  next e rest hbuf _ m' hm =>
  have M := mono_ustep c hb h.sm hm
  cases hpos : s.pos i with
  | none => simp [mu, hpos]
  | some p =>
    have hpp := h.pos_pub hpos
    have hcongr : ∀ y, y ∈ s.m.hist → m'.bef p y = s.m.bef p y :=
      fun y hy => M.bef_old p y hpp ((h.sm.hist_iff y).1 hy).1
    have e1 := filter_length_congr (fun y => m'.bef p y) (fun y => s.m.bef p y) s.m.hist hcongr
    simp only [mu, hpos]
    rcases M.hist_grow with hh | ⟨n, hh, _⟩
    · rw [hh]; omega
    · rw [hh, List.filter_cons]; split <;> simp <;> omega

theorem mu_other (c : Cfg) {s s' : State} (i : Nat) (l : Label) (st : step c s l = some s')
    (h1 : l ≠ .rStart i) (h2 : l ≠ .flush) (h3 : l ≠ .rNext i) : mu s' i ≤ mu s i := by
  cases l with
  | u l => simp only [step] at st; split at st <;> simp at st; subst st; simp [mu]
  | flush => exact absurd rfl h2
  | rLock j => simp only [step] at st; split at st <;> simp at st; subst st; simp [mu]
  | rUnlock j =>
    simp only [step] at st; split at st <;> simp at st; subst st
    by_cases hj : i = j
    · subst hj; simp [mu, upd]
    · simp [mu, upd, hj]
  | rStart j =>
    simp only [step] at st; split at st <;> simp at st; subst st
    have hj : i ≠ j := fun e => h1 (by rw [e])
    simp [mu, upd, hj]
  | rNext j =>
    have hj : i ≠ j := fun e => h3 (by rw [e])
    simp only [step] at st; split at st <;> (try split at st) <;> simp at st <;> subst st <;> simp [mu, upd, hj]
  | rRead j => simp only [step] at st; split at st <;> (try split at st) <;> simp at st; subst st; simp [mu]
  | gpStart => simp only [step] at st; split at st <;> simp at st; subst st; simp [mu]
  | gpEnd => simp only [step] at st; split at st <;> (try split at st) <;> simp at st; subst st; simp [mu]
  | free x => simp only [step] at st; split at st <;> simp at st; subst st; simp [mu]

theorem run_reach (c : Cfg) {s s' : State} (ls : List Label) (h : Reach c s)
    (hr : run c s ls = some s') : Reach c s' := by
  induction ls generalizing s with
  | nil => simp [run] at hr; subst hr; exact h
  | cons l ls ih =>
    simp only [run] at hr
    split at hr
    · simp at hr
    · next s1 hs => exact ih (Reach.step h hs) hr

theorem pairwise_irrefl_nodup {α} {R : α → α → Prop} {l : List α} (hp : l.Pairwise R) (hir : ∀ a, ¬ R a a) :
    l.Nodup := by
  induction l with
  | nil => exact List.nodup_nil
  | cons x xs ih =>
    rw [List.pairwise_cons] at hp
    rw [List.nodup_cons]
    exact ⟨fun hx => hir x (hp.1 x hx), ih hp.2⟩

end UrcuVerif.RcuList
