import UrcuVerif.RcuList.SeqInv
/-! Invariant of the TSO machine of `RcuList/Model.lean` (helper lemmas; statements in `Props/C18.lean`). -/
set_option linter.unusedVariables false
set_option linter.unusedSimpArgs false
set_option linter.unusedSimpArgs false
namespace UrcuVerif.RcuList

inductive Reach (c : Cfg) : State → Prop
  | init : Reach c init
  | step {s s' l} : Reach c s → step c s l = some s' → Reach c s'

/-- the buffer is exactly the sequence of steps that leads from the memory state to the updater's
view, and each buffered concrete store is the one the memory-side step performs -/
def Link (c : Cfg) : Seq → List Entry → Seq → Prop
  | m, [], u => u = m
  | m, e :: r, u => e.store = storeOf c m e.lab ∧ ∃ x, ustep c m e.lab = some x ∧ Link c x r u

theorem link_snoc (c : Cfg) {m u u' : Seq} {b : List Entry} {l : ULabel} (h : Link c m b u)
    (st : ustep c u l = some u') : Link c m (b ++ [⟨l, storeOf c u l⟩]) u' := by
  induction b generalizing m with
  | nil => simp only [Link] at h; subst h; simp [Link, st]
  | cons e r ih =>
    obtain ⟨h1, x, h2, h3⟩ := h
    exact ⟨h1, x, h2, ih h3⟩

/-- memory fields after a step = memory fields before, with the step's concrete store applied -/
def wr (x : Seq) : Option (Loc × Nat) → (Nat → Nat) × (Nat → Nat) × (Nat → Bool)
  | none => (x.next, x.prev, x.data)
  | some (.next a, v) => (upd x.next a v, x.prev, x.data)
  | some (.prev a, v) => (x.next, upd x.prev a v, x.data)
  | some (.data a, v) => (x.next, x.prev, upd x.data a (decide (v ≠ 0)))

theorem ustep_writes (c : Cfg) {x x' : Seq} {l : ULabel} (st : ustep c x l = some x') :
    (x'.next, x'.prev, x'.data) = wr x (storeOf c x l) := by
  cases l with
  | add n => simp only [ustep] at st; split at st <;> simp at st; subst st; simp [storeOf, wr]
  | addTail n => simp only [ustep] at st; split at st <;> simp at st; subst st; simp [storeOf, wr]
  | del n => simp only [ustep] at st; split at st <;> simp at st; subst st; simp [storeOf, wr]
  | repl o n => simp only [ustep] at st; split at st <;> simp at st; subst st; simp [storeOf, wr]
  | st =>
    cases hpc : x.pc <;> simp [ustep, hpc] at st <;> (try split at st) <;> (try simp at st) <;> subst st <;>
      simp [storeOf, wr, hpc, pubHead, pubTail, pubRepl, *]


structure Inv (c : Cfg) (s : State) : Prop where
  su : SInv c s.u
  sm : SInv c s.m
  link : Link c s.m s.buf s.u
  clk_cs : ∀ i b, s.cs i = some b → b < s.clock ∧ i < c.n
  clk_gp : s.gpDone < s.clock ∧ ∀ a, s.gpCur = some a → a < s.clock
  tickT_lt : ∀ k, k ≤ s.m.tick → s.tickT k < s.clock
  gp_cs : ∀ i b, s.cs i = some b → s.gpDone ≤ b
  freed_ok : ∀ x, s.freed x = true → s.m.st x = .dead ∧ ∀ i b, s.cs i = some b → s.tickT (s.m.deadS x) < b
  pos_cs : ∀ i p, s.pos i = some p → s.cs i ≠ none
  t0_le : ∀ i, s.t0 i ≤ s.m.tick
  r_tick : ∀ i p b, s.pos i = some p → s.cs i = some b → ∀ k, s.t0 i < k → k ≤ s.m.tick → b < s.tickT k
  r_pos : ∀ i p, s.pos i = some p → p ≠ 0 → (s.m.st p = .live ∨ (s.m.st p = .dead ∧ s.t0 i < s.m.deadS p))
  r_vis : ∀ i v, v ∈ s.vis i → v ≠ 0 ∧ s.m.pub v ∧ (s.m.st v = .live ∨ s.t0 i < s.m.deadS v)
  r_before : ∀ i p, s.pos i = some p → ∀ v, v ∈ s.vis i → p ≠ 0 ∧ (v = p ∨ s.m.bef v p = true)
  r_in : ∀ i p, s.pos i = some p → p ≠ 0 → p ∈ s.vis i
  r_ord : ∀ i, (s.vis i).Pairwise (fun a b => s.m.bef a b = true)
  r_res : ∀ i p, s.pos i = some p → ∀ y, y ≠ 0 → s.m.st y = .live → s.m.pubS y ≤ s.t0 i →
    (p ≠ 0 ∧ (y = p ∨ s.m.bef y p = true)) → y ∈ s.vis i
  r_fin : ∀ i, s.fin i = true → s.t1 i ≤ s.m.tick ∧ ∀ y, y ≠ 0 → s.m.pub y → s.m.pubS y ≤ s.t0 i →
    (s.m.st y = .live ∨ s.t1 i < s.m.deadS y) → y ∈ s.vis i
  r_init : ∀ i, s.sawUninit i = false
  r_free : ∀ i, s.touchedFreed i = false

theorem inv_init (c : Cfg) : Inv c init := by
  constructor <;> simp [init, Link, sinv_init]


set_option hygiene false in
macro "easy_tac" : tactic => `(tactic| (
  have k4 := h.clk_cs
  have k5 := h.clk_gp
  have k6 := h.tickT_lt
  have k7 := h.gp_cs
  have k9 := h.pos_cs
  have k10 := h.t0_le
  have hdl := h.sm.dead_le
  have hhl := h.sm.head_live
  have hdat := h.sm.data_ok
  simp only [Seq.pub] at hdat
  constructor
  case su => first | exact h.su | assumption
  case sm => first | exact h.sm | assumption
  case link => first | exact h.link | assumption
  case clk_cs => have hc := h.clk_cs; simp [upd, Seq.pub] at *; (first | grind | (intro j; split <;> simp [*]))
  case clk_gp => have hc := h.clk_gp; simp [upd, Seq.pub] at *; (first | grind | (intro j; split <;> simp [*]))
  case tickT_lt => have hc := h.tickT_lt; simp [upd, Seq.pub] at *; (first | grind | (intro j; split <;> simp [*]))
  case gp_cs => have hc := h.gp_cs; simp [upd, Seq.pub] at *; (first | grind | (intro j; split <;> simp [*]))
  case freed_ok => have hc := h.freed_ok; simp [upd, Seq.pub] at *; (first | grind | (intro j; split <;> simp [*]))
  case pos_cs => have hc := h.pos_cs; simp [upd, Seq.pub] at *; (first | grind | (intro j; split <;> simp [*]))
  case t0_le => have hc := h.t0_le; simp [upd, Seq.pub] at *; (first | grind | (intro j; split <;> simp [*]))
  case r_tick => have hc := h.r_tick; simp [upd, Seq.pub] at *; (first | grind | (intro j; split <;> simp [*]))
  case r_pos => have hc := h.r_pos; simp [upd, Seq.pub] at *; (first | grind | (intro j; split <;> simp [*]))
  case r_vis => have hc := h.r_vis; simp [upd, Seq.pub] at *; (first | grind | (intro j; split <;> simp [*]))
  case r_before => have hc := h.r_before; simp [upd, Seq.pub] at *; (first | grind | (intro j; split <;> simp [*]))
  case r_in => have hc := h.r_in; simp [upd, Seq.pub] at *; (first | grind | (intro j; split <;> simp [*]))
  case r_ord => have hc := h.r_ord; simp [upd, Seq.pub] at *; (first | grind | (intro j; split <;> simp [*]))
  case r_res => have hc := h.r_res; simp [upd, Seq.pub] at *; (first | grind | (intro j; split <;> simp [*]))
  case r_fin => have hc := h.r_fin; simp [upd, Seq.pub] at *; (first | grind | (intro j; split <;> simp [*]))
  case r_init => have hc := h.r_init; simp [upd, Seq.pub] at *; (first | grind | (intro j; split <;> simp [*]))
  case r_free => have hc := h.r_free; simp [upd, Seq.pub] at *; (first | grind | (intro j; split <;> simp [*]))))

theorem inv_rLock (c : Cfg) {s s' : State} (h : Inv c s) (i : Nat) (st : step c s (.rLock i) = some s') : Inv c s' := by
  simp only [step] at st; split at st <;> simp at st; subst st
  easy_tac

theorem inv_rUnlock (c : Cfg) {s s' : State} (h : Inv c s) (i : Nat) (st : step c s (.rUnlock i) = some s') : Inv c s' := by
  simp only [step] at st; split at st <;> simp at st; subst st
  easy_tac

theorem inv_rStart (c : Cfg) {s s' : State} (h : Inv c s) (i : Nat) (st : step c s (.rStart i) = some s') : Inv c s' := by
  simp only [step] at st; split at st <;> simp at st; subst st
  easy_tac

/-- a reader positioned on `p` inside a section never sits on a freed node, and `p` is initialised -/
theorem Inv.pos_safe {c : Cfg} {s : State} (h : Inv c s) {i p : Nat} (hp : s.pos i = some p) :
    s.freed p = false ∧ (p ≠ 0 → s.m.data p = true) := by
  have k8 := h.freed_ok p
  have k9 := h.pos_cs i p hp
  have k12 := h.r_pos i p hp
  have hdl := h.sm.dead_le p
  have hhl := h.sm.head_live
  have hdat := h.sm.data_ok p
  simp only [Seq.pub] at hdat
  cases hcs : s.cs i with
  | none => simp [hcs] at k9
  | some b =>
    have k11 := h.r_tick i p b hp hcs (s.m.deadS p)
    constructor
    · cases hf : s.freed p with
      | false => rfl
      | true =>
        have := k8 hf
        have := this.2 i b hcs
        by_cases hp0 : p = 0
        · subst hp0; grind
        · grind
    · grind

theorem inv_rRead (c : Cfg) {s s' : State} (h : Inv c s) (i : Nat) (st : step c s (.rRead i) = some s') : Inv c s' := by
  simp only [step] at st; split at st <;> (try split at st) <;> simp at st; subst st
  next p hpos hp0 =>
  have hsafe := h.pos_safe hpos
  easy_tac

theorem inv_gpStart (c : Cfg) {s s' : State} (h : Inv c s) (st : step c s .gpStart = some s') : Inv c s' := by
  simp only [step] at st; split at st <;> simp at st; subst st
  easy_tac

theorem inv_gpEnd (c : Cfg) {s s' : State} (h : Inv c s) (st : step c s .gpEnd = some s') : Inv c s' := by
  simp only [step] at st; split at st <;> (try split at st) <;> simp at st; subst st
  easy_tac

theorem inv_free (c : Cfg) {s s' : State} (h : Inv c s) (x : Nat) (st : step c s (.free x) = some s') : Inv c s' := by
  simp only [step] at st; split at st <;> simp at st; subst st
  easy_tac

theorem inv_u (c : Cfg) (hb : c.bug = .none) {s s' : State} (h : Inv c s) (l : ULabel)
    (st : step c s (.u l) = some s') : Inv c s' := by
  simp only [step] at st; split at st <;> simp at st; subst st
  next u' hu =>
  have hsu := sinv_ustep c hb h.su hu
  have hlink := link_snoc c h.link hu
  easy_tac

theorem pairwise_congr {α} {R S : α → α → Prop} {l : List α} (hp : l.Pairwise R)
    (himp : ∀ a b, a ∈ l → b ∈ l → R a b → S a b) : l.Pairwise S := by
  induction l with
  | nil => exact List.Pairwise.nil
  | cons x xs ih =>
    rw [List.pairwise_cons] at hp ⊢
    exact ⟨fun b hb => himp x b (by simp) (by simp [hb]) (hp.1 b hb),
           ih hp.2 (fun a b ha hb => himp a b (by simp [ha]) (by simp [hb]))⟩

theorem inv_flush (c : Cfg) (hb : c.bug = .none) {s s' : State} (h : Inv c s)
    (st : step c s .flush = some s') : Inv c s' := by
  simp only [step] at st; split at st <;> (try split at st) <;> simp at st; subst st
  next e rest hbuf _ m' hm =>
  have hsm := sinv_ustep c hb h.sm hm
  have M := mono_ustep c hb h.sm hm
  have hlink : Link c m' rest s.u := by
    have := h.link; rw [hbuf] at this
    obtain ⟨_, x, hx, hl⟩ := this
    rw [hm] at hx; cases hx; exact hl
  have k4 := h.clk_cs
  have k6 := h.tickT_lt
  have k10 := h.t0_le
  have hdl := h.sm.dead_le
  have hdl' := hsm.dead_le
  have mt := M.tick
  have mdo := M.dead_old
  have mdn := M.dead_new
  have mpm := M.pub_mono
  have mln := M.live_new
  have mps := M.pubS_old
  have mbo := M.bef_old
  simp only [Seq.pub] at mpm mln mps mbo
  constructor
  case su => exact h.su
  case sm => exact hsm
  case link => exact hlink
  case clk_cs => simp; grind
  case clk_gp => have := h.clk_gp; simp; grind
  case tickT_lt => simp [upd]; grind
  case gp_cs => exact h.gp_cs
  case freed_ok => have := h.freed_ok; simp [upd]; grind
  case pos_cs => exact h.pos_cs
  case t0_le => simp; grind
  case r_tick => have := h.r_tick; simp [upd]; grind
  case r_pos => have := h.r_pos; simp; grind
  case r_vis => have := h.r_vis; simp [Seq.pub] at *; grind
  case r_before => have := h.r_before; have := h.r_vis; have := h.r_pos; have := h.sm.head_live; simp [Seq.pub] at *; grind
  case r_in => exact h.r_in
  case r_ord =>
    intro i
    have hv := h.r_vis i
    simp only [Seq.pub] at hv
    exact pairwise_congr (h.r_ord i) (fun a b ha hb hab => by rw [mbo a b (hv a ha).2.1 (hv b hb).2.1]; exact hab)
  case r_res => have := h.r_res; have := h.r_pos; have hpl := hsm.pub_le; simp [Seq.pub] at *; grind
  case r_fin => have := h.r_fin; have hpl := hsm.pub_le; simp [Seq.pub] at *; grind
  case r_init => exact h.r_init
  case r_free => exact h.r_free

theorem inv_rNext (c : Cfg) {s s' : State} (h : Inv c s) (i : Nat)
    (st : step c s (.rNext i) = some s') : Inv c s' := by
  simp only [step] at st; split at st <;> (try split at st) <;> simp at st <;> subst st
  · -- the traversal is back at the head: complete
    next p hpos hq =>
    have hsafe := (h.pos_safe hpos).1
    have k4 := h.clk_cs
    have k5 := h.clk_gp
    have k6 := h.tickT_lt
    have k9 := h.pos_cs
    have k10 := h.t0_le
    constructor
    case su => exact h.su
    case sm => exact h.sm
    case link => exact h.link
    case clk_cs => simp; grind
    case clk_gp => simp; grind
    case tickT_lt => simp; grind
    case gp_cs => exact h.gp_cs
    case freed_ok => exact h.freed_ok
    case pos_cs => simp [upd]; grind
    case t0_le => exact h.t0_le
    case r_tick => have := h.r_tick; simp [upd]; grind
    case r_pos => have := h.r_pos; simp [upd]; grind
    case r_vis => exact h.r_vis
    case r_before => have := h.r_before; simp [upd]; grind
    case r_in => have := h.r_in; simp [upd]; grind
    case r_ord => exact h.r_ord
    case r_res => have := h.r_res; simp [upd]; grind
    case r_fin =>
      have hres := h.r_res i p hpos; have hrp := h.r_pos i p hpos
      have hhl := h.sm.head_live; have hhf := h.sm.head_first; have hls := h.sm.live_skip p
      have hds := h.sm.dead_skip p; have hdl := h.sm.dead_le; have htot := h.sm.total
      simp only [Seq.pub] at *
      intro j hj
      by_cases hji : j = i
      · subst hji; simp [upd]
        intro y hy0 hyp hyt hyl
        by_cases hp0 : p = 0
        · subst hp0; grind
        · have := htot y p; grind
      · simp [upd, hji] at hj ⊢; exact h.r_fin j hj
    case r_init => exact h.r_init
    case r_free => simp [upd, hsafe]; have := h.r_free; grind
  · -- step to the next node
    next p hpos hq =>
    have hsafe := (h.pos_safe hpos).1
    have k4 := h.clk_cs
    have k5 := h.clk_gp
    have k6 := h.tickT_lt
    have k9 := h.pos_cs
    have k10 := h.t0_le
    have hhl := h.sm.head_live
    have hrp := h.r_pos i p hpos
    have hpp : s.m.pub p := by
      by_cases hp0 : p = 0
      · subst hp0; exact Or.inl hhl
      · have := hrp hp0; simp only [Seq.pub]; grind
    have hfw := h.sm.fwd p hpp hq
    have hdom := h.sm.dom p (s.m.next p) hfw
    have hln := h.sm.live_next p
    have hdn := h.sm.dead_next p
    have hbf := h.r_before i p hpos
    have htr := h.sm.trans
    simp only [Seq.pub] at hpp hdom
    constructor
    case su => exact h.su
    case sm => exact h.sm
    case link => exact h.link
    case clk_cs => simp; grind
    case clk_gp => simp; grind
    case tickT_lt => simp; grind
    case gp_cs => exact h.gp_cs
    case freed_ok => exact h.freed_ok
    case pos_cs => simp [upd]; grind
    case t0_le => exact h.t0_le
    case r_tick => have := h.r_tick; simp [upd]; grind
    case r_pos => have := h.r_pos; simp [upd]; grind
    case r_vis => have := h.r_vis; simp [upd, Seq.pub] at *; grind
    case r_before => have := h.r_before; simp [upd]; grind
    case r_in => have := h.r_in; simp [upd]; grind
    case r_ord =>
      intro j; by_cases hj : j = i
      · subst hj; simp [upd, List.pairwise_append]
        refine ⟨h.r_ord j, ?_⟩
        intro a ha; have := hbf a ha; grind
      · simp [upd, hj]; exact h.r_ord j
    case r_res =>
      have hres := h.r_res; have hin := h.r_in i p hpos
      have hhf := h.sm.head_first; have hls := h.sm.live_skip p
      have hds := h.sm.dead_skip p; have hdl := h.sm.dead_le; have htot := h.sm.total; have hirr := h.sm.irr
      simp [upd, Seq.pub] at *
      intro j q' hjq y hy0 hyl hyt hq0 hyq
      by_cases hj : j = i
      · subst hj; simp at hjq; subst hjq; simp
        by_cases hyq' : y = s.m.next p
        · exact Or.inr hyq'
        · left
          by_cases hp0 : p = 0
          · subst hp0; grind
          · have := htot y p; have := hres j p hpos y; grind
      · simp [hj] at hjq ⊢; exact hres j q' hjq y hy0 hyl hyt hq0 hyq
    case r_fin => have := h.r_fin; simp [upd]; grind
    case r_init => exact h.r_init
    case r_free => simp [upd, hsafe]; have := h.r_free; grind


theorem inv_step (c : Cfg) (hb : c.bug = .none) {s s' : State} {l : Label} (h : Inv c s)
    (st : step c s l = some s') : Inv c s' := by
  cases l with
  | u l => exact inv_u c hb h l st
  | flush => exact inv_flush c hb h st
  | rLock i => exact inv_rLock c h i st
  | rUnlock i => exact inv_rUnlock c h i st
  | rStart i => exact inv_rStart c h i st
  | rNext i => exact inv_rNext c h i st
  | rRead i => exact inv_rRead c h i st
  | gpStart => exact inv_gpStart c h st
  | gpEnd => exact inv_gpEnd c h st
  | free x => exact inv_free c h x st

theorem inv_reach (c : Cfg) (hb : c.bug = .none) {s : State} (h : Reach c s) : Inv c s := by
  induction h with
  | init => exact inv_init c
  | step _ st ih => exact inv_step c hb ih st

end UrcuVerif.RcuList
