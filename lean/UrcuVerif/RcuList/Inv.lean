import UrcuVerif.RcuList.SeqInv
/-! Invariant of the TSO machine of `RcuList/Model.lean` (helper lemmas; statements in `Props/C18.lean`). -/
set_option linter.unusedVariables false
set_option linter.unusedSimpArgs false
namespace UrcuVerif.RcuList

inductive Reach (c : Cfg) : State → Prop
  | init : Reach c init
  | step {s s' l} : Reach c s → step c s l = some s' → Reach c s'

/-- the buffer is exactly the sequence of steps that leads from the memory state to the updater's
view, and each buffered concrete store is the one the memory-side step performs -/
def Link (c : Cfg) : Seq → List Entry → Seq → Prop
  | m, [], u => u = m
  | m, e :: r, u => e.store = storeOf c m e.lab ∧ ∃ x, ustep c m e.lab = some x ∧ Link c x r u

theorem link_snoc (c : Cfg) {m u u' : Seq} {b : List Entry} {l : ULabel} (h : Link c m b u)
    (st : ustep c u l = some u') : Link c m (b ++ [⟨l, storeOf c u l⟩]) u' := by
  induction b generalizing m with
  | nil => simp only [Link] at h; subst h; simp [Link, st]
  | cons e r ih =>
    obtain ⟨h1, x, h2, h3⟩ := h
    exact ⟨h1, x, h2, ih h3⟩

/-- memory fields after a step = memory fields before, with the step's concrete store applied -/
def wr (x : Seq) : Option (Loc × Nat) → (Nat → Nat) × (Nat → Nat) × (Nat → Bool)
  | none => (x.next, x.prev, x.data)
  | some (.next a, v) => (upd x.next a v, x.prev, x.data)
  | some (.prev a, v) => (x.next, upd x.prev a v, x.data)
  | some (.data a, v) => (x.next, x.prev, upd x.data a (decide (v ≠ 0)))

theorem ustep_writes (c : Cfg) {x x' : Seq} {l : ULabel} (st : ustep c x l = some x') :
    (x'.next, x'.prev, x'.data) = wr x (storeOf c x l) := by
  cases l with
  | add n => simp only [ustep] at st; split at st <;> simp at st; subst st; simp [storeOf, wr]
  | addTail n => simp only [ustep] at st; split at st <;> simp at st; subst st; simp [storeOf, wr]
  | del n => simp only [ustep] at st; split at st <;> simp at st; subst st; simp [storeOf, wr]
  | repl o n => simp only [ustep] at st; split at st <;> simp at st; subst st; simp [storeOf, wr]
  | st =>
    cases hpc : x.pc <;> simp [ustep, hpc] at st <;> (try split at st) <;> (try simp at st) <;> subst st <;>
      simp [storeOf, wr, hpc, pubHead, pubTail, pubRepl, *]


structure Inv (c : Cfg) (s : State) : Prop where
  su : SInv c s.u
  sm : SInv c s.m
  link : Link c s.m s.buf s.u
  clk_cs : ∀ i b, s.cs i = some b → b < s.clock ∧ i < c.n
  clk_gp : s.gpDone < s.clock ∧ ∀ a, s.gpCur = some a → a < s.clock
  tickT_lt : ∀ k, k ≤ s.m.tick → s.tickT k < s.clock
  gp_cs : ∀ i b, s.cs i = some b → s.gpDone ≤ b
  freed_ok : ∀ x, s.freed x = true → s.m.st x = .dead ∧ ∀ i b, s.cs i = some b → s.tickT (s.m.deadS x) < b
  pos_cs : ∀ i p, s.pos i = some p → s.cs i ≠ none
  t0_le : ∀ i, s.t0 i ≤ s.m.tick
  r_tick : ∀ i p b, s.pos i = some p → s.cs i = some b → ∀ k, s.t0 i < k → k ≤ s.m.tick → b < s.tickT k
  r_pos : ∀ i p, s.pos i = some p → p ≠ 0 → (s.m.st p = .live ∨ (s.m.st p = .dead ∧ s.t0 i < s.m.deadS p))
  r_vis : ∀ i v, v ∈ s.vis i → v ≠ 0 ∧ s.m.pub v ∧ (s.m.st v = .live ∨ s.t0 i < s.m.deadS v)
  r_before : ∀ i p, s.pos i = some p → ∀ v, v ∈ s.vis i → p ≠ 0 ∧ (v = p ∨ s.m.bef v p = true)
  r_in : ∀ i p, s.pos i = some p → p ≠ 0 → p ∈ s.vis i
  r_ord : ∀ i, (s.vis i).Pairwise (fun a b => s.m.bef a b = true)
  r_res : ∀ i p, s.pos i = some p → ∀ y, y ≠ 0 → s.m.st y = .live → s.m.pubS y ≤ s.t0 i →
    (p ≠ 0 ∧ (y = p ∨ s.m.bef y p = true)) → y ∈ s.vis i
  r_fin : ∀ i, s.fin i = true → s.t1 i ≤ s.m.tick ∧ ∀ y, y ≠ 0 → s.m.pub y → s.m.pubS y ≤ s.t0 i →
    (s.m.st y = .live ∨ s.t1 i < s.m.deadS y) → y ∈ s.vis i
  r_init : ∀ i, s.sawUninit i = false
  r_free : ∀ i, s.touchedFreed i = false

theorem inv_init (c : Cfg) : Inv c init := by
  constructor <;> simp [init, Link, sinv_init]

end UrcuVerif.RcuList
