import UrcuVerif.RcuList.Model
/-!
Inductive invariant of the sequential updater machine `Seq` (helper lemmas; statements of the
property are in `Props/C18.lean`).  Because the only writer is the updater and its store buffer is
FIFO, the memory of the TSO machine goes through exactly the states of this machine (proved in
`RcuList/Inv.lean`), so everything a reader can observe is a state satisfying `SInv`.
-/
set_option linter.unusedVariables false
namespace UrcuVerif.RcuList

/-- node published (in the list now, or removed) -/
def Seq.pub (x : Seq) (a : Nat) : Prop := x.st a = .live ∨ x.st a = .dead

theorem pubB_iff (s : NSt) : pubB s = true ↔ (s = .live ∨ s = .dead) := by cases s <;> simp [pubB]

/-- the node under construction -/
def newOf : UPc → Option Nat
  | .a0 n | .a1 n | .a2 n | .a3 n | .a4 n => some n
  | .e2 n _ | .e3 n _ | .e4 n _ => some n
  | .t0 n | .t1 n | .t2 n | .t3 n => some n
  | .r0 _ n | .r1 _ n | .r2 _ n | .r3 _ n => some n
  | _ => none

/-- the one live node whose `prev` is temporarily not its predecessor (between the two pointer
stores that re-link it) -/
def excOf (x : Seq) : Option Nat :=
  match x.pc with
  | .a4 _ => some (x.next 0)
  | .t4 _ => some 0
  | .r4 _ n => some (x.next n)
  | .d2 e => some (x.next e)
  | _ => none

/-- facts about the primitive in progress -/
def pcOK (c : Cfg) (x : Seq) : Prop :=
  match x.pc with
  | .idle => True
  | .a0 n => n ≠ 0
  | .a1 n => n ≠ 0 ∧ x.data n = true
  | .a2 n => n ≠ 0 ∧ x.data n = true ∧ x.next n = x.next 0
  | .a3 n => n ≠ 0 ∧ x.data n = true ∧ x.next n = x.next 0 ∧ x.prev n = 0
  | .a4 n => n ≠ 0 ∧ x.data n = true ∧ x.next n = x.next 0 ∧ x.prev n = 0 ∧
             ((c.hl = true ∧ x.next 0 = 0) ∨ x.prev (x.next 0) = n)
  | .e2 _ _ | .e3 _ _ | .e4 _ _ | .d3 _ => False
  | .t0 n => c.hl = false ∧ n ≠ 0
  | .t1 n => c.hl = false ∧ n ≠ 0 ∧ x.data n = true
  | .t2 n => c.hl = false ∧ n ≠ 0 ∧ x.data n = true ∧ x.next n = 0
  | .t3 n => c.hl = false ∧ n ≠ 0 ∧ x.data n = true ∧ x.next n = 0 ∧ x.prev n = x.prev 0
  | .t4 n => c.hl = false ∧ n ≠ 0 ∧ x.st n = .live ∧ x.next n = 0 ∧ x.prev n = x.prev 0
  | .r0 o n => c.hl = false ∧ o ≠ 0 ∧ n ≠ 0 ∧ x.st o = .live
  | .r1 o n => c.hl = false ∧ o ≠ 0 ∧ n ≠ 0 ∧ x.st o = .live ∧ x.data n = true
  | .r2 o n => c.hl = false ∧ o ≠ 0 ∧ n ≠ 0 ∧ x.st o = .live ∧ x.data n = true ∧ x.next n = x.next o
  | .r3 o n => c.hl = false ∧ o ≠ 0 ∧ n ≠ 0 ∧ x.st o = .live ∧ x.data n = true ∧ x.next n = x.next o ∧
               x.prev n = x.prev o
  | .r4 o n => c.hl = false ∧ o ≠ 0 ∧ n ≠ 0 ∧ x.st n = .live ∧ x.st o = .dead
  | .d1 e => e ≠ 0 ∧ x.st e = .live
  | .d2 e => e ≠ 0 ∧ x.st e = .live ∧ ((c.hl = true ∧ x.next e = 0) ∨ x.prev (x.next e) = x.prev e)

structure SInv (c : Cfg) (x : Seq) : Prop where
  head_live : x.st 0 = .live
  irr : ∀ a, x.bef a a = false
  trans : ∀ a b d, x.bef a b = true → x.bef b d = true → x.bef a d = true
  total : ∀ a b, x.pub a → x.pub b → a ≠ b → a ≠ 0 → b ≠ 0 → x.bef a b = true ∨ x.bef b a = true
  dom : ∀ a b, x.bef a b = true → x.pub a ∧ x.pub b ∧ b ≠ 0
  head_first : ∀ b, x.pub b → b ≠ 0 → x.bef 0 b = true
  hist_iff : ∀ a, a ∈ x.hist ↔ (x.pub a ∧ a ≠ 0)
  fwd : ∀ a, x.pub a → x.next a ≠ 0 → x.bef a (x.next a) = true
  live_next : ∀ a, x.st a = .live → x.next a ≠ 0 → x.st (x.next a) = .live
  live_skip : ∀ a y, x.st a = .live → x.st y = .live → x.bef a y = true →
    x.next a ≠ 0 ∧ (y = x.next a ∨ x.bef (x.next a) y = true)
  dead_next : ∀ a, x.st a = .dead → x.next a ≠ 0 →
    x.st (x.next a) = .live ∨ (x.st (x.next a) = .dead ∧ x.deadS a < x.deadS (x.next a))
  dead_skip : ∀ a y, x.st a = .dead → x.pub y → x.bef a y = true → x.pubS y < x.deadS a →
    (x.st y = .live ∨ x.deadS a < x.deadS y) → x.next a ≠ 0 ∧ (y = x.next a ∨ x.bef (x.next a) y = true)
  pub_le : ∀ a, x.pub a → x.pubS a ≤ x.tick
  dead_le : ∀ a, x.st a = .dead → x.deadS a ≤ x.tick ∧ x.pubS a ≤ x.deadS a
  data_ok : ∀ a, x.pub a → a ≠ 0 → x.data a = true
  prev_ok : ∀ a, x.st a = .live → (a ≠ 0 ∨ c.hl = false) → excOf x ≠ some a →
    x.st (x.prev a) = .live ∧ x.next (x.prev a) = a
  priv_iff : ∀ a, x.st a = .priv ↔ newOf x.pc = some a
  pc_ok : pcOK c x

theorem sinv_init (c : Cfg) : SInv c Seq.init := by
  constructor <;> simp [Seq.init, Seq.pub, newOf, excOf, pcOK] <;> grind

end UrcuVerif.RcuList
