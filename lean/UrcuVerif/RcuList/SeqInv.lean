import UrcuVerif.RcuList.Model
/-!
Inductive invariant of the sequential updater machine `Seq` (helper lemmas; statements of the
property are in `Props/C18.lean`).  Because the only writer is the updater and its store buffer is
FIFO, the memory of the TSO machine goes through exactly the states of this machine (proved in
`RcuList/Inv.lean`), so everything a reader can observe is a state satisfying `SInv`.
-/
set_option linter.unusedVariables false
set_option linter.unusedSimpArgs false
namespace UrcuVerif.RcuList

/-- node published (in the list now, or removed) -/
def Seq.pub (x : Seq) (a : Nat) : Prop := x.st a = .live ∨ x.st a = .dead

theorem pubB_iff (s : NSt) : pubB s = true ↔ (s = .live ∨ s = .dead) := by cases s <;> simp [pubB]

/-- the node under construction -/
def newOf : UPc → Option Nat
  | .a0 n | .a1 n | .a2 n | .a3 n | .a4 n => some n
  | .e2 n _ | .e3 n _ | .e4 n _ => some n
  | .t0 n | .t1 n | .t2 n | .t3 n => some n
  | .r0 _ n | .r1 _ n | .r2 _ n | .r3 _ n => some n
  | _ => none

/-- the one live node whose `prev` is temporarily not its predecessor (between the two pointer
stores that re-link it) -/
def excOf (x : Seq) : Option Nat :=
  match x.pc with
  | .a4 _ => some (x.next 0)
  | .t4 _ => some 0
  | .r4 _ n => some (x.next n)
  | .d2 e => some (x.next e)
  | _ => none

/-- facts about the primitive in progress -/
def pcOK (c : Cfg) (x : Seq) : Prop :=
  match x.pc with
  | .idle => True
  | .a0 n => n ≠ 0
  | .a1 n => n ≠ 0 ∧ x.data n = true
  | .a2 n => n ≠ 0 ∧ x.data n = true ∧ x.next n = x.next 0
  | .a3 n => n ≠ 0 ∧ x.data n = true ∧ x.next n = x.next 0 ∧ x.prev n = 0
  | .a4 n => n ≠ 0 ∧ x.data n = true ∧ x.next n = x.next 0 ∧ x.prev n = 0 ∧
             ((c.hl = true ∧ x.next 0 = 0) ∨ x.prev (x.next 0) = n)
  | .e2 _ _ | .e3 _ _ | .e4 _ _ | .d3 _ => False
  | .t0 n => c.hl = false ∧ n ≠ 0
  | .t1 n => c.hl = false ∧ n ≠ 0 ∧ x.data n = true
  | .t2 n => c.hl = false ∧ n ≠ 0 ∧ x.data n = true ∧ x.next n = 0
  | .t3 n => c.hl = false ∧ n ≠ 0 ∧ x.data n = true ∧ x.next n = 0 ∧ x.prev n = x.prev 0
  | .t4 n => c.hl = false ∧ n ≠ 0 ∧ x.st n = .live ∧ x.next n = 0 ∧ x.prev n = x.prev 0
  | .r0 o n => c.hl = false ∧ o ≠ 0 ∧ n ≠ 0 ∧ x.st o = .live
  | .r1 o n => c.hl = false ∧ o ≠ 0 ∧ n ≠ 0 ∧ x.st o = .live ∧ x.data n = true
  | .r2 o n => c.hl = false ∧ o ≠ 0 ∧ n ≠ 0 ∧ x.st o = .live ∧ x.data n = true ∧ x.next n = x.next o
  | .r3 o n => c.hl = false ∧ o ≠ 0 ∧ n ≠ 0 ∧ x.st o = .live ∧ x.data n = true ∧ x.next n = x.next o ∧
               x.prev n = x.prev o
  | .r4 o n => c.hl = false ∧ o ≠ 0 ∧ n ≠ 0 ∧ x.st n = .live ∧ x.st o = .dead
  | .d1 e => e ≠ 0 ∧ x.st e = .live
  | .d2 e => e ≠ 0 ∧ x.st e = .live ∧ ((c.hl = true ∧ x.next e = 0) ∨ x.prev (x.next e) = x.prev e)

structure SInv (c : Cfg) (x : Seq) : Prop where
  head_live : x.st 0 = .live
  irr : ∀ a, x.bef a a = false
  trans : ∀ a b d, x.bef a b = true → x.bef b d = true → x.bef a d = true
  total : ∀ a b, x.pub a → x.pub b → a ≠ b → a ≠ 0 → b ≠ 0 → x.bef a b = true ∨ x.bef b a = true
  dom : ∀ a b, x.bef a b = true → x.pub a ∧ x.pub b ∧ b ≠ 0
  head_first : ∀ b, x.pub b → b ≠ 0 → x.bef 0 b = true
  hist_iff : ∀ a, a ∈ x.hist ↔ (x.pub a ∧ a ≠ 0)
  fwd : ∀ a, x.pub a → x.next a ≠ 0 → x.bef a (x.next a) = true
  live_next : ∀ a, x.st a = .live → x.next a ≠ 0 → x.st (x.next a) = .live
  live_skip : ∀ a y, x.st a = .live → x.st y = .live → x.bef a y = true →
    x.next a ≠ 0 ∧ (y = x.next a ∨ x.bef (x.next a) y = true)
  dead_next : ∀ a, x.st a = .dead → x.next a ≠ 0 →
    x.st (x.next a) = .live ∨ (x.st (x.next a) = .dead ∧ x.deadS a < x.deadS (x.next a))
  dead_skip : ∀ a y, x.st a = .dead → x.pub y → x.bef a y = true → x.pubS y < x.deadS a →
    (x.st y = .live ∨ x.deadS a < x.deadS y) → x.next a ≠ 0 ∧ (y = x.next a ∨ x.bef (x.next a) y = true)
  pub_le : ∀ a, x.pub a → x.pubS a ≤ x.tick
  dead_le : ∀ a, x.st a = .dead → x.deadS a ≤ x.tick ∧ x.pubS a < x.deadS a
  data_ok : ∀ a, x.pub a → a ≠ 0 → x.data a = true
  prev_ok : ∀ a, x.st a = .live → (a ≠ 0 ∨ c.hl = false) → excOf x ≠ some a →
    x.st (x.prev a) = .live ∧ x.next (x.prev a) = a
  priv_iff : ∀ a, x.st a = .priv ↔ newOf x.pc = some a
  pc_ok : pcOK c x

theorem sinv_init (c : Cfg) : SInv c Seq.init := by
  constructor <;> simp [Seq.init, Seq.pub, newOf, excOf, pcOK] <;> grind

theorem SInv.no_self (h : SInv c x) (a : Nat) (ha : x.pub a) : x.next a ≠ a ∨ a = 0 := by
  have := h.fwd a ha; have := h.irr a; grind

/-- a live node that has a live node after it in the history order has a successor -/
theorem SInv.pred_lt (h : SInv c x) {a b : Nat} (ha : x.st a = .live) (hb : x.st b = .live)
    (hab : x.bef a b = true) : x.next a ≠ x.next b ∨ x.next a = 0 := by
  have h1 := h.live_skip a b ha hb hab
  have h2 := h.fwd b (Or.inl hb)
  have h3 := h.irr b
  have h4 := h.trans b (x.next b) b
  grind

theorem SInv.pred_unique (h : SInv c x) {a b : Nat} (ha : x.st a = .live) (hb : x.st b = .live)
    (hn : x.next a = x.next b) (hne : x.next a ≠ 0) : a = b := by
  apply Classical.byContradiction; intro hab
  have t := h.total a b (Or.inl ha) (Or.inl hb) hab
  have f1 := h.head_first a (Or.inl ha)
  have f2 := h.head_first b (Or.inl hb)
  have p1 := @SInv.pred_lt c x h a b ha hb
  have p2 := @SInv.pred_lt c x h b a hb ha
  grind

theorem SInv.last_unique (h : SInv c x) {a b : Nat} (ha : x.st a = .live) (hb : x.st b = .live)
    (hna : x.next a = 0) (hnb : x.next b = 0) : a = b := by
  apply Classical.byContradiction; intro hab
  have t := h.total a b (Or.inl ha) (Or.inl hb) hab
  have f1 := h.head_first a (Or.inl ha)
  have f2 := h.head_first b (Or.inl hb)
  have p1 := h.live_skip a b ha hb
  have p2 := h.live_skip b a hb ha
  grind

/-- steps that neither publish nor unlink: everything about published nodes is unchanged -/
theorem sinv_frame {c : Cfg} {x x' : Seq} (h : SInv c x)
    (hst : ∀ a, x.pub a ∨ x'.pub a → x'.st a = x.st a)
    (hnext : ∀ a, x.pub a → x'.next a = x.next a)
    (hbef : x'.bef = x.bef) (hhist : x'.hist = x.hist) (hpubS : x'.pubS = x.pubS) (hdeadS : x'.deadS = x.deadS)
    (htick : x.tick ≤ x'.tick)
    (hdata : ∀ a, x.pub a → x.data a = true → x'.data a = true)
    (hprev : ∀ a, x'.st a = .live → (a ≠ 0 ∨ c.hl = false) → excOf x' ≠ some a →
      x'.st (x'.prev a) = .live ∧ x'.next (x'.prev a) = a)
    (hpriv : ∀ a, x'.st a = .priv ↔ newOf x'.pc = some a)
    (hpc : pcOK c x') : SInv c x' := by
  have e1 : ∀ a, x'.pub a ↔ x.pub a := by
    intro a; constructor
    · intro hp; have := hst a (Or.inr hp); simp only [Seq.pub] at *; grind
    · intro hp; have := hst a (Or.inl hp); simp only [Seq.pub] at *; grind
  have e2 : ∀ a, x'.st a = .live ↔ x.st a = .live := by
    intro a; constructor
    · intro hp; have := hst a (Or.inr (Or.inl hp)); grind
    · intro hp; have := hst a (Or.inl (Or.inl hp)); grind
  have e3 : ∀ a, x'.st a = .dead ↔ x.st a = .dead := by
    intro a; constructor
    · intro hp; have := hst a (Or.inr (Or.inr hp)); grind
    · intro hp; have := hst a (Or.inl (Or.inr hp)); grind
  have e4 : ∀ a, x.st a = .live → x'.next a = x.next a := fun a ha => hnext a (Or.inl ha)
  have e5 : ∀ a, x.st a = .dead → x'.next a = x.next a := fun a ha => hnext a (Or.inr ha)
  constructor
  case head_live => rw [e2]; exact h.head_live
  case irr => rw [hbef]; exact h.irr
  case trans => rw [hbef]; exact h.trans
  case total => intro a b; rw [hbef, e1, e1]; exact h.total a b
  case dom => intro a b; rw [hbef, e1, e1]; exact h.dom a b
  case head_first => intro b; rw [hbef, e1]; exact h.head_first b
  case hist_iff => intro a; rw [hhist, e1]; exact h.hist_iff a
  case fwd => intro a; rw [hbef, e1]; intro hp; rw [hnext a hp]; exact h.fwd a hp
  case live_next =>
    intro a; rw [e2]; intro ha; rw [e4 a ha, e2]; exact h.live_next a ha
  case live_skip =>
    intro a y; rw [e2, e2, hbef]; intro ha; rw [e4 a ha]; exact h.live_skip a y ha
  case dead_next =>
    intro a; rw [e3]; intro ha; rw [e5 a ha, e2, e3, hdeadS]; exact h.dead_next a ha
  case dead_skip =>
    intro a y; rw [e3, e1, hbef, hpubS, hdeadS, e2]; intro ha; rw [e5 a ha]; exact h.dead_skip a y ha
  case pub_le => intro a; rw [e1, hpubS]; intro hp; have := h.pub_le a hp; omega
  case dead_le => intro a; rw [e3, hpubS, hdeadS]; intro hp; have := h.dead_le a hp; omega
  case data_ok => intro a; rw [e1]; intro hp h0; exact hdata a hp (h.data_ok a hp h0)
  case prev_ok => exact hprev
  case priv_iff => exact hpriv
  case pc_ok => exact hpc


theorem sinv_d2 (c : Cfg) (hb : c.bug = .none) {x x' : Seq} (h : SInv c x) (e : Nat) (hpc : x.pc = .d2 e)
    (st : ustep c x .st = some x') : SInv c x' := by
  simp [ustep, hpc, hb] at st
  subst st
  have hk := h.pc_ok
  simp only [pcOK, hpc] at hk
  obtain ⟨he0, hel, hk⟩ := hk
  have hq : x.next e ≠ 0 → x.st (x.next e) = .live ∧ x.bef e (x.next e) = true :=
    fun hn => ⟨h.live_next e hel hn, h.fwd e (Or.inl hel) hn⟩
  have hne : x.next e ≠ e := by have := h.irr e; grind
  have hp := h.prev_ok e hel (Or.inl he0) (by simp [excOf, hpc]; exact hne)
  have hpe : x.prev e ≠ e := by grind
  have hbpe : x.bef (x.prev e) e = true := by have := h.fwd (x.prev e) (Or.inl hp.1); grind
  have htr := h.trans
  constructor
  case head_live => have := h.head_live; simp [upd]; grind
  case irr => exact h.irr
  case trans => exact h.trans
  case total => have := h.total; simp [upd, Seq.pub] at *; grind
  case dom => have := h.dom; simp [upd, Seq.pub] at *; grind
  case head_first => have := h.head_first; simp [upd, Seq.pub] at *; grind
  case hist_iff => have := h.hist_iff; simp [upd, Seq.pub] at *; grind
  case fwd => have := h.fwd; simp [upd, Seq.pub] at *; grind
  case live_next =>
    have := h.live_next; have pu := @SInv.pred_unique c x h
    simp [upd] at *; intro a; have := @pu a (x.prev e); grind
  case live_skip => have := h.live_skip; simp [upd] at *; grind
  case dead_next => have := h.dead_next; have := h.dead_le; simp [upd] at *; grind
  case dead_skip => have := h.dead_skip; have := h.live_skip; have := h.dead_le; have := h.irr; simp [upd, Seq.pub] at *; grind
  case pub_le => have := h.pub_le; simp [upd, Seq.pub] at *; grind
  case dead_le => have := h.dead_le; have := h.pub_le; simp [upd, Seq.pub] at *; grind
  case data_ok => have := h.data_ok; simp [upd, Seq.pub] at *; grind
  case prev_ok => have := h.prev_ok; simp [upd, excOf, hpc] at *; grind
  case priv_iff => have := h.priv_iff; simp [upd, newOf, hpc] at *; grind
  case pc_ok => simp [pcOK]


set_option hygiene false in
macro "g1_tac" : tactic => `(tactic| (
  have hk := h.pc_ok
  have hprev := h.prev_ok
  have hpriv := h.priv_iff
  have hhl := h.head_live
  have hln := h.live_next
  simp [pcOK, excOf, newOf, hpc] at hk hprev hpriv
  refine sinv_frame h ?_ ?_ ?_ ?_ ?_ ?_ ?_ ?_ ?_ ?_ ?_ <;> simp [upd, Seq.pub, excOf, newOf, pcOK] <;>
    grind))

theorem sinv_a0 (c : Cfg) (hb : c.bug = .none) {x x' : Seq} (h : SInv c x) (n : Nat) (hpc : x.pc = .a0 n)
    (st : ustep c x .st = some x') : SInv c x' := by
  simp [ustep, hpc, hb] at st
  (try split at st) <;> (try simp at st) <;> (subst st; g1_tac)

theorem sinv_a1 (c : Cfg) (hb : c.bug = .none) {x x' : Seq} (h : SInv c x) (n : Nat) (hpc : x.pc = .a1 n)
    (st : ustep c x .st = some x') : SInv c x' := by
  simp [ustep, hpc, hb] at st
  (try split at st) <;> (try simp at st) <;> (subst st; g1_tac)

theorem sinv_a2 (c : Cfg) (hb : c.bug = .none) {x x' : Seq} (h : SInv c x) (n : Nat) (hpc : x.pc = .a2 n)
    (st : ustep c x .st = some x') : SInv c x' := by
  simp [ustep, hpc, hb] at st
  (try split at st) <;> (try simp at st) <;> (subst st; g1_tac)

theorem sinv_a3 (c : Cfg) (hb : c.bug = .none) {x x' : Seq} (h : SInv c x) (n : Nat) (hpc : x.pc = .a3 n)
    (st : ustep c x .st = some x') : SInv c x' := by
  simp [ustep, hpc, hb] at st
  (try split at st) <;> (try simp at st) <;> (subst st; g1_tac)

theorem sinv_t0 (c : Cfg) (hb : c.bug = .none) {x x' : Seq} (h : SInv c x) (n : Nat) (hpc : x.pc = .t0 n)
    (st : ustep c x .st = some x') : SInv c x' := by
  simp [ustep, hpc, hb] at st
  (try split at st) <;> (try simp at st) <;> (subst st; g1_tac)

theorem sinv_t1 (c : Cfg) (hb : c.bug = .none) {x x' : Seq} (h : SInv c x) (n : Nat) (hpc : x.pc = .t1 n)
    (st : ustep c x .st = some x') : SInv c x' := by
  simp [ustep, hpc, hb] at st
  (try split at st) <;> (try simp at st) <;> (subst st; g1_tac)

theorem sinv_t2 (c : Cfg) (hb : c.bug = .none) {x x' : Seq} (h : SInv c x) (n : Nat) (hpc : x.pc = .t2 n)
    (st : ustep c x .st = some x') : SInv c x' := by
  simp [ustep, hpc, hb] at st
  (try split at st) <;> (try simp at st) <;> (subst st; g1_tac)

theorem sinv_t4 (c : Cfg) (hb : c.bug = .none) {x x' : Seq} (h : SInv c x) (n : Nat) (hpc : x.pc = .t4 n)
    (st : ustep c x .st = some x') : SInv c x' := by
  simp [ustep, hpc, hb] at st
  (try split at st) <;> (try simp at st) <;> (subst st; g1_tac)

theorem sinv_r0 (c : Cfg) (hb : c.bug = .none) {x x' : Seq} (h : SInv c x) (o n : Nat) (hpc : x.pc = .r0 o n)
    (st : ustep c x .st = some x') : SInv c x' := by
  simp [ustep, hpc, hb] at st
  (try split at st) <;> (try simp at st) <;> (subst st; g1_tac)

theorem sinv_r1 (c : Cfg) (hb : c.bug = .none) {x x' : Seq} (h : SInv c x) (o n : Nat) (hpc : x.pc = .r1 o n)
    (st : ustep c x .st = some x') : SInv c x' := by
  simp [ustep, hpc, hb] at st
  (try split at st) <;> (try simp at st) <;> (subst st; g1_tac)

theorem sinv_r2 (c : Cfg) (hb : c.bug = .none) {x x' : Seq} (h : SInv c x) (o n : Nat) (hpc : x.pc = .r2 o n)
    (st : ustep c x .st = some x') : SInv c x' := by
  simp [ustep, hpc, hb] at st
  (try split at st) <;> (try simp at st) <;> (subst st; g1_tac)

theorem sinv_r4 (c : Cfg) (hb : c.bug = .none) {x x' : Seq} (h : SInv c x) (o n : Nat) (hpc : x.pc = .r4 o n)
    (st : ustep c x .st = some x') : SInv c x' := by
  simp [ustep, hpc, hb] at st
  (try split at st) <;> (try simp at st) <;> (subst st; g1_tac)

theorem sinv_d1 (c : Cfg) (hb : c.bug = .none) {x x' : Seq} (h : SInv c x) (e : Nat) (hpc : x.pc = .d1 e)
    (st : ustep c x .st = some x') : SInv c x' := by
  simp [ustep, hpc, hb] at st
  (try split at st) <;> (try simp at st) <;> (subst st; g1_tac)

theorem sinv_add (c : Cfg) (hb : c.bug = .none) {x x' : Seq} (h : SInv c x) (n : Nat)
    (st : ustep c x (.add n) = some x') : SInv c x' := by
  simp only [ustep] at st
  split at st
  · next hg =>
    obtain ⟨hpc, hg⟩ := hg
    simp at st; subst st; g1_tac
  · simp at st

theorem sinv_addTail (c : Cfg) (hb : c.bug = .none) {x x' : Seq} (h : SInv c x) (n : Nat)
    (st : ustep c x (.addTail n) = some x') : SInv c x' := by
  simp only [ustep] at st
  split at st
  · next hg =>
    obtain ⟨hpc, hg⟩ := hg
    simp at st; subst st; g1_tac
  · simp at st

theorem sinv_del (c : Cfg) (hb : c.bug = .none) {x x' : Seq} (h : SInv c x) (e : Nat)
    (st : ustep c x (.del e) = some x') : SInv c x' := by
  simp only [ustep] at st
  split at st
  · next hg =>
    obtain ⟨hpc, hg⟩ := hg
    simp at st; subst st; g1_tac
  · simp at st

theorem sinv_repl (c : Cfg) (hb : c.bug = .none) {x x' : Seq} (h : SInv c x) (o n : Nat)
    (st : ustep c x (.repl o n) = some x') : SInv c x' := by
  simp only [ustep] at st
  split at st
  · next hg =>
    obtain ⟨hpc, hg⟩ := hg
    simp at st; subst st; g1_tac
  · simp at st


theorem sinv_a4 (c : Cfg) (hb : c.bug = .none) {x x' : Seq} (h : SInv c x) (n : Nat) (hpc : x.pc = .a4 n)
    (st : ustep c x .st = some x') : SInv c x' := by
  simp [ustep, hpc, hb] at st
  subst st
  have hk := h.pc_ok
  have hpriv := h.priv_iff
  simp [pcOK, newOf, hpc] at hk hpriv
  obtain ⟨hn0, hdat, hnn, hpn, hk⟩ := hk
  have hnp : x.st n = .priv := (hpriv n).2 rfl
  have hhl := h.head_live
  have hf : x.next 0 ≠ 0 → x.st (x.next 0) = .live ∧ x.bef 0 (x.next 0) = true :=
    fun hn => ⟨h.live_next 0 hhl hn, h.fwd 0 (Or.inl hhl) hn⟩
  have hdom := h.dom
  constructor
  case head_live => simp [upd, pubHead]; grind
  case irr => have := h.irr; simp [upd, pubHead, pubB_iff] at *; grind
  case trans => have := h.trans; have := h.head_first; simp [upd, pubHead, pubB_iff, Seq.pub] at *; grind
  case total => have := h.total; simp [upd, pubHead, pubB_iff, Seq.pub] at *; grind
  case dom => simp [upd, pubHead, pubB_iff, Seq.pub] at *; grind
  case head_first => have := h.head_first; simp [upd, pubHead, pubB_iff, Seq.pub] at *; grind
  case hist_iff => have := h.hist_iff; simp [upd, pubHead, pubB_iff, Seq.pub] at *; grind
  case fwd => have := h.fwd; simp [upd, pubHead, pubB_iff, Seq.pub] at *; grind
  case live_next => have := h.live_next; simp [upd, pubHead, pubB_iff, Seq.pub] at *; grind
  case live_skip => have := h.live_skip; have := h.head_first; simp [upd, pubHead, pubB_iff, Seq.pub] at *; grind
  case dead_next => have := h.dead_next; simp [upd, pubHead, pubB_iff, Seq.pub] at *; grind
  case dead_skip => have := h.dead_skip; have := h.dead_le; simp [upd, pubHead, pubB_iff, Seq.pub] at *; grind
  case pub_le => have := h.pub_le; simp [upd, pubHead, Seq.pub] at *; grind
  case dead_le => have := h.dead_le; have := h.pub_le; simp [upd, pubHead, Seq.pub] at *; grind
  case data_ok => have := h.data_ok; simp [upd, pubHead, Seq.pub] at *; grind
  case prev_ok => have := h.prev_ok; simp [upd, pubHead, excOf, hpc] at *; grind
  case priv_iff => simp [upd, pubHead, newOf] at *; grind
  case pc_ok => simp [pcOK, pubHead]


theorem sinv_t3 (c : Cfg) (hb : c.bug = .none) {x x' : Seq} (h : SInv c x) (n : Nat) (hpc : x.pc = .t3 n)
    (st : ustep c x .st = some x') : SInv c x' := by
  simp [ustep, hpc] at st
  subst st
  have hk := h.pc_ok
  have hpriv := h.priv_iff
  simp [pcOK, newOf, hpc] at hk hpriv
  obtain ⟨hhl0, hn0, hdat, hnn, hpn⟩ := hk
  have hnp : x.st n = .priv := (hpriv n).2 rfl
  have hhl := h.head_live
  have hp0 := h.prev_ok 0 hhl (Or.inr hhl0) (by simp [excOf, hpc])
  have hdom := h.dom
  have hls := h.live_skip (x.prev 0)
  have hhf := h.head_first
  constructor
  case head_live => simp [upd, pubTail]; grind
  case irr => have := h.irr; have : pubB (x.st n) = false := by rw [hnp]; rfl
              simp [upd, pubTail] at *; grind
  case trans => have := h.trans; simp [upd, pubTail, pubB_iff, Seq.pub] at *; grind
  case total => have := h.total; simp [upd, pubTail, pubB_iff, Seq.pub] at *; grind
  case dom => simp [upd, pubTail, pubB_iff, Seq.pub] at *; grind
  case head_first => simp [upd, pubTail, pubB_iff, Seq.pub] at *; grind
  case hist_iff => have := h.hist_iff; simp [upd, pubTail, pubB_iff, Seq.pub] at *; grind
  case fwd => have := h.fwd; simp [upd, pubTail, pubB_iff, Seq.pub] at *; grind
  case live_next => have := h.live_next; simp [upd, pubTail, pubB_iff, Seq.pub] at *; grind
  case live_skip =>
    have := h.live_skip; have lu := @SInv.last_unique c x h; have := h.live_next
    simp [upd, pubTail, pubB_iff, Seq.pub] at *
    intro a y; have := @lu a (x.prev 0)
    by_cases hyn : y = n <;> by_cases han : a = n <;> by_cases hap : a = x.prev 0 <;> simp [*] <;> grind
  case dead_next => have := h.dead_next; simp [upd, pubTail, pubB_iff, Seq.pub] at *; grind
  case dead_skip => have := h.dead_skip; have := h.dead_le; simp [upd, pubTail, pubB_iff, Seq.pub] at *; grind
  case pub_le => have := h.pub_le; simp [upd, pubTail, Seq.pub] at *; grind
  case dead_le => have := h.dead_le; have := h.pub_le; simp [upd, pubTail, Seq.pub] at *; grind
  case data_ok => have := h.data_ok; simp [upd, pubTail, Seq.pub] at *; grind
  case prev_ok => have := h.prev_ok; simp [upd, pubTail, excOf, hpc] at *; grind
  case priv_iff => simp [upd, pubTail, newOf] at *; grind
  case pc_ok => simp [pcOK, pubTail, upd] at *; grind

theorem sinv_r3 (c : Cfg) (hb : c.bug = .none) {x x' : Seq} (h : SInv c x) (o n : Nat) (hpc : x.pc = .r3 o n)
    (st : ustep c x .st = some x') : SInv c x' := by
  simp [ustep, hpc] at st
  subst st
  have hk := h.pc_ok
  have hpriv := h.priv_iff
  simp [pcOK, newOf, hpc] at hk hpriv
  obtain ⟨hhl0, ho0, hn0, hol, hdat, hnn, hpn⟩ := hk
  have hnp : x.st n = .priv := (hpriv n).2 rfl
  have hhl := h.head_live
  have hne : x.next o ≠ o := by have := h.irr o; have := h.fwd o (Or.inl hol); grind
  have hpo := h.prev_ok o hol (Or.inl ho0) (by simp [excOf, hpc])
  have hbpo : x.bef (x.prev o) o = true := by have := h.fwd (x.prev o) (Or.inl hpo.1); grind
  have hq : x.next o ≠ 0 → x.st (x.next o) = .live ∧ x.bef o (x.next o) = true :=
    fun hn => ⟨h.live_next o hol hn, h.fwd o (Or.inl hol) hn⟩
  have hdom := h.dom
  have hirr := h.irr
  have htr := h.trans
  have hhf := h.head_first
  constructor
  case head_live => simp [upd, pubRepl]; grind
  case irr => simp [upd, pubRepl, Seq.pub] at *; grind
  case trans => simp [upd, pubRepl, Seq.pub] at *; grind
  case total => have := h.total; simp [upd, pubRepl, Seq.pub] at *; grind
  case dom => simp [upd, pubRepl, Seq.pub] at *; grind
  case head_first => simp [upd, pubRepl, Seq.pub] at *; grind
  case hist_iff => have := h.hist_iff; simp [upd, pubRepl, Seq.pub] at *; grind
  case fwd => have := h.fwd; simp [upd, pubRepl, Seq.pub] at *; grind
  case live_next =>
    have := h.live_next; have pu := @SInv.pred_unique c x h
    simp [upd, pubRepl, Seq.pub] at *; intro a; have := @pu a (x.prev o); grind
  case live_skip =>
    have := h.live_skip; have pu := @SInv.pred_unique c x h
    simp [upd, pubRepl, Seq.pub] at *
    intro a y; have := @pu a (x.prev o)
    by_cases hyn : y = n <;> by_cases han : a = n <;> by_cases hap : a = x.prev o <;> simp [*] <;> grind
  case dead_next => have := h.dead_next; have := h.dead_le; simp [upd, pubRepl, Seq.pub] at *; grind
  case dead_skip =>
    have := h.dead_skip; have := h.live_skip; have := h.dead_le; have := h.pub_le
    simp [upd, pubRepl, Seq.pub] at *
    intro a y
    by_cases hao : a = o <;> by_cases hyn : y = n <;> by_cases hyo : y = o <;> simp [*] <;> grind
  case pub_le => have := h.pub_le; simp [upd, pubRepl, Seq.pub] at *; grind
  case dead_le => have := h.dead_le; have := h.pub_le; simp [upd, pubRepl, Seq.pub] at *; grind
  case data_ok => have := h.data_ok; simp [upd, pubRepl, Seq.pub] at *; grind
  case prev_ok => have := h.prev_ok; simp [upd, pubRepl, excOf, hpc] at *; grind
  case priv_iff => simp [upd, pubRepl, newOf] at *; grind
  case pc_ok => simp [pcOK, pubRepl, upd] at *; grind


/-- every step of the sequential updater machine preserves the invariant (real code: `bug = none`) -/
theorem sinv_ustep (c : Cfg) (hb : c.bug = .none) {x x' : Seq} {l : ULabel} (h : SInv c x)
    (st : ustep c x l = some x') : SInv c x' := by
  cases l with
  | add n => exact sinv_add c hb h n st
  | addTail n => exact sinv_addTail c hb h n st
  | del e => exact sinv_del c hb h e st
  | repl o n => exact sinv_repl c hb h o n st
  | st =>
    have hk := h.pc_ok
    cases hpc : x.pc with
    | idle => simp [ustep, hpc] at st
    | a0 n => exact sinv_a0 c hb h n hpc st
    | a1 n => exact sinv_a1 c hb h n hpc st
    | a2 n => exact sinv_a2 c hb h n hpc st
    | a3 n => exact sinv_a3 c hb h n hpc st
    | a4 n => exact sinv_a4 c hb h n hpc st
    | e2 n f => simp [pcOK, hpc] at hk
    | e3 n f => simp [pcOK, hpc] at hk
    | e4 n f => simp [pcOK, hpc] at hk
    | t0 n => exact sinv_t0 c hb h n hpc st
    | t1 n => exact sinv_t1 c hb h n hpc st
    | t2 n => exact sinv_t2 c hb h n hpc st
    | t3 n => exact sinv_t3 c hb h n hpc st
    | t4 n => exact sinv_t4 c hb h n hpc st
    | r0 o n => exact sinv_r0 c hb h o n hpc st
    | r1 o n => exact sinv_r1 c hb h o n hpc st
    | r2 o n => exact sinv_r2 c hb h o n hpc st
    | r3 o n => exact sinv_r3 c hb h o n hpc st
    | r4 o n => exact sinv_r4 c hb h o n hpc st
    | d1 e => exact sinv_d1 c hb h e hpc st
    | d2 e => exact sinv_d2 c hb h e hpc st
    | d3 e => simp [pcOK, hpc] at hk

/-- what one updater step may change, as seen by readers -/
structure Mono (x x' : Seq) : Prop where
  tick : x'.tick = x.tick + 1
  pub_mono : ∀ a, x.pub a → x'.pub a
  live_new : ∀ a, x'.st a = .live → x.st a = .live ∨ (¬ x.pub a ∧ x'.pubS a = x'.tick)
  dead_old : ∀ a, x.st a = .dead → x'.st a = .dead ∧ x'.deadS a = x.deadS a
  dead_new : ∀ a, x'.st a = .dead → x.st a = .dead ∨ (x.st a = .live ∧ x'.deadS a = x'.tick)
  pubS_old : ∀ a, x.pub a → x'.pubS a = x.pubS a
  bef_old : ∀ a b, x.pub a → x.pub b → x'.bef a b = x.bef a b
  dead_next : ∀ a, x.st a = .dead → x'.next a = x.next a
  hist_grow : x'.hist = x.hist ∨ ∃ n, x'.hist = n :: x.hist ∧ ¬ x.pub n

theorem mono_ustep (c : Cfg) (hb : c.bug = .none) {x x' : Seq} {l : ULabel} (h : SInv c x)
    (st : ustep c x l = some x') : Mono x x' := by
  have hk := h.pc_ok
  have hpriv := h.priv_iff
  have hhl := h.head_live
  have hprev := h.prev_ok
  have hfwd := h.fwd
  have hirr := h.irr
  simp only [Seq.pub] at hfwd
  cases l with
  | add n => simp only [ustep] at st; split at st <;> simp at st; subst st; constructor <;> simp [upd, Seq.pub] <;> grind
  | addTail n => simp only [ustep] at st; split at st <;> simp at st; subst st; constructor <;> simp [upd, Seq.pub] <;> grind
  | del n => simp only [ustep] at st; split at st <;> simp at st; subst st; constructor <;> simp [upd, Seq.pub] <;> grind
  | repl o n => simp only [ustep] at st; split at st <;> simp at st; subst st; constructor <;> simp [upd, Seq.pub] <;> grind
  | st =>
    cases hpc : x.pc <;> simp [ustep, hpc, hb] at st <;> simp [pcOK, newOf, excOf, hpc] at hk hpriv hprev <;>
      (try split at st) <;> (try simp at st) <;> subst st <;>
      constructor <;> simp [upd, Seq.pub, pubHead, pubTail, pubRepl] <;> grind


end UrcuVerif.RcuList
