import UrcuVerif.Machine.Upd
/-!
# C18 — RCU lists (`urcu/rculist.h`, `urcu/rcuhlist.h`) on x86-TSO

Executable model ("L2").  Node identities are natural numbers; node `0` is the list head
(`cds_list_head` sentinel of the circular list; for `cds_hlist` it stands for the head *and* for the
terminating `NULL`: in both cases a traversal ends when the loaded `next` is `0`).

* `Seq` is the **sequential updater machine**: the shared fields `next / prev / data` of every node
  plus ghost state, and the updater's program counter.  `ustep` performs ONE individual store of
  `cds_list_add_rcu`, `cds_list_add_tail_rcu`, `cds_list_replace_rcu`, `cds_list_del_rcu`
  (`cds_hlist_add_head_rcu`, `cds_hlist_del_rcu` when `Cfg.hl`), in exactly the order of the C text;
  the payload initialisation (`data n := true`, the ghost "initialised" flag) is the first store of
  every add.
* `State` is the **x86-TSO machine**: the updater's view `u` (memory overlaid with its own store
  buffer: x86 store forwarding), the memory `m`, the FIFO store buffer `buf` (oldest first; each
  entry carries the concrete location/value computed from the updater's view when the store was
  issued).  An issue step (`Label.u`) appends to the buffer, `Label.flush` commits the oldest entry
  to memory at an arbitrary later time.  Plain stores and the publishing (release / relaxed
  `uatomic_store`) store all take this path: on x86 they are the same `mov`.
  Readers (`i < Cfg.n`, `n` arbitrary) load `next` and the payload **from memory** inside
  read-side sections.
* Grace periods are abstract (`Spec.GpSpec` as in `Poll/Model.lean`): `gpStart` (the updater's
  `synchronize_rcu()`: it starts with a full fence, hence requires an empty store buffer), `gpEnd`
  enabled only when every section that began before the start has ended; `free x` requires a grace
  period that started after the removal of `x` reached memory.
* Ghost: history order `bef` (list order in which removed nodes keep their place), publication /
  removal ticks, per-reader visited list, `sawUninit`, `touchedFreed`.

`Cfg.bug` selects the two *negative* variants used by `Neg/C18.lean` (not configurations of the real
code; every theorem assumes `bug = .none`):
`pubEarly` – `add` publishes (`head->next = newp`) before `newp->next` is initialised;
`delPoison` – `del` overwrites the removed node's `next`.
-/
namespace UrcuVerif.RcuList

inductive Bug | none | pubEarly | delPoison
  deriving DecidableEq, Repr

structure Cfg where
  n : Nat            -- number of reader threads
  hl : Bool          -- cds_hlist (add_head / del only, `if (next)` guards) instead of cds_list
  bug : Bug := .none
  deriving Repr

inductive NSt | fresh | priv | live | dead
  deriving DecidableEq, Repr

def pubB : NSt → Bool
  | .live => true
  | .dead => true
  | _ => false

/-- updater program counter: which store of which primitive comes next -/
inductive UPc
  | idle
  | a0 (n : Nat) | a1 (n : Nat) | a2 (n : Nat) | a3 (n : Nat) | a4 (n : Nat)
  | e2 (n f : Nat) | e3 (n f : Nat) | e4 (n f : Nat)
  | t0 (n : Nat) | t1 (n : Nat) | t2 (n : Nat) | t3 (n : Nat) | t4 (n : Nat)
  | r0 (o n : Nat) | r1 (o n : Nat) | r2 (o n : Nat) | r3 (o n : Nat) | r4 (o n : Nat)
  | d1 (e : Nat) | d2 (e : Nat) | d3 (e : Nat)
  deriving DecidableEq, Repr

structure Seq where
  next  : Nat → Nat
  prev  : Nat → Nat
  data  : Nat → Bool          -- payload initialised
  st    : Nat → NSt           -- ghost life cycle
  bef   : Nat → Nat → Bool    -- ghost: history order (list order, removed nodes keep their place)
  hist  : List Nat            -- ghost: every node ever published
  pubS  : Nat → Nat           -- ghost: tick at which the node was published
  deadS : Nat → Nat           -- ghost: tick at which the node was unlinked
  tick  : Nat                 -- ghost: number of updater steps applied
  pc    : UPc

def Seq.init : Seq :=
  { next := fun _ => 0, prev := fun _ => 0, data := fun _ => false,
    st := fun a => if a = 0 then .live else .fresh, bef := fun _ _ => false, hist := [],
    pubS := fun _ => 0, deadS := fun _ => 0, tick := 0, pc := .idle }

inductive ULabel
  | add (n : Nat)          -- cds_list_add_rcu(n, head) / cds_hlist_add_head_rcu(n, head) is called
  | addTail (n : Nat)      -- cds_list_add_tail_rcu(n, head)
  | del (e : Nat)          -- cds_list_del_rcu(e) / cds_hlist_del_rcu(e)
  | repl (o n : Nat)       -- cds_list_replace_rcu(o, n)
  | st                     -- the next store of the primitive in progress
  deriving DecidableEq, Repr

/-- ghost: `n` becomes the first node -/
def pubHead (x : Seq) (n : Nat) : Seq :=
  { x with st := upd x.st n .live,
           bef := fun a b => if a = n then (pubB (x.st b) && decide (b ≠ 0)) else if b = n then decide (a = 0) else x.bef a b,
           hist := n :: x.hist, pubS := upd x.pubS n (x.tick + 1) }

/-- ghost: `n` becomes the last node -/
def pubTail (x : Seq) (n : Nat) : Seq :=
  { x with st := upd x.st n .live,
           bef := fun a b => if b = n then pubB (x.st a) else if a = n then false else x.bef a b,
           hist := n :: x.hist, pubS := upd x.pubS n (x.tick + 1) }

/-- ghost: `n` takes the place of `o` (immediately before the tombstone of `o`) -/
def pubRepl (x : Seq) (o n : Nat) : Seq :=
  { x with st := upd (upd x.st n .live) o .dead,
           bef := fun a b => if a = n then (decide (b = o) || x.bef o b) else if b = n then x.bef a o else x.bef a b,
           hist := n :: x.hist, pubS := upd x.pubS n (x.tick + 1), deadS := upd x.deadS o (x.tick + 1) }

/-- One step of the sequential updater machine; `none` = not enabled (API contract violated or
nothing in progress). -/
def ustep (c : Cfg) (x : Seq) : ULabel → Option Seq
  | .add n =>
    if x.pc = .idle ∧ n ≠ 0 ∧ x.st n = .fresh then
      some { x with st := upd x.st n .priv, pc := .a0 n, tick := x.tick + 1 }
    else none
  | .addTail n =>
    if x.pc = .idle ∧ c.hl = false ∧ n ≠ 0 ∧ x.st n = .fresh then
      some { x with st := upd x.st n .priv, pc := .t0 n, tick := x.tick + 1 }
    else none
  | .del e =>
    if x.pc = .idle ∧ e ≠ 0 ∧ x.st e = .live then
      some { x with pc := .d1 e, tick := x.tick + 1 }
    else none
  | .repl o n =>
    if x.pc = .idle ∧ c.hl = false ∧ o ≠ 0 ∧ n ≠ 0 ∧ x.st o = .live ∧ x.st n = .fresh then
      some { x with st := upd x.st n .priv, pc := .r0 o n, tick := x.tick + 1 }
    else none
  | .st =>
    match x.pc with
    | .idle => none
    -- cds_list_add_rcu / cds_hlist_add_head_rcu
    | .a0 n => some { x with data := upd x.data n true, pc := .a1 n, tick := x.tick + 1 }
    | .a1 n =>
      if c.bug = .pubEarly then    -- NEGATIVE variant: head->next = newp comes first
        some { pubHead x n with next := upd x.next 0 n, pc := .e2 n (x.next 0), tick := x.tick + 1 }
      else                         -- newp->next = head->next
        some { x with next := upd x.next n (x.next 0), pc := .a2 n, tick := x.tick + 1 }
    | .a2 n =>                     -- newp->prev = head
      some { x with prev := upd x.prev n 0, pc := .a3 n, tick := x.tick + 1 }
    | .a3 n =>                     -- head->next->prev = newp   (hlist: if (head->next))
      if c.hl = true ∧ x.next 0 = 0 then some { x with pc := .a4 n, tick := x.tick + 1 }
      else some { x with prev := upd x.prev (x.next 0) n, pc := .a4 n, tick := x.tick + 1 }
    | .a4 n =>                     -- rcu_assign_pointer(head->next, newp)
      some { pubHead x n with next := upd x.next 0 n, pc := .idle, tick := x.tick + 1 }
    | .e2 n f => some { x with prev := upd x.prev n 0, pc := .e3 n f, tick := x.tick + 1 }
    | .e3 n f =>
      if c.hl = true ∧ f = 0 then some { x with pc := .e4 n f, tick := x.tick + 1 }
      else some { x with prev := upd x.prev f n, pc := .e4 n f, tick := x.tick + 1 }
    | .e4 n f => some { x with next := upd x.next n f, pc := .idle, tick := x.tick + 1 }
    -- cds_list_add_tail_rcu
    | .t0 n => some { x with data := upd x.data n true, pc := .t1 n, tick := x.tick + 1 }
    | .t1 n =>                     -- newp->next = head
      some { x with next := upd x.next n 0, pc := .t2 n, tick := x.tick + 1 }
    | .t2 n =>                     -- newp->prev = head->prev
      some { x with prev := upd x.prev n (x.prev 0), pc := .t3 n, tick := x.tick + 1 }
    | .t3 n =>                     -- rcu_assign_pointer(head->prev->next, newp)
      some { pubTail x n with next := upd x.next (x.prev 0) n, pc := .t4 n, tick := x.tick + 1 }
    | .t4 n =>                     -- head->prev = newp
      some { x with prev := upd x.prev 0 n, pc := .idle, tick := x.tick + 1 }
    -- cds_list_replace_rcu
    | .r0 o n => some { x with data := upd x.data n true, pc := .r1 o n, tick := x.tick + 1 }
    | .r1 o n =>                   -- _new->next = old->next
      some { x with next := upd x.next n (x.next o), pc := .r2 o n, tick := x.tick + 1 }
    | .r2 o n =>                   -- _new->prev = old->prev
      some { x with prev := upd x.prev n (x.prev o), pc := .r3 o n, tick := x.tick + 1 }
    | .r3 o n =>                   -- rcu_assign_pointer(_new->prev->next, _new)
      some { pubRepl x o n with next := upd x.next (x.prev n) n, pc := .r4 o n, tick := x.tick + 1 }
    | .r4 _ n =>                   -- _new->next->prev = _new
      some { x with prev := upd x.prev (x.next n) n, pc := .idle, tick := x.tick + 1 }
    -- cds_list_del_rcu / cds_hlist_del_rcu
    | .d1 e =>                     -- elem->next->prev = elem->prev   (hlist: if (elem->next))
      if c.hl = true ∧ x.next e = 0 then some { x with pc := .d2 e, tick := x.tick + 1 }
      else some { x with prev := upd x.prev (x.next e) (x.prev e), pc := .d2 e, tick := x.tick + 1 }
    | .d2 e =>                     -- uatomic_store(&elem->prev->next, elem->next)
      some { x with next := upd x.next (x.prev e) (x.next e), st := upd x.st e .dead,
                    deadS := upd x.deadS e (x.tick + 1),
                    pc := if c.bug = .delPoison then .d3 e else .idle, tick := x.tick + 1 }
    | .d3 e =>                     -- NEGATIVE variant: elem->next = POISON (self)
      some { x with next := upd x.next e e, pc := .idle, tick := x.tick + 1 }

/-- memory locations -/
inductive Loc | next (a : Nat) | prev (a : Nat) | data (a : Nat)
  deriving DecidableEq, Repr

/-- the concrete store (location, value) that `ustep c x l` performs, computed from `x` -/
def storeOf (c : Cfg) (x : Seq) : ULabel → Option (Loc × Nat)
  | .st =>
    match x.pc with
    | .a0 n => some (.data n, 1)
    | .a1 n => if c.bug = .pubEarly then some (.next 0, n) else some (.next n, x.next 0)
    | .a2 n => some (.prev n, 0)
    | .a3 n => if c.hl = true ∧ x.next 0 = 0 then none else some (.prev (x.next 0), n)
    | .a4 n => some (.next 0, n)
    | .e2 n _ => some (.prev n, 0)
    | .e3 n f => if c.hl = true ∧ f = 0 then none else some (.prev f, n)
    | .e4 n f => some (.next n, f)
    | .t0 n => some (.data n, 1)
    | .t1 n => some (.next n, 0)
    | .t2 n => some (.prev n, x.prev 0)
    | .t3 n => some (.next (x.prev 0), n)
    | .t4 n => some (.prev 0, n)
    | .r0 _ n => some (.data n, 1)
    | .r1 o n => some (.next n, x.next o)
    | .r2 o n => some (.prev n, x.prev o)
    | .r3 _ n => some (.next (x.prev n), n)
    | .r4 _ n => some (.prev (x.next n), n)
    | .d1 e => if c.hl = true ∧ x.next e = 0 then none else some (.prev (x.next e), x.prev e)
    | .d2 e => some (.next (x.prev e), x.next e)
    | .d3 e => some (.next e, e)
    | .idle => none
  | _ => none

/-- a store-buffer entry: the label (ghost: which step issued it) and the concrete store -/
structure Entry where
  lab : ULabel
  store : Option (Loc × Nat)
  deriving DecidableEq, Repr

structure State where
  u : Seq                       -- updater's view (memory + own store buffer)
  m : Seq                       -- memory
  buf : List Entry              -- updater's FIFO store buffer, oldest first
  clock : Nat                   -- ghost: one tick per step
  tickT : Nat → Nat             -- ghost: time at which memory reached updater tick k
  cs : Nat → Option Nat         -- ghost: begin time of reader i's open section
  pos : Nat → Option Nat        -- reader i's traversal position (`some 0` = at the head)
  t0 : Nat → Nat                -- ghost: memory tick when the traversal began
  t1 : Nat → Nat                -- ghost: memory tick when the traversal completed
  fin : Nat → Bool              -- ghost: traversal ran to completion (reached the head again)
  vis : Nat → List Nat          -- ghost: nodes visited by the current traversal, in order
  sawUninit : Nat → Bool        -- ghost: read a payload that was not initialised
  touchedFreed : Nat → Bool     -- ghost: dereferenced a freed node
  freed : Nat → Bool
  gpCur : Option Nat
  gpDone : Nat

def init : State :=
  { u := Seq.init, m := Seq.init, buf := [], clock := 1, tickT := fun _ => 0, cs := fun _ => none,
    pos := fun _ => none, t0 := fun _ => 0, t1 := fun _ => 0, fin := fun _ => false, vis := fun _ => [],
    sawUninit := fun _ => false, touchedFreed := fun _ => false, freed := fun _ => false,
    gpCur := none, gpDone := 0 }

inductive Label
  | u (l : ULabel)          -- updater issues its next step (store goes into the buffer)
  | flush                   -- oldest buffered store reaches memory
  | rLock (i : Nat) | rUnlock (i : Nat)
  | rStart (i : Nat)        -- traversal begins (pos = head)
  | rNext (i : Nat)         -- pos = rcu_dereference(pos->next)
  | rRead (i : Nat)         -- loop body: read the payload of the current node
  | gpStart | gpEnd
  | free (x : Nat)
  deriving DecidableEq, Repr

def step (c : Cfg) (s : State) : Label → Option State
  | .u l =>
    match ustep c s.u l with
    | some u' => some { s with u := u', buf := s.buf ++ [⟨l, storeOf c s.u l⟩], clock := s.clock + 1 }
    | none => none
  | .flush =>
    match s.buf with
    | e :: rest =>
      match ustep c s.m e.lab with
      | some m' => some { s with m := m', buf := rest, tickT := upd s.tickT m'.tick s.clock, clock := s.clock + 1 }
      | none => none
    | [] => none
  | .rLock i =>
    if i < c.n ∧ s.cs i = none then some { s with cs := upd s.cs i (some s.clock), clock := s.clock + 1 } else none
  | .rUnlock i =>
    match s.cs i with
    | some _ => some { s with cs := upd s.cs i none, pos := upd s.pos i none, clock := s.clock + 1 }
    | none => none
  | .rStart i =>
    if s.cs i ≠ none ∧ s.pos i = none then
      some { s with pos := upd s.pos i (some 0), t0 := upd s.t0 i s.m.tick, vis := upd s.vis i [],
                    fin := upd s.fin i false, clock := s.clock + 1 }
    else none
  | .rNext i =>
    match s.pos i with
    | some p =>
      let q := s.m.next p
      let s1 := { s with touchedFreed := upd s.touchedFreed i (s.touchedFreed i || s.freed p), clock := s.clock + 1 }
      if q = 0 then some { s1 with pos := upd s.pos i none, fin := upd s.fin i true, t1 := upd s.t1 i s.m.tick }
      else some { s1 with pos := upd s.pos i (some q), vis := upd s.vis i (s.vis i ++ [q]) }
    | none => none
  | .rRead i =>
    match s.pos i with
    | some p =>
      if p = 0 then none else
      some { s with sawUninit := upd s.sawUninit i (s.sawUninit i || !s.m.data p),
                    touchedFreed := upd s.touchedFreed i (s.touchedFreed i || s.freed p), clock := s.clock + 1 }
    | none => none
  | .gpStart =>
    if s.u.pc = .idle ∧ s.buf = [] ∧ s.gpCur = none then
      some { s with gpCur := some s.clock, clock := s.clock + 1 }
    else none
  | .gpEnd =>
    match s.gpCur with
    | some a =>
      -- GpSpec: every section that began before the grace period started has ended
      if (∀ i, i < c.n → ∀ b, s.cs i = some b → a ≤ b) then
        some { s with gpCur := none, gpDone := max s.gpDone a, clock := s.clock + 1 }
      else none
    | none => none
  | .free x =>
    if s.m.st x = .dead ∧ s.freed x = false ∧ s.tickT (s.m.deadS x) < s.gpDone then
      some { s with freed := upd s.freed x true, clock := s.clock + 1 }
    else none

/-- executable replay of a label list (non-vacuity examples, necessity witnesses, the driver) -/
def run (c : Cfg) : State → List Label → Option State
  | s, [] => some s
  | s, l :: ls => match step c s l with
    | none => none
    | some s' => run c s' ls

end UrcuVerif.RcuList
