import UrcuVerif.Machine.Upd
/-!
# C14 — grace-period polling (`src/urcu-poll-impl.h`)

Executable model.  Every API function and the worker callback body run under
`poll_worker_gp_state.lock`, so each is one atomic step; the interleaving quantifier of the
property is the set of all operation sequences.  `call_rcu` is abstract (C03's guarantee): the
queued worker callback may be invoked only after a grace period that *started after* it was
queued has completed; a grace period may complete only when every read-side section that
began before it started has ended (`Spec.GpSpec`).
Ghost state: logical clock (one tick per step), issued handles with their issue time, the open
section of every reader with its begin time.
-/
namespace UrcuVerif.Poll

structure State where
  cur     : Nat            -- current_state.grace_period_id
  latest  : Nat            -- latest_target.grace_period_id
  active  : Bool
  pending : Bool           -- worker callback queued with call_rcu and not yet invoked
  enq     : Nat            -- ghost: time the pending worker callback was queued
  clock   : Nat            -- ghost
  gpCur   : Option Nat     -- ghost: start time of the grace period in flight
  gpDone  : Nat            -- ghost: latest start time of a completed grace period (0: none)
  cs      : Nat → Option Nat   -- ghost: begin time of reader i's open section
  handles : List (Nat × Nat)   -- ghost: (grace_period_id, issue time)

def init : State :=
  { cur := 0, latest := 0, active := false, pending := false, enq := 0, clock := 1,
    gpCur := none, gpDone := 0, cs := fun _ => none, handles := [] }

inductive Op
  | startPoll            -- start_poll_synchronize_rcu()
  | poll (g : Nat)       -- poll_state_synchronize_rcu(g)
  | worker               -- call_rcu helper invokes urcu_poll_worker_cb
  | gpStart | gpEnd      -- environment: the helper's synchronize_rcu()
  | rlock (i : Nat) | runlock (i : Nat)
  deriving Repr, DecidableEq

inductive Out
  | handle (g : Nat) (queued : Bool)   -- returned id, whether call_rcu was invoked
  | reached (b : Bool)
  | requeued (b : Bool)
  | unit
  deriving Repr, DecidableEq

/-- One atomic step for a system with `n` reader threads (`n` arbitrary);
`none` = the operation is not enabled in this state. -/
def step (n : Nat) (s : State) : Op → Option (State × Out)
  | .startPoll =>
    let g := if s.active then s.cur + 1 else s.cur
    let s' := { s with latest := g, active := true,
                       pending := true,
                       enq := if s.active then s.enq else s.clock,
                       handles := (g, s.clock) :: s.handles, clock := s.clock + 1 }
    -- when the worker was inactive the callback is queued now; it must not already be queued
    if !s.active && s.pending then none else some (s', .handle g (!s.active))
  | .poll g => some ({ s with clock := s.clock + 1 }, .reached (decide (g < s.cur)))
  | .worker =>
    if s.pending && decide (s.enq ≤ s.gpDone) then
      let c := s.cur + 1
      if c ≤ s.latest then
        some ({ s with cur := c, pending := true, enq := s.clock, clock := s.clock + 1 }, .requeued true)
      else
        some ({ s with cur := c, pending := false, active := false, clock := s.clock + 1 }, .requeued false)
    else none
  | .gpStart =>
    match s.gpCur with
    | none => some ({ s with gpCur := some s.clock, clock := s.clock + 1 }, .unit)
    | some _ => none
  | .gpEnd =>
    match s.gpCur with
    | some a =>
      -- GpSpec: every section that began before the grace period started has ended
      if (∀ i, i < n → ∀ b, s.cs i = some b → a ≤ b) then
        some ({ s with gpCur := none, gpDone := max s.gpDone a, clock := s.clock + 1 }, .unit)
      else none
    | none => none
  | .rlock i =>
    if n ≤ i then none else
    match s.cs i with
    | none => some ({ s with cs := upd s.cs i (some s.clock), clock := s.clock + 1 }, .unit)
    | some _ => none
  | .runlock i =>
    match s.cs i with
    | some _ => some ({ s with cs := upd s.cs i none, clock := s.clock + 1 }, .unit)
    | none => none

end UrcuVerif.Poll
