import UrcuVerif.Poll.Model
/-! Inductive invariant of the polling model and its consequences. -/
namespace UrcuVerif.Poll

inductive Reach (n : Nat) : State → Prop
  | init : Reach n init
  | step {s s' op out} : Reach n s → step n s op = some (s', out) → Reach n s'

structure Inv (n : Nat) (s : State) : Prop where
  act_pend   : s.active = s.pending
  clock_pos  : 0 < s.clock
  enq_lt     : s.pending = true → s.enq < s.clock
  gpcur_lt   : ∀ a, s.gpCur = some a → a < s.clock
  gpdone_lt  : s.gpDone < s.clock
  cs_lt      : ∀ i b, s.cs i = some b → b < s.clock
  cs_bound   : ∀ i b, s.cs i = some b → i < n
  /-- every open section began at or after the start of every completed grace period -/
  cs_after   : ∀ i b, s.cs i = some b → s.gpDone ≤ b
  latest_le  : s.latest ≤ s.cur + 1
  act_latest : s.active = true → s.cur ≤ s.latest
  h_le       : ∀ g t, (g, t) ∈ s.handles → g ≤ s.cur + 1 ∧ t < s.clock
  h_next     : ∀ g t, (g, t) ∈ s.handles → g = s.cur + 1 → s.active = true ∧ s.cur + 1 ≤ s.latest
  h_cur      : ∀ g t, (g, t) ∈ s.handles → g = s.cur → s.pending = true ∧ t ≤ s.enq
  h_done     : ∀ g t, (g, t) ∈ s.handles → g < s.cur → t ≤ s.gpDone

theorem inv_init (n) : Inv n init := by
  constructor <;> simp [init]

theorem inv_step (n) {s s' : State} {op : Op} {out : Out} (h : Inv n s)
    (st : step n s op = some (s', out)) : Inv n s' := by
  obtain ⟨h1, h2, h3, h4, h5, h6, h7, h8, h9, h10, h11, h12, h13, h14⟩ := h
  cases op with
  | startPoll =>
    simp only [step] at st
    split at st
    · simp at st
    · simp only [Option.some.injEq, Prod.mk.injEq] at st
      obtain ⟨rfl, -⟩ := st
      constructor <;> simp only [List.mem_cons, Prod.mk.injEq] <;> grind
  | poll g =>
    simp only [step, Option.some.injEq, Prod.mk.injEq] at st
    obtain ⟨rfl, -⟩ := st
    constructor <;> grind
  | worker =>
    simp only [step] at st
    split at st
    · split at st
      · simp only [Option.some.injEq, Prod.mk.injEq] at st
        obtain ⟨rfl, -⟩ := st
        constructor <;> grind
      · simp only [Option.some.injEq, Prod.mk.injEq] at st
        obtain ⟨rfl, -⟩ := st
        constructor <;> grind
    · simp at st
  | gpStart =>
    simp only [step] at st
    split at st
    · simp only [Option.some.injEq, Prod.mk.injEq] at st
      obtain ⟨rfl, -⟩ := st
      constructor <;> grind
    · simp at st
  | gpEnd =>
    simp only [step] at st
    split at st
    · split at st
      · simp only [Option.some.injEq, Prod.mk.injEq] at st
        obtain ⟨rfl, -⟩ := st
        constructor <;> grind
      · simp at st
    · simp at st
  | rlock i =>
    simp only [step] at st
    split at st
    · simp at st
    · split at st
      · simp only [Option.some.injEq, Prod.mk.injEq] at st
        obtain ⟨rfl, -⟩ := st
        constructor <;> simp only [upd] <;> grind
      · simp at st
  | runlock i =>
    simp only [step] at st
    split at st
    · simp only [Option.some.injEq, Prod.mk.injEq] at st
      obtain ⟨rfl, -⟩ := st
      constructor <;> simp only [upd] <;> grind
    · simp at st

theorem inv_reach (n) {s} (h : Reach n s) : Inv n s := by
  induction h with
  | init => exact inv_init n
  | step _ st ih => exact inv_step n ih st

end UrcuVerif.Poll
